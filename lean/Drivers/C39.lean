import Gms.Driver.Proto
import Gms.Model.Priv
import Gms.Driver.AclParse
open Gms.Proto Gms.Priv Gms.AclParse

/-! Line-protocol driver for C39: one history per line, see harness/cmd/c39/main.go. -/

def handle (p : List Sexp) : String :=
  match p with
  | [.list (.atom "hist" :: steps)] =>
    match steps.mapM parseStep with
    | none => answer "bad-case"
    | some steps =>
      let impl := " ".intercalate (runHist implPS false (initSt implPS) steps)
      let spec := " ".intercalate (runHist specPS true (initSt specPS) steps)
      if impl = spec then answer impl
      else
        -- which of the two known defects explains the difference?
        let onlyRevoke := " ".intercalate (runHist implPS true (initSt implPS) steps)   -- atomic, but RemoveDatabase as implemented
        let onlyPartial := " ".intercalate (runHist specPS false (initSt specPS) steps) -- exact sets, but no atomicity
        let inRevoke := histRegion (initSt specPS) steps
        let inFailed := histFailed (initSt specPS) steps
        let region :=
          if inRevoke && impl = onlyRevoke then "db_revoke_drops_lower_grants"
          else if inFailed && impl = onlyPartial then "failed_statement_partial_effect"
          else if inRevoke && inFailed then "db_revoke_drops_lower_grants"
          else if inRevoke then "db_revoke_drops_lower_grants"
          else if inFailed then "failed_statement_partial_effect"
          else "-"
        answer impl spec region
  | _ => answer "bad-case"

def main : IO Unit := runPure handle
