import Gms.Driver.Proto
import Gms.Driver.MemIndexProto
open Gms.Proto

/-- C16: per step of a history of editor-level statements, TRUNCATE, CREATE INDEX and DROP INDEX:
rows and index storage contents afterwards — Impl model (MemIndex) vs Spec (every index holds
exactly one storage row per stored row, pointing at it). -/
def main : IO Unit := runPure Gms.MemIndexProto.handle16
