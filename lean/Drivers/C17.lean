import Gms.Driver.Proto
import Gms.Model.Txn
open Gms.Proto Gms.Txn

/-!
Case:   (hist <op>*)
  op ::= (r <s> <t>) | (i <s> <t> <n>) | (d <s> <t> <n>) | (b <s>) | (bro <s>) | (c <s>) | (rb <s>)
       | (ac <s> <0|1>) | (ddl <s>)
Observation per op:  <obs>|<committed t0>|<committed t1>     joined by ';'
  obs ::= rows:<sorted keys> | ok:<affected> | err | crash | done
-/

def parseOp : Sexp → Option Op
  | .list [.atom "r", s, t] => do pure ⟨← s.nat?, .read (← t.nat?)⟩
  | .list [.atom "i", s, t, n] => do pure ⟨← s.nat?, .write (← t.nat?) (.ins (← n.nat?))⟩
  | .list [.atom "d", s, t, n] => do pure ⟨← s.nat?, .write (← t.nat?) (.del (← n.nat?))⟩
  | .list [.atom "b", s] => do pure ⟨← s.nat?, .begin false⟩
  | .list [.atom "bro", s] => do pure ⟨← s.nat?, .begin true⟩
  | .list [.atom "c", s] => do pure ⟨← s.nat?, .commit⟩
  | .list [.atom "rb", s] => do pure ⟨← s.nat?, .rollback⟩
  | .list [.atom "ac", s, b] => do pure ⟨← s.nat?, .setAC ((← b.nat?) == 1)⟩
  | .list [.atom "ddl", s] => do pure ⟨← s.nat?, .ddl⟩
  | _ => none

def insSorted (n : Nat) : List Nat → List Nat
  | [] => [n]
  | x :: xs => if n ≤ x then n :: x :: xs else x :: insSorted n xs

def sortNat (l : List Nat) : List Nat := l.foldl (fun acc n => insSorted n acc) []

def fmtTV (v : TV) : String := ",".intercalate ((sortNat v).map toString)

def fmtObs : Obs → String
  | .rows v => "rows:" ++ fmtTV v
  | .ok a => s!"ok:{a}"
  | .err => "err"
  | .crash => "crash"
  | .done => "done"

def fmtStep (st : St) (o : Obs) : String := fmtObs o ++ "|" ++ fmtTV (st.base 0) ++ "|" ++ fmtTV (st.base 1)

structure DAcc where
  impl : St
  spec : St
  implObs : List String
  specObs : List String
  region : Option String     -- region attributed to the first divergence
  diverged : Bool
  firstFlag : Option Region

/-- Classification of a diverging history. The Impl model follows the real code through every listed
defect (also through the panic in a READ ONLY transaction: the state after it is fully determined —
the table's snapshot is registered, nothing else), so the correspondence is exact on every statement
of every history and no history is cut short. The region printed for a case whose Impl and Spec
observations differ is the *first region flagged in the history* (by `run_eq_spec_partial` there is
no divergence without a flag; every later difference may be a consequence of that first one). A
history in which several listed regions are flagged is additionally attributed to the others by the
harness' model-free oracle, which tags each failed check with the region decided on the statement
(`readonly_txn_write_panics` on the panicking write, `commit_overwrites_read_table` on the commit
that erases a row of a table the session touched but did not write, …). -/
def stepAcc (a : DAcc) (o : Op) : DAcc :=
  let (i', io, fl) := step a.impl o
  let (s', so, _) := specStep a.spec o
  let istr := fmtStep i' io
  let sstr := fmtStep s' so
  let firstFlag := match a.firstFlag with
    | some r => some r
    | none => fl.head?
  let (diverged, region) :=
    if a.diverged then (true, a.region)
    else if istr != sstr then (true, firstFlag.map Region.name) else (false, none)
  { impl := i', spec := s', implObs := istr :: a.implObs, specObs := sstr :: a.specObs,
    region := region, diverged := diverged, firstFlag := firstFlag }

def handle (p : List Sexp) : String :=
  match p with
  | [Sexp.list (Sexp.atom "hist" :: ops)] =>
    match ops.mapM parseOp with
    | some ops =>
      let a := ops.foldl stepAcc { impl := St.init, spec := St.init, implObs := [], specObs := [],
                                   region := none, diverged := false, firstFlag := none }
      let iobs := ";".intercalate a.implObs.reverse
      if a.diverged then
        answer iobs (";".intercalate a.specObs.reverse) (a.region.getD "-")
      else answer iobs
    | none => answer "bad-case"
  | _ => answer "bad-case"

def main : IO Unit := runPure handle
