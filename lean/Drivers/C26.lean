import Gms.Driver.Proto
import Gms.Model.NumConv
import Gms.Model.TimeCmp
open Gms.Proto Gms.Num Gms.Conv

def val? : Sexp → Option Val
  | .atom "null" => some .null
  | .list [.atom "i", v] => v.int?.map .i
  | .list [.atom "u", v] => v.int?.map .u
  | .list [.atom "d", c, s] =>
    match c.int?, s.nat? with
    | some c, some s => some (.d c s)
    | _, _ => none
  | .list [.atom "s", b] => b.bytes?.map .s
  | _ => none

def ty? : Sexp → Option Ty
  | .atom "year" => some .year
  | .list [.atom "int", .atom t] => (ITy.ofName? t).map .int
  | .list [.atom "dec", p, s, c] =>
    match p.nat?, s.nat?, c.nat? with
    | some p, some s, some c => some (.dec p s (c != 0))
    | _, _, _ => none
  | .list [.atom "bit", n] => n.nat?.map .bit
  | _ => none

def Gms.Conv.Cmp.render : Cmp → String
  | .lt => "lt" | .eq => "eq" | .gt => "gt" | .err => "err"

def cmp? : String → Option Cmp
  | "lt" => some .lt | "eq" => some .eq | "gt" => some .gt | "err" => some .err | "crash" => some .err
  | _ => none

def cmpCase (t : Ty) (a b : Val) : String :=
  let impl := implCompare t a b
  match specCompare t a b with
  | none => answer impl.render "?"
  | some sp =>
    if impl = sp then answer impl.render
    else
      let region :=
        if null_sorts_last a b then "null_sorts_last"
        else if unsigned_compare_negative_operand t a b then "unsigned_compare_negative_operand"
        else if operand_out_of_type_range t a b then "operand_out_of_type_range"
        else if decimal_rounded_by_convert t a b then "decimal_rounded_by_convert"
        else "-"
      answer impl.render sp.render region

/-! stream T: temporal types (Gms/Model/TimeCmp.lean) -/

def tty? : Sexp → Option Gms.TimeCmp.TTy
  | .atom "date" => some .date
  | .list [.atom "datetime", p] => p.nat?.map .datetime
  | .list [.atom "timestamp", p] => p.nat?.map .timestamp
  | _ => none

def tval? : Sexp → Option Gms.TimeCmp.TVal
  | .atom "null" => some .null
  | .list [.atom "t", ns, _off] => ns.int?.map .t
  | .list (.atom "c" :: y :: mo :: d :: h :: mi :: s :: ns :: _) =>
    match y.int?, mo.int?, d.int?, h.int?, mi.int?, s.int?, ns.int? with
    | some y, some mo, some d, some h, some mi, some s, some ns => some (.c ⟨y, mo, d, h, mi, s, ns⟩)
    | _, _, _, _, _, _, _ => none
  | .list [.atom "zero", _k] => some .zero
  | .list [.atom "i", n] => n.int?.map .i
  | .list [.atom "bad", _s] => some .bad
  | _ => none

def tcmpCase (t : Gms.TimeCmp.TTy) (a b : Gms.TimeCmp.TVal) : String :=
  let impl := Gms.TimeCmp.implCompare t a b
  match Gms.TimeCmp.specCompare t a b with
  | none => answer impl.render "?"
  | some sp =>
    if impl = sp then answer impl.render
    else
      let region :=
        if Gms.TimeCmp.null_sorts_last a b then "null_sorts_last"
        else if Gms.TimeCmp.time_operand_not_rounded t a b then "time_operand_not_rounded"
        else "-"
      answer impl.render sp.render region

def rank? : Sexp → Option Int
  | .atom s => s.toInt?
  | _ => none

def lawsCase (nulls : String) (rs : List Cmp) (echo : String) (ranks : List Sexp) : String :=
  match rs, nulls.toList with
  | [ab, ba, bc, cb, ac, ca, aa, bb, cc], ['n', na, nb, nc] =>
    let t : Tri := ⟨ab, ba, bc, cb, ac, ca, aa, bb, cc⟩
    let refOk := match ranks with
      | [ra, rb, rc] => Gms.TimeCmp.refOrder t (rank? ra) (rank? rb) (rank? rc)
      | _ => true
    let bad := (if t.refl then [] else ["refl"]) ++ (if t.antisymm then [] else ["antisymm"]) ++
      (if t.trans then [] else ["trans"]) ++ (if refOk then [] else ["ref-order"])
    if !bad.isEmpty then answer echo ("violates:" ++ ",".intercalate bad)
    else if !t.nullFirst (na == '1') (nb == '1') (nc == '1') then answer echo "violates:null-first" "null_sorts_last"
    else answer echo
  | _, _ => answer "bad-case"

def handle (p : List Sexp) : String :=
  match p with
  | [.list [.atom "cmp", t, a, b]] =>
    match ty? t, val? a, val? b with
    | some t, some a, some b => cmpCase t a b
    | _, _, _ => answer "bad-case"
  | [.list [.atom "tcmp", t, a, b]] =>
    match tty? t, tval? a, tval? b with
    | some t, some a, some b => tcmpCase t a b
    | _, _, _ => answer "bad-case"
  | [.list (.atom "laws" :: _name :: .atom nulls :: rest)] =>
    let rsAtoms := rest.take 9
    match rsAtoms.mapM (fun s => s.str? >>= cmp?) with
    | some rs =>
      let ranks := match rest.drop 10 with
        | [.list (.atom "ranks" :: rk)] => rk
        | _ => []
      lawsCase nulls rs (" ".intercalate (rsAtoms.filterMap Sexp.str?)) ranks
    | none => answer "bad-case"
  | _ => answer "bad-case"

def main : IO Unit := runPure handle
