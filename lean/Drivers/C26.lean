import Gms.Driver.Proto
import Gms.Model.NumConv
open Gms.Proto Gms.Num Gms.Conv

def val? : Sexp → Option Val
  | .atom "null" => some .null
  | .list [.atom "i", v] => v.int?.map .i
  | .list [.atom "u", v] => v.int?.map .u
  | .list [.atom "d", c, s] =>
    match c.int?, s.nat? with
    | some c, some s => some (.d c s)
    | _, _ => none
  | .list [.atom "s", b] => b.bytes?.map .s
  | _ => none

def ty? : Sexp → Option Ty
  | .atom "year" => some .year
  | .list [.atom "int", .atom t] => (ITy.ofName? t).map .int
  | .list [.atom "dec", p, s, c] =>
    match p.nat?, s.nat?, c.nat? with
    | some p, some s, some c => some (.dec p s (c != 0))
    | _, _, _ => none
  | .list [.atom "bit", n] => n.nat?.map .bit
  | _ => none

def Gms.Conv.Cmp.render : Cmp → String
  | .lt => "lt" | .eq => "eq" | .gt => "gt" | .err => "err"

def cmp? : String → Option Cmp
  | "lt" => some .lt | "eq" => some .eq | "gt" => some .gt | "err" => some .err | "crash" => some .err
  | _ => none

def cmpCase (t : Ty) (a b : Val) : String :=
  let impl := implCompare t a b
  match specCompare t a b with
  | none => answer impl.render "?"
  | some sp =>
    if impl = sp then answer impl.render
    else
      let region :=
        if null_sorts_last a b then "null_sorts_last"
        else if unsigned_compare_negative_operand t a b then "unsigned_compare_negative_operand"
        else if operand_out_of_type_range t a b then "operand_out_of_type_range"
        else if decimal_rounded_by_convert t a b then "decimal_rounded_by_convert"
        else "-"
      answer impl.render sp.render region

def lawsCase (nulls : String) (rs : List Cmp) (echo : String) : String :=
  match rs, nulls.toList with
  | [ab, ba, bc, cb, ac, ca, aa, bb, cc], ['n', na, nb, nc] =>
    let t : Tri := ⟨ab, ba, bc, cb, ac, ca, aa, bb, cc⟩
    let bad := (if t.refl then [] else ["refl"]) ++ (if t.antisymm then [] else ["antisymm"]) ++
      (if t.trans then [] else ["trans"])
    if !bad.isEmpty then answer echo ("violates:" ++ ",".intercalate bad)
    else if !t.nullFirst (na == '1') (nb == '1') (nc == '1') then answer echo "violates:null-first" "null_sorts_last"
    else answer echo
  | _, _ => answer "bad-case"

def handle (p : List Sexp) : String :=
  match p with
  | [.list [.atom "cmp", t, a, b]] =>
    match ty? t, val? a, val? b with
    | some t, some a, some b => cmpCase t a b
    | _, _, _ => answer "bad-case"
  | [.list (.atom "laws" :: _name :: .atom nulls :: rest)] =>
    let rsAtoms := rest.take 9
    match rsAtoms.mapM (fun s => s.str? >>= cmp?) with
    | some rs => lawsCase nulls rs (" ".intercalate (rsAtoms.filterMap Sexp.str?))
    | none => answer "bad-case"
  | _ => answer "bad-case"

def main : IO Unit := runPure handle
