/-
C04 driver.

* `(cmp (dirs) (keys) rowA rowB)` — Impl `cmpRowsImpl` vs Spec `keysCmp` on the key tuples.
* `(sort (dirs) (keys) (rows))` — Impl `sortL2R` (sort.Stable) vs Spec `orderRows`.
* `(topn n (dirs) (keys) (rows))` — Impl `topN` (GetTopNRows) vs Spec `(orderRows …).take n`.
* `(top1 n (dirs) (keys) (rows))` — Impl `top1` (topRowIter) vs Spec `(orderRows …).take 1`.
  (For sort / topn / top1 the Spec column is `?` when two rows tie under the keys: the property
  admits any order inside a tie group; the Impl-model column still pins the engine's stable choice.)
* `(c04 (mode exact|ties|keys) (keycols i…) (db …) (q <query>) …)` — engine level. Spec: the
  reference semantics `Gms.Rel.eval`. Impl model: for `LIMIT n OFFSET m` over `ORDER BY` the plan
  the engine builds (`topNPlan`: Offset over TopN(n+m), LIMIT-1 scan), for a bare `ORDER BY` the
  left-to-right stable sort — over the reference evaluation of the input. Observation modes:
  `exact` = the row sequence; `ties` = the sequence with every maximal run of equal keys sorted by
  its rendering; `keys` = the sequence of key tuples only.
-/
import Gms.Driver.SqlProto
import Gms.Model.Sort
open Gms.Proto Gms.Sql Gms.Rel Gms.SqlProto Gms.Sort

def dirsOf (s : Sexp) : List Bool := s.items.map (fun d => d == Sexp.atom "d")
def natsOf (s : Sexp) : List Nat := s.items.filterMap Sexp.nat?
def keyOf (keys : List Nat) (r : Row) : Row := keys.map (fun i => r.getD i .null)

def ordStr : Ordering → String
  | .lt => "lt" | .eq => "eq" | .gt => "gt"

/-- Sort every maximal run of rows with equal key cells by its rendering. -/
partial def tieCanon (keys : List Nat) (rows : List Row) : List String :=
  match rows with
  | [] => []
  | r :: rest =>
    let k := keyOf keys r
    let grp := r :: rest.takeWhile (fun x => keyOf keys x == k)
    let rest' := rest.dropWhile (fun x => keyOf keys x == k)
    sortStrings (grp.map showRow) ++ tieCanon keys rest'

def render (mode : String) (keys : List Nat) (rows : List Row) : String :=
  if mode == "exact" then showRows true rows
  else if mode == "keys" then "keys " ++ " ".intercalate (rows.map (fun r => showRow (keyOf keys r)))
  else "rows " ++ " ".intercalate (tieCanon keys rows)

/-- The engine-side Impl model of the two top-level shapes. -/
def implRows (db : Db) : Query → List Row
  | .limit n m (.orderBy ks ds q) =>
    topNPlan (ltImpl ds (fun r => evalEs db [r] ks)) n m (eval db q)
  | .orderBy ks ds q => sortL2R (ltImpl ds (fun r => evalEs db [r] ks)) (eval db q)
  | q => eval db q

def hexText (s : Sexp) : String :=
  match s.bytes? with
  | some bs => String.fromUTF8! (ByteArray.mk bs.toArray)
  | none => ""

/-- Region of the known finding: the ORDER is provided by a merge join over reverse index scans
(plan skeleton contains `MergeJoin` and `reverse`) and the data holds a NULL. Decided on the case. -/
def isSub (needle hay : String) : Bool := (hay.splitOn needle).length > 1

def reverseMergeRegion (db : Db) (shape : String) : Bool :=
  isSub "MergeJoin" shape && isSub "reverse" shape && db.any fun t => t.rows.any fun r => r.any Value.isNull

def handle (p : List Sexp) : String :=
  match p with
  | [.list [.atom "cmp", ds, ks, a, b]] =>
    match row? a, row? b with
    | some a, some b =>
      let keys := natsOf ks
      answer (ordStr (cmpRowsImpl (dirsOf ds) (keyOf keys a) (keyOf keys b)))
        (ordStr (keysCmp (dirsOf ds) (keyOf keys a) (keyOf keys b)))
    | _, _ => answer "bad-case"
  | [.list [.atom "sort", ds, ks, .list rows]] =>
    match rows.mapM row? with
    | some rows =>
      let keys := natsOf ks
      -- with ties under the keys the property admits several orderings: the Spec column is `?`
      let tied := decide (¬ (rows.map (keyOf keys)).Nodup)
      answer (showRows true (sortL2R (ltImpl (dirsOf ds) (keyOf keys)) rows))
        (if tied then "?" else showRows true (orderRows (dirsOf ds) (keyOf keys) rows))
    | none => answer "bad-case"
  | [.list [.atom kind, n, ds, ks, .list rows]] =>
    match n.nat?, rows.mapM row? with
    | some n, some rows =>
      let keys := natsOf ks
      let lt := ltImpl (dirsOf ds) (keyOf keys)
      let tied := decide (¬ (rows.map (keyOf keys)).Nodup)
      let spec := if tied then "?" else showRows true ((orderRows (dirsOf ds) (keyOf keys) rows).take n)
      if kind == "topn" then answer (showRows true (topN lt n rows)) spec
      else if kind == "top1" then answer (showRows true (top1 lt rows).toList) spec
      else answer "bad-case"
    | _, _ => answer "bad-case"
  | [.list (.atom "c04" :: items)] =>
    let mode := ((fieldArgs items "mode").head?.bind Sexp.str?).getD "exact"
    let keys := (fieldArgs items "keycols").filterMap Sexp.nat?
    match (field items "db").bind db?, (fieldArgs items "q").head?.bind query? with
    | some (tys, db), some q =>
      if check tys db q then
        let shape := (fieldArgs items "plan").head?.map hexText |>.getD ""
        if reverseMergeRegion db shape then
          -- the engine's output on this region is not modelled (mergeJoinIter.peekMatch): it travels
          -- in the payload and is echoed as the Impl-model observation
          answer ((fieldArgs items "obs").head?.map hexText |>.getD "") (render mode keys (eval db q))
            "reverse_merge_join_null_peek"
        else answer (render mode keys (implRows db q)) (render mode keys (eval db q))
      else answer "ill-typed"
    | _, _ => answer "bad-case"
  | _ => answer "bad-case"

def main : IO Unit := runPure handle
