import Gms.Driver.Proto
import Gms.Model.Range
import Gms.Model.RangeIO
import Gms.Model.IndexBuilder
import Gms.Model.RangeTree
import Gms.Model.IndexScan
open Gms.Proto Gms.Range Gms.RangeIO Gms.IndexBuilder Gms.IndexScan

def parseLit : Sexp → Option Lit
  | .list [.atom "i", v] => v.int?.map Lit.int
  | .list [.atom "d", c, s] => do pure (Lit.dec (← c.int?) (← s.nat?))
  | _ => none

def parseLits : Sexp → Option (List Lit)
  | .list ls => ls.mapM parseLit
  | _ => none

def parseOp : Sexp → Option (Nat × Pred)
  | .list [.atom "eq", i, ks] => do pure (← i.nat?, Pred.eq (← parseLits ks))
  | .list [.atom "in", i, ks] => do pure (← i.nat?, Pred.eq (← parseLits ks))
  | .list [.atom "neq", i, k] => do pure (← i.nat?, Pred.neq (← parseLit k))
  | .list [.atom "notin", i, ks] => do pure (← i.nat?, Pred.notIn (← parseLits ks))
  | .list [.atom "gt", i, k] => do pure (← i.nat?, Pred.gt (← parseLit k))
  | .list [.atom "ge", i, k] => do pure (← i.nat?, Pred.ge (← parseLit k))
  | .list [.atom "lt", i, k] => do pure (← i.nat?, Pred.lt (← parseLit k))
  | .list [.atom "le", i, k] => do pure (← i.nat?, Pred.le (← parseLit k))
  | .list [.atom "isnull", i] => do pure (← i.nat?, Pred.isNull)
  | .list [.atom "isnotnull", i] => do pure (← i.nat?, Pred.isNotNull)
  | _ => none

def predLits : Pred → List Lit
  | .eq ks => ks | .notIn ks => ks
  | .neq k => [k] | .gt k => [k] | .ge k => [k] | .lt k => [k] | .le k => [k]
  | _ => []

def clip (t : IntType) (x : Int) : Int := if x < t.min then t.min else if x > t.max then t.max else x

/-- Column values on which the Spec is evaluated beside the model (a run-time check of the
hypotheses of `Gms.C03.build_sound_complete`; the Go oracle does the same on the real output). -/
def testPoints (t : IntType) (ops : List (Nat × Pred)) (col : Nat) : List (Option Int) :=
  let lits := (ops.filter (fun o => o.1 == col)).flatMap (fun o => predLits o.2)
  let near := lits.flatMap (fun l => [clip t (l.floor - 1), clip t l.floor, clip t l.ceil, clip t (l.ceil + 1)])
  (none :: ([t.min, t.min + 1, t.max - 1, t.max] ++ near).map some).eraseDups

def tuples : List (List (Option Int)) → List (List (Option Int))
  | [] => [[]]
  | ps :: rest => (tuples rest).flatMap (fun r => ps.map (fun p => p :: r))

def specAgrees (t : IntType) (n : Nat) (ops : List (Nat × Pred)) (rs : List Range) : Bool :=
  let pts := (List.range n).map (testPoints t ops)
  if (pts.map List.length).foldl (· * ·) 1 > 4000 then true
  else (tuples pts).all (fun v =>
    memAny rs (v.map pt) == ops.all (fun o => o.2.holds ((v[o.1]?).getD none)))

/-- A filter tree: `(and e e)`, `(or e e)` or a leaf predicate. -/
def parseE : Nat → Sexp → Option E
  | 0, _ => none
  | f + 1, .list [.atom "and", a, b] => do pure (E.and (← parseE f a) (← parseE f b))
  | f + 1, .list [.atom "or", a, b] => do pure (E.or (← parseE f a) (← parseE f b))
  | _ + 1, s => (parseOp s).map (fun o => E.leaf o.1 o.2)

/-- Run-time check of `Gms.C03.scan_sound_complete` on the model's own output (the Go oracle does
the same on the real output). -/
def specAgreesE (t : IntType) (n : Nat) (e : E) (rs : List Range) : Bool :=
  let pts := (List.range n).map (testPoints t e.leaves)
  if (pts.map List.length).foldl (· * ·) 1 > 4000 then true
  else (tuples pts).all (fun v => memAny rs (v.map pt) == e.holds v)

def scanFuel : Nat := 5000

def rtName : RangeType → String
  | .invalid => "Invalid" | .empty => "Empty" | .all => "All" | .greaterThan => "GreaterThan"
  | .greaterOrEqual => "GreaterOrEqual" | .lessThanOrNull => "LessThanOrNull"
  | .lessOrEqualOrNull => "LessOrEqualOrNull" | .closedClosed => "ClosedClosed" | .openOpen => "OpenOpen"
  | .openClosed => "OpenClosed" | .closedOpen => "ClosedOpen" | .equalNull => "EqualNull"

def parseVal : Sexp → Option (Option Int)
  | .atom "null" => some none
  | a => a.int?.map some

def handle (p : List Sexp) : String :=
  match p with
  | [.list [.atom "build", tmin, tmax, n, .list ops]] =>
    match tmin.int?, tmax.int?, n.nat?, ops.mapM parseOp with
    | some tmin, some tmax, some n, some ops =>
      let t : IntType := ⟨tmin, tmax⟩
      let rs := ranges (build t n ops)
      if specAgrees t n ops rs then answer (showRanges rs)
      else answer (showRanges rs) "members-differ-from-the-conjunction-of-the-predicates"
    | _, _, _, _ => answer "bad-case"
  -- the analyzer's filter → range collection path; Impl model over the heap model of the real range tree
  | [.list [.atom "scan", tmin, tmax, n, e]] =>
    match tmin.int?, tmax.int?, n.nat?, parseE 64 e with
    | some tmin, some tmax, some n, some e =>
      let t : IntType := ⟨tmin, tmax⟩
      match rootRanges Gms.RangeTree.heapTree scanFuel t n e with
      | .ok rs =>
        if rs.isEmpty then answer (showRanges rs) "(a non-nil collection)"
        else if specAgreesE t n e rs then answer (showRanges rs)
        else answer (showRanges rs) "members-differ-from-the-filter"
      -- `RemoveOverlappingRanges` rejecting a well-formed input is C46's listed finding
      -- (ror_tree_missed_connection); `scan_sound_complete` is about non-error results
      | .err m => answer (if m == "overlapping ranges" then "err:overlap" else "err:merge") "?"
      | .crash => answer "crash" "?"
      | .fuel => answer "timeout" "?"
    | _, _, _, _ => answer "bad-case"
  | [.list [.atom "rtype", r]] =>
    match parseCol r with
    | some r => answer (rtName (rangeType r))
    | none => answer "bad-case"
  | [.list [.atom "filter", r, x]] =>
    match parseCol r, parseVal x with
    | some r, some x =>
      match filterHolds r x with
      | none => answer "nil" "?"
      | some b =>
        -- Spec: the filter is TRUE exactly on the members of the range (non-inverted ranges)
        if decide (r.lo.compare r.hi ≤ 0) then answer (showBool b) (showBool (r.mem (pt x)))
        else answer (showBool b) "?"
    | _, _ => answer "bad-case"
  -- engine level: no Impl model; the Spec is that the indexed table and the index-free copy agree
  | [.list [.atom "engq", _, .list feats]] =>
    -- a query with a feature of a listed engine-level region (`Gms.C03.EngRegion`): no prediction
    if feats.isEmpty then answer "same" else answer "region" "?"
  | _ => answer "bad-case"

def main : IO Unit := runPure handle
