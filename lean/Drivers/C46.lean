import Gms.Driver.Proto
import Gms.Model.Range
import Gms.Model.RangeTree
import Gms.Model.RangeIO
open Gms.Proto Gms.Range Gms.RangeTree Gms.RangeIO

def rorFuel : Nat := 5000

def showRes (r : Res (List Range)) : String :=
  match r with
  | .ok rs => "(ok " ++ showRanges rs ++ ")"
  | .err m => if m == "overlapping ranges" then "err:overlap" else "err:merge"
  | .crash => "crash"
  | .fuel => "timeout"

def showColOk (p : ColRange × Bool) : String := if p.2 then "(t " ++ showCol p.1 ++ ")" else "f"

/-- Region predicate of the finding `ror_tree_missed_connection`, decided on the case: while
`RemoveOverlappingRanges` runs over the heap tree, some `FindConnections` call does not return a
stored range that is connected to the probe in every column. -/
def missedLoop : Nat → Tree → List Range → Bool
  | _, _, [] => false
  | 0, _, _ => false
  | fuel + 1, t, rang :: rest =>
    match heapTree.find t rang, heapTree.toList t with
    | some conns, some stored =>
      let complete := stored.filter (fun x => x.length == rang.length && Range.all2 ColRange.isConnected rang x)
      if complete.any (fun x => !conns.contains x) then true
      else match firstOverlap rang conns with
        | .hit c newRanges =>
          match heapTree.remove t c with
          | some t' => missedLoop fuel t' (rest ++ newRanges)
          | none => false
        | .none =>
          match heapTree.insert t rang with
          | some t' => missedLoop fuel t' rest
          | none => false
        | _ => false
    | _, _ => false

def rorMissed (ranges : List Range) : Bool :=
  match ranges with
  | [] => false
  | r0 :: rest => missedLoop rorFuel (heapTree.new r0) rest

/-- Spec side of a `RemoveOverlappingRanges`-like result on well-formed input: no error. -/
def rorAnswer (input : List Range) (r : Res (List Range)) : String :=
  match r with
  | .ok _ => answer (showRes r)
  | _ =>
    let region := if rorMissed input then "ror_tree_missed_connection" else "-"
    answer (showRes r) "(ok <sorted non-overlapping ranges with the same members>)" region

/-- Denotational equality of two ranges (both empty, or the same bounds in every column). -/
def denEq (a b : Range) : Bool :=
  (a.isEmpty && b.isEmpty) || (a.length == b.length && Range.all2 ColRange.equals a b)

def treeStep (st : Option Tree × String) (op : Sexp) : Option Tree × String :=
  let (t, out) := st
  let emit (t : Option Tree) (s : String) := (t, if out.isEmpty then s else out ++ ";" ++ s)
  match op, t with
  | .list [.atom "new", r], _ =>
    match parseRange r with
    | some r => let t := heapTree.new r; emit (some t) t.shape
    | none => emit t "bad-op"
  | .list [.atom "ins", r], some t =>
    match parseRange r with
    | some r =>
      match heapTree.insert t r with
      | some t' => emit (some t') t'.shape
      | none => emit none "crash"
    | none => emit (some t) "bad-op"
  | .list [.atom "rem", r], some t =>
    match parseRange r with
    | some r =>
      match heapTree.remove t r with
      | some t' => emit (some t') t'.shape
      | none => emit none "crash"
    | none => emit (some t) "bad-op"
  | .list [.atom "find", r], some t =>
    match parseRange r with
    | some r =>
      match heapTree.find t r with
      | some rs => emit (some t) (showRanges rs)
      | none => emit none "crash"
    | none => emit (some t) "bad-op"
  | .list [.atom "coll"], some t =>
    match heapTree.toList t with
    | some stored =>
      match getRangeCollection stored with
      | some c => emit (some t) (showRanges c)
      | none => emit (some t) "err:merge"
    | none => emit none "crash"
  | _, none => emit none "dead"
  | _, _ => emit t "bad-op"

def handle (p : List Sexp) : String :=
  match p with
  | [.list [.atom "cmp", a, b]] =>
    match parseCut a, parseCut b with
    | some a, some b => answer (toString (a.compare b))
    | _, _ => answer "bad-case"
  | [.list [.atom "ce1", .atom "isempty", r]] =>
    match parseCol r with
    | some r => answer (showBool r.isEmpty)
    | none => answer "bad-case"
  | [.list [.atom "ce", .atom op, r, o]] =>
    match parseCol r, parseCol o with
    | some r, some o =>
      if op == "equals" then answer (showBool (r.equals o))
      else if op == "isconn" then answer (showBool (r.isConnected o))
      else if op == "overlaps" then answer (showColOk (r.overlaps o))
      else if op == "subtract" then
        match r.subtract o with
        | some l => answer (showList showCol l)
        | none => answer "crash"
      else if op == "subset" then answer (showBool (r.isSubsetOf o))
      else if op == "tryint" then answer (showColOk (r.tryIntersect o))
      else if op == "tryunion" then answer (showColOk (r.tryUnion o))
      else answer "bad-case"
    | _, _ => answer "bad-case"
  | [.list [.atom "simplify", rs]] =>
    match parseCols rs with
    | some rs => answer (showList showCol (simplify rs))
    | none => answer "bad-case"
  | [.list [.atom "rg1", .atom "isempty", a]] =>
    match parseRange a with
    | some a => answer (showBool a.isEmpty)
    | none => answer "bad-case"
  | [.list [.atom "rg", .atom op, a, b]] =>
    match parseRange a, parseRange b with
    | some a, some b =>
      if op == "equals" then answer (showBool (a.equals b))
      else if op == "compare" then
        match a.compare b with
        | some c => answer (toString c)
        | none => answer "err"
      else if op == "intersect" then answer (showRange (a.intersect b))
      else if op == "trymerge" then
        match a.tryMerge b with
        | .no => answer "no"
        | .yes m => answer ("(yes " ++ showRange m ++ ")")
        | .err => answer "err"
      else if op == "subset" then answer (showBool (a.isSubsetOf b))
      else if op == "overlaps" then answer (showBool (a.overlaps b))
      else if op == "removeoverlap" then
        match removeOverlap (removeOverlapFuel a) a b with
        | .res rs ok => answer ("(" ++ showBool ok ++ " " ++ showRanges rs ++ ")")
        | .err => answer "err"
        | .crash => answer "crash"
        | .fuel => answer "timeout"
      else answer "bad-case"
    | _, _ => answer "bad-case"
  | [.list [.atom "intersectranges", rs]] =>
    match parseRanges rs with
    | some rs =>
      let impl := intersectRanges rs
      let spec := intersectRangesSpec rs
      -- F-C46-a was repaired (`Gms.C46.intersectRanges_eq_spec`): there is no region any more
      if denEq impl spec then answer (showRange impl)
      else answer (showRange impl) (showRange spec) "-"
    | none => answer "bad-case"
  | [.list [.atom "sort", rs]] =>
    match parseRanges rs with
    | some rs => answer (showRanges (sortRanges rs))
    | none => answer "bad-case"
  | [.list [.atom "validate", rs]] =>
    match parseRanges rs with
    | some rs => answer (showBool (validate rs))
    | none => answer "bad-case"
  | [.list [.atom "ror", rs]] =>
    match parseRanges rs with
    | some rs => rorAnswer rs (removeOverlappingRanges heapTree rorFuel rs)
    | none => answer "bad-case"
  | [.list [.atom "collint", xs, ys]] =>
    match parseRanges xs, parseRanges ys with
    | some xs, some ys =>
      let newRanges := xs.flatMap (fun x => (ys.map (fun y => x.intersect y)).filter (fun r => r.length > 0))
      rorAnswer newRanges (collectionIntersect heapTree rorFuel xs ys)
    | _, _ => answer "bad-case"
  | [.list (.atom "tree" :: ops)] =>
    answer (ops.foldl treeStep (none, "")).2
  | _ => answer "bad-case"

def main : IO Unit := runPure handle
