import Gms.Driver.Proto
import Gms.Model.Num
open Gms.Proto Gms.Num

/-- One operand of a case: `(col <ty> <v>|null)`, `(lit <v>)` (typed by the model's `litTy`),
`(col d<scale> <coeff>|null)` or `(dlit <coeff> <scale>)`. -/
inductive Operand where
  | int (ty : ITy) (v : Option Int)
  | dec (scale : Nat) (coeff : Option Int)

def decScale? (t : String) : Option Nat :=
  if t.startsWith "d" then (t.drop 1).toNat? else none

def operand? : Sexp → Option Operand
  | .list [.atom "col", .atom t, v] =>
    let val : Option (Option Int) := match v with
      | .atom "null" => some none
      | v => v.int?.map some
    match val with
    | none => none
    | some val =>
      match ITy.ofName? t with
      | some ty => some (.int ty val)
      | none => (decScale? t).map fun sc => .dec sc val
  | .list [.atom "lit", v] =>
    match v.int? with
    | some i => (litTy i).map fun ty => .int ty (some i)
    | none => none
  | .list [.atom "dlit", c, sc] =>
    match c.int?, sc.nat? with
    | some c, some sc => some (.dec sc (some c))
    | _, _ => none
  | _ => none

def Operand.isNull : Operand → Bool
  | .int _ none | .dec _ none => true
  | _ => false

def Operand.toDec : Operand → Dec
  | .int _ v => Dec.ofInt (v.getD 0)
  | .dec sc c => { coeff := c.getD 0, scale := sc }

def Operand.unsignedInt : Operand → Bool
  | .int ty _ => ty.unsigned
  | .dec _ _ => false

def padLeft (s : String) (n : Nat) : String := String.ofList (List.replicate (n - s.length) '0') ++ s

def renderDec (c : Int) (s : Nat) : String :=
  let m := c.natAbs
  let ip := m / 10 ^ s
  let fp := m % 10 ^ s
  let body := if s = 0 then toString ip else toString ip ++ "." ++ padLeft (toString fp) s
  if c < 0 then "-" ++ body else body

def render : Obs → String
  | .int v => toString v
  | .dec c s => renderDec c s
  | .null => "null"
  | .errRange => "err:range"
  | .errOther => "err:1105"

/-- impl obs, exact obs, acceptance range, region name if the model says the case fails -/
def decide3 (impl exact : Obs) (resOk : Int → Bool) (region : String) : String :=
  if acceptable resOk impl exact then answer (render impl)
  else answer (render impl) (render exact) region

def intBin (op : String) (lt : ITy) (lv : Int) (rt : ITy) (rv : Int) : String :=
  let arith (o : AOp) : String :=
    let region :=
      if unsigned_operand_clamped lt lv rt rv then "unsigned_operand_clamped"
      else if bigint_overflow_wraps o lt lv rt rv then "bigint_overflow_wraps"
      else "-"
    decide3 (implArith o lt lv rt rv) (exactArith o lv rv) (arithResOk lt rt) region
  match op with
  | "add" => arith .add
  | "sub" => arith .sub
  | "mul" => arith .mul
  | "idiv" =>
    let region :=
      if intdiv_minint_by_minus1 lt lv rt rv then "intdiv_minint_by_minus1"
      else if intdiv_mixed_negative_as_unsigned lt lv rt rv then "intdiv_mixed_negative_as_unsigned"
      else "-"
    decide3 (implIntDiv lt lv rt rv) (exactIntDiv lv rv) (intDivResOk lt rt) region
  | "mod" => decide3 (implMod lv rv) (exactMod lv rv) (fun _ => true) "-"
  | "div" => decide3 (implDiv lv rv) (exactDiv4 lv rv) (fun _ => true) "-"
  | _ => answer "bad-case"

/-- at least one DECIMAL operand: everything runs on decimals -/
def decBin (op : String) (l r : Operand) : String :=
  let a := l.toDec
  let b := r.toDec
  let u := l.unsignedInt || r.unsignedInt
  match op with
  | "add" => answer (render (implDecArith .add a b))
  | "sub" => answer (render (implDecArith .sub a b))
  | "mul" => answer (render (implDecArith .mul a b))
  | "mod" =>
    let region := if mod_quotient_exceeds_precision a b then "mod_quotient_exceeds_precision" else "-"
    decide3 (implDecMod a b) (exactDecMod a b) (fun _ => true) region
  | "idiv" =>
    let region := if intdiv_dec_negative_as_unsigned u a b then "intdiv_mixed_negative_as_unsigned" else "-"
    decide3 (implDecIntDiv u a b) (exactDecIntDiv a b) (decIntDivResOk u) region
  | "div" =>
    let region := if div_internal_scale_not_above_final a b then "div_internal_scale_not_above_final" else "-"
    decide3 (implDecDiv a b) (exactDecDiv a b) (fun _ => true) region
  | _ => answer "bad-case"

def binCase (op : String) (l r : Operand) : String :=
  if l.isNull || r.isNull then answer "null"
  else
    match l, r with
    | .int lt (some lv), .int rt (some rv) => intBin op lt lv rt rv
    | _, _ => decBin op l r

def negCase (l : Operand) : String :=
  match l with
  | .int _ none => answer "null"
  | .int ty (some v) =>
    let region :=
      if neg_unsigned_wraps ty v then "neg_unsigned_wraps"
      else if neg_mediumint_min_clamped ty v then "neg_mediumint_min_clamped"
      else "-"
    decide3 (implNeg ty v) (exactNeg v) negResOk region
  | _ => answer "bad-case"

def handle (p : List Sexp) : String :=
  match p with
  | [.list [.atom "bin", .atom op, l, r]] =>
    match operand? l, operand? r with
    | some l, some r => binCase op l r
    | _, _ => answer "bad-case"
  | [.list [.atom "neg", l]] =>
    match operand? l with
    | some l => negCase l
    | none => answer "bad-case"
  | _ => answer "bad-case"

def main : IO Unit := runPure handle
