import Gms.Driver.Proto
import Gms.Model.Num
open Gms.Proto Gms.Num

/-- One operand of a case: `(col <ty> <v>|null)` or `(lit <v>)` (typed by the model's `litTy`). -/
structure Operand where
  ty : ITy
  v : Option Int

def operand? : Sexp → Option Operand
  | .list [.atom "col", .atom t, .atom "null"] => (ITy.ofName? t).map fun ty => { ty := ty, v := none }
  | .list [.atom "col", .atom t, v] =>
    match ITy.ofName? t, v.int? with
    | some ty, some i => some { ty := ty, v := some i }
    | _, _ => none
  | .list [.atom "lit", v] =>
    match v.int? with
    | some i => (litTy i).map fun ty => { ty := ty, v := some i }
    | none => none
  | _ => none

def padLeft (s : String) (n : Nat) : String := String.ofList (List.replicate (n - s.length) '0') ++ s

def renderDec (c : Int) (s : Nat) : String :=
  let m := c.natAbs
  let ip := m / 10 ^ s
  let fp := m % 10 ^ s
  let body := if s = 0 then toString ip else toString ip ++ "." ++ padLeft (toString fp) s
  if c < 0 then "-" ++ body else body

def render : Obs → String
  | .int v => toString v
  | .dec c s => renderDec c s
  | .null => "null"
  | .errRange => "err:range"

/-- impl obs, exact obs, acceptance range, region name if the model says the case fails -/
def decide3 (impl exact : Obs) (resOk : Int → Bool) (region : String) : String :=
  if acceptable resOk impl exact then answer (render impl)
  else answer (render impl) (render exact) region

def binCase (op : String) (l r : Operand) : String :=
  match l.v, r.v with
  | some lv, some rv =>
    let lt := l.ty
    let rt := r.ty
    let arith (o : AOp) : String :=
      let region :=
        if unsigned_operand_clamped lt lv rt rv then "unsigned_operand_clamped"
        else if bigint_overflow_wraps o lt lv rt rv then "bigint_overflow_wraps"
        else "-"
      decide3 (implArith o lt lv rt rv) (exactArith o lv rv) (arithResOk lt rt) region
    match op with
    | "add" => arith .add
    | "sub" => arith .sub
    | "mul" => arith .mul
    | "idiv" =>
      let region :=
        if intdiv_minint_by_minus1 lt lv rt rv then "intdiv_minint_by_minus1"
        else if intdiv_mixed_negative_as_unsigned lt lv rt rv then "intdiv_mixed_negative_as_unsigned"
        else "-"
      decide3 (implIntDiv lt lv rt rv) (exactIntDiv lv rv) (intDivResOk lt rt) region
    | "mod" => decide3 (implMod lv rv) (exactMod lv rv) (fun _ => true) "-"
    | "div" => decide3 (implDiv lv rv) (exactDiv4 lv rv) (fun _ => true) "-"
    | _ => answer "bad-case"
  | _, _ => answer "null"

def negCase (l : Operand) : String :=
  match l.v with
  | none => answer "null"
  | some v =>
    let region :=
      if neg_unsigned_wraps l.ty v then "neg_unsigned_wraps"
      else if neg_mediumint_min_clamped l.ty v then "neg_mediumint_min_clamped"
      else "-"
    decide3 (implNeg l.ty v) (exactNeg v) negResOk region

def handle (p : List Sexp) : String :=
  match p with
  | [.list [.atom "bin", .atom op, l, r]] =>
    match operand? l, operand? r with
    | some l, some r => binCase op l r
    | _, _ => answer "bad-case"
  | [.list [.atom "neg", l]] =>
    match operand? l with
    | some l => negCase l
    | none => answer "bad-case"
  | _ => answer "bad-case"

def main : IO Unit := runPure handle
