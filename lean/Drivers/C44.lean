import Gms.Driver.Proto
import Gms.Model.SysVars
import Gms.Generated.C44
open Gms.Proto Gms.SysVars

/-!
Driver for C44. One case = one whole history over a fresh registry state:
  (hist stmt…)   stmt := (new sid) | (set sid (asg target rhs)…) | (names sid rhs) | (get sid target…) | (getp xNAME)
  target := (sys session|global|persist|persistonly 0|1 xNAME) | (user xNAME)
  rhs := (lit val) | (dflt) | (ref target)
  val := null | (b 0|1) | (i int) | (u nat) | (d m s) | (f m s) | (s xTEXT)
Answer: the observations of all statements under the code's quirks (`implQ`), under the property
(`specQ`), and the region: the first single quirk that, added to the property semantics alone,
changes the observations of this history.
-/

def strOf (x : Sexp) : Option String := (x.bytes?).bind fun bs => String.fromUTF8? (ByteArray.mk bs.toArray)

def parseVal : Sexp → Option Val
  | .atom "null" => some .null
  | .list [.atom "b", x] => x.nat?.map fun n => .bool (n != 0)
  | .list [.atom "i", x] => x.int?.map .int
  | .list [.atom "u", x] => x.nat?.map .uint
  | .list [.atom "d", m, s] => do some (.dec (← m.int?) (← s.nat?))
  | .list [.atom "f", m, s] => do some (.flt (← m.int?) (← s.nat?))
  | .list [.atom "s", x] => (strOf x).map .str
  | _ => none

def parseScope : Sexp → Option SetScope
  | .atom "session" => some .session
  | .atom "global" => some .global
  | .atom "persist" => some .persist
  | .atom "persistonly" => some .persistOnly
  | _ => none

def parseTarget : Sexp → Option Target
  | .list [.atom "sys", sc, e, n] => do
    some (.sys ⟨← parseScope sc, (← e.nat?) != 0, ← strOf n⟩)
  | .list [.atom "user", n] => (strOf n).map .user
  | _ => none

def parseRhs : Sexp → Option Rhs
  | .list [.atom "lit", v] => (parseVal v).map .lit
  | .list [.atom "dflt"] => some .dflt
  | .list [.atom "ref", t] => match parseTarget t with
    | some (.sys r) => some (.sys r)
    | some (.user n) => some (.user n)
    | none => none
  | _ => none

def parseAsg : Sexp → Option (Target × Rhs)
  | .list [.atom "asg", t, r] => do some (← parseTarget t, ← parseRhs r)
  | _ => none

def parseStmt : Sexp → Option Stmt
  | .list [.atom "new", sid] => sid.nat?.map .newSession
  | .list (.atom "set" :: sid :: asgs) => do some (.set (← sid.nat?) (← asgs.mapM parseAsg))
  -- SET NAMES x: the planbuilder's expansion into three SESSION assignments
  | .list [.atom "names", sid, rhs] => do some (.set (← sid.nat?) (expandNames (← parseRhs rhs)))
  | .list [.atom "getp", n] => (strOf n).map .getPersisted
  | .list (.atom "get" :: sid :: ts) => do some (.get (← sid.nat?) (← ts.mapM parseTarget))
  | _ => none

def showObs : Obs → String
  | .ok => "ok"
  | .err e => "err:" ++ e.toString
  | .row cells => "row(" ++ "|".intercalate (cells.map fun (t, ty) => t ++ ":" ++ ty) ++ ")"

def reg : Reg := Gms.Generated.C44.sysvars

def runObs (q : Quirks) (h : List Stmt) : String :=
  ";".intercalate ((run q reg (init reg) h).2.map showObs)

def quirkNames : List String :=
  ["int_uint_reinterpreted", "uint_decimal_rounded", "global_only_stale_read", "multi_assign_partial_effect", "persist_before_checks",
   "double_string_go_syntax", "database_charset_read_from_catalog"]

def quirksOf (on : List Nat) : Quirks :=
  { wraps := on.contains 0, decRounds := on.contains 1, staleGlobalOnly := on.contains 2,
    partialMulti := on.contains 3, persistFirst := on.contains 4, goFloat := on.contains 5, catalogReads := on.contains 6 }

/-- Subsets of the quirks, smallest first; within a size in priority order. A history is
attributed to the first member of the first subset that alone (added to the property semantics)
changes its observations. -/
def subsets : List (List Nat) :=
  let idx := [0, 1, 2, 3, 4, 5, 6]
  let s1 := idx.map fun i => [i]
  let s2 := idx.flatMap fun i => (idx.filter (· > i)).map fun j => [i, j]
  let s3 := idx.flatMap fun i => (idx.filter (· > i)).flatMap fun j => (idx.filter (· > j)).map fun k => [i, j, k]
  s1 ++ s2 ++ s3

def handle (p : List Sexp) : String :=
  match p with
  | [.list (.atom "hist" :: stmts)] =>
    match stmts.mapM parseStmt with
    | none => answer "bad-case"
    | some h =>
      let i := runObs implQ h
      let s := runObs specQ h
      if i == s then answer i
      else
        let region := match subsets.find? (fun on => runObs (quirksOf on) h != s) with
          | some (k :: _) => quirkNames.getD k "combined_quirks"
          | _ => "combined_quirks"
        answer i s region
  | _ => answer "bad-case"

def main : IO Unit := runPure handle
