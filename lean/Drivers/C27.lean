import Gms.Driver.Proto
import Gms.Model.StoreStr
import Gms.Model.StoreBin
open Gms.Proto Gms.Num Gms.Conv Gms.Store

def val? : Sexp → Option Val
  | .atom "null" => some .null
  | .list [.atom "i", v] => v.int?.map .i
  | .list [.atom "u", v] => v.int?.map .u
  | .list [.atom "d", c, s] =>
    match c.int?, s.nat? with
    | some c, some s => some (.d c s)
    | _, _ => none
  | .list [.atom "s", b] => b.bytes?.map .s
  | _ => none

def ty? : Sexp → Option Ty
  | .atom "year" => some .year
  | .list [.atom "int", .atom t] => (ITy.ofName? t).map .int
  | .list [.atom "dec", p, s, c] =>
    match p.nat?, s.nat?, c.nat? with
    | some p, some s, some c => some (.dec p s (c != 0))
    | _, _, _ => none
  | .list [.atom "bit", n] => n.nat?.map .bit
  | _ => none

def flagStr : Flag → String
  | .inRange => "in" | .overflow => "over" | .underflow => "under"
def errStr : Err → String
  | .none => "none" | .truncated => "trunc" | .fatal => "fatal"

def storedStr : Stored → String
  | .null => "null"
  | .int v => toString v
  | .dec c s => "d:" ++ toString c ++ ":" ++ toString s

def cresStr (r : CRes) : String :=
  (if r.err = .fatal then "-" else storedStr r.val) ++ " " ++ flagStr r.flag ++ " " ++ errStr r.err

def padLeft (s : String) (n : Nat) : String := String.ofList (List.replicate (n - s.length) '0') ++ s

/-- text of a stored value as `SELECT c` prints it for a column of type `t` -/
def cellText (t : Ty) : Stored → String
  | .null => "null"
  | .int v =>
    match t with
    | .dec _ s _ => if s = 0 then toString v else toString v ++ "." ++ padLeft "" s
    | .int .u24 => toString (min v (2 ^ 24))      -- `SQLUint24` clamps what it prints at 1<<24
    | .int .i24 => toString (max (-(2 ^ 23)) (min v (2 ^ 23 - 1)))   -- `SQLInt24` clamps what it prints
    | _ => toString v
  | .dec c sc =>
    let s := t.scale
    let c' := c * 10 ^ (s - sc)
    let m := c'.natAbs
    let body := if s = 0 then toString m else toString (m / 10 ^ s) ++ "." ++ padLeft (toString (m % 10 ^ s)) s
    if c' < 0 then "-" ++ body else body

def regionOf (t : Ty) (v : Val) : String :=
  if sign_only_or_empty_string_as_zero t v then "sign_only_or_empty_string_as_zero"
  else if unsigned_underflow_wraps t v then "unsigned_underflow_wraps"
  else if bit_negative_reinterpreted t v then "bit_negative_reinterpreted"
  else if year_decimal_beyond_int64_becomes_zero t v then "year_decimal_beyond_int64_becomes_zero"
  else "-"

def convCase (t : Ty) (v : Val) : String :=
  let r := convert t v
  let again := r.err ≠ .fatal ∧ r.val ≠ .null
  let r2s := if again then cresStr (convert t (inject t r.val)) else "-"
  let impl := cresStr r ++ " | " ++ r2s
  -- idempotence demanded by the property: the second conversion returns the same value, InRange, no error
  let idemOK := !again || (convert t (inject t r.val) == ⟨r.val, .inRange, .none⟩)
  match acceptableConvertS t v r with
  | none => if idemOK then answer impl "?" else answer impl "not-idempotent" (regionOf t v)
  | some true => if idemOK then answer impl else answer impl "not-idempotent" (regionOf t v)
  | some false => answer impl "exact-or-reported-nearest" (regionOf t v)

def outcomeStr (t : Ty) : Outcome → String
  | .rejected => "rejected"
  | .stored v w => "stored " ++ cellText t v ++ " warn=" ++ (if w then "true" else "false")

def insCase (mode : String) (t : Ty) (v : Val) : String :=
  let ignore := mode == "ignore"
  let o := if ignore then insertIgnore t v else insertStrict t v
  let impl := outcomeStr t o
  match acceptableOutcome ignore t v o with
  | some false =>
    let reg := regionOf t v
    let reg := if reg == "-" && ignore && decide (ignore_stores_zero_not_nearest t v) then
      "ignore_stores_zero_not_nearest" else reg
    answer impl (if ignore then "nearest-with-warning-or-exact" else "exact-or-rejected") reg
  | none => answer impl "?"
  | some true => answer impl

/-- `INSERT [IGNORE]` of a string literal into an integer column (round-mode path) -/
def sinsCase (mode : String) (it : ITy) (bs : List UInt8) : String :=
  let ignore := mode == "ignore"
  if !roundModelled bs then answer "text-outside-the-round-mode-model"
  else
    let o := insertStr ignore it bs
    let impl := outcomeStr (.int it) o
    if acceptableStrOutcome ignore it bs o then answer impl
    else
      let region :=
        if sign_only_or_empty_string_as_zero (.int it) (.s bs) then "sign_only_or_empty_string_as_zero"
        else if unsigned_underflow_wraps (.int it) (.s bs) then "unsigned_underflow_wraps"
        else if string_via_float64 it bs then "string_via_float64"
        else if truncated_string_skips_range_check it bs then "truncated_string_skips_range_check"
        else "-"
      answer impl (if ignore then "nearest-with-warning-or-exact" else "exact-or-rejected") region

/-- `Type.Convert` of a binary string (`[]byte`) + re-conversion of the result -/
def convBinCase (t : Ty) (bs : List UInt8) : String :=
  if !binModelled t then answer "type-outside-the-binary-string-model"
  else
    let r := convertB t bs
    let again := r.err ≠ .fatal ∧ r.val ≠ .null
    let r2s := if again then cresStr (convert t (inject t r.val)) else "-"
    let impl := cresStr r ++ " | " ++ r2s
    let idemOK := !again || (convert t (inject t r.val) == ⟨r.val, .inRange, .none⟩)
    match acceptableConvertB t bs r with
    | none => if idemOK then answer impl "?" else answer impl "not-idempotent"
    | some true => if idemOK then answer impl else answer impl "not-idempotent"
    | some false => answer impl "exact-or-reported-nearest"

/-- `INSERT [IGNORE]` of a binary string into an integer / BIT column -/
def binsCase (mode : String) (t : Ty) (bs : List UInt8) : String :=
  if !binModelled t then answer "type-outside-the-binary-string-model"
  else
    let ignore := mode == "ignore"
    let o := insertBin ignore t bs
    let impl := outcomeStr t o
    match acceptableBinOutcome ignore t bs o with
    | some false =>
      let region :=
        if ignore && decide (binary_out_of_range_stored_as_zero t bs) then "binary_out_of_range_stored_as_zero"
        else if ignore && decide (ignore_stores_zero_not_nearest t (.s bs)) && (match t with | .bit _ => true | _ => false) then
          "ignore_stores_zero_not_nearest"
        else "-"
      answer impl (if ignore then "nearest-with-warning-or-exact" else "exact-or-rejected") region
    | none => answer impl "?"
    | some true => answer impl

def handle (p : List Sexp) : String :=
  match p with
  | [.list [.atom "conv", t, .list [.atom "b", b]]] =>
    match ty? t, b.bytes? with
    | some t, some bs => convBinCase t bs
    | _, _ => answer "bad-case"
  | [.list [.atom "bins", .atom mode, .atom _, t, .list [.atom "b", b]]] =>
    match ty? t, b.bytes? with
    | some t, some bs => binsCase mode t bs
    | _, _ => answer "bad-case"
  | [.list [.atom "conv", t, v]] =>
    match ty? t, val? v with
    | some t, some v => convCase t v
    | _, _ => answer "bad-case"
  | [.list [.atom "sins", .atom mode, .list [.atom "int", .atom t], .list [.atom "s", b]]] =>
    match ITy.ofName? t, b.bytes? with
    | some it, some bs => sinsCase mode it bs
    | _, _ => answer "bad-case"
  | [.list [.atom "ins", .atom mode, t, v]] =>
    match ty? t, val? v with
    | some t, some v => insCase mode t v
    | _, _ => answer "bad-case"
  | _ => answer "bad-case"

def main : IO Unit := runPure handle
