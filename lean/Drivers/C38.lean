import Gms.Driver.Proto
import Gms.Model.Locks
open Gms.Proto Gms.Locks

/-! Line-protocol driver of C38.

`(seq api|sql (names K) (sessions u…) op…)`  one goroutine, several sessions, observation after every op
     op  `(try u n) (lock u n) (unl u n) (rall u) (st n)`
`(conc (names K) (o kind u n res inv resp)…)` a recorded concurrent history (completed calls with logical
     invocation/response stamps); answer `lin` iff it has a linearization in the atomic Spec
     kind/res: `try` 1|0 · `lock` 1|0 (0 = timed out) · `unl` 0 ok|1 not-exist|2 not-owned · `rall` k · `st` 0 not-exist|1 free|2+owner
-/

inductive ApiOp where
  | try (u n : Nat) | lock (u n : Nat) | unl (u n : Nat) | rall (u : Nat) | st (n : Nat)

def parseOp : Sexp → Option ApiOp
  | .list [.atom "try", u, n] => do some (.try (← u.nat?) (← n.nat?))
  | .list [.atom "lock", u, n] => do some (.lock (← u.nat?) (← n.nat?))
  | .list [.atom "unl", u, n] => do some (.unl (← u.nat?) (← n.nat?))
  | .list [.atom "rall", u] => do some (.rall (← u.nat?))
  | .list [.atom "st", n] => do some (.st (← n.nat?))
  | _ => none

def ApiOp.session : ApiOp → Option Nat
  | .try u _ | .lock u _ | .unl u _ | .rall u => some u
  | .st _ => none

def resStr (sql : Bool) : Option R → String
  | some (.acquired true) => "1"
  | some (.acquired false) => "0"
  | some .ok => "ok"
  | some .errNotExist => "NE"
  | some .errNotOwned => "NO"
  | some (.released k) => "r" ++ toString k
  | some .notExist => if sql then "F" else "E"
  | some .free => "F"
  | some (.inUse o) => "U" ++ toString o
  | some .unit => "u"
  | none => "stuck"

def insSorted (x : Nat) : List Nat → List Nat
  | [] => [x]
  | y :: ys => if x ≤ y then x :: y :: ys else y :: insSorted x ys
def sortNat (l : List Nat) : List Nat := l.foldr insSorted []

/-- `shift` = 1 when the table stores session ids + 1 (the Spec run). -/
def tableStr (sql : Bool) (shift : Nat) (t : Table) (names : List Nat) : String :=
  ",".intercalate (names.map fun n =>
    toString n ++ ":" ++ match t n with
      | none => if sql then "F" else "E"
      | some (o, c) => if o = 0 then (if sql then "F" else "F" ++ toString c) else "U" ++ toString (o - shift) ++ (if sql then "" else "x" ++ toString c))

def setsStr (sql : Bool) (sets : Nat → List Nat) (sessions : List Nat) : String :=
  if sql then "-" else
  ";".intercalate (sessions.map fun u => toString u ++ ":" ++ ",".intercalate ((sortNat (sets u)).map toString))

/-- Impl model, run sequentially. `lock` blocks only while another session holds the lock; with the
harness's minimal timeout it makes one attempt. -/
def implOp (s : CSt) : ApiOp → CSt × String
  | .try u n => let (s', r) := seqCall s u (.tryLock n); (s', resStr false r)
  | .lock u n =>
    let (s', r) := seqCall s u (.tryLock n)
    (s', match r with | some (.acquired false) => "T" | r => resStr false r)
  | .unl u n => let (s', r) := seqCall s u (.unlock n); (s', resStr false r)
  | .rall u => let (s', k) := seqReleaseAll s u; (s', "r" ++ toString k)
  | .st n => let (s', r) := seqCall s 0 (.getState n); (s', resStr false r)

/-- Spec, on session ids shifted by one (so that id 0 is an ordinary session): `TryLock` = creation
then one atomic attempt; `ReleaseAll` releases every lock the session holds. -/
def specOp (t : Table) (names : List Nat) : ApiOp → Table × String
  | .try u n =>
    let t1 := (astep t (.ensure n)).1
    let (t2, r) := astep t1 (.tryAcq (u + 1) n)
    (t2, resStr false (some r))
  | .lock u n =>
    let t1 := (astep t (.ensure n)).1
    let (t2, r) := astep t1 (.tryAcq (u + 1) n)
    (t2, match r with | .acquired false => "T" | r => resStr false (some r))
  | .unl u n => let (t', r) := astep t (.unlock (u + 1) n); (t', resStr false (some r))
  | .rall u =>
    let (t', k) := names.foldl (fun (acc : Table × Nat) n =>
      match astep acc.1 (.relOne (u + 1) n) with
      | (t', .released j) => (t', acc.2 + j)
      | (t', _) => (t', acc.2)) (t, 0)
    (t', "r" ++ toString k)
  | .st n =>
    let (t', r) := astep t (.getState n)
    (t', match r with | .inUse o => "U" ++ toString (o - 1) | r => resStr false (some r))

/-- In SQL mode "does not exist" and "free" are one observation. -/
def sqlRes (sql : Bool) (r : String) : String := if sql && r == "E" then "F" else r

partial def runSeq (sql : Bool) (names sessions : List Nat) (s : CSt) (t : Table) (ops : List ApiOp)
    (accI accS : List String) : List String × List String :=
  match ops with
  | [] => (accI.reverse, accS.reverse)
  | op :: ops =>
    let (s', ri) := implOp s op
    let (t', rs) := specOp t names op
    let setsS := setsStr sql s'.sets sessions
    let oi := sqlRes sql ri ++ "|" ++ tableStr sql 0 (proj s'.cells) names ++ "|" ++ setsS
    let os := sqlRes sql rs ++ "|" ++ tableStr sql 1 t' names ++ "|" ++ setsS
    runSeq sql names sessions s' t' ops (oi :: accI) (os :: accS)

/-! ### Linearizability check of a recorded concurrent history -/

structure HOp where
  kind : String
  u : Nat
  n : Nat
  res : Nat
  inv : Nat
  resp : Nat
  /-- `try`/`lock`: creation step done; `rall`: locks released so far -/
  prog : Nat := 0
  ensured : Bool := false
  deriving Inhabited

def parseHOp : Sexp → Option HOp
  | .list [.atom "o", .atom k, u, n, r, i, e] =>
    do some { kind := k, u := (← u.nat?), n := (← n.nat?), res := (← r.nat?), inv := (← i.nat?), resp := (← e.nat?) }
  | _ => none

def removeAt {α : Type} : List α → Nat → List α
  | [], _ => []
  | _ :: xs, 0 => xs
  | x :: xs, i + 1 => x :: removeAt xs i

def setAt {α : Type} : List α → Nat → α → List α
  | [], _, _ => []
  | _ :: xs, 0, y => y :: xs
  | x :: xs, i + 1, y => x :: setAt xs i y

/-- Depth-first search for a linearization (Wing–Gong): a pending call may take its next primitive
step if it was invoked before the earliest response among the pending calls. -/
partial def search (names : List Nat) (t : Table) (pending : List HOp) : Bool :=
  if pending.isEmpty then true else
  let minResp := pending.foldl (fun m o => min m o.resp) (pending.head!.resp)
  let idxs := List.range pending.length
  idxs.any fun i =>
    let o : HOp := pending[i]!
    if o.inv > minResp then false else
    match o.kind with
    | "try" | "lock" =>
      if !o.ensured then
        search names (astep t (.ensure o.n)).1 (setAt pending i { o with ensured := true })
      else
        let (t', r) := astep t (.tryAcq o.u o.n)
        (r == .acquired (o.res == 1)) && search names t' (removeAt pending i)
    | "unl" =>
      let (t', r) := astep t (.unlock o.u o.n)
      let want := if o.res == 0 then R.ok else if o.res == 1 then R.errNotExist else R.errNotOwned
      (r == want) && search names t' (removeAt pending i)
    | "st" =>
      let (t', r) := astep t (.getState o.n)
      let want := if o.res == 0 then R.notExist else if o.res == 1 then R.free else R.inUse (o.res - 2)
      (r == want) && search names t' (removeAt pending i)
    | "rall" =>
      let held := names.filter fun n => owner t n == o.u
      if held.isEmpty then (o.prog == o.res) && search names t (removeAt pending i)
      else held.any fun n =>
        search names (astep t (.relOne o.u n)).1 (setAt pending i { o with prog := o.prog + 1 })
    | _ => false

def namesOf : Sexp → Option (List Nat)
  | .list [.atom "names", k] => k.nat?.map fun k => (List.range k).map (· + 1)
  | _ => none

def sessionsOf : Sexp → Option (List Nat)
  | .list (.atom "sessions" :: us) => us.mapM Sexp.nat?
  | _ => none

def handle (p : List Sexp) : String :=
  match p with
  | [Sexp.list (Sexp.atom "seq" :: Sexp.atom mode :: nm :: ss :: ops)] =>
    match namesOf nm, sessionsOf ss, ops.mapM parseOp with
    | some names, some sessions, some ops =>
      let sql := mode == "sql"
      let (oi, os) := runSeq sql names sessions CSt.init Table.empty ops [] []
      let io := ";".intercalate oi
      let so := ";".intercalate os
      if io == so then answer io
      else answer io so (if ops.any (fun o => o.session == some 0) then "session_id_zero" else "-")
    | _, _, _ => answer "bad-case"
  | [Sexp.list (Sexp.atom "conc" :: nm :: hops)] =>
    match namesOf nm, hops.mapM parseHOp with
    | some names, some hs =>
      -- a session with id 0 is outside the Spec's guarantees (and outside this generator)
      -- the history *is* the observation; the Spec either explains it or not
      if search names Table.empty hs then answer "observed" else answer "observed" "no-linearization" "-"
    | _, _ => answer "bad-case"
  | _ => answer "bad-case"

def main : IO Unit := runPure handle
