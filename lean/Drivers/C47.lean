import Gms.Driver.Proto
import Gms.Model.ISet
open Gms.Proto Gms.ISet

abbrev E := Nat × Nat × Nat   -- (a, b, c)

def keyerOf : Nat → E → Nat
  | 0 => fun e => e.1
  | 1 => fun e => e.2.1
  | 2 => fun e => e.1 * 4 + e.2.1
  | _ => fun e => e.2.2

def eqOf : Nat → E → E → Bool
  | 0 => fun x y => x.1 == y.1 && x.2.1 == y.2.1
  | 1 => fun x y => x == y
  | _ => fun x y => x.1 == y.1

/-- (keyer kinds, Equals kind, EqCompat holds) — mirrors `configs` in harness/cmd/c47. -/
def configs : List (List Nat × Nat × Bool) :=
  [([0, 1], 0, true), ([0, 1, 2], 1, true), ([0], 2, true), ([0, 3], 0, false), ([2, 1], 1, true)]

inductive DOp where
  | put (e : E) | remove (e : E) | removeMany (i k : Nat) | clear | get (e : E)
  | edInsert (e : E) | edDelete (e : E) | edUpdate (o n : E)

def fmtE (e : E) : String := s!"{e.1}.{e.2.1}.{e.2.2}"
def fmtEs (es : List E) : String := "[" ++ ",".intercalate (es.map fmtE) ++ "]"

def dump (res : String) (cnt : Nat) (bucket : Nat → Nat → List E) (nIdx : Nat) : String :=
  let idxs := List.range nIdx
  let ks := List.range 16
  s!"r={res};c={cnt};" ++ String.join (idxs.map fun i => String.join (ks.map fun k =>
    match bucket i k with
    | [] => ""
    | vs => s!"{i}.{k}={fmtEs vs};")) ++ "|"

/-- Impl model: one op on the concrete indexed set. -/
def implOp (eq : E → E → Bool) (s : ISet Nat E) : DOp → ISet Nat E × String
  | .put e => (put s e, "-")
  | .remove e => let r := remove eq s e; (r.1, if r.2 then "found:" ++ fmtE e else "notfound")
  | .removeMany i k => (removeMany eq s i k, "-")
  | .clear => (clear s, "-")
  | .get e => (s, match Gms.ISet.get eq s e with | some w => "found:" ++ fmtE w | none => "notfound")
  | .edInsert e => match edInsert s e with
    | .ok s' => (s', "ok")
    | .error _ => (s, "err:pk")
  | .edDelete e => (edDelete eq s e, "ok")
  | .edUpdate o n => (edUpdate eq s o (fun e => (n.1, n.2.1, e.2.2)) n, "ok")

/-- Spec: the same op on the insertion-ordered bag. -/
def specOp (eq : E → E → Bool) (keys : List (E → Nat)) (S : List E) : DOp → List E × String
  | .put e => (S ++ [e], "-")
  | .remove e => (S.filter (fun w => !eq e w), if S.any (fun w => eq e w) then "found:" ++ fmtE e else "notfound")
  | .removeMany i k => (specStep eq keys S (.removeMany i k), "-")
  | .clear => ([], "-")
  | .get e => (S, match S.find? (fun w => eq e w) with | some w => "found:" ++ fmtE w | none => "notfound")
  | .edInsert e => match keys with
    | [] => (S ++ [e], "ok")
    | f :: _ => if (S.filter (fun w => f w = f e)).isEmpty then (S ++ [e], "ok") else (S, "err:pk")
  | .edDelete e => match keys with
    | [] => (S, "ok")
    | f :: _ => (specStep eq keys S (.removeMany 0 (f e)), "ok")
  | .edUpdate o n => match keys with
    | [] => (S, "ok")
    | f :: _ =>
      match S.filter (fun w => f w = f o) with
      | [e] => (S.filter (fun w => !eq o w) ++ [(n.1, n.2.1, e.2.2)], "ok")
      | es => (es.foldl (fun S v => S.filter (fun w => !eq v w)) S ++ [n], "ok")

def parseE : List Sexp → Option (E × List Sexp)
  | a :: b :: c :: rest => do
    let a ← a.nat?; let b ← b.nat?; let c ← c.nat?
    pure ((a, b, c), rest)
  | _ => none

def parseOp : Sexp → Option DOp
  | .list (.atom "put" :: r) => do let (e, _) ← parseE r; pure (.put e)
  | .list (.atom "remove" :: r) => do let (e, _) ← parseE r; pure (.remove e)
  | .list [.atom "removemany", i, k] => do pure (.removeMany (← i.nat?) (← k.nat?))
  | .list [.atom "clear"] => some .clear
  | .list (.atom "get" :: r) => do let (e, _) ← parseE r; pure (.get e)
  | .list (.atom "edinsert" :: r) => do let (e, _) ← parseE r; pure (.edInsert e)
  | .list (.atom "eddelete" :: r) => do let (e, _) ← parseE r; pure (.edDelete e)
  | .list (.atom "edupdate" :: r) => do let (o, r') ← parseE r; let (n, _) ← parseE r'; pure (.edUpdate o n)
  | _ => none

def handle (p : List Sexp) : String :=
  match p with
  | [.list [.atom "cfg", c], .list (.atom "ops" :: ops)] =>
    match c.nat?, ops.mapM parseOp with
    | some c, some ops =>
      match configs[c]? with
      | none => answer "bad-case"
      | some (kinds, eqk, compat) =>
        let keys := kinds.map keyerOf
        let eq := eqOf eqk
        let n := keys.length
        let (_, implObs) := ops.foldl (fun (acc : ISet Nat E × String) op =>
          let (s', res) := implOp eq acc.1 op
          (s', acc.2 ++ dump res (count s') (fun i k => getMany s' i k) n)) (empty keys, "")
        let (_, specObs) := ops.foldl (fun (acc : List E × String) op =>
          let (S', res) := specOp eq keys acc.1 op
          (S', acc.2 ++ dump res S'.length (fun i k => match keys[i]? with
            | some f => S'.filter (fun w => f w = k) | none => []) n)) ([], "")
        if compat then answer implObs specObs else answer implObs "?"
    | _, _ => answer "bad-case"
  | _ => answer "bad-case"

def main : IO Unit := runPure handle
