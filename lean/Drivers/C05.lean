/-
C05 driver.
  (c05 pushnot <pexpr>)                      → the Impl model `Gms.PushNot.push` of pushNotFiltersHelper
  (c05 tlp (db …) (qs Q T F N S) (sql …))    → the five results under the reference semantics,
                                               joined by " | " (all unordered)
  (c05 tlp-region <region> (db …) (qs …) …)  → a case the harness puts into the region of a known
                                               finding (the engine fails inside it): no prediction
                                               ("region", spec "?") if one of the statements really is
                                               in `Gms.FilterFold.Region_<region>`, "not-in-region" otherwise
  pexpr ::= (atom n 0|1) | (not e) | (and a b) | (or a b) | (cmp op a b) | (between v lo hi)
          | (other tag 0|1 (e*))
-/
import Gms.Driver.SqlProto
import Gms.Model.PushNot
import Gms.Model.FilterFold
open Gms.Proto Gms.Sql Gms.Rel Gms.SqlProto Gms.PushNot

partial def pexpr? : Sexp → Option PExpr
  | .list [.atom "atom", n, b] => do some (.atom (← n.nat?) ((← b.nat?) == 1))
  | .list [.atom "not", e] => do some (.not (← pexpr? e))
  | .list [.atom "and", a, b] => do some (.and (← pexpr? a) (← pexpr? b))
  | .list [.atom "or", a, b] => do some (.or (← pexpr? a) (← pexpr? b))
  | .list [.atom "cmp", .atom op, a, b] => do some (.cmp (← cmpOp? op) (← pexpr? a) (← pexpr? b))
  | .list [.atom "between", v, lo, hi] => do some (.between (← pexpr? v) (← pexpr? lo) (← pexpr? hi))
  | .list [.atom "other", t, b, .list cs] => do
    some (.other (← t.nat?) ((← b.nat?) == 1) (← cs.mapM pexpr?))
  | _ => none

def cmpName : CmpOp → String
  | .eq => "eq" | .ne => "ne" | .lt => "lt" | .le => "le" | .gt => "gt" | .ge => "ge" | .nseq => "nseq"

partial def showP : PExpr → String
  | .atom n b => s!"(atom {n} {if b then 1 else 0})"
  | .not e => s!"(not {showP e})"
  | .and a b => s!"(and {showP a} {showP b})"
  | .or a b => s!"(or {showP a} {showP b})"
  | .cmp op a b => s!"(cmp {cmpName op} {showP a} {showP b})"
  | .between v lo hi => s!"(between {showP v} {showP lo} {showP hi})"
  | .other t b cs => s!"(other {t} {if b then 1 else 0} ({" ".intercalate (cs.map showP)}))"

def handle (p : List Sexp) : String :=
  match p with
  | [.list [.atom "c05", .atom "pushnot", e]] =>
    match pexpr? e with
    | some e => answer (showP (push e))
    | none => answer "bad-case"
  | [.list (.atom "c05" :: .atom "tlp" :: items)] =>
    match (field items "db").bind db?, (fieldArgs items "qs").mapM query? with
    | some (tys, db), some qs =>
      if qs.length == 5 && qs.all (check tys db) then
        answer (" | ".intercalate (qs.map (fun q => showRows false (eval db q))))
      else answer "ill-typed"
    | _, _ => answer "bad-case"
  | [.list (.atom "c05" :: .atom "tlp-region" :: .atom region :: items)] =>
    match (field items "db").bind db?, (fieldArgs items "qs").mapM query? with
    | some (tys, db), some qs =>
      if !(qs.length == 5 && qs.all (check tys db)) then answer "ill-typed"
      else if region == "join_on_folds_false_beside_subquery"
          && qs.any Gms.FilterFold.Region_join_on_folds_false_beside_subquery then answer "region" "?"
      else answer "not-in-region"
    | _, _ => answer "bad-case"
  | _ => answer "bad-case"

def main : IO Unit := runPure handle
