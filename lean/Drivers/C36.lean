import Gms.Driver.Proto
import Gms.Model.NonInterf
import Gms.Model.SharedStore
open Gms.Proto Gms.NonInterf Gms.SharedStore

/-
Driver for C36. One case = one batch:
  (batch K (progs (<stmt> …) … ) (sched i i i …))
A table query arrives as `(read <digest of its result when run alone> <sel> <warn> <info> <sql>)`:
in the model its result is a function of the committed store only, and that function is what the
harness measured on the store. Impl model = `run` on the observed schedule, Spec = every session's
program executed alone (`seqRun`).

A batch of the idx stream carries the physical storage the concurrent phase started from:
  (ibatch K (store (tbl (rows (pk v) …) (sec (key pk idx) …)) …) (progs …) (sched …))
and statements `(pq <table> <kind> <lo> <hi> <desc> <lim> <sel> <warn> <sql>)` whose result is
COMPUTED from that storage (`Db := Gms.SharedStore.Store`): by the access paths of the memory
backend in the Impl model (`pqImpl`), by the statement's meaning on the logical table in the Spec
(`pqSpec`) — equal on consistent storage by `Gms.C36.pq_impl_eq_spec`.
-/

def strOf (bs : List UInt8) : String := String.ofList (bs.map fun b => Char.ofNat b.toNat)

def optInt? : Sexp → Option (Option Int)
  | .atom "N" => some none
  | .atom s => s.toInt?.map some
  | _ => none

def parseQ (kind : String) (lo hi : Option Int) (desc : Bool) (lim : Int) : Option Q :=
  match kind with
  | "pkr" => some (.pkr lo hi desc (if lim < 0 then none else some lim.toNat))
  | "seq" | "srows" =>
    match lo, hi with
    | some l, some h => some (.srows l h)
    | _, _ => none
  | "srng" => some (.srng lo hi desc)
  | "scan" => some .scan
  | "agg" => some .agg
  | _ => none

/-- A statement: (for the Impl model, for the Spec, resolves information_schema). -/
def parseStmt : Sexp → Option (Stmt Store × Stmt Store × Bool)
  | .list [.atom "read", .atom d, .atom sel, .atom w, .atom info, _] =>
    match w.toInt? with
    | some wi =>
      let st : Stmt Store := .read (fun _ => d) (sel == "1") (if wi < 0 then none else some wi.toNat)
      some (st, st, info == "1")
    | none => none
  | .list [.atom "vol", .atom sel, .atom w, .atom info, _] =>
    match w.toInt? with
    | some wi =>
      let st : Stmt Store := .read (fun _ => "vol") (sel == "1") (if wi < 0 then none else some wi.toNat)
      some (st, st, info == "1")
    | none => none
  | .list [.atom "pq", .atom t, .atom kind, lo, hi, .atom desc, .atom lim, .atom sel, .atom w, _] =>
    match t.toNat?, optInt? lo, optInt? hi, lim.toInt?, w.toInt? with
    | some t, some lo, some hi, some lim, some wi =>
      match parseQ kind lo hi (desc == "1") lim with
      | some q =>
        let warn := if wi < 0 then none else some wi.toNat
        some (.read (pqImpl t q) (sel == "1") warn, .read (pqSpec t q) (sel == "1") warn, false)
      | none => none
    | _, _, _, _, _ => none
  | .list [.atom "setvar", v, .atom k] =>
    match v.bytes?, k.toInt? with
    | some v, some k => some (.setVar (strOf v) k, .setVar (strOf v) k, false)
    | _, _ => none
  | .list [.atom "addvar", v, .atom k] =>
    match v.bytes?, k.toInt? with
    | some v, some k => some (.addVar (strOf v) k, .addVar (strOf v) k, false)
    | _, _ => none
  | .list [.atom "getvar", v] => (v.bytes?).map fun v => (.getVar (strOf v), .getVar (strOf v), false)
  | .list [.atom "usedb", d] => (d.bytes?).map fun d => (.useDb (strOf d), .useDb (strOf d), false)
  | .list [.atom "curdb"] => some (.curDb, .curDb, false)
  | .list [.atom "sq"] => some (.sessQuestions, .sessQuestions, false)
  | .list [.atom "scs"] => some (.sessComSelect, .sessComSelect, false)
  | .list [.atom "div0"] => some (.divZero, .divZero, false)
  | .list [.atom "showwarn"] => some (.showWarnings, .showWarnings, false)
  | _ => none

def parseRow : Sexp → Option Row
  | .list [pk, v] =>
    match pk.int?, optInt? v with
    | some pk, some v => some { pk := pk, v := v }
    | _, _ => none
  | _ => none

def parseEntry : Sexp → Option Entry
  | .list [key, pk, idx] =>
    match optInt? key, pk.int?, idx.nat? with
    | some key, some pk, some idx => some { key := key, pk := pk, idx := idx }
    | _, _, _ => none
  | _ => none

def parseTbl : Sexp → Option Phys
  | .list [.atom "tbl", .list (.atom "rows" :: rs), .list (.atom "sec" :: es)] =>
    match rs.mapM parseRow, es.mapM parseEntry with
    | some rows, some sec => some { rows := rows, sec := sec }
    | _, _ => none
  | _ => none

def renderSess (results : List String) (l : Local) : String :=
  "(" ++ " ".intercalate results ++ (if results.isEmpty then "" else " ") ++ "q=" ++ toString l.questions ++ " cs=" ++ toString l.comSelect ++ ")"

def handleBatch (k : String) (store : Store) (ps sched : List Sexp) : String :=
  match k.toNat?, ps.mapM (fun s => s.items.mapM parseStmt), sched.mapM Sexp.nat? with
  | some n, some progsI, some evs =>
    let implA : Array (List (Stmt Store)) := (progsI.map fun l => l.map (·.1)).toArray
    let specA : Array (List (Stmt Store)) := (progsI.map fun l => l.map (·.2.1)).toArray
    let progs : Nat → List (Stmt Store) := fun i => implA.getD i []
    let progsSpec : Nat → List (Stmt Store) := fun i => specA.getD i []
    let ids := List.range n
    -- Impl model: the interleaving on the observed schedule, statements reading the storage through
    -- the access paths
    let g := run n progs store evs
    let impl := " ".intercalate (ids.map fun i => renderSess (g.sess i).results.reverse (g.sess i).loc) ++
      " Q=" ++ toString g.questions ++ " CS=" ++ toString g.comSelect ++ " running=" ++ toString g.running
    -- Spec: every program alone, statements meaning what they mean on the logical tables
    let seqs := ids.map fun i => seqRun store (progsSpec i) initLocal
    let spec := " ".intercalate (seqs.map fun r => renderSess r.1 r.2) ++
      " Q=" ++ toString ((ids.map fun i => (progsSpec i).length).foldl (· + ·) 0) ++
      " CS=" ++ toString ((seqs.map fun r => r.2.comSelect).foldl (· + ·) 0) ++ " running=0"
    -- lockset verdict of the footprint model: do two sessions resolve information_schema tables?
    let infoSessions := (progsI.filter fun l => l.any (·.2.2)).length
    let region := if infoSessions ≥ 2 then "infoschema_assign_catalog_race" else "-"
    if impl == spec then answer impl "=" "-" else answer impl spec region
  | _, _, _ => answer "bad-case"

def handle (p : List Sexp) : String :=
  match p with
  | [.list [.atom "batch", .atom k, .list (.atom "progs" :: ps), .list (.atom "sched" :: sched)]] =>
    handleBatch k [] ps sched
  | [.list [.atom "ibatch", .atom k, .list (.atom "store" :: ts), .list (.atom "progs" :: ps), .list (.atom "sched" :: sched)]] =>
    match ts.mapM parseTbl with
    | some store => handleBatch k store ps sched
    | none => answer "bad-case"
  | _ => answer "bad-case"

def main : IO Unit := runPure handle
