import Gms.Driver.Proto
import Gms.Model.NonInterf
open Gms.Proto Gms.NonInterf

/-
Driver for C36. One case = one batch:
  (batch K (progs (<stmt> …) … ) (sched i i i …))
A table query arrives as `(read <digest of its result when run alone> <sel> <warn> <info> <sql>)`:
in the model its result is a function of the committed store only, and that function is what the
harness measured on the store (`Db := Unit` here). Impl model = `run` on the observed schedule,
Spec = every session's program executed alone (`seqRun`).
-/

def strOf (bs : List UInt8) : String := String.ofList (bs.map fun b => Char.ofNat b.toNat)

def parseStmt : Sexp → Option (Stmt Unit × Bool)
  | .list [.atom "read", .atom d, .atom sel, .atom w, .atom info, _] =>
    match w.toInt? with
    | some wi => some (.read (fun _ => d) (sel == "1") (if wi < 0 then none else some wi.toNat), info == "1")
    | none => none
  | .list [.atom "vol", .atom sel, .atom w, .atom info, _] =>
    match w.toInt? with
    | some wi => some (.read (fun _ => "vol") (sel == "1") (if wi < 0 then none else some wi.toNat), info == "1")
    | none => none
  | .list [.atom "setvar", v, .atom k] =>
    match v.bytes?, k.toInt? with
    | some v, some k => some (.setVar (strOf v) k, false)
    | _, _ => none
  | .list [.atom "addvar", v, .atom k] =>
    match v.bytes?, k.toInt? with
    | some v, some k => some (.addVar (strOf v) k, false)
    | _, _ => none
  | .list [.atom "getvar", v] => (v.bytes?).map fun v => (.getVar (strOf v), false)
  | .list [.atom "usedb", d] => (d.bytes?).map fun d => (.useDb (strOf d), false)
  | .list [.atom "curdb"] => some (.curDb, false)
  | .list [.atom "sq"] => some (.sessQuestions, false)
  | .list [.atom "scs"] => some (.sessComSelect, false)
  | .list [.atom "div0"] => some (.divZero, false)
  | .list [.atom "showwarn"] => some (.showWarnings, false)
  | _ => none

def renderSess (results : List String) (l : Local) : String :=
  "(" ++ " ".intercalate results ++ (if results.isEmpty then "" else " ") ++ "q=" ++ toString l.questions ++ " cs=" ++ toString l.comSelect ++ ")"

def handle (p : List Sexp) : String :=
  match p with
  | [.list [.atom "batch", .atom k, .list (.atom "progs" :: ps), .list (.atom "sched" :: sched)]] =>
    match k.toNat?, ps.mapM (fun s => s.items.mapM parseStmt), sched.mapM Sexp.nat? with
    | some n, some progsI, some evs =>
      let progsA : Array (List (Stmt Unit)) := (progsI.map fun l => l.map (·.1)).toArray
      let progs : Nat → List (Stmt Unit) := fun i => progsA.getD i []
      let ids := List.range n
      -- Impl model: the interleaving on the observed schedule
      let g := run n progs () evs
      let impl := " ".intercalate (ids.map fun i => renderSess (g.sess i).results.reverse (g.sess i).loc) ++
        " Q=" ++ toString g.questions ++ " CS=" ++ toString g.comSelect ++ " running=" ++ toString g.running
      -- Spec: every program alone
      let seqs := ids.map fun i => seqRun () (progs i) initLocal
      let spec := " ".intercalate (seqs.map fun r => renderSess r.1 r.2) ++
        " Q=" ++ toString ((ids.map fun i => (progs i).length).foldl (· + ·) 0) ++
        " CS=" ++ toString ((seqs.map fun r => r.2.comSelect).foldl (· + ·) 0) ++ " running=0"
      -- lockset verdict of the footprint model: do two sessions resolve information_schema tables?
      let infoSessions := (progsI.filter fun l => l.any (·.2)).length
      let region := if infoSessions ≥ 2 then "infoschema_assign_catalog_race" else "-"
      if impl == spec then answer impl "=" "-" else answer impl spec region
    | _, _, _ => answer "bad-case"
  | _ => answer "bad-case"

def main : IO Unit := runPure handle
