/-
C08 driver. Payloads:

  (rowsf <lo> <hi> ps pe)                       unit level: the interval stream of the real ROWS
                                                framer for the partition [ps,pe)
  (rangef <lo> <hi> desc (k…) ps pe)            unit level: the interval stream of the real RANGE
                                                framer over the key column k… (null | int)
  (win (rows (id p k x)…) (part b) (ord (col dir)…) (frame …) (fn …))
                                                SQL level: SELECT id, F OVER (…) FROM t
  (grp (rows (id p k x)…) (by b) (fn name))     SQL level: SELECT [p,] F(x) FROM t [GROUP BY p]

  (dec (rows (id p d)…) (script (g b f…)…))     SQL level: a script of SELECT [p,] F1(d),…,Fk(d) FROM t
                                                [GROUP BY p] over a DECIMAL column (d in hundredths), each
                                                statement followed by a dump of the stored column

bounds: up | (p n) | cur | (f n) | uf.   Answer: implModelObs, specObs, region.
-/
import Gms.Driver.Proto
import Gms.Model.Window
import Gms.Model.GroupAgg
import Gms.Model.DecAgg
open Gms.Proto Gms.Window

def bound? : Sexp → Option Bound
  | .atom "up" => some .up
  | .atom "cur" => some .cur
  | .atom "uf" => some .uf
  | .list [.atom "p", n] => n.nat?.map .prec
  | .list [.atom "f", n] => n.nat?.map .foll
  | _ => none

def val? : Sexp → Option Val
  | .atom "null" => some none
  | a => a.int?.map some

def row? : Sexp → Option Row
  | .list [i, p, k, x] => do
    let i ← i.int?; let p ← val? p; let k ← val? k; let x ← val? x
    pure { id := i, p := p, k := k, x := x }
  | _ => none

def ordKey? : Sexp → Option OrdKey
  | .list [.atom c, .atom d] => do
    let col ← (match c with | "k" => some Col.k | "id" => some Col.id | "p" => some Col.p | _ => none)
    let desc ← (match d with | "asc" => some false | "desc" => some true | _ => none)
    pure { col := col, desc := desc }
  | _ => none

def frame? : Sexp → Option FrameSpec
  | .atom "none" => some .none
  | .list [.atom "rows", lo, hi] => do pure (.rows (← bound? lo) (← bound? hi))
  | .list [.atom "range", lo, hi] => do pure (.range (← bound? lo) (← bound? hi))
  | _ => none

def dflt? : Sexp → Option Val
  | .atom "nodef" => some none
  | a => a.int?.map some

def fn? : Sexp → Option Fn
  | .list [.atom "count_star"] => some (.agg .countStar)
  | .list [.atom "count"] => some (.agg .count)
  | .list [.atom "sum"] => some (.agg .sum)
  | .list [.atom "avg"] => some (.agg .avg)
  | .list [.atom "min"] => some (.agg .min)
  | .list [.atom "max"] => some (.agg .max)
  | .list [.atom "first"] => some (.agg .first)
  | .list [.atom "last"] => some (.agg .last)
  | .list [.atom "rownum"] => some .rowNumber
  | .list [.atom "rank"] => some .rank
  | .list [.atom "dense"] => some .denseRank
  | .list [.atom "prank"] => some .percentRank
  | .list [.atom "ntile", n] => n.nat?.map .ntile
  | .list [.atom "lag", o, d] => do pure (.lag (← o.nat?) (← dflt? d))
  | .list [.atom "lead", o, d] => do pure (.lead (← o.nat?) (← dflt? d))
  | _ => none

/-- micro-units, rounded half up: what the harness makes of the engine's float64 -/
def micro (n : Int) (d : Nat) : Int := (2 * n * 1000000 + d) / (2 * (d : Int))

def showRes : Res → String
  | .null => "null"
  | .int v => toString v
  | .rat n d => if d = 0 then "nan" else "r" ++ toString (micro n d)
  | .nan => "nan"

def insertById (x : Int × Res) : List (Int × Res) → List (Int × Res)
  | [] => [x]
  | y :: ys => if x.1 < y.1 then x :: y :: ys else y :: insertById x ys

def showRows (rs : List (Int × Res)) : String :=
  let sorted := rs.foldl (fun acc r => insertById r acc) []
  " ".intercalate (sorted.map fun (i, r) => toString i ++ "=" ++ showRes r)

def showIv (ps pe : Int) (iv : Int × Int) : String :=
  let (s, e) := iv
  if s < e then toString s ++ ":" ++ toString e
  else if s = e ∧ ps ≤ s ∧ s ≤ pe then "E"
  else "E!" ++ toString s ++ ":" ++ toString e

/-- render a frame *set* (the members among ps..pe-1) -/
def showSet (ps pe : Nat) (mem : Nat → Bool) : String :=
  let ms := (List.range (pe - ps)).filterMap fun d => if mem (ps + d) then some (ps + d) else none
  match ms.head?, ms.getLast? with
  | some a, some b =>
    if ms.length = b + 1 - a then toString a ++ ":" ++ toString (b + 1)
    else "S{" ++ ",".intercalate (ms.map toString) ++ "}"
  | _, _ => "E"

def rowsfCase (lo hi : Bound) (ps pe : Nat) : String :=
  let c := cfgOfBounds lo hi
  let ivs := rowsStream c ps pe (pe - ps + 2) ps
  let impl := " ".intercalate (ivs.map (showIv ps pe))
  let spec := " ".intercalate ((List.range (pe - ps)).map fun d => showSet ps pe (rowsMem lo hi ps pe (ps + d)))
  let region :=
    if impl == spec then "-"
    else if (List.range (pe - ps)).any (fun d => rowsEndBeforePartition c ps pe ((ps + d : Nat) : Int)) then
      "rows_frame_before_partition"
    else "-"
  answer impl spec region

def rangefCase (lo hi : Bound) (desc : Bool) (keys : List Val) (ps pe : Nat) : String :=
  let c := rangeCfgOfBounds lo hi true
  let ivs := rangeStream c keys ps pe (pe - ps + 2) { idx := ps, frameStart := ps, frameEnd := ps }
  let impl := " ".intercalate (ivs.map fun (a, b) => showIv ps pe ((a : Int), (b : Int)))
  let spec := " ".intercalate ((List.range (pe - ps)).map fun d => showSet ps pe (rangeMem lo hi desc keys ps pe (ps + d)))
  let region :=
    if impl == spec then "-"
    else if desc then "range_desc"
    else if hasNullKey keys ps pe then "range_null_key"
    else "-"
  answer impl spec region

/-- region of a SQL-level case on which Impl model ≠ Spec (feature/value classes of the case) -/
def winRegion (q : Query) (rows : List Row) : String :=
  let buf := q.buffer rows
  let parts := partitions q.partCols buf
  let keys := q.rangeKeys buf
  let firstDesc := match q.ord with | o :: _ => o.desc | [] => false
  let anyRow (f : Nat → Nat → Nat → Bool) : Bool := parts.any fun (ps, pe) => (List.range (pe - ps)).any fun d => f ps pe (ps + d)
  let minBefore :=
    match q.fn, q.frame with
    | .agg f, .rows lo hi =>
      (f == AggFn.min) && anyRow fun ps pe i =>
        let iv := rowsInterval (cfgOfBounds lo hi) ps pe i
        decide (iv.2 < 0)
    | _, _ => false
  if minBefore then "rows_frame_before_partition"
  else if q.usesRangeFramer && firstDesc then "range_desc"
  else if q.usesRangeFramer && parts.any (fun (ps, pe) => hasNullKey keys ps pe) then "range_null_key"
  else if q.usesRangeFramer && q.ord.length ≥ 2 then "range_first_key_only"
  else if q.isAgg [.last] && q.frame == FrameSpec.none && !q.ord.isEmpty then "last_value_default_frame"
  else if q.isAgg [.sum] && anyRow (fun ps pe i =>
      let vs := frameVals q buf ps pe i; !vs.isEmpty && (nonNull vs).isEmpty) then "sum_all_null_frame"
  else if q.isAgg [.avg] && anyRow (fun ps pe i => (nonNull (frameVals q buf ps pe i)).isEmpty) then "avg_no_values_nan"
  else "-"

def winCase (q : Query) (rows : List Row) : String :=
  let impl := match implQuery q rows with
    | none => "crash"
    | some rs => showRows rs
  let spec := showRows (specQuery q rows)
  if impl == spec then answer impl else answer impl spec (winRegion q rows)

/-- two NTILEs over the same window in one SELECT: the engine identifies window functions without their
argument, the second column repeats the first (finding `ntile_shared_window_dedup`) -/
def ntile2Case (rows : List Row) (part : Bool) (n1 n2 : Nat) : String :=
  let q (n : Nat) : Query := { part := part, ord := [{ col := .id, desc := false }], frame := .none, fn := .ntile n }
  let pair (a b : List (Int × Res)) : String :=
    " ".intercalate ((a.zip b).map fun ((i, x), (_, y)) => toString i ++ "=" ++ showRes x ++ "/" ++ showRes y)
  let sortId (rs : List (Int × Res)) := rs.foldl (fun acc r => insertById r acc) []
  match implQuery (q n1) rows with
  | none => answer "crash"
  | some a =>
    let impl := pair (sortId a) (sortId a)
    let spec := pair (sortId (specQuery (q n1) rows)) (sortId (specQuery (q n2) rows))
    if impl == spec then answer impl else answer impl spec (if n1 != n2 then "ntile_shared_window_dedup" else "-")

def decRow? : Sexp → Option (Int × Val × Val)
  | .list [i, p, d] => do
    let i ← i.int?; let p ← val? p; let d ← val? d
    pure (i, p, d)
  | _ => none

def decStmt? : Sexp → Option Gms.DecAgg.Stmt
  | .list (.atom "g" :: b :: fs) => do
    let b ← b.nat?
    let fns ← fs.mapM fun f => match f with | .atom n => Gms.DecAgg.fnOfName n | _ => none
    pure { byP := b == 1, fns := fns }
  | _ => none

/-- Impl model: the buffers as the compiled code has them (`fresh` accumulators, pinned by the fact
`aggAlias` through `Gms.C08.facts_alias`); Spec: definitions on the table's values, table unchanged -/
def decCase (rows : List (Int × Val × Val)) (script : List Gms.DecAgg.Stmt) : String :=
  let (h, trows) := Gms.DecAgg.mkTable rows []
  let impl := Gms.DecAgg.showScript script (Gms.DecAgg.runScript .fresh h trows script)
  let spec := Gms.DecAgg.showScript script (Gms.DecAgg.specScript h trows script)
  if impl == spec then answer impl else answer impl spec "-"

def handle (p : List Sexp) : String :=
  match p with
  | [.list [.atom "dec", .list (.atom "rows" :: rs), .list (.atom "script" :: ss)]] =>
    match rs.mapM decRow?, ss.mapM decStmt? with
    | some rows, some script => decCase rows script
    | _, _ => answer "bad-case"
  | [.list [.atom "ntile2", .list (.atom "rows" :: rs), .list [.atom "part", b], n1, n2]] =>
    match rs.mapM row?, b.nat?, n1.nat?, n2.nat? with
    | some rows, some b, some n1, some n2 => ntile2Case rows (b == 1) n1 n2
    | _, _, _, _ => answer "bad-case"
  | [.list [.atom "rowsf", lo, hi, ps, pe]] =>
    match bound? lo, bound? hi, ps.nat?, pe.nat? with
    | some lo, some hi, some ps, some pe => rowsfCase lo hi ps pe
    | _, _, _, _ => answer "bad-case"
  | [.list [.atom "rangef", lo, hi, d, .list ks, ps, pe]] =>
    match bound? lo, bound? hi, d.nat?, ks.mapM val?, ps.nat?, pe.nat? with
    | some lo, some hi, some d, some ks, some ps, some pe => rangefCase lo hi (d == 1) ks ps pe
    | _, _, _, _, _, _ => answer "bad-case"
  | [.list [.atom "win", .list (.atom "rows" :: rs), .list [.atom "part", b], .list (.atom "ord" :: os),
        .list [.atom "frame", fr], .list [.atom "fn", f]]] =>
    match rs.mapM row?, b.nat?, os.mapM ordKey?, frame? fr, fn? f with
    | some rows, some b, some ord, some fr, some f =>
      winCase { part := b == 1, ord := ord, frame := fr, fn := f } rows
    | _, _, _, _, _ => answer "bad-case"
  | [.list [.atom "grp", .list (.atom "rows" :: rs), .list [.atom "by", b], .list [.atom "fn", .atom f]]] =>
    match rs.mapM row?, b.nat?, Gms.GroupAgg.fnOfName f with
    | some rows, some b, some f =>
      let impl := Gms.GroupAgg.showOut (Gms.GroupAgg.implQuery f (b == 1) (rows.map fun r => (r.p, r.x)))
      let spec := Gms.GroupAgg.showOut (Gms.GroupAgg.specQuery f (b == 1) (rows.map fun r => (r.p, r.x)))
      if impl == spec then answer impl else answer impl spec (Gms.GroupAgg.region f (b == 1) (rows.map fun r => (r.p, r.x)))
    | _, _, _ => answer "bad-case"
  | _ => answer "bad-case"

def main : IO Unit := runPure handle
