import Gms.Driver.Proto
import Gms.Model.Crash
import Gms.Model.SliceMap
import Gms.Model.StoredReparse
import Gms.Generated.C10
open Gms.Proto Gms.RangeMap Gms.Crash

/-
Driver for C10.
  (rm <charset> dec|enc|rep x<bytes>)  outcome class of the conversion; `Encode` is instantiated with
                                       the length-guard flag re-read from the source
  (unq x<bytes>)                       outcome class of `Unquote`
  (auth <len> <hashOk> <valid>)        `ValidateHash` with a response of <len> bytes: accepted | denied | crash
  (loc x<needle> x<haystack> [<pos>])  `Locate.Eval` on literals: the value or `crash` (Impl model `locateG` with
                                       `strings.ToLower` over the regenerated case table; the Spec column is `?`:
                                       the property — no panic — is evaluated by the harness's oracle)
  (rp <step> …)                        stored-procedure history `(m NAME…) | (c n body) | (k n) | (l)`: one outcome
                                       class per step (Impl model `StoredReparse.run` with the recorded-mode policy)
  (sql <stream> x<text>)               `returns`: what the property demands of every statement (the
                                       engine as a whole is not modelled; crashes reach the check
                                       through the harness's oracle stream)
-/

def table? (name : String) : Option RangeMap :=
  (Gms.Generated.C10.tables.find? (fun p => p.1 == name)).map (·.2)

def rpStep? : Sexp → Option (Gms.StoredReparse.Stmt Nat)
  | .list (.atom "m" :: names) => some (.setMode (names.filterMap Sexp.str?))
  | .list [.atom "c", n, b] => do some (.create (← n.nat?) (← b.nat?))
  | .list [.atom "k", n] => do some (.call (← n.nat?))
  | .list [.atom "l"] => some .list
  | _ => none

/-- the session's sql_mode before the first SET -/
def defaultMode : Gms.StoredReparse.Mode := ["NO_ENGINE_SUBSTITUTION", "ONLY_FULL_GROUP_BY", "STRICT_TRANS_TABLES"]

def handle (p : List Sexp) : String :=
  match p with
  | [.list (.atom "loc" :: sub :: str :: rest)] =>
    let pos : Option Int := match rest with
      | [] => some 1
      | [q] => q.int?
      | _ => none
    match sub.bytes?, str.bytes?, pos with
    | some sb, some b, some q =>
      let lower := Gms.SliceMap.lowerWith Gms.Generated.C10.caseTable
      answer (Gms.SliceMap.locObs (Gms.SliceMap.locateG lower (sb.map (·.toNat)) (b.map (·.toNat)) q)) "?"
    | _, _, _ => answer "bad-case"
  | [.list (.atom "rp" :: steps)] =>
    match steps.mapM rpStep? with
    | some h =>
      let obs := Gms.StoredReparse.run Gms.StoredReparse.rpParses Gms.StoredReparse.recordedPolicy (Gms.StoredReparse.St.init defaultMode) h
      answer (",".intercalate (obs.map Gms.StoredReparse.Obs.str))
    | none => answer "bad-case"
  | [.list [.atom "rm", .atom cs, .atom op, bs]] =>
    match table? cs, bs.bytes? with
    | some rm, some b =>
      let s := b.map (·.toNat)
      if op == "dec" then answer (resClass (decode rm s))
      else if op == "rep" then answer (resClass (replace rm s))
      else if op == "enc" then
        let impl := encodeG Gms.Generated.C10.encodeHasLengthGuard rm s
        let spec := encodeG true rm s
        if resClass impl == resClass spec then answer (resClass impl)
        else answer (resClass impl) (resClass spec) "rangemap_encode_unguarded_tail"
      else answer "bad-case"
    | _, _ => answer "bad-case"
  | [.list [.atom "unq", bs]] =>
    match bs.bytes? with
    | some b =>
      let impl := unquoteClass (Gms.JsonQuote.unquote b)
      let spec := unquoteClass (Gms.JsonQuote.unquoteSpec b)
      if impl == spec then answer impl else answer impl spec "unquote_bad_unicode_escape"
    | none => answer "bad-case"
  | [.list [.atom "auth", n, .atom h, .atom v]] =>
    match n.nat? with
    | some n =>
      let scramble := List.replicate 20 0
      let resp := List.replicate n 1
      -- `valid`: the response starts with the right token; a compared response is accepted iff it is
      -- the token itself
      let cls := fun (a : Auth) => match a with
        | .crash => "crash"
        | .compared => if v == "1" then "accepted" else "denied"
        | .rejected => "denied"
      let impl := cls (nativePassword scramble resp (h == "1"))
      let spec := cls (nativePasswordSpec scramble resp (h == "1"))
      -- equal for all inputs by `C10.native_password_eq_spec`; a disagreement has no listed region
      if impl == spec then answer impl else answer impl spec "-"
    | none => answer "bad-case"
  | [.list [.atom "sql", _, _]] => answer "returns"
  | [.list [.atom "sql", _, _, _]] => answer "returns"
  | _ => answer "bad-case"

def main : IO Unit := runPure handle
