import Gms.Driver.Proto
import Gms.Model.Crash
import Gms.Generated.C10
open Gms.Proto Gms.RangeMap Gms.Crash

/-
Driver for C10.
  (rm <charset> dec|enc|rep x<bytes>)  outcome class of the conversion; `Encode` is instantiated with
                                       the length-guard flag re-read from the source
  (unq x<bytes>)                       outcome class of `Unquote`
  (auth <len> <hashOk> <valid>)        `ValidateHash` with a response of <len> bytes: accepted | denied | crash
  (sql <stream> x<text>)               `returns`: what the property demands of every statement (the
                                       engine as a whole is not modelled; crashes reach the check
                                       through the harness's oracle stream)
-/

def table? (name : String) : Option RangeMap :=
  (Gms.Generated.C10.tables.find? (fun p => p.1 == name)).map (·.2)

def handle (p : List Sexp) : String :=
  match p with
  | [.list [.atom "rm", .atom cs, .atom op, bs]] =>
    match table? cs, bs.bytes? with
    | some rm, some b =>
      let s := b.map (·.toNat)
      if op == "dec" then answer (resClass (decode rm s))
      else if op == "rep" then answer (resClass (replace rm s))
      else if op == "enc" then
        let impl := encodeG Gms.Generated.C10.encodeHasLengthGuard rm s
        let spec := encodeG true rm s
        if resClass impl == resClass spec then answer (resClass impl)
        else answer (resClass impl) (resClass spec) "rangemap_encode_unguarded_tail"
      else answer "bad-case"
    | _, _ => answer "bad-case"
  | [.list [.atom "unq", bs]] =>
    match bs.bytes? with
    | some b =>
      let impl := unquoteClass (Gms.JsonQuote.unquote b)
      let spec := unquoteClass (Gms.JsonQuote.unquoteSpec b)
      if impl == spec then answer impl else answer impl spec "unquote_bad_unicode_escape"
    | none => answer "bad-case"
  | [.list [.atom "auth", n, .atom h, .atom v]] =>
    match n.nat? with
    | some n =>
      let scramble := List.replicate 20 0
      let resp := List.replicate n 1
      -- `valid`: the response starts with the right token; a compared response is accepted iff it is
      -- the token itself
      let cls := fun (a : Auth) => match a with
        | .crash => "crash"
        | .compared => if v == "1" then "accepted" else "denied"
        | .rejected => "denied"
      let impl := cls (nativePassword scramble resp (h == "1"))
      let spec := cls (nativePasswordSpec scramble resp (h == "1"))
      -- equal for all inputs by `C10.native_password_eq_spec`; a disagreement has no listed region
      if impl == spec then answer impl else answer impl spec "-"
    | none => answer "bad-case"
  | [.list [.atom "sql", _, _]] => answer "returns"
  | [.list [.atom "sql", _, _, _]] => answer "returns"
  | _ => answer "bad-case"

def main : IO Unit := runPure handle
