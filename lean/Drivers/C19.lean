import Gms.Driver.Proto
import Gms.Model.RowPipe
open Gms.Proto Gms.RowPipe

/-! Line-protocol driver for C19: runs a DML history on the row-pipeline model.

payload: `(cols (nn dflt gen)…) (checks (enf bexpr)…) (stmts …)`
observation per statement: `<class>;[row][row]…;ok=<0|1>|` -/

def parseVal : Sexp → Option Val
  | .atom "null" => some none
  | .atom s => s.toInt?.map some
  | _ => none

partial def parseE : Sexp → Option E
  | .list [.atom "col", i] => do pure (.col (← i.nat?))
  | .list [.atom "lit", v] => do pure (.lit (← parseVal v))
  | .list [.atom "add", a, b] => do pure (.add (← parseE a) (← parseE b))
  | .list [.atom "mul", a, b] => do pure (.mul (← parseE a) (← parseE b))
  | _ => none

partial def parseB : Sexp → Option B
  | .list [.atom "lt", a, b] => do pure (.lt (← parseE a) (← parseE b))
  | .list [.atom "le", a, b] => do pure (.le (← parseE a) (← parseE b))
  | .list [.atom "eq", a, b] => do pure (.eq (← parseE a) (← parseE b))
  | .list [.atom "ne", a, b] => do pure (.ne (← parseE a) (← parseE b))
  | .list [.atom "isnull", a] => do pure (.isNull (← parseE a))
  | .list [.atom "and", p, q] => do pure (.and (← parseB p) (← parseB q))
  | .list [.atom "or", p, q] => do pure (.or (← parseB p) (← parseB q))
  | .list [.atom "not", p] => do pure (.not (← parseB p))
  | _ => none

def parseCol : Sexp → Option ColSpec
  | .list [nn, d, g] => do
    let nn ← nn.nat?
    let d ← match d with
      | .atom "-" => some none
      | e => (parseE e).map some
    let g ← match g with
      | .atom "-" => some Gen.none
      | .list [.atom "s", e] => (parseE e).map Gen.stored
      | .list [.atom "v", e] => (parseE e).map Gen.virt
      | _ => none
    pure { notNull := nn == 1, dflt := d, gen := g }
  | _ => none

def parseChk : Sexp → Option Chk
  | .list [e, b] => do pure { expr := ← parseB b, enforced := (← e.nat?) == 1 }
  | _ => none

def parseSrc : Sexp → Option Src
  | .list [.atom "d"] => some .dflt
  | .list [.atom "v", v] => do pure (.val (← parseVal v))
  | .list [.atom "e", e] => do pure (.expr (← parseE e))
  | _ => none

def parseStmt : Sexp → Option Stmt
  | .list (.atom "ins" :: ig :: .list cols :: tuples) => do
    pure (.insert ((← ig.nat?) == 1) (← cols.mapM Sexp.nat?) (← tuples.mapM fun t => t.items.mapM parseSrc))
  | .list [.atom "upd", ig, .list sets, k] => do
    let sets ← sets.mapM fun s => match s with
      | .list [c, v] => do pure ((← c.nat?), (← parseSrc v))
      | _ => none
    let key ← match k with
      | .atom "all" => some none
      | k => k.int?.map some
    pure (.update ((← ig.nat?) == 1) sets key)
  | .list [.atom "del", k] => do pure (.delete (← k.int?))
  | _ => none

/-- A statement of a case: a plain statement or `INSERT … ON DUPLICATE KEY UPDATE` of one tuple. -/
inductive DStmt where
  | plain (st : Stmt)
  | odku (cols : List Nat) (vals : List Src) (sets : List (Nat × Src))

def parseDStmt : Sexp → Option DStmt
  | .list [.atom "odku", .list cols, .list vals, .list sets] => do
    let sets ← sets.mapM fun s => match s with
      | .list [c, v] => do pure ((← c.nat?), (← parseSrc v))
      | _ => none
    pure (.odku (← cols.mapM Sexp.nat?) (← vals.mapM parseSrc) sets)
  | s => (parseStmt s).map .plain

/-- The INSERT half of the statement (shape hypothesis, region of a rejected tuple). -/
def DStmt.shape : DStmt → Stmt
  | .plain st => st
  | .odku cols vals _ => .insert false cols [vals]

def fmtVal : Val → String
  | none => "null"
  | some v => toString v

def fmtRow (r : Row) : String := "[" ++ ",".intercalate (r.map fmtVal) ++ "]"

def fmtErr : Err → String
  | .notNull => "err:1048"
  | .check => "err:check"
  | .dup => "err:1062"

/-- Region predicates (defect classes decided on the table, the statement and the table contents
before the statement): `Gms.C19.RegionVirtual`, `Gms.C19.RegionIgnoreAdjust`. -/
def regionOf (T : Table) (rows : List Row) (st : Stmt) : String :=
  if T.checksLost then "virtual_column_disables_checks"
  else if stmtAdjusts T rows st then "ignore_null_adjustment"
  else "unclassified"

def handle (p : List Sexp) : String :=
  match p with
  | [.list (.atom "cols" :: cols), .list (.atom "checks" :: chks), .list (.atom "stmts" :: stmts)] =>
    match cols.mapM parseCol, chks.mapM parseChk, stmts.mapM parseDStmt with
    | some cols, some chks, some stmts =>
      let T : Table := { cols := cols, checks := chks }
      -- the structural hypotheses of the theorems are evaluated on every case
      if !T.wf || !(stmts.all fun d => stmtWf T d.shape) then answer "bad-case:hypotheses" else
      let (_, impl, spec, region) := stmts.foldl
        (fun (acc : List Row × String × String × String) d =>
          let (rows, impl, spec, region) := acc
          -- ON DUPLICATE KEY UPDATE runs as the plain statement `odkuStmt` names (`stepOdku`)
          let (st, (rows', e)) : Stmt × (List Row × Option Err) := match d with
            | .plain st => (st, step T rows st)
            | .odku cols vals sets =>
              ((match odkuStmt T rows cols vals sets with | .ok st => st | .error _ => d.shape),
               stepOdku T rows cols vals sets)
          let cls := match e with | none => "ok" | some e => fmtErr e
          let shown := isort pkLe (tableRows T rows')
          let body := cls ++ ";" ++ String.join (shown.map fmtRow) ++ ";ok="
          let ok := allStoredOk T rows'
          let region := if region == "-" && !ok then regionOf T rows st else region
          (rows', impl ++ body ++ (if ok then "1" else "0") ++ "|", spec ++ body ++ "1|", region))
        ([], "", "", "-")
      if impl == spec then answer impl else answer impl spec region
    | _, _, _ => answer "bad-case"
  | _ => answer "bad-case"

def main : IO Unit := runPure handle
