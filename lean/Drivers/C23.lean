import Gms.Driver.Proto
import Gms.Model.Triggers
open Gms.Proto Gms.Triggers

/-! Line-protocol driver for C23.

  (order <cap> <trig>*)                         unit level: plan.OrderTriggers on a slice of that capacity
  (stmt <cap> (trigs <trig>*) (rows (a b)*) <dml>)  SQL level: one DML statement, triggers of its event in creation
                                                order; <cap> = capacity of the slice applyTriggers hands to OrderTriggers
  <trig> ::= (<name> b|a n|p|f <ref> <setB|->)
  <dml>  ::= (insert (a b)*) | (update k lo) | (delete lo)
           | (insertr <form> (a10 b10)*)      values as written, in tenths (26 = 2.6); <form> = how the harness
                                              renders them (d literals, s strings, t INSERT … SELECT from a DECIMAL table)
           | (updater k10 lo)                 UPDATE t SET b = b + k10/10 WHERE a >= lo
  audit cells and observations show values as decimals with at most one fractional digit ("2.6", "-0.5", "3")
-/

def parseTrig : Sexp → Option Trig
  | .list [n, .atom tm, .atom k, r, sb] => do
    let n ← n.nat?
    let r ← r.nat?
    let time ← match tm with | "b" => some Timing.before | "a" => some Timing.after | _ => none
    let order ← match k with
      | "n" => some none
      | "p" => some (some (OrdKind.precedes, r))
      | "f" => some (some (OrdKind.follows, r))
      | _ => none
    let setB ← match sb with
      | .atom "-" => some none
      | s => s.int?.map some
    pure { name := n, time := time, order := order, setB := setB }
  | _ => none

def parseRow : Sexp → Option Row
  | .list [a, b] => do let a ← a.int?; let b ← b.int?; pure ⟨a, b⟩
  | _ => none

def parseRaw : Sexp → Option RawRow
  | .list [a, b] => do let a ← a.int?; let b ← b.int?; pure ⟨a, b⟩
  | _ => none

def parseDml : Sexp → Option Dml
  | .list (.atom "insert" :: rows) => (rows.mapM parseRow).map (fun rs => .insert (rs.map Row.raw))
  | .list (.atom "insertr" :: .atom _ :: rows) => (rows.mapM parseRaw).map .insert
  | .list [.atom "update", k, lo] => do let k ← k.int?; let lo ← lo.int?; pure (.update (10 * k) lo)
  | .list [.atom "updater", k, lo] => do let k ← k.int?; let lo ← lo.int?; pure (.update k lo)
  | .list [.atom "delete", lo] => lo.int?.map .delete
  | _ => none

def names (ts : List Trig) : String := ",".intercalate (ts.map fun t => toString t.name)

def showSplit (o : List Trig) : String := names (befores o) ++ "|" ++ names (afters o)

/-- tenths as a decimal: 26 ↦ "2.6", -5 ↦ "-0.5", 30 ↦ "3" -/
def showT (x : Int) : String :=
  let m := x.natAbs
  (if x < 0 then "-" else "") ++ toString (m / 10) ++ (if m % 10 == 0 then "" else "." ++ toString (m % 10))

def showOpt : Option Int → String
  | none => "N"
  | some n => showT n

def showAudit (a : Audit) : String :=
  s!"{a.n}:{showOpt a.oa}:{showOpt a.ob}:{showOpt a.na}:{showOpt a.nb}"

def showRes (r : StmtResult) : String :=
  (match r.outcome with | .ok => "ok" | .dupKey => "err:1062" | .crash => "crash") ++ "|" ++
    ",".intercalate (r.audit.map showAudit) ++ "|" ++ ",".intercalate (r.table.map fun x => s!"{x.a}:{x.b}")

def handle (p : List Sexp) : String :=
  match p with
  | [.list (.atom "order" :: cap :: trigs)] =>
    match cap.nat?, trigs.mapM parseTrig with
    | some cap, some ts =>
      let impl := match orderImpl cap ts with | none => "crash" | some o => showSplit o
      match specOrder ts with
      | none => answer impl "?" "-"
      | some o =>
        let spec := showSplit o
        if impl == spec then answer impl "=" "-"
        else answer impl spec (if aliasVisible cap ts then "order_input_aliasing" else "-")
    | _, _ => answer "bad-case"
  | [.list [.atom "stmt", cap, .list (.atom "trigs" :: trigs), .list (.atom "rows" :: rows), dml]] =>
    match cap.nat?, trigs.mapM parseTrig, rows.mapM parseRow, parseDml dml with
    | some cap, some ts, some rows, some d =>
      let ri := stmtImpl cap ts rows d
      let impl := showRes ri
      match stmtSpec ts rows d with
      | none => answer impl "?" "-"
      | some rs =>
        let spec := showRes rs
        if impl == spec then answer impl "=" "-"
        else
          let region :=
            if aliasVisible cap ts && orderImpl cap ts != specOrder ts then "order_input_aliasing"
            else if ri.outcome == .dupKey && !ri.audit.isEmpty then "failed_statement_keeps_trigger_effects"
            else if (match orderImpl cap ts with | some o => unconvertedSeen o d | none => false) then "before_insert_new_unconverted"
            else "-"
          answer impl spec region
    | _, _, _, _ => answer "bad-case"
  | _ => answer "bad-case"

def main : IO Unit := runPure handle
