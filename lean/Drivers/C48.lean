import Gms.Driver.Proto
import Gms.Model.Errguard
open Gms.Proto Gms.Errguard

/-- A function of a group: outcome (errors are indices, panic values are kind names), a delay,
or a nested group. -/
inductive Fn where
  | leaf (o : Outcome Nat String) (delay : Nat)
  | nest (inner : List Fn) (delay : Nat)

def splitDelay (s : String) : String × Nat :=
  match s.splitOn "@" with
  | [a, d] => (a, d.toNat?.getD 0)
  | _ => (s, 0)

partial def parseFns : List Sexp → List Fn → List Fn
  | [], acc => acc.reverse
  | .list (.atom "N" :: inner) :: .atom d :: rest, acc =>
    if d.startsWith "@" then parseFns rest (.nest (parseFns inner []) ((d.drop 1).toNat?.getD 0) :: acc)
    else parseFns (.atom d :: rest) (.nest (parseFns inner []) 0 :: acc)
  | .list (.atom "N" :: inner) :: rest, acc => parseFns rest (.nest (parseFns inner []) 0 :: acc)
  | .atom t :: rest, acc =>
    let (a, d) := splitDelay t
    let o : Outcome Nat String :=
      if a == "n" then .ret none
      else if a.startsWith "e" then .ret (some ((a.drop 1).toNat?.getD 0))
      else .panic (a.drop 1).toString
    parseFns rest (.leaf o d :: acc)
  | _ :: rest, acc => parseFns rest acc

def Fn.delay : Fn → Nat
  | .leaf _ d => d
  | .nest _ d => d

/-- Completion order: by delay (stable insertion sort). -/
def insertByDelay (f : Fn) : List Fn → List Fn
  | [] => [f]
  | g :: gs => if f.delay < g.delay then f :: g :: gs else g :: insertByDelay f gs

def sortByDelay (fs : List Fn) : List Fn := fs.foldl (fun acc f => insertByDelay f acc) []

instance : Inhabited (Outcome Nat String) := ⟨.ret none⟩

mutual
  partial def toOutcome : Fn → Outcome Nat String
    | .leaf o _ => o
    | .nest inner _ =>
      match groupWait inner with
      | none => .ret none
      | some (.same e) => .ret (some e)      -- the inner error is returned unchanged
      | some (.recovered v) => .panic v      -- observationally: still "panic recovered: v"
  partial def groupWait (fs : List Fn) : Option (GErr Nat String) :=
    wait ((sortByDelay fs).map toOutcome)
end

def render : Option (GErr Nat String) → String
  | none => "nil"
  | some (.same e) => s!"same:e{e}"
  | some (.recovered v) => s!"recovered:{v}"

def handle (p : List Sexp) : String :=
  match p with
  | [.list (.atom "group" :: fns)] => answer (render (groupWait (parseFns fns [])))
  | _ => answer "bad-case"

def main : IO Unit := runPure handle
