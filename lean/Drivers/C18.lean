import Gms.Driver.Proto
import Gms.Model.Fk
open Gms.Proto Gms.Fk

/-! Line-protocol driver for C18: runs a DML history on the foreign-key model.

payload: `(tabs (ncols (notnull…))…) (fks (child (cc…) parent (pc…) d u)…) (stmts …)`
observation per statement: `<class>;t0=[..][..]/t1=…;ri=<0|1>|` -/

def parseVal : Sexp → Option Val
  | .atom "null" => some none
  | .atom s => s.toInt?.map some
  | _ => none

def parseNats (s : Sexp) : Option (List Nat) := s.items.mapM Sexp.nat?

def parseAct : Sexp → Option Act
  | .atom "r" => some .restrict
  | .atom "c" => some .cascade
  | .atom "n" => some .setNull
  | _ => none

def parseFk : Sexp → Option Fk
  | .list [c, cc, p, pc, d, u] => do
    pure { child := ← c.nat?, ccols := ← parseNats cc, parent := ← p.nat?, pcols := ← parseNats pc,
           onDel := ← parseAct d, onUpd := ← parseAct u }
  | _ => none

def parseTab : Sexp → Option (Nat × List Nat)
  | .list [n, nn] => do pure (← n.nat?, ← parseNats nn)
  | _ => none

def parsePred : Sexp → Option Pred
  | .list [.atom "all"] => some .all
  | .list [.atom "eq", c, v] => do pure (.eq (← c.nat?) (← v.int?))
  | .list [.atom "nul", c] => do pure (.isNull (← c.nat?))
  | .list [.atom "lt", c, v] => do pure (.lt (← c.nat?) (← v.int?))
  | _ => none

def parseSet : Sexp → Option (Nat × SetExpr)
  | .list [c, .atom "k", v] => do pure (← c.nat?, .const (← parseVal v))
  | .list [c, .atom "a", c2, k] => do pure (← c.nat?, .addCol (← c2.nat?) (← k.int?))
  | _ => none

def parseStmt : Sexp → Option Stmt
  | .list (.atom "ins" :: t :: rows) => do
    pure (.insert (← t.nat?) (← rows.mapM fun r => r.items.mapM parseVal))
  | .list [.atom "upd", t, .list sets, w, .list [.atom "ord", .list ord]] => do
    pure (.update (← t.nat?) (← sets.mapM parseSet) (← parsePred w) (← ord.mapM Sexp.int?))
  | .list [.atom "del", t, w, .list [.atom "ord", .list ord]] => do
    pure (.delete (← t.nat?) (← parsePred w) (← ord.mapM Sexp.int?))
  | _ => none

def fmtVal : Val → String
  | none => "null"
  | some v => toString v

def fmtRow (r : Row) : String := "[" ++ ",".intercalate (r.map fmtVal) ++ "]"

def fmtDump (n : Nat) (db : Db) : String :=
  "/".intercalate ((List.range n).map fun t =>
    s!"t{t}=" ++ String.join (((db t).map fmtRow).toArray.qsort (· < ·)).toList)

def fmtErr : Err → String
  | .fkParent => "err:1451"
  | .fkChild => "err:1452"
  | .depth => "err:depth"
  | .notNull => "err:1048"
  | .fkNotNull => "err:1105"
  | .dup => "err:1062"
  | .fuel => "err:fuel"

/-- Schema feature of finding `shared_child_column_update_cascade`: two constraints declared on the
same table share a child column, one of them cascades updates, and the table is itself referenced
(so that its editor goes through the analyzer's editor cache). -/
def sharedChildColumn (S : Schema) : Bool :=
  S.fks.any fun f => S.fks.any fun g =>
    f != g && f.child == g.child && f.ccols.any (g.ccols.contains ·) &&
    (f.onUpd == .cascade || g.onUpd == .cascade) && S.fks.any (fun h => h.parent == f.child)

/-- Region predicates (defect classes decided on the statement and the state before it). -/
def regionOf (S : Schema) (db : Db) : Stmt → String
  | .update t sets w ord =>
    if (selectRows db t w ord).any (fun old =>
        S.fks.any fun f => f.child == t && f.parent == t &&
          let new := applySets old sets
          key old f.ccols != key new f.ccols && key old f.pcols != key new f.pcols &&
          key new f.ccols == key old f.pcols)
    then "selfref_update_moves_key"
    else if sharedChildColumn S then "shared_child_column_update_cascade" else "-"
  | _ => "-"

/-- The structural hypotheses of the theorems (`DelGraphOk`/`UpdGraphOk`/`InsertRootOk` minus
their guards) hold for the editor graph the model builds for this statement. -/
def stmtGraphOk (S : Schema) : Stmt → Bool
  | .insert t _ => graphOkB S .insert t
  | .update t _ _ _ => graphOkB S .update t
  | .delete t _ _ => graphOkB S .delete t

def handle (p : List Sexp) : String :=
  match p with
  | [.list (.atom "tabs" :: tabs), .list (.atom "fks" :: fks), .list (.atom "stmts" :: stmts)] =>
    match tabs.mapM parseTab, fks.mapM parseFk, stmts.mapM parseStmt with
    | some tabs, some fks, some stmts =>
      let S : Schema := { ntab := tabs.length, notNull := fun t => (tabs.getD t (0, [])).2, fks := fks }
      let init : Db := fun _ => []
      let (_, impl, spec, region) := stmts.foldl
        (fun (acc : Db × String × String × String) st =>
          let (db, impl, spec, region) := acc
          let (db', e) := step S db st
          let cls := match e with | none => "ok" | some e => fmtErr e
          let body := cls ++ ";" ++ fmtDump S.ntab db' ++ ";ri="
          let ri := riB S db'
          let gok := stmtGraphOk S st
          let region := if region == "-" && !gok then "editor_graph_not_well_formed"
            else if region == "-" && !ri then
              (match regionOf S db st with | "-" => "unclassified" | r => r) else region
          (db', impl ++ body ++ (if ri then "1" else "0") ++ "|",
           spec ++ body ++ "1|" ++ (if gok then "" else "graph!"), region))
        (init, "", "", "-")
      if impl == spec then answer impl else answer impl spec region
    | _, _, _ => answer "bad-case"
  | _ => answer "bad-case"

def main : IO Unit := runPure handle
