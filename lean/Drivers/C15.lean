import Gms.Driver.Proto
import Gms.Driver.MemIndexProto
open Gms.Proto

/-- C15: per statement of an editor-level history (with injected failures): failed?, rows and
index storage contents afterwards — Impl model (MemIndex) vs Spec (failed ⇒ unchanged). -/
def main : IO Unit := runPure Gms.MemIndexProto.handle
