import Gms.Driver.Proto
import Gms.Driver.MemIndexProto
import Gms.Driver.RowAliasProto
open Gms.Proto

/-- C15: per statement of an editor-level history (with injected failures): failed?, rows and
index storage contents afterwards — Impl model (MemIndex) vs Spec (failed ⇒ unchanged); per
statement of an INSERT / ON DUPLICATE KEY UPDATE history: failed?, rows afterwards — memory-level
Impl model (RowAlias: slices over backing arrays) vs value-level Spec. -/
def main : IO Unit :=
  runPure (fun p => if Gms.RowAliasProto.isOdku p then Gms.RowAliasProto.handle p else Gms.MemIndexProto.handle p)
