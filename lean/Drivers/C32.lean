import Gms.Driver.Proto
import Gms.Model.JsonQuote
import Gms.Model.JsonPath
import Gms.Model.JsonNum
open Gms.Proto

/-! Line-protocol driver for C32 (core-only).

  (q xS)  (uq xS)  (dec xS)
  (num NEG MANT EXP10 FLOATY)   — number literal ±MANT·10^EXP10, FLOATY: the text has . e E
  (numrt xTEXT)                  — model-free round trip of a document text (oracle only)
  (print DOC)  (upd MODE DOC PATH VAL)  (sqlupd MODE DOC PATH VAL)  (look DOC PATH)  (es DOC PATH VAL)  (cmp ..)
  DOC  = n | t | f | (i N) | (s xS) | (a DOC*) | (o (xK DOC)*)
  PATH = ((k xK) | (n N) | (l) | (m N))*
-/

namespace Q
open Gms.JsonQuote

def showRes : Res → String
  | .ok bs => "ok:" ++ hex bs
  | .errUnicode => "errU"
  | .errHex => "errH"
  | .crash => "crash"

end Q

namespace P
open Gms.JsonPath

partial def parseDoc : Sexp → Option Json
  | .atom "n" => some .null
  | .atom "t" => some (.bool true)
  | .atom "f" => some (.bool false)
  | .list [.atom "i", n] => n.int?.map .num
  | .list [.atom "s", s] => s.bytes?.map .str
  | .list (.atom "a" :: xs) => (xs.mapM parseDoc).map .arr
  | .list (.atom "o" :: xs) =>
    (xs.mapM fun (kv : Sexp) =>
      match kv with
      | Sexp.list [k, v] => match k.bytes?, parseDoc v with
        | some k, some v => some (k, v)
        | _, _ => none
      | _ => none).map .obj
  | _ => none

def parseLeg : Sexp → Option Leg
  | .list [.atom "k", k] => k.bytes?.map .key
  | .list [.atom "n", n] => n.nat?.map (fun n => .idx (.n n))
  | .list [.atom "l"] => some (.idx .last)
  | .list [.atom "m", n] => n.nat?.map (fun n => .idx (.lastMinus n))
  | _ => none

def parsePath : Sexp → Option (List Leg)
  | .list xs => xs.mapM parseLeg
  | _ => none

def parseMode : Sexp → Option Mode
  | .atom "set" => some .set
  | .atom "insert" => some .insert
  | .atom "replace" => some .replace
  | .atom "remove" => some .remove
  | .atom "arrayAppend" => some .arrayAppend
  | .atom "arrayInsert" => some .arrayInsert
  | _ => none

def showL : LRes → String
  | .found j => "found:" ++ hex (printJson j)
  | .missing => "missing"
  | .err => "err"
  | .crash => "crash"

/-- An index leg meets a non-array on the way (MySQL: the value itself for [0] / [last]). -/
def usesAutoWrap : List Leg → Json → Bool
  | [], _ => false
  | .key k :: rest, .obj kvs =>
    match oget kvs k with
    | some v => usesAutoWrap rest v
    | none => false
  | .key _ :: _, _ => false
  | .idx i :: rest, .arr l =>
    let p := parseIndex i l.length
    if p.underflow || p.overflow then false
    else match l[p.index]? with
      | some v => usesAutoWrap rest v
      | none => false
  | .idx _ :: _, _ => true

def lookRegion (p : List Leg) (d : Json) : String :=
  if (match lookup p d with | .crash => true | _ => false) then "extract_index_into_null_panics"
  else if hasLast p then "extract_last_index_unsupported"
  else if usesAutoWrap p d then "extract_index_on_non_array"
  else "-"

end P

namespace N
open Gms.JsonNum

def obs (n : Num) (printed : Bool × Nat) (k2 : String) (v : Int) : String :=
  n.kind ++ ":" ++ showText printed ++ ":" ++ k2 ++ ":" ++ toString v

/-- (implModel observation, Spec observation, region) of one literal. -/
def answerLit (l : Lit) : String :=
  let n := convert l
  let p := printNum n
  let r := reparse n
  let i := obs n p r.kind r.val
  let sp := obs n p r.kind n.val
  if i == sp then answer i
  else answer i sp (if bigFloatReparsedAsInteger n then "big_float_reparsed_as_integer" else "-")

end N

open Gms.JsonQuote Gms.JsonPath in
def handle (p : List Sexp) : String :=
  match p with
  | [.list [.atom "q", s]] =>
    match s.bytes? with
    | some s => answer (hex (quote s))
    | none => answer "bad-case"
  | [.list [.atom "uq", s]] =>
    match s.bytes? with
    | some s =>
      let i := Q.showRes (unquote s)
      let sp := Q.showRes (unquoteSpec s)
      if i == sp then answer i else answer i sp "unquote_bad_unicode_escape_panics"
    | none => answer "bad-case"
  | [.list [.atom "dec", s]] =>
    match s.bytes? with
    | some s => answer (toString ((decodeSize s).getD 0))
    | none => answer "bad-case"
  | [.list [.atom "num", ng, m, e, fl]] =>
    match ng.nat?, m.nat?, e.nat?, fl.nat? with
    | some ng, some m, some e, some fl => N.answerLit ⟨ng == 1, m, e, fl == 1⟩
    | _, _, _, _ => answer "bad-case"
  | [.list [.atom "print", d]] =>
    match P.parseDoc d with
    | some d => answer (hex (printJson d))
    | none => answer "bad-case"
  | [.list [.atom k, m, d, pth, v]] =>
    match P.parseMode m, P.parseDoc d, P.parsePath pth, P.parseDoc v with
    | some m, some d, some pth, some v =>
      match update m v pth d with
      | none => answer "err"
      | some (r, changed) =>
        if k == "upd" then answer ("ok:" ++ hex (printJson r) ++ ":" ++ (if changed then "1" else "0"))
        else answer ("ok:" ++ hex (printJson r))
    | _, _, _, _ => answer "bad-case"
  | [.list [.atom "look", d, pth]] =>
    match P.parseDoc d, P.parsePath pth with
    | some d, some pth =>
      let i := P.showL (lookup pth d)
      let sp := P.showL (specWalk pth d)
      if i == sp then answer i else answer i sp (P.lookRegion pth d)
    | _, _ => answer "bad-case"
  | [.list [.atom "es", d, pth, v]] =>
    match P.parseDoc d, P.parsePath pth, P.parseDoc v with
    | some d, some pth, some v =>
      match update .set v pth d with
      | none => answer "err"
      | some (r, _) =>
        let i := P.showL (lookup pth r)
        let sp := P.showL (specWalk pth r)
        if i == sp then answer i else answer i sp (P.lookRegion pth r)
    | _, _, _ => answer "bad-case"
  | [.list (.atom "cmp" :: _)] => answer "-"
  | [.list [.atom "numrt", _]] => answer "-"
  | _ => answer "bad-case"

def main : IO Unit := runPure handle
