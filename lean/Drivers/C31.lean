import Gms.Driver.Proto
import Gms.Model.Cal
open Gms.Proto Gms.Cal

def ints? (xs : List Sexp) : Option (List Int) := xs.mapM Sexp.int?

def fields? : List Int → Option (Fields × List Int)
  | y :: mo :: d :: h :: mi :: s :: ns :: rest =>
    some ({ y := y, mo := mo, d := d, h := h, mi := mi, s := s, ns := ns }, rest)
  | _ => none

def showFields (f : Fields) : String :=
  s!"{f.y} {f.mo} {f.d} {f.h} {f.mi} {f.s} {f.ns}"

def showT (t : Int) : String := showFields (fieldsOf t)

def perr : PErr → String
  | .format => "err:format" | .ampm24 => "err:ampm24" | .literal => "err:literal"
  | .specifier => "err:specifier" | .crash => "crash"

def parseObs : Except PErr (Option Int) → String
  | .error e => perr e
  | .ok none => "null"
  | .ok (some t) => "t " ++ showT t

def parseCase (date fmt : Str) : String :=
  let impl := parseObs (parseImpl date fmt)
  match parseFields date fmt with
  | .error _ => answer impl
  | .ok dt =>
    if dt.dayOfYear.isSome then answer impl "?"   -- `%j`: outside the Spec
    else
      let spec := match parseSpec date fmt with
        | .error e => perr e
        | .ok none => "rejected"
        | .ok (some none) => "null"
        | .ok (some (some t)) => "t " ++ showT t
      if spec == impl then answer impl
      else
        let region :=
          if str_to_date_invalid_shifted dt then "str_to_date_invalid_shifted"
          else if str_to_date_ampm_ignored dt then "str_to_date_ampm_ignored"
          else "-"
        answer impl spec region

def fmtObs : Except FErr Str → String
  | .ok s => "s " ++ hex s
  | .error .unmodelled => "unmodelled"
  | .error _ => "err"

/-- round trip `parse fmt (format fmt t)` -/
def rtCase (fmt : Str) (f : Fields) : String :=
  let t := goDate f
  match formatImpl t fmt with
  | .error e => answer (fmtObs (.error e))
  | .ok s =>
    let impl := parseObs (parseImpl s fmt)
    match itemsOf? fmt with
    | some items =>
      if completeItems items then
        let spec := "t " ++ showT (goDate (maskFields items f))
        answer impl spec (if impl == spec then "-" else "roundtrip")
      else answer impl "?"
    | none =>
      -- outside the item grammar the Spec is: whatever the text denotes (parseSpec)
      match parseFields s fmt with
      | .ok dt =>
        if dt.dayOfYear.isSome then answer impl "?"
        else if str_to_date_ampm_ignored dt then
          (match parseSpec s fmt with
           | .ok (some (some t')) => answer impl ("t " ++ showT t') "str_to_date_ampm_ignored"
           | _ => answer impl "?")
        else answer impl "?"
      | .error _ => answer impl "?"

def delta? : List Int → Option (Delta × List Int)
  | y :: m :: d :: h :: mi :: s :: us :: rest =>
    some ({ years := y, months := m, days := d, hours := h, minutes := mi, seconds := s, micros := us }, rest)
  | _ => none

def strOf (s : Str) : String := String.ofList (s.map fun b => Char.ofNat b.toNat)

/-- `sqlx` cases whose result is a temporal value: the observation is the text the client is sent
(`NULL` outside the years 0..9999); Impl model = `sqlTextImpl`, Spec = `sqlTextSpec` of the value the
unit-level model computes. -/
def sqlTextCase (k : SqlKind) (t : Int) : String :=
  let y := (fieldsOf t).y
  if y < 0 || y > 9999 then answer "NULL"
  else
    let impl := strOf (sqlTextImpl k t)
    let spec := strOf (sqlTextSpec k t)
    if impl == spec then answer impl
    else answer impl spec (if datetime_text_year_below_1000 t then "datetime_text_year_below_1000" else "-")

def handle (p : List Sexp) : String :=
  match p with
  | [.list (.atom "date" :: xs)] =>
    match (ints? xs).bind fields? with
    | some (f, []) =>
      let t := goDate f
      let g := fieldsOf t
      answer (showFields g ++ s!" {weekday (t / nsDay)} {yearDay g.y g.mo g.d}")
    | _ => answer "bad-case"
  | [.list [.atom "parse", d, f]] =>
    match d.bytes?, f.bytes? with
    | some d, some f => parseCase d f
    | _, _ => answer "bad-case"
  | [.list (.atom "fmt" :: f :: xs)] =>
    match f.bytes?, (ints? xs).bind fields? with
    | some fmt, some (fl, []) => answer (fmtObs (formatImpl (goDate fl) fmt))
    | _, _ => answer "bad-case"
  | [.list (.atom "rt" :: f :: xs)] =>
    match f.bytes?, (ints? xs).bind fields? with
    | some fmt, some (fl, []) => rtCase fmt fl
    | _, _ => answer "bad-case"
  | [.list (.atom "delta" :: xs)] =>
    match ints? xs with
    | some (sign :: rest) =>
      match (delta? rest).bind fun (td, r) => (fields? r).map fun (f, r') => (td, f, r') with
      | some (td, f, []) =>
        let t := goDate f
        let impl := showT (applyDelta td sign t)
        let spec := showT (specDelta td sign t)
        if impl == spec then answer impl
        else answer impl spec (if intermediateFeb29 td sign t then "timedelta_year_month_intermediate_feb29" else "-")
      | _ => answer "bad-case"
    | _ => answer "bad-case"
  | [.list (.atom "addsub" :: xs)] =>
    match (ints? xs).bind delta? with
    | some (td, r) =>
      match fields? r with
      | some (f, []) =>
        let t := goDate f
        let impl := showT (applyDelta td (-1) (applyDelta td 1 t))
        if clamps td 1 t || mixedDelta td then answer impl "?"
        else
          let spec := showT t
          if impl == spec then answer impl
          else answer impl spec
            (if intermediateFeb29 td 1 t || intermediateFeb29 td (-1) (applyDelta td 1 t)
             then "timedelta_year_month_intermediate_feb29" else "-")
      | _ => answer "bad-case"
    | none => answer "bad-case"
  | [.list (.atom "datediff" :: xs)] =>
    match (ints? xs).bind fields? with
    | some (f1, r) =>
      match fields? r with
      | some (f2, []) =>
        let t1 := goDate f1
        let t2 := goDate f2
        let impl := toString (dateDiffImpl t1 t2)
        let spec := toString (dateDiffSpec t1 t2)
        if impl == spec then answer impl
        else answer impl spec (if datediff_saturates t1 t2 then "datediff_saturates" else "-")
      | _ => answer "bad-case"
    | none => answer "bad-case"
  | [.list (.atom "tsdiff" :: .atom u :: xs)] =>
    match TsUnit.ofName? u, (ints? xs).bind fields? with
    | some u, some (f1, r) =>
      match fields? r with
      | some (f2, []) =>
        let t1 := goDate f1
        let t2 := goDate f2
        let impl := toString (tsDiffImpl u t1 t2)
        let spec := toString (tsDiffSpec u t1 t2)
        if impl == spec then answer impl
        else answer impl spec (if u.isCalendar && monthsdiff_minutes_ignored t1 t2 then "monthsdiff_minutes_ignored" else "-")
      | _ => answer "bad-case"
    | _, _ => answer "bad-case"
  | [.list [.atom "sqlx", .atom "dateadd", .list (.atom fn :: .atom unit :: n :: xs)]] =>
    match n.int?, (ints? xs).bind fields? with
    | some n, some (f, []) =>
      match sqlUnitDelta unit n, (if fn == "DATE_ADD" then some (1 : Int) else if fn == "DATE_SUB" then some (-1) else none) with
      | some td, some sign =>
        let t := applyDelta td sign (goDate f)
        match validateTime t, validateTimeSpec t with
        | none, none => answer "NULL"
        | some t, some _ => sqlTextCase (.datetime 6) t
        | some t, none =>
          answer (strOf (sqlTextImpl (.datetime 6) t)) "NULL"
            (if dateadd_result_before_year_zero t then "dateadd_result_before_year_zero" else "-")
        | none, some t => answer "NULL" (strOf (sqlTextSpec (.datetime 6) t))
      | _, _ => answer "bad-case"
    | _, _ => answer "bad-case"
  | [.list [.atom "sqlx", .atom "dttext", .list (.atom k :: xs)]] =>
    match SqlKind.ofName? k, (ints? xs).bind fields? with
    | some k, some (f, []) => sqlTextCase k (goDate f)
    | _, _ => answer "bad-case"
  | [.list [.atom "sqlx", .atom "strtodate", .list [d, f]]] =>
    match d.bytes?, f.bytes? with
    | some d, some f =>
      match parseImpl d f with
      | .ok (some t) => sqlTextCase (.datetime (if (fieldsOf t).ns == 0 then 0 else 6)) t
      | _ => answer "NULL"
    | _, _ => answer "bad-case"
  | [.list (.atom "sqlx" :: _)] => answer "consistent"   -- oracle-only stream (SQL function vs. unit function)
  | _ => answer "bad-case"

def main : IO Unit := runPure handle
