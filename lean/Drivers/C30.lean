import Gms.Driver.Proto
import Gms.Model.RangeMap
import Gms.Model.RangeMapMem
import Gms.Generated.C30
open Gms.Proto Gms.RangeMap

/-! Driver for C30. The tables are the regenerated facts. The Impl model of `Encode` is
`Gms.RangeMap.encode` — the guarded loop of the repaired code (finding `encode_unrepresentable_tail`
was repaired; `Gms.C30.facts_match` demands the guard in the source). There is no region for a
panicking `Encode` any more: a case on which the real code panics disagrees with the model and with
the Spec and gets region "-" (→ VIOLATION). -/

def nats (bs : List UInt8) : List Nat := bs.map (·.toNat)
def hexN (ns : List Nat) : String := hex (ns.map UInt8.ofNat)

def resStr : Res → String
  | .ok bs => "ok:" ++ hexN bs
  | .fail => "fail"
  | .crash => "crash"

def runeStr : Option (List Nat) → String
  | some bs => "some:" ++ hexN bs
  | none => "none"

/-- A charset is either a regenerated range map or a native (identity) encoder. -/
inductive Cs where
  | rm (t : RangeMap)
  | native

def findCs (name : String) : Option Cs :=
  match Gms.Generated.C30.tables.find? (·.1 == name) with
  | some (_, t) => some (.rm t)
  | none =>
    match Gms.Generated.C30.charsets.find? (·.1 == name) with
    | some (_, "native") => some .native
    | _ => none

def decGuard : Bool := Gms.Generated.C30.decodeHasLengthGuard

instance : BEq Res := ⟨fun a b => decide (a = b)⟩

/-- Impl model of `Encode` (the repaired, guarded loop) and of `Decode` (with the guard the source has now). -/
def encodeI (t : RangeMap) (s extra : List Nat) : Res := encode t s extra
def decodeI (t : RangeMap) (s : List Nat) : Res :=
  convLoop (decodeRune t) decGuard t.inE.length [] (s.length + 1) s

/-- `Encode` (model) differs from the Spec only through an overflow unit
(`Gms.C30.encode_eq_spec_partial`); where the model equals the Spec there is no region. -/
def encRegion (t : RangeMap) (s : List Nat) : String :=
  if encode t s == encodeSpec t s then "-" else "encode_overflow_unit"

def repRegion (t : RangeMap) (s : List Nat) : String :=
  if replLoop (encodeRune t) false t.inE.length (s.length + 1) s == replaceSpec t s
  then "replace_tail_collapse" else "encode_overflow_unit"

def ans (impl spec : String) (region : String) : String :=
  if impl == spec then answer impl else answer impl spec region

/-! digest (FNV-1a 64) of a block of results, same byte stream as the harness -/
def fnvByte (h : UInt64) (b : Nat) : UInt64 := (h ^^^ UInt64.ofNat b) * 1099511628211
def fnvRes (h : UInt64) (tag : Nat) (bs : List Nat) : UInt64 :=
  bs.foldl fnvByte (fnvByte (fnvByte h tag) (bs.length % 256))
def fnvR (h : UInt64) : Res → UInt64
  | .ok bs => fnvRes h 1 bs
  | .fail => fnvRes h 0 []
  | .crash => fnvRes h 2 []
def fnvO (h : UInt64) : Option (List Nat) → UInt64
  | some bs => fnvRes h 1 bs
  | none => fnvRes h 0 []

def hex64 (h : UInt64) : String :=
  String.ofList ((List.range 16).map fun i => hexNibble ((h.toNat / 16 ^ (15 - i)) % 16))

def utf8Enc (cp : Nat) : List Nat :=
  if cp < 0x80 then [cp]
  else if cp < 0x800 then [0xC0 + cp / 64, 0x80 + cp % 64]
  else if cp < 0x10000 then [0xE0 + cp / 4096, 0x80 + (cp / 64) % 64, 0x80 + cp % 64]
  else [0xF0 + cp / 262144, 0x80 + (cp / 4096) % 64, 0x80 + (cp / 64) % 64, 0x80 + cp % 64]

structure BlkAcc where
  n : Nat := 0
  nS : Nat := 0
  hI : UInt64 := 14695981039346656037
  hS : UInt64 := 14695981039346656037
  region : String := "-"

def blkStep (cs : Cs) (a : BlkAcc) (cp : Nat) : BlkAcc :=
  if 0xD800 ≤ cp ∧ cp ≤ 0xDFFF then a else
  let u := utf8Enc cp
  match cs with
  | .native =>
    let five := fun (h : UInt64) => fnvR (fnvO (fnvR (fnvR (fnvO h (some u)) (.ok u)) (.ok u)) (some u)) (.ok u)
    { a with n := a.n + 1, nS := a.nS + 1, hI := five a.hI, hS := five a.hS }
  | .rm t =>
    let r1 := encodeRune t u
    let r2 := encodeI t u []
    let r3 := replace t u
    let hI := fnvR (fnvR (fnvO a.hI r1) r2) r3
    let hI := match r1 with
      | some c => fnvR (fnvO hI (decodeRune t c)) (decodeI t c)
      | none => hI
    let s1 := encodeRuneSpec t u
    let s2 := encodeSpec t u
    let s3 := replaceSpec t u
    let hS := fnvR (fnvR (fnvO a.hS s1) s2) s3
    let hS := match s1 with
      | some c => fnvR (fnvO hS (decodeRune t c)) (decode t c)
      | none => hS
    let region :=
      if a.region != "-" then a.region
      else if r2 != s2 then encRegion t u
      else if r3 != s3 then repRegion t u
      else if r1 != s1 then "encode_overflow_unit"
      else "-"
    { n := a.n + (if r1.isSome then 1 else 0), nS := a.nS + (if s1.isSome then 1 else 0), hI := hI, hS := hS, region := region }

def unbytes (v : Nat) : Nat → List Nat → List Nat
  | 0, acc => acc
  | k + 1, acc => unbytes (v / 256) k ((v % 256) :: acc)

def dblkStep (cs : Cs) (ln : Nat) (a : BlkAcc) (v : Nat) : BlkAcc :=
  let b := unbytes v ln []
  match cs with
  | .native =>
    let h := fnvR (fnvO (fnvR (fnvO a.hI (some b)) (.ok b)) (some b)) (.ok b)
    { a with n := a.n + 1, nS := a.nS + 1, hI := h, hS := fnvR (fnvO (fnvR (fnvO a.hS (some b)) (.ok b)) (some b)) (.ok b) }
  | .rm t =>
    let r1 := decodeRune t b
    let r2 := decodeI t b
    let hI := fnvR (fnvO a.hI r1) r2
    let (hI, region) := match r1 with
      | some c =>
        let e1 := encodeRune t c
        let e2 := encodeI t c []
        (fnvR (fnvO hI e1) e2,
          if e1 != encodeRuneSpec t c then "encode_overflow_unit" else if e2 != encodeSpec t c then encRegion t c else "-")
      | none => (hI, "-")
    let hS := fnvR (fnvO a.hS r1) (decode t b)
    let hS := match r1 with
      | some c => fnvR (fnvO hS (encodeRuneSpec t c)) (encodeSpec t c)
      | none => hS
    { n := a.n + (if r1.isSome then 1 else 0), nS := a.nS + (if r1.isSome then 1 else 0), hI := hI, hS := hS,
      region := if a.region != "-" then a.region else region }

def accStr (n : Nat) (h : UInt64) : String := "n=" ++ toString n ++ " h=" ++ hex64 h

/-! ### Batches (results kept across calls)

Every call of a batch is evaluated by the Impl model and by the Spec as a value (`Res`); where the
values live is decided by the memory model `Gms/Model/RangeMapMem.lean`, run here under
`Alloc.fresh` — the allocation discipline of the code (`Gms.C30.facts_match`: `outputWrites_*`,
`packageVars`, `structFields`). `Gms.C30.batch_keep_independent` / `batch_edit_independent` prove that
under `fresh` what the caller reads — at the end of the batch or at once, whatever it scribbles on — are
those values; the driver nevertheless *runs* the machine. `par` (calls dealt to concurrent goroutines)
is the `keep` machine: calls are atomic in the model and the theorem holds for every order. -/

/-- One call of a batch: (is a rune operation, input, Impl value, Spec value, region). -/
structure BSub where
  rune : Bool
  key : List Nat
  impl : Res
  spec : Res
  region : String

def optRes : Option (List Nat) → Res
  | some b => .ok b
  | none => .fail

def subObs (rune : Bool) (r : Res) : String :=
  if rune then (match r with | .ok b => runeStr (some b) | .fail => runeStr none | .crash => "crash") else resStr r

def evalSub (x : Sexp) : Option BSub :=
  match x with
  | Sexp.list (Sexp.atom op :: Sexp.atom name :: args) =>
    match findCs name, args.mapM Sexp.bytes? with
    | some cs, some bs =>
      let bs := bs.map nats
      match op, bs, cs with
      | "dec", [s], .native => some ⟨false, s, .ok s, .ok s, "-"⟩
      | "enc", [s, _], .native => some ⟨false, s, .ok s, .ok s, "-"⟩
      | "rep", [s], .native => some ⟨false, s, .ok s, .ok s, "-"⟩
      | "erune", [s], .native => some ⟨true, s, .ok s, .ok s, "-"⟩
      | "drune", [s], .native => some ⟨true, s, .ok s, .ok s, "-"⟩
      | "dec", [s], .rm t => some ⟨false, s, decodeI t s, decode t s, "decode_unguarded"⟩
      | "enc", [s, extra], .rm t => some ⟨false, s, encodeI t s extra, encodeSpec t s, encRegion t s⟩
      | "rep", [s], .rm t => some ⟨false, s, replace t s, replaceSpec t s, repRegion t s⟩
      | "erune", [s], .rm t => some ⟨true, s, optRes (encodeRune t s), optRes (encodeRuneSpec t s), "encode_overflow_unit"⟩
      | "drune", [s], .rm t => some ⟨true, s, optRes (decodeRune t s), optRes (decodeRune t s), "-"⟩
      | _, _, _ => none
    | _, _ => none
  | _ => none

def joinBar (xs : List String) : String := "|".intercalate xs

/-- Run a batch through the memory machine (`fresh`). Inputs live in buffers `0 … n-1`. -/
def runBatch (mode : String) (subs : List BSub) (val : BSub → Res) : List Res :=
  let m : Mem := { heap := subs.map (·.key) }
  if mode == "edit" then
    observeEager .fresh 0x55 ((keepBatch 0xAA 0 (subs.map fun s => (s.key, val s)))) m
  else
    observeLate .fresh (keepBatch 0xAA 0 (subs.map fun s => (s.key, val s))) m

def handleSeq (mode : String) (items : List Sexp) : String :=
  match items.mapM evalSub with
  | none => answer "bad-case"
  | some subs =>
    let obs := fun (val : BSub → Res) =>
      joinBar ((subs.zip (runBatch mode subs val)).map fun (s, r) => subObs s.rune r)
    let region := match subs.find? (fun s => s.impl != s.spec) with
      | some s => s.region
      | none => "-"
    ans (obs (·.impl)) (obs (·.spec)) region

/-- `SELECT _cs1 x'…', _cs2 x'…', …`: one column per literal; an undecodable literal is an error. -/
def handleIntros (items : List Sexp) : String :=
  let one := fun (x : Sexp) => match x with
    | Sexp.list [Sexp.atom name, b] =>
      match findCs name, b.bytes? with
      | some (.rm t), some b => some (decodeI t (nats b), decode t (nats b))
      | some .native, some b => some (.ok (nats b), .ok (nats b))
      | _, _ => none
    | _ => none
  match items.mapM one with
  | none => answer "bad-case"
  | some rs =>
    let row := fun (xs : List Res) =>
      if xs.all (fun r => match r with | .ok _ => true | _ => false) then joinBar (xs.map resStr)
      else if xs.any (· == .crash) then "crash" else "fail"
    ans (row (rs.map (·.1))) (row (rs.map (·.2))) "decode_unguarded"

/-- Well-formed UTF-8 (Go's `utf8.Valid`), by `utf8Len`. -/
def utf8Valid : Nat → List Nat → Bool
  | 0, _ => false
  | _, [] => true
  | fuel + 1, b :: rest =>
    if b < 0x80 then utf8Valid fuel rest
    else
      let n := utf8Len (b :: rest)
      if n ≤ 1 then false else utf8Valid fuel ((b :: rest).drop n)

/-- Multi-row INSERT of binary literals (none of them valid UTF-8, the harness's envelope) into a
column of the character set: each is decoded when it is stored. -/
def handleRows (name : String) (vals : List Sexp) : String :=
  match findCs name, vals.mapM Sexp.bytes? with
  | some (.rm t), some bs =>
    let bs := bs.map nats
    if bs.any (fun b => utf8Valid (b.length + 1) b) then answer "outside-envelope"
    else
      let row := fun (xs : List Res) =>
        if xs.all (fun r => match r with | .ok _ => true | _ => false) then joinBar (xs.map resStr)
        else "outside-envelope"
      ans (row (bs.map (decodeI t))) (row (bs.map (decode t))) "decode_unguarded"
  | _, _ => answer "bad-case"

def handle (p : List Sexp) : String :=
  match p with
  | [Sexp.list (Sexp.atom "seq" :: Sexp.atom mode :: items)] => handleSeq mode items
  | [Sexp.list (Sexp.atom "sqlintros" :: items)] => handleIntros items
  | [Sexp.list (Sexp.atom "sqlrows" :: Sexp.atom name :: vals)] => handleRows name vals
  | [Sexp.list (Sexp.atom op :: Sexp.atom name :: args)] =>
    match findCs name with
    | none => answer "unknown-charset"
    | some cs =>
      match op, args with
      | "enc", [s, extra] =>
        match s.bytes?, extra.bytes? with
        | some s, some extra =>
          let s := nats s; let extra := nats extra
          match cs with
          | .native => answer (resStr (.ok s))
          | .rm t => ans (resStr (encodeI t s extra)) (resStr (encodeSpec t s)) (encRegion t s)
        | _, _ => answer "bad-case"
      | "rep", [s] =>
        match s.bytes? with
        | some s =>
          let s := nats s
          match cs with
          | .native => answer (resStr (.ok s))
          | .rm t => ans (resStr (replace t s)) (resStr (replaceSpec t s)) (repRegion t s)
        | none => answer "bad-case"
      | "dec", [s] =>
        match s.bytes? with
        | some s =>
          let s := nats s
          match cs with
          | .native => answer (resStr (.ok s))
          | .rm t => ans (resStr (decodeI t s)) (resStr (decode t s)) "decode_unguarded"
        | none => answer "bad-case"
      | "erune", [s] =>
        match s.bytes? with
        | some s =>
          let s := nats s
          match cs with
          | .native => answer (runeStr (some s))
          | .rm t => ans (runeStr (encodeRune t s)) (runeStr (encodeRuneSpec t s)) "encode_overflow_unit"
        | none => answer "bad-case"
      | "drune", [s] =>
        match s.bytes? with
        | some s =>
          let s := nats s
          match cs with
          | .native => answer (runeStr (some s))
          | .rm t => answer (runeStr (decodeRune t s))
        | none => answer "bad-case"
      | "sqlintro", [s] =>
        match s.bytes? with
        | some s =>
          let s := nats s
          match cs with
          | .native => answer (resStr (.ok s))
          | .rm t => ans (resStr (decodeI t s)) (resStr (decode t s)) "decode_unguarded"
        | none => answer "bad-case"
      | "sqlconv", [s] =>
        match s.bytes? with
        | some s =>
          let s := nats s
          match cs with
          | .native =>
            answer ("conv=" ++ resStr (.ok s) ++ " hex=" ++ resStr (.ok s) ++ " back=" ++ resStr (.ok s))
          | .rm t =>
            -- the engine keeps the *encoded* bytes as the value of CONVERT(… USING cs) and HEX encodes again
            let r := match replace t s with | .ok b => b | _ => []
            let impl := "conv=" ++ resStr (.ok r) ++ " hex=" ++ resStr (encodeI t r []) ++ " back=" ++ resStr (.ok r)
            let spec := match replaceSpec t s with
              | .ok b => "conv=" ++ resStr (decode t b) ++ " hex=" ++ resStr (.ok b) ++ " back=" ++ resStr (decode t b)
              | _ => "?"
            ans impl spec "sql_convert_using_not_decoded"
        | none => answer "bad-case"
      | "sqlcol", [s] =>
        match s.bytes? with
        | some s =>
          let s := nats s
          let lenStr := fun (r : Res) => match r with | .ok b => toString b.length | .fail => "fail" | .crash => "crash"
          match cs with
          | .native =>
            answer ("ins=ok hex=" ++ resStr (.ok s) ++ " len=" ++ toString s.length ++ " val=" ++ resStr (.ok s))
          | .rm t =>
            let e := encodeI t s []
            let impl := "ins=ok hex=" ++ resStr e ++ " len=" ++ lenStr e ++ " val=" ++ resStr (.ok s)
            let spec := match encodeSpec t s with
              | .ok b => "ins=ok hex=" ++ resStr (.ok b) ++ " len=" ++ toString b.length ++ " val=" ++ resStr (.ok s)
              | _ => "ins=rejected-or-replaced"
            ans impl spec "sql_unrepresentable_stored"
        | none => answer "bad-case"
      | "blk", [lo, hi] =>
        match lo.nat?, hi.nat? with
        | some lo, some hi =>
          let a : BlkAcc := (List.range' lo (hi - lo)).foldl (blkStep cs) {}
          ans (accStr a.n a.hI) (accStr a.nS a.hS) a.region
        | _, _ => answer "bad-case"
      | "dblk", [ln, lo, hi] =>
        match ln.nat?, lo.nat?, hi.nat? with
        | some ln, some lo, some hi =>
          let a : BlkAcc := (List.range' lo (hi - lo)).foldl (dblkStep cs ln) {}
          ans (accStr a.n a.hI) (accStr a.nS a.hS) a.region
        | _, _, _ => answer "bad-case"
      | _, _ => answer "bad-case"
  | _ => answer "bad-case"

def main : IO Unit := runPure handle
