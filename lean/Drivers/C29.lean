import Gms.Driver.Proto
import Gms.Model.Collation
open Gms.Proto Gms.Collation

/-! Driver for C29. The weight function of a case is the finite map the harness read from the
real `Sorter` for the runes of that case (`((rune weight) …)`), or a block of weights (`sweep`). -/

def nats (bs : List UInt8) : List Nat := bs.map (·.toNat)
def hexN (ns : List Nat) : String := hex (ns.map UInt8.ofNat)

def parseAssoc (s : Sexp) : List (Nat × Int) :=
  s.items.filterMap fun p =>
    match p with
    | Sexp.list [r, w] =>
      match r.nat?, w.int? with
      | some r, some w => some (r, w)
      | _, _ => none
    | _ => none

def mkW (m : List (Nat × Int)) (r : Nat) : Int :=
  match m.find? (·.1 == r) with
  | some (_, w) => w
  | none => 0

def cmpStr : Option Int → String
  | some c => toString c
  | none => "err"

def fnvByte (h : UInt64) (b : Nat) : UInt64 := (h ^^^ UInt64.ofNat b) * 1099511628211
def hex64 (h : UInt64) : String :=
  String.ofList ((List.range 16).map fun i => hexNibble ((h.toNat / 16 ^ (15 - i)) % 16))

def utf8Enc (cp : Nat) : List Nat :=
  if cp < 0x80 then [cp]
  else if cp < 0x800 then [0xC0 + cp / 64, 0x80 + cp % 64]
  else if cp < 0x10000 then [0xE0 + cp / 4096, 0x80 + (cp / 64) % 64, 0x80 + cp % 64]
  else [0xF0 + cp / 262144, 0x80 + (cp / 4096) % 64, 0x80 + (cp / 64) % 64, 0x80 + cp % 64]

/-- big-endian uint32 words, read as int32 -/
def words : List Nat → List Int
  | a :: b :: c :: d :: rest =>
    let u := ((a * 256 + b) * 256 + c) * 256 + d
    (if u ≥ 2147483648 then (u : Int) - 4294967296 else (u : Int)) :: words rest
  | _ => []

structure SweepAcc where
  h : UInt64 := 14695981039346656037
  prev : Option (List Nat) := none

def sweepStep (w : Nat → Int) (bin : Bool) (a : SweepAcc) (cp : Nat) : SweepAcc :=
  if !bin && decide (0xD800 ≤ cp ∧ cp ≤ 0xDFFF) then a else
  let s := if bin then [cp % 256] else utf8Enc cp
  let h := match writeWeights w bin s with
    | some bs => bs.foldl fnvByte a.h
    | none => fnvByte a.h 0xEE
  let prev := a.prev.getD s
  let h := match compare w bin s prev with
    | some c => fnvByte h (c + 1).toNat
    | none => fnvByte h 0xEF
  { h := h, prev := some s }

def b01 (s : Sexp) : Bool := s.str? == some "1"

def handle (p : List Sexp) : String :=
  match p with
  | [Sexp.list (Sexp.atom op :: Sexp.atom _name :: args)] =>
    match op, args with
    | "cmp", [bin, a, b, m] =>
      match a.bytes?, b.bytes? with
      | some a, some b =>
        let w := mkW (parseAssoc m)
        answer (cmpStr (compare w (b01 bin) (nats a) (nats b))) (toString (compareSpec w (b01 bin) (nats a) (nats b)))
      | _, _ => answer "bad-case"
    | "ws", [bin, a, m] =>
      match a.bytes? with
      | some a =>
        let w := mkW (parseAssoc m)
        let spec := if b01 bin then nats a else weightsSpec w (nats a)
        match writeWeights w (b01 bin) (nats a) with
        | some bs => answer ("ok:" ++ hexN bs) ("ok:" ++ hexN spec)
        | none => answer "err" ("ok:" ++ hexN spec)
      | none => answer "bad-case"
    | "like", [bin, esc, pat, s, m] =>
      match esc.nat?, pat.bytes?, s.bytes? with
      | some esc, some pat, some s =>
        let w := mkW (parseAssoc m)
        match like w (b01 bin) esc (nats pat) (nats s) with
        | some r => answer (toString r)
        | none => answer "err"
      | _, _, _ => answer "bad-case"
    | "sweep", [bin, lo, hi, ws] =>
      match lo.nat?, hi.nat?, ws.bytes? with
      | some lo, some hi, some ws =>
        let tbl := (words (nats ws)).toArray
        let w := fun (r : Nat) => if r < lo then (0 : Int) else tbl.getD (r - lo) 0
        let a : SweepAcc := (List.range' lo (hi - lo)).foldl (sweepStep w (b01 bin)) {}
        answer ("h=" ++ hex64 a.h)
      | _, _, _ => answer "bad-case"
    | "sqlcmp", [a, b, m] =>
      match a.bytes?, b.bytes? with
      | some a, some b =>
        let w := mkW (parseAssoc m)
        let a := nats a; let b := nats b
        -- Go: a literal IN list is hashed with the literal's collation, not the column's (Model: sqlRowImpl)
        let impl := ",".intercalate (sqlRowImpl w a b)
        let spec := ",".intercalate (sqlRowSpec w a b)
        if decide (InLiteralRegion w a b) then answer impl spec "in_literal_list_ignores_collation"
        else answer impl spec
      | _, _ => answer "bad-case"
    | "sqlhash", [x, y, z, m] =>
      match x.bytes?, y.bytes?, z.bytes? with
      | some x, some y, some z =>
        let w := mkW (parseAssoc m)
        let rows := [nats x, nats y, nats z]
        let y := nats y
        let impl := ",".intercalate (sqlHashImpl w rows y)
        let spec := ",".intercalate (sqlHashSpec w rows y)
        if rows.any (fun r => decide (InLiteralRegion w r y)) then answer impl spec "in_literal_list_ignores_collation"
        else answer impl spec
      | _, _, _ => answer "bad-case"
    | _, _ => answer "bad-case"
  | _ => answer "bad-case"

def main : IO Unit := runPure handle
