/-
C12 driver. Payload: `(hist (tbl (row v v v)…) (steps (st <stmt> (<binding>…))…))`
  v        ::= null | (i n) | (s xHEX)            binding ::= v | none
  atom     ::= (lit v) | (p i)
  expr     ::= (a atom) | (col i) | (neg e) | (ar op a b) | (cmp op a b) | (and a b) | (or a b) | (not e)
             | (isnull e) | (in e (atom…)) | (btw e lo hi)
  stmt     ::= (select (expr…) expr nolim|atom) | (insert (atom…)) | (update c expr expr) | (delete expr)
implModelObs = the observations of `exec` (bindings looked up while planning the cached AST),
specObs = those of `execInlined` (values written as literals) on every well-bound step.

Histories with schema changes (Gms/Model/PreparedSchema.lean), one fresh session per case:
  `(shist (ord c…) (t (row v…)…) (u (row v v v)…) (stmts sstmt…) (steps sstep…))`
  `(sast …same fields…)`: the statement cache after that history (Impl model only, specObs = "?")
  sstmt    ::= (plain stmt) | (insall (atom…)) | (inscols (c…) (atom…)) | (star expr) | (nj expr)
  sstep    ::= (x i (<binding>…)) | (ddl first c) | (ddl after c a) | (ddl add last) | (ddl add first)
             | (ddl add after a) | (ddl drop)
implModelObs = `implAll` (the cached ASTs of the session, re-bound at every execution; natural joins keep
the USING list of their first bind), specObs = `specAll` (inlined text parsed afresh);
region `natural_join_using_memoised` iff some execution runs a natural join on a stale USING list.
-/
import Gms.Driver.PreparedProto
import Gms.Model.PreparedSchema
open Gms.Proto Gms.Sql Gms.Prepared Gms.PreparedProto Gms.PreparedSchema

def wellBound (σ : Bindings) (st : Stmt) : Bool :=
  st.params.all (fun i => (lookup σ i).isSome) &&
  (List.range σ.length).all (fun i => !(lookup σ i).isSome || st.params.contains i)

/-- Spec stream: the inlined text where the property applies (every placeholder bound, every
binding used); a mis-bound execution has no inlined counterpart and is taken from `exec`. -/
def specAll : List (Stmt × Bindings) → Table → List Outcome
  | [], _ => []
  | (st, σ) :: rest, db =>
    let r := if wellBound σ st then execInlined σ st db else exec σ st db
    r.1 :: specAll rest r.2

def sstmt? : Sexp → Option SStmt
  | .list [.atom "plain", st] => (stmt? st).map .plain
  | .list [.atom "insall", .list vals] => do pure (.insertAll (← vals.mapM atom?))
  | .list [.atom "inscols", .list cols, .list vals] => do pure (.insertCols (← cols.mapM Sexp.nat?) (← vals.mapM atom?))
  | .list [.atom "star", w] => (pexpr? w).map .selectStar
  | .list [.atom "nj", w] => (pexpr? w).map (.natJoin [])
  | _ => none

def sstep? : Sexp → Option Step
  | .list [.atom "x", i, .list bs] => do pure (.exec (← i.nat?) (← bs.mapM binding?))
  | .list [.atom "ddl", .atom "first", c] => do pure (.ddl (.moveFirst (← c.nat?)))
  | .list [.atom "ddl", .atom "after", c, a] => do pure (.ddl (.moveAfter (← c.nat?) (← a.nat?)))
  | .list [.atom "ddl", .atom "add", .atom "last"] => some (.ddl (.addCol none))
  | .list [.atom "ddl", .atom "add", .atom "first"] => some (.ddl (.addCol (some none)))
  | .list [.atom "ddl", .atom "add", .atom "after", a] => do pure (.ddl (.addCol (some (some (← a.nat?)))))
  | .list [.atom "ddl", .atom "drop"] => some (.ddl .dropCol)
  | _ => none

def showSOutcome : SOutcome → String
  | .base o => showOutcome o
  | .errCount => "err:1105"
  | .errUnknownCol => "err:1054"

def showObs : Obs → String
  | .out o => showSOutcome o
  | .ddl => "ddl"

def wellBoundS (σ : Bindings) (st : SStmt) : Bool :=
  st.params.all (fun i => (lookup σ i).isSome) &&
  (List.range σ.length).all (fun i => !(lookup σ i).isSome || st.params.contains i)

/-- Spec stream of a schema history: `specAll`, except that a mis-bound execution (no inlined
counterpart) is taken from the Impl model run on the Spec's own state. -/
def specAllS (texts : List SStmt) : List Step → Db → List Obs
  | [], _ => []
  | .ddl d :: rest, db => .ddl :: specAllS texts rest (d.apply db)
  | .exec i σ :: rest, db =>
    if wellBoundS σ (textOf texts i) then
      .out (execSInlined σ (textOf texts i) db).1 :: specAllS texts rest (execSInlined σ (textOf texts i) db).2
    else
      .out (execS σ (textOf texts i) db).1 :: specAllS texts rest (execS σ (textOf texts i) db).2.1

def parseShist (ord rows urows stmts steps : List Sexp) : Option (Db × List SStmt × List Step) :=
  match ord.mapM Sexp.nat?, rows.mapM row?, urows.mapM row?, stmts.mapM sstmt?, steps.mapM sstep? with
  | some ord, some rows, some urows, some texts, some steps => some ({ ord := ord, rows := rows, u := urows }, texts, steps)
  | _, _, _, _, _ => none

def handle (p : List Sexp) : String :=
  match p with
  -- the statement cache after a schema history: which cached ASTs are no longer the parse of their text
  -- (Impl model only: the property says nothing about the cache, specObs = "?")
  | [.list [.atom "sast", .list (.atom "ord" :: ord), .list (.atom "t" :: rows), .list (.atom "u" :: urows),
      .list (.atom "stmts" :: stmts), .list (.atom "steps" :: steps)]] =>
    match parseShist ord rows urows stmts steps with
    | some (db, texts, steps) =>
      let d := " ".intercalate ((driftedStmts texts (finalCacheG bindAst texts steps db [])).map toString)
      answer ("ast a:[" ++ d ++ "] b:[" ++ d ++ "]") "?"
    | none => answer "bad-case"
  | [.list [.atom "shist", .list (.atom "ord" :: ord), .list (.atom "t" :: rows), .list (.atom "u" :: urows),
      .list (.atom "stmts" :: stmts), .list (.atom "steps" :: steps)]] =>
    match ord.mapM Sexp.nat?, rows.mapM row?, urows.mapM row?, stmts.mapM sstmt?, steps.mapM sstep? with
    | some ord, some rows, some urows, some texts, some steps =>
      let db : Db := { ord := ord, rows := rows, u := urows }
      let impl := " ; ".intercalate ((implAll texts steps db []).map showObs)
      let spec := " ; ".intercalate ((specAllS texts steps db).map showObs)
      let region := if staleFree texts steps db [] then "-" else "natural_join_using_memoised"
      if impl == spec then answer impl "=" region else answer impl spec region
    | _, _, _, _, _ => answer "bad-case"
  | [.list [.atom "hist", .list (.atom "tbl" :: rows), .list (.atom "steps" :: steps)]] =>
    match rows.mapM row?, steps.mapM step? with
    | some rows, some steps =>
      let impl := " ; ".intercalate ((execAll steps rows).map showOutcome)
      let spec := " ; ".intercalate ((specAll steps rows).map showOutcome)
      if impl == spec then answer impl else answer impl spec
    | _, _ => answer "bad-case"
  -- literal probes carry no model prediction (floats / decimals / bytes are outside the Lean fragment):
  -- the four execution paths are compared by the harness (model-free oracle)
  | [.list (.atom "probe" :: _)] => answer "probe" "?"
  | _ => answer "bad-case"

def main : IO Unit := runPure handle
