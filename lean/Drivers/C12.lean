/-
C12 driver. Payload: `(hist (tbl (row v v v)…) (steps (st <stmt> (<binding>…))…))`
  v        ::= null | (i n) | (s xHEX)            binding ::= v | none
  atom     ::= (lit v) | (p i)
  expr     ::= (a atom) | (col i) | (neg e) | (ar op a b) | (cmp op a b) | (and a b) | (or a b) | (not e)
             | (isnull e) | (in e (atom…)) | (btw e lo hi)
  stmt     ::= (select (expr…) expr nolim|atom) | (insert (atom…)) | (update c expr expr) | (delete expr)
implModelObs = the observations of `exec` (bindings looked up while planning the cached AST),
specObs = those of `execInlined` (values written as literals) on every well-bound step.
-/
import Gms.Driver.PreparedProto
open Gms.Proto Gms.Sql Gms.Prepared Gms.PreparedProto

def wellBound (σ : Bindings) (st : Stmt) : Bool :=
  st.params.all (fun i => (lookup σ i).isSome) &&
  (List.range σ.length).all (fun i => !(lookup σ i).isSome || st.params.contains i)

/-- Spec stream: the inlined text where the property applies (every placeholder bound, every
binding used); a mis-bound execution has no inlined counterpart and is taken from `exec`. -/
def specAll : List (Stmt × Bindings) → Table → List Outcome
  | [], _ => []
  | (st, σ) :: rest, db =>
    let r := if wellBound σ st then execInlined σ st db else exec σ st db
    r.1 :: specAll rest r.2

def handle (p : List Sexp) : String :=
  match p with
  | [.list [.atom "hist", .list (.atom "tbl" :: rows), .list (.atom "steps" :: steps)]] =>
    match rows.mapM row?, steps.mapM step? with
    | some rows, some steps =>
      let impl := " ; ".intercalate ((execAll steps rows).map showOutcome)
      let spec := " ; ".intercalate ((specAll steps rows).map showOutcome)
      if impl == spec then answer impl else answer impl spec
    | _, _ => answer "bad-case"
  -- literal probes carry no model prediction (floats / decimals / bytes are outside the Lean fragment):
  -- the four execution paths are compared by the harness (model-free oracle)
  | [.list (.atom "probe" :: _)] => answer "probe" "?"
  | _ => answer "bad-case"

def main : IO Unit := runPure handle
