import Gms.Driver.Proto
import Gms.Model.Catalog
open Gms.Proto Gms.Catalog

/-!
Driver for C43. One case = one DDL history over an empty database, observed at its end:
  (hist acct|noacct ddl…)
  ddl := (ct xT (cols (c xN xTYPE 0|1 null|xDEFAULT)…) (pk xC…) (idxs (i xN 0|1 xC…)…)) | (dt xT)
       | (ac xT (c …) last|first|(after xC)) | (dc xT xC) | (rc xT xOLD xNEW) | (ci xT (i …)) | (di xT xN)
       | (apk xT xC…) | (dpk xT) | (cv xN xTEXT) | (dv xN) | (ctr xN xT xTIMING xEVENT) | (dtr xN)
       | (cp xN (chr det|notdet|contains|nosql|reads|modifies…) 0|1) | (dp xN)
Answer: which statements were accepted + every modelled view (rows sorted), for the code's rules
(`columnKeysImpl`, empty TRIGGERS/VIEWS/ROUTINES without a privilege set, the ROUTINES loop with its
carried variables, the PRIMARY KEY clause through the ordinals) and for the property's.
  (objs …) and (casevariant) are oracle-only cases of the harness (outside the model).
-/

def strOf (x : Sexp) : Option String := (x.bytes?).bind fun bs => String.fromUTF8? (ByteArray.mk bs.toArray)

def parseCol : Sexp → Option Col
  | .list [.atom "c", n, ty, nl, d] => do
    let dflt ← match d with
      | .atom "null" => some none
      | x => (strOf x).map some
    some ⟨← strOf n, ← strOf ty, (← nl.nat?) != 0, dflt⟩
  | _ => none

def parseIdx : Sexp → Option Idx
  | .list (.atom "i" :: n :: u :: cols) => do some ⟨← strOf n, (← u.nat?) != 0, ← cols.mapM strOf⟩
  | _ => none

def parsePos : Sexp → Option Pos
  | .atom "last" => some .last
  | .atom "first" => some .first
  | .list [.atom "after", c] => (strOf c).map .after
  | _ => none

def parseChr : Sexp → Option Chr
  | .atom "det" => some .det
  | .atom "notdet" => some .notDet
  | .atom "contains" => some .containsSql
  | .atom "nosql" => some .noSql
  | .atom "reads" => some .readsSql
  | .atom "modifies" => some .modifiesSql
  | _ => none

def parseDdl : Sexp → Option Ddl
  | .list [.atom "ct", n, .list (.atom "cols" :: cols), .list (.atom "pk" :: pk), .list (.atom "idxs" :: idxs)] => do
    some (.createTable ⟨← strOf n, ← cols.mapM parseCol, ← pk.mapM strOf, ← idxs.mapM parseIdx⟩)
  | .list [.atom "dt", n] => (strOf n).map .dropTable
  | .list [.atom "ac", t, c, p] => do some (.addColumn (← strOf t) (← parseCol c) (← parsePos p))
  | .list [.atom "dc", t, c] => do some (.dropColumn (← strOf t) (← strOf c))
  | .list [.atom "rc", t, o, n] => do some (.renameColumn (← strOf t) (← strOf o) (← strOf n))
  | .list [.atom "ci", t, i] => do some (.createIndex (← strOf t) (← parseIdx i))
  | .list [.atom "di", t, n] => do some (.dropIndex (← strOf t) (← strOf n))
  | .list (.atom "apk" :: t :: cols) => do some (.addPk (← strOf t) (← cols.mapM strOf))
  | .list [.atom "dpk", t] => (strOf t).map .dropPk
  | .list [.atom "cv", n, tx] => do some (.createView ⟨← strOf n, ← strOf tx⟩)
  | .list [.atom "dv", n] => (strOf n).map .dropView
  | .list [.atom "ctr", n, t, tm, ev] => do some (.createTrigger ⟨← strOf n, ← strOf t, ← strOf tm, ← strOf ev⟩)
  | .list [.atom "dtr", n] => (strOf n).map .dropTrigger
  | .list [.atom "cp", n, .list (.atom "chr" :: chars), inv] => do
    some (.createProc ⟨← strOf n, ← chars.mapM parseChr, (← inv.nat?) != 0⟩)
  | .list [.atom "dp", n] => (strOf n).map .dropProc
  | _ => none

def insertStr (a : String) : List String → List String
  | [] => [a]
  | b :: rest => if a < b then a :: b :: rest else b :: insertStr a rest

def sortStrs (l : List String) : List String := l.foldr insertStr []

def showRows (rows : List Row) : String := "~".intercalate (sortStrs (rows.map fun r => "|".intercalate r))

/-- Run the history, recording which statements were accepted. -/
def runHist : Cat → List Ddl → String → Cat × String
  | c, [], acc => (c, acc)
  | c, d :: rest, acc =>
    match apply c d with
    | some c' => runHist c' rest (acc ++ "o")
    | none => runHist c rest (acc ++ "e")

def sortTbls (l : List Tbl) : List Tbl :=
  l.foldr (fun t acc =>
    let rec ins : List Tbl → List Tbl
      | [] => [t]
      | u :: rest => if t.name < u.name then t :: u :: rest else u :: ins rest
    ins acc) []

/-- SHOW CREATE TABLE as observed: the column names in the order printed, then the key clauses. -/
def showCreateObs (impl : Bool) (t : Tbl) : String :=
  "cols=" ++ ",".intercalate (showCreateCols t) ++ "/keys=" ++
    "~".intercalate ((if impl then showCreateKeys t else t.allIdxs.map keyLine).map fun r => "|".intercalate r)

def observe (impl : Bool) (keys showKeys : Tbl → List String) (privMissing quoteStr : Bool) (c : Cat) : List (String × String) :=
  let routines := if impl then routinesView privMissing c else routinesSpec c
  [("TABLES", showRows (tablesView c)),
   ("COLUMNS", showRows (columnsView keys c)),
   ("STATISTICS", showRows (statisticsView c)),
   ("CONSTRAINTS", showRows (tableConstraintsView c)),
   ("KCU", showRows (keyColumnUsageView c)),
   ("TRIGGERS", showRows (triggersView privMissing c)),
   ("VIEWS", showRows (viewsView privMissing c)),
   ("SHOWTABLES", showRows (showTables c)),
   ("SHOWFULL", showRows (tablesView c)),
   ("SHOWTRIG", showRows (showTriggers c)),
   ("ROUTINES", showRows routines),
   ("SHOWPROCS", showRows (showProcStatus routines))] ++
  (sortTbls c.tables).flatMap fun t =>
    [("SHOWCOLS:" ++ t.name, "~".intercalate ((showColumns quoteStr showKeys t).map fun r => "|".intercalate r)),
     ("SHOWIDX:" ++ t.name, "~".intercalate ((showIndex t).map fun r => "|".intercalate r)),
     ("SHOWCREATE:" ++ t.name, showCreateObs impl t)]

def render (ddl : String) (parts : List (String × String)) : String :=
  "ddl=" ++ ddl ++ ";" ++ ";".intercalate (parts.map fun (k, v) => k ++ "=" ++ v)

def regionOf (key : String) : String :=
  if key = "TRIGGERS" || key = "VIEWS" then "no_privilege_set_views_triggers_empty"
  else if key = "ROUTINES" || key = "SHOWPROCS" then "no_privilege_set_routines_empty"
  else if key = "COLUMNS" then "column_key_composite_or_shared_index"
  else if key.startsWith "SHOWCOLS:" then "show_columns_string_default_quoted"
  else "unclassified"

def handle (p : List Sexp) : String :=
  match p with
  | [.list (.atom "hist" :: .atom mode :: ddls)] =>
    match ddls.mapM parseDdl with
    | none => answer "bad-case"
    | some h =>
      let (c, flags) := runHist Cat.empty h ""
      let io := observe true columnKeysImpl columnKeysSpec (mode == "noacct") true c
      let so := observe false columnKeysSpec columnKeysSpec false false c
      let i := render flags io
      let s := render flags so
      if i == s then answer i
      else
        let region := match (io.zip so).find? (fun (a, b) => a.2 != b.2) with
          | some (a, _) => regionOf a.1
          | none => "unclassified"
        answer i s region
  | [.list [.atom "casevariant"]] => answer "casevariant"   -- oracle-only corpus case (outside the model)
  | [.list (.atom "objs" :: _)] => answer "objs"             -- oracle-only: per-object rows vs. the object alone
  | _ => answer "bad-case"

def main : IO Unit := runPure handle
