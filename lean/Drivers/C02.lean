/-
C02 driver: evaluate a query term with the reference semantics (`Gms.Rel.eval`) and print the
canonical result. Payload: `(c02 (ordered 0|1) (db …) (q <query>) (sql x…))` (`sql` is
informative only), optional `(feat f…)` = spelling features reported by the SQL printer. There is
no Impl model of the engine: implModelObs = specObs, except on the known-defect regions of
Gms/Model/SqlQuirks.lean, where implModelObs is the reference evaluation of the rewritten term.
-/
import Gms.Driver.SqlProto
import Gms.Model.SqlQuirks
open Gms.Proto Gms.Sql Gms.Rel Gms.SqlProto Gms.Quirks

def handle (p : List Sexp) : String :=
  match p with
  | [.list (.atom "c02" :: items)] =>
    let ordered := fieldArgs items "ordered" == [Sexp.atom "1"]
    match (field items "db").bind db?, (fieldArgs items "q").head?.bind query? with
    | some (tys, db), some q =>
      if check tys db q then
        let feats := (fieldArgs items "feat").filterMap Sexp.str?
        let spec := showRows ordered (eval db q)
        match region feats q with
        | none => answer spec
        | some r => answer (showRows ordered (implEval db feats q)) spec r.name
      else answer "ill-typed"
    | _, _ => answer "bad-case"
  | _ => answer "bad-case"

def main : IO Unit := runPure handle
