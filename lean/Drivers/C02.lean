/-
C02 driver: evaluate a query term with the reference semantics (`Gms.Rel.eval`) and print the
canonical result. Payload: `(c02 (ordered 0|1) (db …) (q <query>) (sql x…))` (`sql` is
informative only). There is no Impl model of the engine: implModelObs = specObs.
-/
import Gms.Driver.SqlProto
open Gms.Proto Gms.Sql Gms.Rel Gms.SqlProto

def handle (p : List Sexp) : String :=
  match p with
  | [.list (.atom "c02" :: items)] =>
    let ordered := fieldArgs items "ordered" == [Sexp.atom "1"]
    match (field items "db").bind db?, (fieldArgs items "q").head?.bind query? with
    | some (tys, db), some q =>
      if check tys db q then answer (showRows ordered (eval db q))
      else answer "ill-typed"
    | _, _ => answer "bad-case"
  | _ => answer "bad-case"

def main : IO Unit := runPure handle
