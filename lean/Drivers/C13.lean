import Gms.Driver.Proto
import Gms.Driver.MemTableRun
open Gms.Proto

/-- C13: outcome class, affected / matched counts and table contents after every statement. -/
def main : IO Unit := runPure (Gms.MemTableRun.handle true)
