import Gms.Driver.Proto
import Gms.Driver.MemTableProto
import Gms.Model.MemTable
open Gms.Proto Gms.MemTable Gms.MemTableProto

/-- Region of one statement on pre-state `t` ("-" when Impl model and Spec agree). -/
def stmtRegion (sch : Schema) (t : List Row) (s : Stmt) (masked differ : Bool) : String :=
  if !differ then "-"
  else if regionPrintCollision sch t s then "pk_print_collision"
  else if masked then "unique_check_ignores_pending_edits"
  else if regionReplaceMulti sch t s then "replace_multi_delete_count"
  else if regionCiKey sch t s then "ci_collation_key"
  else "?"

/-- Run a history: every statement is judged from the Impl model's state before it (the Spec is
re-synchronised after each statement, so one defect does not hide the next). -/
def runHistory (sch : Schema) : List Row → List Stmt → List String → List String → List String →
    List String × List String × List String
  | _, [], io, so, rg => (io.reverse, so.reverse, rg.reverse)
  | t, s :: rest, io, so, rg =>
    let (o, e) := implStmtE sch t s
    let (o', t') := specStmt sch t s
    let i := rStep o e.rows
    let sp := rStep o' t'
    runHistory sch e.rows rest (i :: io) (sp :: so) (stmtRegion sch t s e.inexact (i != sp) :: rg)

def pickRegion (rs : List String) : String :=
  if rs.contains "?" then "-"
  else match rs.filter (· != "-") with
    | [] => "-"
    | r :: _ => r

def handle (p : List Sexp) : String :=
  match p with
  | [sch, .list (.atom "stmts" :: stmts)] =>
    match pSchema sch, stmts.mapM pStmt with
    | some sch, some stmts =>
      let (io, so, rg) := runHistory sch [] stmts [] [] []
      let i := ";".intercalate io
      let s := ";".intercalate so
      if i == s then answer i else answer i s (pickRegion rg)
    | _, _ => answer "bad-case"
  | _ => answer "bad-case"

def main : IO Unit := runPure handle
