import Gms.Driver.Proto
import Gms.Model.Pipeline
open Gms.Proto Gms.Pipeline

def cfg : Cfg := { B := 128, capR := 512, capS := 4 }

def handle (p : List Sexp) : String :=
  match p with
  | [.list [.atom "pipe", n, .list sched]] =>
    match n.nat? with
    | some n =>
      let sched := sched.filterMap Sexp.nat?
      let s := runSched cfg (init (List.range n)) sched (8 * n + 100)
      if s.senderDone then
        answer ("sizes " ++ " ".intercalate ((clientCallbacks s).map fun b => toString b.length))
      else answer "model-did-not-terminate"
    | none => answer "bad-case"
  | [.list (.atom "wire" :: _)] => answer "eq"
  | [.list (.atom "conc" :: _)] => answer "eq"
  | _ => answer "bad-case"

def main : IO Unit := runPure handle
