import Gms.Driver.Proto
import Gms.Model.Pipeline
import Gms.Model.BufPool
import Gms.Model.Spool
open Gms.Proto Gms.Pipeline

def cfg : Cfg := { B := 128, capR := 512, capS := 4 }

/-- `(stmt conn tag n w <sql text, hex> ((at (stmt …)) …))` -/
partial def parseStmt : Sexp → Option Gms.BufPool.Stmt
  | .list [.atom "stmt", c, tag, n, w, _, .list nested] => do
    let c ← c.nat?
    let tag ← tag.nat?
    let n ← n.nat?
    let w ← w.nat?
    let ns ← nested.mapM fun x =>
      match x with
      | .list [at_, st] => do
        let a ← at_.nat?
        let s ← parseStmt st
        pure (a, s)
      | _ => none
    pure (Gms.BufPool.Stmt.mk c tag n w ns)
  | _ => none

def countBorrows (es : List Gms.BufPool.Ev) : Nat :=
  es.foldl (fun acc e => match e with | .borrow _ => acc + 1 | _ => acc) 0

def rootRows : Gms.BufPool.Stmt → Nat
  | .mk _ _ n _ _ => n

/-- The alias stream: run the schedule on the memory model with the buffer discipline of the source
(returned after the final callback). -/
def aliasObs (st : Gms.BufPool.Stmt) : String :=
  let es := Gms.BufPool.compile true 128 st
  let s := Gms.BufPool.run Gms.BufPool.init es
  let intact := (List.range 16).all fun c => decide ((s.conns c).received = (s.conns c).sent)
  let sizes := Gms.Spool.render (.cbs (Gms.Spool.batchSizes 128 (rootRows st)))
  if s.bad then "model: buffer discipline violated"
  else sizes ++ " ; ran " ++ toString (countBorrows es) ++ " ; " ++ (if intact then "intact" else "corrupt")

def kindOf : String → Option Gms.Spool.Kind
  | "ok" => some .ok
  | "none" => some .none
  | "rows" => some .rows
  | _ => none

def unhexStr (x : Sexp) : String :=
  match x.bytes? with
  | some bs => String.ofList (bs.map fun b => Char.ofNat b.toNat)
  | none => "?"

def handle (p : List Sexp) : String :=
  match p with
  | [.list [.atom "pipe", n, .list sched]] =>
    match n.nat? with
    | some n =>
      let sched := sched.filterMap Sexp.nat?
      let s := runSched cfg (init (List.range n)) sched (8 * n + 100)
      if s.senderDone then
        answer ("sizes " ++ " ".intercalate ((clientCallbacks s).map fun b => toString b.length))
      else answer "model-did-not-terminate"
    | none => answer "bad-case"
  | [.list [.atom "alias", st]] =>
    match parseStmt st with
    | some st => answer (aliasObs st)
    | none => answer "bad-case"
  | [.list [.atom "disp", .atom k, m, n, _]] =>
    match kindOf k, m.nat?, n.nat? with
    | some k, some m, some n =>
      let q : Gms.Spool.Q := { kind := k, max1 := m != 0, n := n }
      answer (Gms.Spool.render (Gms.Spool.handler 128 q)) (Gms.Spool.render (Gms.Spool.spec 128 q))
    | _, _, _ => answer "bad-case"
  | [.list [.atom "disp-err", cls, _]] => answer (unhexStr cls)
  | [.list (.atom "wire" :: _)] => answer "eq"
  | [.list (.atom "conc" :: _)] => answer "eq"
  | [.list (.atom "slow" :: _)] => answer "eq"
  | [.list (.atom "cursor" :: _)] => answer "ran"
  | _ => answer "bad-case"

def main : IO Unit := runPure handle
