/-
C09 driver.
  (valid TY CELL)                         → 1 | 0            is the cell a value of the type
  (col TY (CELL …))                       → ok | bad i j …   one result column: declared type, returned cells
  (nul (nn (f …) …) (q <query>) (nullcols j …) …)
                                          → flags=0101 bad=j …   reported Nullable flags; columns flagged
                                            NOT NULL among those that hold a NULL in the engine's rows
  (conv TARGET SRC childNullable via)     → f<flag> n<null> | err   Convert.IsNullable / Eval returned NULL
  (uconv FAML FAMR same SRC nl nr side scope)
                                          → f<flag> n<null>        a row of one side of a set operation
  (gpick TA TB kind)                      → (ty …)                 GeneralizeTypes of two text types
  (gcov TA TB wa wb)                      → 1 | 0                  … accepts the longest values of both
  (gcol TA TB (CELL …) kind)              → ok | bad i j …         a CASE / IF / IFNULL / UNION column over them
-/
import Gms.Driver.SqlProto
import Gms.Model.ResultType
import Gms.Model.ConvType
open Gms.Proto Gms.Sql Gms.Rel Gms.SqlProto Gms.ResultType Gms.ConvType

def rty? (s : Sexp) : Option RTy :=
  match s with
  | .list [.atom "int", b, u] =>
    match b.nat?, u.nat? with
    | some b, some u => some (.int b (u == 1))
    | _, _ => none
  | .list [.atom "dec", p, sc] =>
    match p.nat?, sc.nat? with
    | some p, some sc => some (.decimal p sc)
    | _, _ => none
  | .list [.atom "dbl"] => some .double
  | .list [.atom "char", n] => n.nat?.map .char
  | .list [.atom "text", n] => n.nat?.map .text
  | .list [.atom "null"] => some .null
  | _ => none

def cell? (s : Sexp) : Option Cell :=
  match s with
  | .atom "null" => some .null
  | .list [.atom "i", n] => n.int?.map .int
  | .list [.atom "b", .atom "1"] => some (.bool true)
  | .list [.atom "b", .atom "0"] => some (.bool false)
  | .list [.atom "d", c, sc] =>
    match c.int?, sc.nat? with
    | some c, some sc => some (.dec c sc)
    | _, _ => none
  | .list [.atom "f"] => some .dbl
  | .list [.atom "s", c, b] =>
    match c.nat?, b.nat? with
    | some c, some b => some (.str c b)
    | _, _ => none
  | _ => none

def flags? (s : Sexp) : Option Flags :=
  match s with
  | .list fs => fs.mapM fun f => f.nat?.map (· == 1)
  | _ => none

def conv? (s : Sexp) : Option Conv :=
  match s with
  | .atom n => Conv.all.find? (fun c => c.name == n)
  | _ => none

def shape? (s : Sexp) : Option Shape :=
  match s with
  | .atom "date" => some .date | .atom "datetime" => some .datetime | .atom "time" => some .time
  | .atom "num" => some .num | .atom "junk" => some .junk | .atom "empty" => some .empty
  | .atom "json" => some .json | .atom "unenc" => some .unenc
  | _ => none

def src? (s : Sexp) : Option Src :=
  match s with
  | .atom "null" => some .null
  | .list [.atom "num", .atom "small"] => some (.num false)
  | .list [.atom "num", .atom "big"] => some (.num true)
  | .list [.atom "text", sh, _] => (shape? sh).map .text
  | .list [.atom "bytes", b, blob, sh] =>
    match b.bytes?, blob.nat?, shape? sh with
    | some b, some blob, some sh => some (.bytes (b.map (·.toNat)) (blob == 1) sh)
    | _, _, _ => none
  | .list [.atom "temporal", .atom "date"] => some (.temporal .date)
  | .list [.atom "temporal", .atom "datetime"] => some (.temporal .datetime)
  | .list [.atom "temporal", .atom "time"] => some (.temporal .time)
  | _ => none

def fam? (s : Sexp) : Option Fam :=
  match s with
  | .atom "null" => some .null | .atom "blob" => some .blob | .atom "decimal" => some .decimal
  | .atom "bit" => some .bit | .atom "uint" => some .uint | .atom "sint" => some .sint
  | .atom "float" => some .float | .atom "year" => some .year | .atom "other" => some .other
  | _ => none

def textTy? (s : Sexp) : Option TextTy :=
  match s with
  | .list [.atom "ty", t, c, b, m] =>
    match t.nat?, c.nat?, b.nat?, m.nat? with
    | some t, some c, some b, some m => some ⟨t == 1, c, b, m⟩
    | _, _, _, _ => none
  | _ => none

def showTextTy (t : TextTy) : String :=
  "(ty " ++ (if t.text then "1" else "0") ++ " " ++ toString t.chars ++ " " ++ toString t.bytes ++ " " ++
    toString t.mb ++ ")"

def bit (b : Bool) : String := if b then "1" else "0"

def showOut (flag : Bool) : Out → String
  | .val => "f" ++ bit flag ++ " n0"
  | .null => "f" ++ bit flag ++ " n1"
  | .err => "err"

/-- The longest witness the harness builds for MEDIUMTEXT / LONGTEXT operands (bytes). -/
def topCap : Nat := 70000

def topCapped (t : TextTy) (w : Nat) : Str :=
  let s := top t w
  if t.text then ⟨min s.chars topCap, min s.bytes topCap⟩ else s

def strCell? (s : Sexp) : Option (Option Str) :=
  match s with
  | .atom "null" => some none
  | .list [.atom "s", c, b] =>
    match c.nat?, b.nat? with
    | some c, some b => some (some ⟨c, b⟩)
    | _, _ => none
  | _ => none

def showFlags (f : Flags) : String := String.ofList (f.map fun b => if b then '1' else '0')

def showObs (flags : Flags) (bad : List Nat) : String :=
  "flags=" ++ showFlags flags ++ " bad=" ++ " ".intercalate (bad.map toString)

def handle (p : List Sexp) : String :=
  match p with
  | [.list [.atom "valid", t, c]] =>
    match rty? t, cell? c with
    | some t, some c => answer (if valid t c then "1" else "0")
    | _, _ => answer "bad-case"
  | [.list [.atom "col", t, .list cs, .atom feat]] =>
    match rty? t, cs.mapM cell? with
    | some t, some cs =>
      let bad := cs.zipIdx.filter fun (c, _) => !valid t c
      match bad.head? with
      | none => answer "ok"
      | some (c, _) =>
        answer ("bad " ++ " ".intercalate (bad.map fun p => toString p.2)) "ok" (valueClass t c ++ "_" ++ feat)
    | _, _ => answer "bad-case"
  | [.list (.atom "nul" :: items)] =>
    match (fieldArgs items "nn").mapM flags?, (fieldArgs items "q").head?.bind query?,
        (fieldArgs items "nullcols").mapM Sexp.nat? with
    | some tabs, some q, some nullcols =>
      let flags := nullQ false false tabs [] q
      let bad := nullcols.filter fun j => flags.getD j true == false
      if bad.isEmpty then answer (showObs flags [])
      else
        let cs := bad.map (causeOf tabs q)
        let c := if cs.contains .outerJoin then Cause.outerJoin
          else if cs.contains .aggregate then Cause.aggregate else Cause.other
        answer (showObs flags bad) (showObs flags []) c.name
    | _, _, _ => answer "bad-case"
  | [.list [.atom "conv", t, src, nn, .atom via]] =>
    match conv? t, src? src, nn.nat? with
    | some c, some s, some nn =>
      -- via = same: the column already has the target's type, the planbuilder drops the Convert
      let flag := if via == "same" then nn == 1 else nullConv c (nn == 1)
      let o := if via == "same" then (if s == .null then Out.null else Out.val) else convOut c s
      -- the property speaks about NULL results only: otherwise the Spec leaves the flag open
      if o == .null && !flag then answer (showOut flag o) (showOut true o) (convRegion c s).name
      else if o == .null then answer (showOut flag o)
      else answer (showOut flag o) "?"
    | _, _, _ => answer "bad-case"
  | [.list [.atom "uconv", fl, fr, same, src, nl, nr, _, scope]] =>
    match fam? fl, fam? fr, same.nat?, src? src, nl.nat?, nr.nat?, scope.nat? with
    | some l, some r, some same, some s, some nl, some nr, some scope =>
      let same := same == 1
      let t := setopTarget l r
      let sound := setopFlag same l r (nl == 1) (nr == 1)
      let flag := if scope == 1 then setopScopeFlag (nl == 1) (nr == 1) else sound
      let o := if same then (if s == .null then Out.null else Out.val) else convOut t s
      if o == .null && !flag then
        let region := if sound then "setop_conversion_scope_notnull" else (convRegion t s).name
        answer (showOut flag o) (showOut true o) region
      else if o == .null then answer (showOut flag o)
      else answer (showOut flag o) "?"
    | _, _, _, _, _, _, _ => answer "bad-case"
  | [.list [.atom "gpick", a, b, _]] =>
    match textTy? a, textTy? b with
    | some a, some b => answer (showTextTy (generalizeText a b)) "?"
    | _, _ => answer "bad-case"
  | [.list [.atom "gcov", a, b, wa, wb]] =>
    match textTy? a, textTy? b, wa.nat?, wb.nat? with
    | some a, some b, some wa, some wb =>
      let r := generalizeText a b
      let ok := accepts r (topCapped a wa) && accepts r (topCapped b wb)
      if ok then answer "1"
      else answer "0" "1" (if MixedFamily a b then "generalize_char_vs_text" else "-")
    | _, _, _, _ => answer "bad-case"
  | [.list [.atom "gcol", a, b, .list cs, .atom kind]] =>
    match textTy? a, textTy? b, cs.mapM strCell? with
    | some a, some b, some cs =>
      let r := generalizeText a b
      let bad := cs.zipIdx.filter fun (c, _) =>
        match c with
        | none => false
        | some s => !accepts r s
      if bad.isEmpty then answer "ok"
      else
        answer ("bad " ++ " ".intercalate (bad.map fun p => toString p.2)) "ok"
          (if MixedFamily a b then "generalize_char_vs_text" else "string_too_long_" ++ kind)
    | _, _, _ => answer "bad-case"
  -- a statement of the type-heavy stream whose NOT NULL column holds NULL: reported by the
  -- harness's model-free oracle (the model has no term for these statements)
  | [.list (.atom "stmt" :: _)] => answer "notnull-null"
  | _ => answer "bad-case"

def main : IO Unit := runPure handle
