/-
C09 driver.
  (valid TY CELL)                         → 1 | 0            is the cell a value of the type
  (col TY (CELL …))                       → ok | bad i j …   one result column: declared type, returned cells
  (nul (nn (f …) …) (q <query>) (nullcols j …) …)
                                          → flags=0101 bad=j …   reported Nullable flags; columns flagged
                                            NOT NULL among those that hold a NULL in the engine's rows
-/
import Gms.Driver.SqlProto
import Gms.Model.ResultType
open Gms.Proto Gms.Sql Gms.Rel Gms.SqlProto Gms.ResultType

def rty? (s : Sexp) : Option RTy :=
  match s with
  | .list [.atom "int", b, u] =>
    match b.nat?, u.nat? with
    | some b, some u => some (.int b (u == 1))
    | _, _ => none
  | .list [.atom "dec", p, sc] =>
    match p.nat?, sc.nat? with
    | some p, some sc => some (.decimal p sc)
    | _, _ => none
  | .list [.atom "dbl"] => some .double
  | .list [.atom "char", n] => n.nat?.map .char
  | .list [.atom "text", n] => n.nat?.map .text
  | .list [.atom "null"] => some .null
  | _ => none

def cell? (s : Sexp) : Option Cell :=
  match s with
  | .atom "null" => some .null
  | .list [.atom "i", n] => n.int?.map .int
  | .list [.atom "b", .atom "1"] => some (.bool true)
  | .list [.atom "b", .atom "0"] => some (.bool false)
  | .list [.atom "d", c, sc] =>
    match c.int?, sc.nat? with
    | some c, some sc => some (.dec c sc)
    | _, _ => none
  | .list [.atom "f"] => some .dbl
  | .list [.atom "s", c, b] =>
    match c.nat?, b.nat? with
    | some c, some b => some (.str c b)
    | _, _ => none
  | _ => none

def flags? (s : Sexp) : Option Flags :=
  match s with
  | .list fs => fs.mapM fun f => f.nat?.map (· == 1)
  | _ => none

def showFlags (f : Flags) : String := String.ofList (f.map fun b => if b then '1' else '0')

def showObs (flags : Flags) (bad : List Nat) : String :=
  "flags=" ++ showFlags flags ++ " bad=" ++ " ".intercalate (bad.map toString)

def handle (p : List Sexp) : String :=
  match p with
  | [.list [.atom "valid", t, c]] =>
    match rty? t, cell? c with
    | some t, some c => answer (if valid t c then "1" else "0")
    | _, _ => answer "bad-case"
  | [.list [.atom "col", t, .list cs, .atom feat]] =>
    match rty? t, cs.mapM cell? with
    | some t, some cs =>
      let bad := cs.zipIdx.filter fun (c, _) => !valid t c
      match bad.head? with
      | none => answer "ok"
      | some (c, _) =>
        answer ("bad " ++ " ".intercalate (bad.map fun p => toString p.2)) "ok" (valueClass t c ++ "_" ++ feat)
    | _, _ => answer "bad-case"
  | [.list (.atom "nul" :: items)] =>
    match (fieldArgs items "nn").mapM flags?, (fieldArgs items "q").head?.bind query?,
        (fieldArgs items "nullcols").mapM Sexp.nat? with
    | some tabs, some q, some nullcols =>
      let flags := nullQ false false tabs [] q
      let bad := nullcols.filter fun j => flags.getD j true == false
      if bad.isEmpty then answer (showObs flags [])
      else
        let cs := bad.map (causeOf tabs q)
        let c := if cs.contains .outerJoin then Cause.outerJoin
          else if cs.contains .aggregate then Cause.aggregate else Cause.other
        answer (showObs flags bad) (showObs flags []) c.name
    | _, _, _ => answer "bad-case"
  -- a statement of the type-heavy stream whose NOT NULL column holds NULL: reported by the
  -- harness's model-free oracle (the model has no term for these statements)
  | [.list (.atom "stmt" :: _)] => answer "notnull-null"
  | _ => answer "bad-case"

def main : IO Unit := runPure handle
