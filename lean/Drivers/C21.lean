import Gms.Driver.Proto
import Gms.Model.Alter
open Gms.Proto Gms.Alter

/-! Line-protocol driver for C21: runs an ALTER TABLE history on the model.

payload: `(schema (name ty nullable dflt)…) (pk name…) (rows (v…)…) (ops op…)`
observation per statement: `<class>;<column descriptions>;<rows, sorted>|` -/

def str? (s : Sexp) : Option (List Char) := do
  let bs ← s.bytes?
  pure (bs.map fun b => Char.ofNat b.toNat)

def parseTy : Sexp → Option Ty
  | .atom "tiny" => some .tiny
  | .atom "int" => some .int
  | .atom "big" => some .big
  | .list [.atom "str", n] => do pure (.str (← n.nat?))
  | .list (.atom "enum" :: ls) => do pure (.enum (← ls.mapM str?))
  | _ => none

def parseVal : Sexp → Option Val
  | .atom "null" => some .null
  | .list [.atom "i", i] => do pure (.int (← i.int?))
  | .list [.atom "s", s] => do pure (.str (← str? s))
  | .list [.atom "e", k] => do pure (.en (← k.nat?))
  | _ => none

def parseCol : Sexp → Option Col
  | .list [n, ty, nl, d] => do
    let d ← match d with
      | .atom "-" => some none
      | v => (parseVal v).map some
    pure { name := ← n.nat?, ty := ← parseTy ty, nullable := (← nl.nat?) == 1, dflt := d }
  | _ => none

def parsePos : Sexp → Option Pos
  | .atom "keep" => some .keep
  | .atom "first" => some .first
  | .list [.atom "after", n] => do pure (.after (← n.nat?))
  | _ => none

def parseOp : Sexp → Option Op
  | .list [.atom "add", c, p] => do pure (.add (← parseCol c) (← parsePos p))
  | .list [.atom "drop", n] => do pure (.drop (← n.nat?))
  | .list [.atom "mod", n, c, p] => do pure (.modify (← n.nat?) (← parseCol c) (← parsePos p))
  | .list (.atom "addpk" :: ns) => do pure (.addPk (← ns.mapM Sexp.nat?))
  | .list [.atom "droppk"] => some .dropPk
  | .list [.atom "rent"] => some .renameTable
  | _ => none

def hexS (s : List Char) : String := hex ((String.ofList s).toUTF8.toList)

def tyText : Ty → String
  | .tiny => "tinyint"
  | .int => "int"
  | .big => "bigint"
  | .str n => "varchar(" ++ toString n ++ ")"
  | .enum ls => "enum(" ++ ",".intercalate (ls.map fun l => "'" ++ String.ofList l ++ "'") ++ ")"

/-- What a client sees for a stored value of a column of type `ty`. -/
def display (ty : Ty) : Val → String
  | .null => "null"
  | .int i => hexS (showInt i)
  | .str s => hexS s
  | .en k => match ty with
    | .enum ls => hexS ((enumAt ls k).getD [])
    | _ => hexS (showInt (Int.ofNat k))

def colText (t : Table) (c : Col) : String :=
  "c" ++ toString c.name ++ ":" ++ tyText c.ty ++ ":" ++ (if c.nullable then "Y" else "N") ++ ":" ++
    (if t.pk.contains c.name then "P" else "-") ++ ":" ++
    (match c.dflt with | none => "null" | some v => display c.ty v)

def rowText (t : Table) (r : Row) : String :=
  "[" ++ ",".intercalate ((List.range t.schema.length).map fun j =>
    display (t.schema.getD j default).ty (r.getD j .null)) ++ "]"

def insertBy (a : String) : List String → List String
  | [] => [a]
  | b :: bs => if a ≤ b then a :: b :: bs else b :: insertBy a bs

def isort : List String → List String
  | [] => []
  | a :: as => insertBy a (isort as)

def tableText (t : Table) : String :=
  ",".intercalate (t.schema.map (colText t)) ++ ";pk=" ++ ",".intercalate (t.key.map fun n => "c" ++ toString n) ++ ";" ++
    String.join (isort (t.rows.map (rowText t)))

def clsText (op : Op) : Option Err → String
  | none => "ok"
  | some e =>
    match op, e with
    | .addPk _, .dup => "err:pk"       -- which of 1048 / 1062 comes first depends on the physical row order
    | .addPk _, .nullNN => "err:pk"
    | .modify _ _ _, _ => "err"        -- likewise: the first failing row decides between 1048 / 1062 / conversion
    | _, .dup => "err:1062"
    | _, .nullNN => "err:1048"
    | _, .other => "err"

def regionOf (t : Table) (op : Op) : String :=
  if changeToExistingName t op then "change_to_existing_name"
  else if enumTextReorder t op then "enum_text_reorder"
  else if emptyStringToInt t op then "empty_string_becomes_zero"
  else if renameKeyInplace t op then "rename_key_column_in_place"
  else "unclassified"

def handle (p : List Sexp) : String :=
  match p with
  | [.list (.atom "schema" :: cols), .list (.atom "pk" :: pk), .list (.atom "rows" :: rows), .list (.atom "ops" :: ops)] =>
    match cols.mapM parseCol, pk.mapM Sexp.nat?, rows.mapM (fun r => r.items.mapM parseVal), ops.mapM parseOp with
    | some cols, some pk, some rows, some ops =>
      let t0 : Table := { schema := cols, pk := pk, key := pk, rows := rows }
      -- the hypotheses of the theorems are evaluated on every case
      if !t0.wf then answer "bad-case:hypotheses" else
      let (_, _, impl, spec, region) := ops.foldl
        (fun (acc : Table × Table × String × String × String) op =>
          let (ti, ts, impl, spec, region) := acc
          let (ti', ei) := step false ti op
          let (ts', es) := step true ts op
          -- two statement classes end a history and are judged by the harness's oracle only (the Spec
          -- rejects both): the engine's outcome — a table with two columns of one name, or whatever a
          -- panic left — is not predicted by the model
          let special := if afterItself op then some "<after-itself>" else
            if changeToExistingName ti op then some "<dup-name>" else none
          let oi := match special with
            | some s => s ++ "|"
            | none => clsText op ei ++ ";" ++ tableText ti' ++ "|"
          let os := match special with
            | some s => s ++ "|"
            | none => clsText op es ++ ";" ++ tableText ts' ++ "|"
          let region := if region == "-" && oi != os then regionOf ti op else region
          (ti', ts', impl ++ oi, spec ++ os, region))
        (t0, t0, "", "", "-")
      if impl == spec then answer impl else answer impl spec region
    | _, _, _, _ => answer "bad-case"
  | _ => answer "bad-case"

def main : IO Unit := runPure handle
