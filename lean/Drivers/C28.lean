import Gms.Driver.Proto
import Gms.Model.Wire
import Gms.Model.WireCs
open Gms.Proto

/-! Driver for C28: `(sql ty val)`, `(clamp ity kind v)`, `(free kind tname value textLen max)`,
`(wire wty val)`, and the character-set streams `(cslen csty res)`, `(cs csty res csval)`,
`(cswirelen csty res)`, `(cswire csty res csval)`. -/

namespace CsDrv
open Gms.WireCs

def parseCs : Sexp → Option Cs
  | .atom n => Cs.ofName? n
  | _ => none

def parseRes : Sexp → Option Res
  | .atom "null" => some .null
  | .atom n => (Cs.ofName? n).map .cs
  | _ => none

def parseStr : Sexp → Option Str
  | .list xs => xs.mapM Sexp.nat?
  | _ => none

def parseTy : Sexp → Option Ty
  | .list (.atom "enum" :: c :: ms) =>
    match parseCs c, ms.mapM parseStr with
    | some c, some ms => some (.enum c ms)
    | _, _ => none
  | .list (.atom "set" :: c :: ms) =>
    match parseCs c, ms.mapM parseStr with
    | some c, some ms => some (.set c ms)
    | _, _ => none
  | .list [.atom "char", c, n] | .list [.atom "varchar", c, n] =>
    match parseCs c, n.nat? with
    | some c, some n => some (.char c n)
    | _, _ => none
  | .list [.atom "text", c, mb] =>
    match parseCs c, mb.nat? with
    | some c, some mb => some (.text c mb)
    | _, _ => none
  | _ => none

def parseVal : Sexp → Option Val
  | .list [.atom "idx", i] => i.nat?.map .idx
  | .list [.atom "bits", b] => b.nat?.map .bits
  | .list (.atom "str" :: cps) => (cps.mapM Sexp.nat?).map .str
  | _ => none

def hexN (bs : List Nat) : String := hex (bs.map UInt8.ofNat)

/-- `(cslen ty res)`: the announced length alone (correspondence of the length computation; the
property says nothing about the number in isolation, hence Spec `?`). -/
def handleLen (ty res : Sexp) : String :=
  match parseTy ty, parseRes res with
  | some t, some r => answer s!"max={announced r t}" "?"
  | _, _ => answer "bad-case"

/-- `(cs ty res val)` / `(cswire ty res val)`: the transcoded text, whether it fits the announced
length, whether it decodes back. -/
def handleVal (wire : Bool) (ty res v : Sexp) : String :=
  match parseTy ty, parseRes res, parseVal v with
  | some t, some r, some v =>
    if !decide (Valid t v) then answer "bad-case:invalid-value" else
    match sentText r t v with
    | none => answer "err" "?"
    | some bs =>
      let fits := if bs.length ≤ announced r t then "yes" else "no"
      let rt := if roundTrip r t v then "ok" else "no"
      let tail := if wire then "" else "|sv=same"
      let impl := s!"{hexN bs}|fits={fits}|rt={rt}{tail}"
      let spec := s!"{hexN bs}|fits=yes|rt=ok{tail}"
      if impl == spec then answer impl else answer impl spec (regionOf r t)
  | _, _, _ => answer "bad-case"

end CsDrv

open Gms.Wire Gms.Num

def hexB (bs : Bytes) : String := hex bs

def parseTy : Sexp → Option WTy
  | .list [.atom "int", .atom n] => (ITy.ofName? n).map fun t => .plain (.int t)
  | .list [.atom "dec", p, s] =>
    match p.nat?, s.nat? with
    | some p, some s => some (.plain (.dec p s))
    | _, _ => none
  | .list [.atom "bit", n] => n.nat?.map fun n => .plain (.bit n)
  | .list [.atom "year"] => some (.plain .year)
  | .list [.atom "date"] => some (.plain .date)
  | .list [.atom "datetime", p] => p.nat?.map fun p => .plain (.datetime p)
  | .list [.atom "timestamp", p] => p.nat?.map fun p => .timestamp p
  | .list [.atom "time"] => some (.plain .time)
  | _ => none

def parseVal : Sexp → Option Val
  | .list [.atom "int", v] => v.int?.map .int
  | .list [.atom "dec", c] => c.int?.map .dec
  | .list [.atom "bit", v] => v.nat?.map .bit
  | .list [.atom "year", y] => y.nat?.map .year
  | .list [.atom "date", y, m, d] =>
    match y.nat?, m.nat?, d.nat? with
    | some y, some m, some d => some (.date y m d)
    | _, _, _ => none
  | .list [.atom "datetime", y, m, d, h, mi, s, us] =>
    match y.nat?, m.nat?, d.nat?, h.nat?, mi.nat?, s.nat?, us.nat? with
    | some y, some m, some d, some h, some mi, some s, some us => some (.datetime y m d h mi s us)
    | _, _, _, _, _, _, _ => none
  | .list [.atom "time", neg, h, mi, s, us] =>
    match neg.nat?, h.nat?, mi.nat?, s.nat?, us.nat? with
    | some neg, some h, some mi, some s, some us => some (.time (neg != 0) h mi s us)
    | _, _, _, _, _ => none
  | _ => none

def showDen : Option Val → String
  | some v => showVal v
  | none => "err"

/-- the announced length the property accepts on this case: the code's if the text fits, else the
shortest that does -/
def fitLen (t : Ty) (text : Bytes) : Nat :=
  if text.length ≤ maxTextLen t then maxTextLen t else max (specLen t) text.length

def handle (p : List Sexp) : String :=
  match p with
  | [Sexp.list [Sexp.atom "sql", ty, v]] =>
    match parseTy ty, parseVal v with
    | some wt, some v =>
      let t := wt.ty
      if !decide (Valid t v) then answer "bad-case:invalid-value" else
      match sqlText t v, specText t v with
      | some text, some stext =>
        let rt := if denotes t text == some v then "ok" else "no"
        let impl := s!"{hexB text}|{maxTextLen t}|rt={rt}"
        let spec := s!"{hexB stext}|{fitLen t stext}|rt=ok"
        if impl == spec then answer impl else answer impl spec (regionOf t v)
      | _, _ => answer "bad-case:type-mismatch"
    | _, _ => answer "bad-case"
  | [Sexp.list [Sexp.atom "clamp", Sexp.atom n, _, v]] =>
    match ITy.ofName? n, v.int? with
    | some t, some v => answer (hexB (sqlInt t v)) "?"
    | _, _ => answer "bad-case"
  | [Sexp.list [Sexp.atom "free", Sexp.atom kind, _, _, len, mx]] =>
    match len.nat?, mx.nat? with
    | some len, some mx =>
      if len ≤ mx then answer "rt=ok len=ok"
      else answer "rt=ok len=over" "rt=ok len=ok" (if kind == "float" then "float_text_exceeds_announced" else "-")
    | _, _ => answer "bad-case"
  | [Sexp.list [Sexp.atom "wire", ty, v]] =>
    match parseTy ty, parseVal v with
    | some wt, some v =>
      let t := wt.ty
      if !decide (Valid t v) then answer "bad-case:invalid-value" else
      match sqlText t v, specText t v with
      | some text, some stext =>
        let b := match binDenoted wt v with
          | some x => showVal x
          | none => "stream-error"
        let impl := s!"h={hexB text} max={maxTextLen t} d={fieldDecimals wt} t={showDen (denotes t text)} b={b}"
        let spec := s!"h={hexB stext} max={fitLen t stext} d={fieldDecimalsSpec wt} t={showVal v} b={showVal v}"
        if impl == spec then answer impl else answer impl spec (wireRegionOf wt v)
      | _, _ => answer "bad-case:type-mismatch"
    | _, _ => answer "bad-case"
  | [Sexp.list [Sexp.atom "cslen", ty, res]] => CsDrv.handleLen ty res
  | [Sexp.list [Sexp.atom "cswirelen", ty, res]] => CsDrv.handleLen ty res
  | [Sexp.list [Sexp.atom "cs", ty, res, v]] => CsDrv.handleVal false ty res v
  | [Sexp.list [Sexp.atom "cswire", ty, res, v]] => CsDrv.handleVal true ty res v
  | _ => answer "bad-case"

def main : IO Unit := runPure handle
