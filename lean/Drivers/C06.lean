/-
C06 driver.
  (c06 hashin <v> (<v>*))                      → Impl model of HashInTuple (keys = the integers
                                                 themselves) | Spec = list IN of the definition
  (c06 pair (db …) (rule r) (qs A B) (sql …))  → reference results of both spellings "A | B"
-/
import Gms.Driver.SqlProto
import Gms.Model.HashIn
open Gms.Proto Gms.Sql Gms.Rel Gms.SqlProto Gms.HashIn

def showTri : Tri → String
  | .t => "t" | .f => "f" | .u => "u"

def handle (p : List Sexp) : String :=
  match p with
  | [.list [.atom "c06", .atom "hashin", v, .list vs]] =>
    match value? v, vs.mapM value? with
    | some v, some vs =>
      let key : Value → Option Value := fun x => some x
      answer (showTri (evalHashIn key (newInMap key vs) v)) (showTri (inTri v vs))
    | _, _ => answer "bad-case"
  | [.list (.atom "c06" :: .atom "pair" :: items)] =>
    match (field items "db").bind db?, (fieldArgs items "qs").mapM query? with
    | some (tys, db), some [qa, qb] =>
      if check tys db qa && check tys db qb then
        answer (showRows false (eval db qa) ++ " | " ++ showRows false (eval db qb))
      else answer "ill-typed"
    | _, _ => answer "bad-case"
  | _ => answer "bad-case"

def main : IO Unit := runPure handle
