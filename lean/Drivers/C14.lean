import Gms.Driver.Proto
import Gms.Driver.MemTableDdlRun
open Gms.Proto

/-- C14: outcome class (ok / ERROR 1062) and table contents after every statement; histories may
interleave schema changes (ADD COLUMN at a position, DROP / RENAME COLUMN, RENAME TABLE). -/
def main : IO Unit := runPure Gms.MemTableDdlRun.handle
