import Gms.Driver.Proto
import Gms.Driver.MemTableRun
open Gms.Proto

/-- C14: outcome class (ok / ERROR 1062) and table contents after every statement. -/
def main : IO Unit := runPure (Gms.MemTableRun.handle false)
