import Gms.Driver.Proto
import Gms.Model.Wkb
import Gms.Model.WkbTyped
open Gms.Proto Gms.Wkb

/-
geom  : (pt xP) | (line xPS) | (poly xPS …) | (mpoint xPS) | (mline xPS …) | (mpoly (p xPS …) …) | (coll geom …)
        xP / xPS = the points' coordinates, 16 bytes each (x then y, IEEE bits little-endian)
case  : (rt <srid> geom)         obs: b=<hex of Serialize()|crash> [v=<res>]
        (conv xBYTES)            obs: <res>            GeometryType.Convert
        (sqlrt <srid> geom)      obs: w=<hex of ST_AsWKB|crash> [v=<res>]     ST_GeomFromWKB(w, srid)
        (fromwkb <srid> xBYTES)  obs: <res>
        (typed <t> <srid> geom)  obs: w=<hex of ST_AsWKB> [v=<res>]   ST_<T>FromWKB(w, srid), t = type id of <T>
        (oracle …)               obs: done             (model-free oracle cases)
res   : ok <srid> geom | err | crash
-/

def mkPt : List UInt8 → Option Pt
  | [a0, a1, a2, a3, a4, a5, a6, a7, c0, c1, c2, c3, c4, c5, c6, c7] =>
    some ⟨⟨a0, a1, a2, a3, a4, a5, a6, a7⟩, ⟨c0, c1, c2, c3, c4, c5, c6, c7⟩⟩
  | _ => none

partial def chunkPts (b : List UInt8) (acc : List Pt) : Option (List Pt) :=
  if b.isEmpty then some acc.reverse
  else match mkPt (b.take 16) with
    | some p => chunkPts (b.drop 16) (p :: acc)
    | none => none

def ptsOf (s : Sexp) : Option (List Pt) := do
  let b ← s.bytes?
  chunkPts b []

partial def parseGeom : Sexp → Option Geom
  | .list [.atom "pt", p] => do
    match ← ptsOf p with
    | [q] => some (.point q)
    | _ => none
  | .list [.atom "line", p] => (ptsOf p).map .line
  | .list (.atom "poly" :: ls) => (ls.mapM ptsOf).map .poly
  | .list [.atom "mpoint", p] => (ptsOf p).map .mpoint
  | .list (.atom "mline" :: ls) => (ls.mapM ptsOf).map .mline
  | .list (.atom "mpoly" :: ps) =>
    (ps.mapM fun (q : Sexp) =>
      match q with
      | .list (.atom "p" :: ls) => ls.mapM ptsOf
      | _ => none).map .mpoly
  | .list (.atom "coll" :: gs) => (gs.mapM parseGeom).map .coll
  | _ => none

def ptsHex (ps : List Pt) : String := hex (ps.flatMap (wPt false))

partial def showGeom : Geom → String
  | .point p => "(pt " ++ ptsHex [p] ++ ")"
  | .line ps => "(line " ++ ptsHex ps ++ ")"
  | .poly ls => "(" ++ " ".intercalate ("poly" :: ls.map ptsHex) ++ ")"
  | .mpoint ps => "(mpoint " ++ ptsHex ps ++ ")"
  | .mline ls => "(" ++ " ".intercalate ("mline" :: ls.map ptsHex) ++ ")"
  | .mpoly ps => "(" ++ " ".intercalate ("mpoly" :: ps.map fun ls => "(" ++ " ".intercalate ("p" :: ls.map ptsHex) ++ ")") ++ ")"
  | .coll gs => "(" ++ " ".intercalate ("coll" :: gs.map showGeom) ++ ")"

def showRes (r : Res (Nat × Geom)) : String :=
  match r with
  | .ok (s, g) => "ok " ++ toString s ++ " " ++ showGeom g
  | .err => "err"
  | .crash => "crash"

/-- Spec of a decoder on arbitrary bytes: a buffer the implementation cannot decode is rejected
with an error — never a run-time panic. -/
def specRes (r : Res (Nat × Geom)) : Res (Nat × Geom) :=
  match r with
  | .crash => .err
  | x => x

def isCrash {α : Type} : Res α → Bool
  | .crash => true
  | _ => false

def handle (p : List Sexp) : String :=
  match p with
  | [.list (.atom "oracle" :: _)] => answer "done"
  | [.list [.atom "rt", srid, g]] =>
    match srid.nat?, parseGeom g with
    | some srid, some g =>
      match serialize srid g with
      | .ok b =>
        let r := convert b
        let impl := "b=" ++ hex b ++ " v=" ++ showRes r
        -- Spec (wkb_roundtrip): a well-formed value comes back unchanged with its SRID
        if wf g then
          let spec := "b=" ++ hex b ++ " v=" ++ showRes (.ok (srid, g))
          if impl == spec then answer impl else answer impl spec "roundtrip_differs"
        else answer impl
      | _ => answer "b=crash" "?" "serialize_overflows_buffer"
    | _, _ => answer "bad-case"
  | [.list [.atom "conv", b]] =>
    match b.bytes? with
    | some b =>
      let r := convert b
      if isCrash r then answer (showRes r) (showRes (specRes r)) "decoder_panics_on_short_buffer"
      else answer (showRes r)
    | none => answer "bad-case"
  | [.list [.atom "sqlrt", srid, g]] =>
    match srid.nat?, parseGeom g with
    | some srid, some g =>
      match asWKB srid g with
      | .ok w =>
        let r := (fromWKB w srid).map fun v => (srid, v)
        let impl := "w=" ++ hex w ++ " v=" ++ showRes r
        if wf g then
          let spec := "w=" ++ hex w ++ " v=" ++ showRes (.ok (srid, g))
          if impl == spec then answer impl else answer impl spec "roundtrip_differs"
        else answer impl
      | _ => answer "w=crash" "?" "serialize_overflows_buffer"
    | _, _ => answer "bad-case"
  | [.list [.atom "typed", t, srid, g]] =>
    match t.nat?, srid.nat?, parseGeom g with
    | some t, some srid, some g =>
      match asWKB srid g with
      | .ok w =>
        let r := (typedFromWKB t w srid).map fun v => (srid, v)
        let sp := (typedFromWKBSpec t w srid).map fun v => (srid, v)
        let impl := "w=" ++ hex w ++ " v=" ++ showRes r
        let spec := "w=" ++ hex w ++ " v=" ++ showRes sp
        if impl == spec then answer impl else answer impl spec "typed_fromwkb_expects_wrong_type"
      | _ => answer "w=crash" "?" "serialize_overflows_buffer"
    | _, _, _ => answer "bad-case"
  | [.list [.atom "fromwkb", srid, b]] =>
    match srid.nat?, b.bytes? with
    | some srid, some b =>
      let r := (fromWKB b srid).map fun v => (srid, v)
      if isCrash r then answer (showRes r) (showRes (specRes r)) "decoder_panics_on_short_buffer"
      else answer (showRes r)
    | _, _ => answer "bad-case"
  | _ => answer "bad-case"

def main : IO Unit := runPure handle
