/-
C01 driver.

* `(checkprop entry nullRejA nullRejB leftA rightA)` — the Impl model of `memo.checkProperty`.
* `(c01 (ordered 0) (db …) (q <query>) (kind k) (cfg x…) (plan op…) (obs x…) (sql x…) (setup …))` — one
  plan of one query: the reference semantics of the query term (`Gms.Rel.eval`) is what EVERY plan
  must return. There is no Impl model of the whole engine: implModelObs = specObs, except on the
  known-defect regions of `Gms.C01Regions`, which are decided on the case (query term + operator
  skeleton of the plan).
* `(phys …)` — a two-table join forced to one physical operator: the row SEQUENCE of the iterator
  model of `Gms/Model/Phys.lean`, and as Spec the reference join.
-/
import Gms.Driver.SqlProto
import Gms.Model.Phys
import Gms.Model.PhysRegions
import Gms.Model.PhysKeys
open Gms.Proto Gms.Sql Gms.Rel Gms.SqlProto Gms.Phys

def boolStr (b : Bool) : String := if b then "true" else "false"

def atomStrs (xs : List Sexp) : List String := xs.filterMap Sexp.str?

def hexText (s : Sexp) : String :=
  match s.bytes? with
  | some bs => String.fromUTF8! (ByteArray.mk bs.toArray)
  | none => ""

/-- Top-level conjuncts of an ON condition. -/
def conjList : Expr → List Expr
  | .and a b => conjList a ++ conjList b
  | e => [e]

/-- Stable insertion sort of rows on one column, NULL first (the order of an index scan). -/
def sortOnCol (i : Nat) (rows : List Row) : List Row :=
  sortBy (fun a b => (a.getD i .null).ord (b.getD i .null) != .gt) rows

/-- The Impl model of a two-table merge join plan `[Left]MergeJoin(Idx, Idx)` whose comparer is the
first ON conjunct `l.ci = r.cj` (single columns): both inputs in index order, `mergeJoin` of
`Gms/Model/Phys.lean` with the remaining conjuncts as `sel`. `none` when the case has another
shape. -/
def mergeModel (db : Db) (q : Query) (ops : List String) : Option (List Row) :=
  match q, ops with
  | .join kind on (.table l) (.table r), [op, "Idx", "Idx"] =>
    let lo := op == "LeftOuterMergeJoin"
    if (op == "MergeJoin" && kind == .inner) || (lo && kind == .left) then
      let lw := tableWidth db l
      let rw := tableWidth db r
      match conjList on with
      | .cmp .eq (.col 0 i) (.col 0 j) :: rest =>
        let (li, rj) := if i < lw then (i, j - lw) else (j, i - lw)
        if li < lw && rj < rw && (i < lw) != (j < lw) then
          let L := sortOnCol li (eval db (.table l))
          let R := sortOnCol rj (eval db (.table r))
          let cmp := fun (a b : Row) =>
            match a.getD li .null, b.getD rj .null with
            | .null, _ => none
            | _, .null => none
            | x, y => some (x.ord y)
          let sel := fun (a b : Row) => rest.all fun e => (evalE db [a ++ b] e).truth == .t
          some (mergeJoin lo cmp (fun a => (a.getD li .null).isNull) sel rw L R)
        else none
      | _ => none
    else none
  | _, _ => none

def keyKind? : Sexp → Option Gms.PhysKeys.KeyKind
  | .atom "r" => some .raw
  | .atom "c" => some .ci
  | .atom "n" => some .num
  | .atom "z" => some .numZ
  | _ => none

/-- `(kinds (r c r) (r n r) …)`: the kind of every column of every table (keq stream). -/
def kinds? (items : List Sexp) : Option (List (List Gms.PhysKeys.KeyKind)) :=
  match field items "kinds" with
  | some (.list (_ :: tabs)) => tabs.mapM fun t => match t with
    | .list ks => ks.mapM keyKind?
    | _ => none
  | _ => none

def handle (p : List Sexp) : String :=
  match p with
  | [.list [.atom "checkprop", e, a, b, l, r]] =>
    match e.nat?, a.nat?, b.nat?, l.nat?, r.nat? with
    | some e, some a, some b, some l, some r => answer (boolStr (checkProperty e a b l r))
    | _, _, _, _, _ => answer "bad-case"
  | [.list (.atom "jcd" :: items)] =>
    -- unit correspondence of the conflict-detection model with the real calcTES / applicable
    let ons : Option (List (List (List Nat))) := (fieldArgs items "ons").mapM fun o => match o with
      | .list cs => cs.mapM fun c => match c with
        | .list vs => vs.mapM Sexp.nat?
        | _ => none
      | _ => none
    let ops := atomStrs (fieldArgs items "plan")
    let leaves := (fieldArgs items "leaves").filterMap Sexp.nat?
    match ons, Gms.JoinConflict.parseTree ops leaves with
    | some ons, some t => answer (Gms.JoinConflict.showEdges (Gms.JoinConflict.buildEdges ons) t)
    | _, _ => answer "bad-case"
  | [.list (.atom "c01" :: items)] =>
    let ordered := fieldArgs items "ordered" == [Sexp.atom "1"]
    -- keq stream: the term is evaluated on the NORMAL FORMS of the key columns (Gms.PhysKeys)
    let rawDb := ((field items "db").bind db?).map (·.2) |>.getD []
    let kss := (kinds? items).getD []
    let dbN : Option (List (List Ty) × Db) :=
      match (field items "db").bind db? with
      | none => none
      | some (tys, db) =>
        if (field items "kinds").isNone then some (tys, db)
        else match kinds? items with
          | none => none
          | some kss =>
            (Gms.PhysKeys.normDb kss db).map fun db' =>
              ((kss.zip tys).map fun p => Gms.PhysKeys.normTys p.1 p.2, db')
    match dbN, (fieldArgs items "q").head?.bind query? with
    | some (tys, db), some q =>
      if check tys db q then
        let ops := atomStrs (fieldArgs items "plan")
        let spec := showRows ordered (eval db q)
        let leaves := (fieldArgs items "leaves").filterMap Sexp.nat?
        let reg := match Gms.PhysRegions.region db q ops leaves with
          | some r => some r
          | none => if kss.isEmpty then none else Gms.PhysRegions.keqRegion kss rawDb q ops
        match reg with
        | none =>
          -- a plain two-table merge join: the Impl model is the merge-join model on index-ordered inputs
          match mergeModel db q ops with
          | some rows => answer (showRows ordered rows) spec
          | none => answer spec
        | some r =>
          -- the defective output is not a function of the case (Go map iteration order): the
          -- observation travels in the payload and is echoed as the Impl-model observation
          let obs := (fieldArgs items "obs").head?.map hexText |>.getD ""
          answer obs spec r.name
      else answer "ill-typed"
    | _, _ => answer "bad-case"
  | _ => answer "bad-case"

def main : IO Unit := runPure handle
