import Gms.Driver.Proto
import Gms.Model.ScalarFn
import Gms.Model.ScalarRows
open Gms.Proto Gms.ScalarFn

/-- `null | (i N) | (t xHEX) | (b xHEX)` -/
def parseVal : Sexp → Option Val
  | .atom "null" => some .null
  | .list [.atom "i", n] => n.int?.map Val.int
  | .list [.atom "t", b] => b.bytes?.map fun bs => Val.text (bs.map UInt8.toNat)
  | .list [.atom "b", b] => b.bytes?.map fun bs => Val.blob (bs.map UInt8.toNat)
  | _ => none

def hexN (b : List Nat) : String := hex (b.map UInt8.ofNat)

def showRes : Res → String
  | .ok .null => "null"
  | .ok (.int i) => "(i " ++ toString i ++ ")"
  | .ok (.text b) => "(t " ++ hexN b ++ ")"
  | .ok (.blob b) => "(b " ++ hexN b ++ ")"
  | .err c => "err:" ++ c
  | .crash => "crash"

def parseRow : Sexp → Option (List Val)
  | .list (.atom "r" :: cells) => cells.mapM parseVal
  | _ => none

def handleRows (name : String) (rows : List Sexp) : String :=
  match rows.mapM parseRow with
  | some rs => answer ("[" ++ " ".intercalate ((evalRows name rs).map showRes) ++ "]")
  | none => answer "bad-case"

def handle (p : List Sexp) : String :=
  match p with
  | [Sexp.list (Sexp.atom "call" :: Sexp.atom name :: args)] =>
    match args.mapM parseVal with
    | some vs =>
      let i := impl name vs
      -- `region` no longer contains the two repaired crash classes (locate_empty_str_pos_panics,
      -- substring_len_overflow_panics; `Gms.C34.locate_never_crashes`, `substring_spec`): a LOCATE /
      -- SUBSTRING call on which the code panics again disagrees with `i` under region "-" (VIOLATION)
      match region name vs with
      | none => answer (showRes i)
      | some r =>
        let s := spec name vs
        if s == i then answer (showRes i) else answer (showRes i) (showRes s) r
    | none => answer "bad-case"
  -- statement level (harness/cmd/c34/rows.go): one node, one Eval per row, results read after the
  -- last row. `rows` = Eval on one node, `stmt` = the same through Engine.Query.
  | [Sexp.list (Sexp.atom "rows" :: Sexp.atom name :: rows)] => handleRows name rows
  | [Sexp.list (Sexp.atom "stmt" :: Sexp.atom name :: rows)] => handleRows name rows
  | _ => answer "bad-case"

def main : IO Unit := runPure handle
