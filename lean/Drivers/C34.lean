import Gms.Driver.Proto
import Gms.Model.ScalarFn
open Gms.Proto Gms.ScalarFn

/-- `null | (i N) | (t xHEX) | (b xHEX)` -/
def parseVal : Sexp → Option Val
  | .atom "null" => some .null
  | .list [.atom "i", n] => n.int?.map Val.int
  | .list [.atom "t", b] => b.bytes?.map fun bs => Val.text (bs.map UInt8.toNat)
  | .list [.atom "b", b] => b.bytes?.map fun bs => Val.blob (bs.map UInt8.toNat)
  | _ => none

def hexN (b : List Nat) : String := hex (b.map UInt8.ofNat)

def showRes : Res → String
  | .ok .null => "null"
  | .ok (.int i) => "(i " ++ toString i ++ ")"
  | .ok (.text b) => "(t " ++ hexN b ++ ")"
  | .ok (.blob b) => "(b " ++ hexN b ++ ")"
  | .err c => "err:" ++ c
  | .crash => "crash"

def handle (p : List Sexp) : String :=
  match p with
  | [Sexp.list (Sexp.atom "call" :: Sexp.atom name :: args)] =>
    match args.mapM parseVal with
    | some vs =>
      let i := impl name vs
      -- `region` no longer contains the two repaired crash classes (locate_empty_str_pos_panics,
      -- substring_len_overflow_panics; `Gms.C34.locate_never_crashes`, `substring_spec`): a LOCATE /
      -- SUBSTRING call on which the code panics again disagrees with `i` under region "-" (VIOLATION)
      match region name vs with
      | none => answer (showRes i)
      | some r =>
        let s := spec name vs
        if s == i then answer (showRes i) else answer (showRes i) (showRes s) r
    | none => answer "bad-case"
  | _ => answer "bad-case"

def main : IO Unit := runPure handle
