import Gms.Driver.Proto
import Gms.Model.ProcLang
import Gms.Model.ProcHandler
open Gms.Proto Gms.ProcLang Gms.ProcH

/-! Line-protocol driver for C24.

Case payload:
  (proc (params (in 0) (out 1) …) (body <stmt>*) (uvars (0 5) (1 N) …) (calls (<arg>*) …) [(norun)])
  `(norun)`: the harness states that the body is in `staleIntoClosedBlock` (the driver checks that it
  is, and that the flag is not missing) and sends `unmodelled:stale-jump-into-closed-block` instead of
  the run-level observation; only the op lists are compared for such a case.
  <arg>  ::= (u <k>) | (lit <n>) | (lit N)
  <stmt> ::= (block <lab> <stmt>*) | (decl x <n|->) | (set x <e>) | (emit <e>)
           | (if (arm <e> <stmt>*)+ (else <stmt>*)) | (case <e|-> (arm <e> <stmt>*)+ (else <stmt>*)|(noelse))
           | (while <lab> <e> <stmt>*) | (repeat <lab> <e> <stmt>*) | (loop <lab> <stmt>*)
           | (leave l) | (iterate l) | (signal)
  <e>    ::= (lit n) | null | (var x) | (add a b) | (sub a b) | (mul a b) | (eq a b) | (lt a b)
           | (le a b) | (and a b) | (or a b) | (not a)
Observation: ops=<op list> ;; <per call: class|u…|log…>

Handler cases (model `Gms/Model/ProcHandler.lean`): same payload with head `hproc`; the body is label-free
(`(block - …)`, `(while - c …)`, no repeat/loop/leave/iterate, DECLAREs always with DEFAULT) and may contain
  (handler exit|continue sqlexception|notfound x <e>)   -- DECLARE … HANDLER FOR … SET vx = e
-/

def optName? : Sexp → Option (Option Name)
  | .atom "-" => some none
  | .atom s => s.toNat?.map some
  | _ => none

partial def parseExpr : Sexp → Option Expr
  | .atom "null" => some .null
  | .list [.atom "lit", n] => n.int?.map .lit
  | .list [.atom "var", x] => x.nat?.map .var
  | .list [.atom "not", a] => (parseExpr a).map .not
  | .list [.atom op, a, b] => do
    let x ← parseExpr a
    let y ← parseExpr b
    match op with
    | "add" => some (.add x y) | "sub" => some (.sub x y) | "mul" => some (.mul x y)
    | "eq" => some (.eq x y) | "lt" => some (.lt x y) | "le" => some (.le x y)
    | "and" => some (.and x y) | "or" => some (.or x y)
    | _ => none
  | _ => none

def seqOf : List Stmt → Stmt
  | [] => .skip
  | [s] => s
  | s :: r => .seq s (seqOf r)

mutual
partial def parseStmts (xs : List Sexp) : Option Stmt := do
  let ss ← xs.mapM parseStmt
  pure (seqOf ss)

partial def parseArms (scrut : Option Expr) : List Sexp → Option Stmt
  | [.list (.atom "else" :: body)] => parseStmts body
  | [.list [.atom "noelse"]] => some .caseNotFound
  | [] => some .skip
  | .list (.atom "arm" :: c :: body) :: rest => do
    let c ← parseExpr c
    let b ← parseStmts body
    let e ← parseArms scrut rest
    let cond := match scrut with | some s => Expr.eq s c | none => c
    pure (.ite cond b e)
  | _ => none

partial def parseStmt : Sexp → Option Stmt
  | .list (.atom "block" :: lab :: body) => do
    let l ← optName? lab; let b ← parseStmts body; pure (.block l b)
  | .list [.atom "decl", x, d] => do
    let x ← x.nat?
    match d with
    | .atom "-" => pure (.declare x none)
    | d => let n ← d.int?; pure (.declare x (some n))
  | .list [.atom "set", x, e] => do let x ← x.nat?; let e ← parseExpr e; pure (.set x e)
  | .list [.atom "emit", e] => do let e ← parseExpr e; pure (.emit e)
  | .list (.atom "if" :: arms) => parseArms none arms
  | .list (.atom "case" :: scrut :: arms) =>
    match scrut with
    | .atom "-" => parseArms none arms
    | s => do let s ← parseExpr s; parseArms (some s) arms
  | .list (.atom "while" :: lab :: c :: body) => do
    let l ← optName? lab; let c ← parseExpr c; let b ← parseStmts body; pure (.while l c b)
  | .list (.atom "repeat" :: lab :: c :: body) => do
    let l ← optName? lab; let c ← parseExpr c; let b ← parseStmts body; pure (.repeat l b c)
  | .list (.atom "loop" :: lab :: body) => do
    let l ← optName? lab; let b ← parseStmts body; pure (.loop l b)
  | .list [.atom "leave", l] => l.nat?.map .leave
  | .list [.atom "iterate", l] => l.nat?.map .iterate
  | .list [.atom "signal"] => some .signal
  | _ => none
end

def parseVal : Sexp → Option Val
  | .atom "N" => some none
  | s => s.int?.map some

def parseParam : Sexp → Option Param
  | .list [.atom m, x] => do
    let x ← x.nat?
    match m with
    | "in" => some ⟨x, .in_⟩ | "out" => some ⟨x, .out⟩ | "inout" => some ⟨x, .inout⟩
    | _ => none
  | _ => none

def parseArg : Sexp → Option Arg
  | .list [.atom "u", k] => k.nat?.map .uvar
  | .list [.atom "lit", v] => (parseVal v).map .lit
  | _ => none

def parseUvar : Sexp → Option (Name × Val)
  | .list [k, v] => do let k ← k.nat?; let v ← parseVal v; pure (k, v)
  | _ => none

/-! Rendering -/

def showLab : Option Name → String
  | none => "-"
  | some l => "l" ++ toString l

def showOp : Op → String
  | .scopeBegin l i => s!"ScopeBegin/{i}/{showLab l}"
  | .scopeEnd l i => s!"ScopeEnd/{i}/{showLab l}"
  | .declare _ _ => "Declare/0/-"
  | .set x _ => s!"Set/0/v{x}"
  | .exec _ => "Execute/0/-"
  | .ifz _ i => s!"If/{i}/-"
  | .goto l i => s!"Goto/{i}/{showLab l}"
  | .exception => "Exception/0/-"
  | .signal => "Signal/0/-"

def showVal : Val → String
  | none => "N"
  | some n => toString n

def showOutcome : Outcome → String
  | .ok => "ok"
  | .err c => s!"err:{c}"
  | .crash => "crash"
  | .timeout => "timeout"

def showCall (uks : List Name) (o : Outcome) (s : Session) : String :=
  showOutcome o ++ "|" ++ ",".intercalate (uks.map fun k => showVal (getU k s.uvars)) ++ "|" ++
    ",".intercalate (s.log.reverse.map showVal)

def implFuel : Nat := 20000
def specFuel : Nat := 400

/-- Is some OUT parameter of this call "dirty" on the implementation side: its argument's current
value is not NULL, or the session still holds a parameter of that name that has been set? -/
def outParamDirty (s : Session) : List Param → List Arg → Bool
  | p :: ps, a :: as =>
    (p.mode == .out && ((argVal s.uvars a).isSome ||
      (match lookupSess p.name s.sess with | some spp => spp.hasBeenSet | none => false))) ||
      outParamDirty s ps as
  | _, _ => false

structure DrvAcc where
  impl : Session
  spec : Option Session          -- none: Spec undetermined from here on (fuel)
  gms : Option Session           -- Spec with `Sem.gms`
  vUntil : Option Session        -- Spec with only `untilNullExits` flipped
  vIter : Option Session
  vDecl : Option Session
  implObs : List String
  specObs : List String
  gmsObs : List String
  untilObs : List String
  iterObs : List String
  declObs : List String
  dirty : Bool

def semUntil : Sem := { Sem.mysql with untilNullExits := true }
def semIter : Sem := { Sem.mysql with iterateRepeatChecksUntil := true }
def semDecl : Sem := { Sem.mysql with declDefault := some 0 }

def specCall (sem : Sem) (p : Proc) (uks : List Name) (args : List Arg) (s : Option Session) :
    Option Session × String :=
  match s with
  | none => (none, "?")
  | some s => match callSpec sem specFuel p args s with
    | none => (none, "?")
    | some (o, s') => (some { s' with log := [] }, showCall uks o s')

/-- Run-level observation of a case the harness flagged `(norun)`: the Impl model does not predict
the engine there (see `staleIntoClosedBlock`); only the compile level is compared. -/
def norunObs : String := "unmodelled:stale-jump-into-closed-block"

/-! ### Handler cases -/

def seqOfH : List HStmt → HStmt
  | [] => .skip
  | [s] => s
  | s :: r => .seq s (seqOfH r)

mutual
partial def parseStmtsH (xs : List Sexp) : Option HStmt := do
  let ss ← xs.mapM parseStmtH
  pure (seqOfH ss)

partial def parseArmsH (scrut : Option Expr) : List Sexp → Option HStmt
  | [.list (.atom "else" :: body)] => parseStmtsH body
  | [.list [.atom "noelse"]] => some .caseNotFound
  | [] => some .skip
  | .list (.atom "arm" :: c :: body) :: rest => do
    let c ← parseExpr c
    let b ← parseStmtsH body
    let e ← parseArmsH scrut rest
    let cond := match scrut with | some s => Expr.eq s c | none => c
    pure (.ite cond b e)
  | _ => none

partial def parseStmtH : Sexp → Option HStmt
  | .list (.atom "block" :: .atom "-" :: body) => do let b ← parseStmtsH body; pure (.block b)
  | .list [.atom "decl", x, d] => do let x ← x.nat?; let n ← d.int?; pure (.declare x n)
  | .list [.atom "handler", .atom act, .atom cond, x, e] => do
    let ex ← (match act with | "exit" => some true | "continue" => some false | _ => none)
    let nf ← (match cond with | "notfound" => some true | "sqlexception" => some false | _ => none)
    let x ← x.nat?
    let e ← parseExpr e
    pure (.handler ex nf x e)
  | .list [.atom "set", x, e] => do let x ← x.nat?; let e ← parseExpr e; pure (.set x e)
  | .list [.atom "emit", e] => do let e ← parseExpr e; pure (.emit e)
  | .list (.atom "if" :: arms) => parseArmsH none arms
  | .list (.atom "case" :: scrut :: arms) =>
    match scrut with
    | .atom "-" => parseArmsH none arms
    | s => do let s ← parseExpr s; parseArmsH (some s) arms
  | .list (.atom "while" :: .atom "-" :: c :: body) => do
    let c ← parseExpr c; let b ← parseStmtsH body; pure (.while c b)
  | .list [.atom "signal"] => some .signal
  | _ => none
end

def showOpH : HOp → String
  | .scopeBegin i => s!"ScopeBegin/{i}/-"
  | .scopeEnd i => s!"ScopeEnd/{i}/-"
  | .declare _ _ => "Declare/0/-"
  | .handler _ _ _ _ => "Declare/0/-"
  | .set x _ => s!"Set/0/v{x}"
  | .exec _ => "Execute/0/-"
  | .ifz _ i => s!"If/{i}/-"
  | .goto i => s!"Goto/{i}/-"
  | .exception => "Exception/0/-"
  | .signal => "Signal/0/-"

structure HAcc where
  impl : Session
  spec : Option Session
  implObs : List String
  specObs : List String
  dirty : Bool

def handleH (ps body uvs calls : List Sexp) : String :=
  match ps.mapM parseParam, parseStmtsH body, uvs.mapM parseUvar,
      calls.mapM (fun c => c.items.mapM parseArg) with
  | some params, some body, some uvars, some calls =>
    let proc : HProc := { params := params, body := body }
    let ops := compileProgramH body
    let opsStr := "ops=" ++ " ".intercalate (ops.map showOpH)
    let uks := uvars.map (·.1)
    let s0 : Session := { uvars := uvars, sess := [], log := [] }
    let acc := calls.foldl (fun (a : HAcc) args =>
      let dirty := a.dirty || outParamDirty a.impl params args
      let (o, si) := callImplH implFuel proc args a.impl
      let io := showCall uks o si
      let (ss, so) : Option Session × String := match a.spec with
        | none => (none, "?")
        | some s => match callSpecH specFuel proc args s with
          | none => (none, "?")
          | some (o, s') => (some { s' with log := [] }, showCall uks o s')
      { impl := { si with log := [] }, spec := ss, implObs := a.implObs ++ [io], specObs := a.specObs ++ [so],
        dirty := dirty }) { impl := s0, spec := some s0, implObs := [], specObs := [], dirty := false }
    let implStr := opsStr ++ " ;; " ++ " ; ".intercalate acc.implObs
    if acc.specObs.contains "?" then answer implStr "?" "-"
    else
      let specStr := opsStr ++ " ;; " ++ " ; ".intercalate acc.specObs
      if implStr == specStr then answer implStr "=" "-"
      else
        let region :=
          if hasElseBlockH body then "else_block_scope_leak"
          else if nestedHandlers false body then "nested_handler_outermost_wins"
          else if exitHandlerNested true body then "exit_handler_scope_leak"
          else if handlerDynScope body then "handler_body_dynamic_scope"
          else if acc.dirty then "out_param_not_reset"
          else "-"
        answer implStr specStr region
  | _, _, _, _ => answer "bad-case"

def handle (p : List Sexp) : String :=
  match p with
  | [.list [.atom "hproc", .list (.atom "params" :: ps), .list (.atom "body" :: body),
      .list (.atom "uvars" :: uvs), .list (.atom "calls" :: calls)]] => handleH ps body uvs calls
  | [.list (.atom "proc" :: .list (.atom "params" :: ps) :: .list (.atom "body" :: body) ::
      .list (.atom "uvars" :: uvs) :: .list (.atom "calls" :: calls) :: flags)] =>
    match ps.mapM parseParam, parseStmts body, uvs.mapM parseUvar,
        calls.mapM (fun c => c.items.mapM parseArg) with
    | some params, some body, some uvars, some calls =>
      let proc : Proc := { params := params, body := body }
      let ops := compileProgram body
      let opsStr := "ops=" ++ " ".intercalate (ops.map showOp)
      -- the `(norun)` flag must be present exactly on the cases of `staleIntoClosedBlock`
      let flagged := flags == [.list [.atom "norun"]]
      if !flagged && !flags.isEmpty then answer "bad-case"
      else if flagged != staleIntoClosedBlock body then
        answer (if flagged then "norun-flag-on-a-modelled-case" else "norun-flag-missing")
      else if flagged then answer (opsStr ++ " ;; " ++ norunObs) "=" "-"
      else
      let uks := uvars.map (·.1)
      let s0 : Session := { uvars := uvars, sess := [], log := [] }
      let init : DrvAcc :=
        { impl := s0
          spec := some s0
          gms := some s0
          vUntil := some s0
          vIter := some s0
          vDecl := some s0
          implObs := []
          specObs := []
          gmsObs := []
          untilObs := []
          iterObs := []
          declObs := []
          dirty := false }
      let acc := calls.foldl (fun (a : DrvAcc) args =>
        let dirty := a.dirty || outParamDirty a.impl params args
        let (o, si) := callImpl implFuel proc args a.impl
        let io := showCall uks o si
        let (ss, so) := specCall Sem.mysql proc uks args a.spec
        let (sg, go) := specCall Sem.gms proc uks args a.gms
        let (su, uo) := specCall semUntil proc uks args a.vUntil
        let (sit, ito) := specCall semIter proc uks args a.vIter
        let (sd, dob) := specCall semDecl proc uks args a.vDecl
        { impl := { si with log := [] }
          spec := ss
          gms := sg
          vUntil := su
          vIter := sit
          vDecl := sd
          implObs := a.implObs ++ [io]
          specObs := a.specObs ++ [so]
          gmsObs := a.gmsObs ++ [go]
          untilObs := a.untilObs ++ [uo]
          iterObs := a.iterObs ++ [ito]
          declObs := a.declObs ++ [dob]
          dirty := dirty }) init
      let implStr := opsStr ++ " ;; " ++ " ; ".intercalate acc.implObs
      if acc.specObs.contains "?" then answer implStr "?" "-"
      else
        let specStr := opsStr ++ " ;; " ++ " ; ".intercalate acc.specObs
        if implStr == specStr then answer implStr "=" "-"
        else
          -- classify: first the structural defect classes (scope / label / parameter handling),
          -- then the three semantic choices of the op code
          let region :=
            if hasLeaveBlock [] body then "leave_block_scope_leak"
            else if hasElseBlock body then "else_block_scope_leak"
            else if staleIterate body then "stale_label_iterate"
            -- a scope leak makes the op machine differ from the structured semantics even under the
            -- engine's own reading of the three semantic choices; when it does not, the case is left
            -- to the semantic classes below
            else if hasIterateRepeatEndBlock [] body && acc.implObs != acc.gmsObs then
              "iterate_repeat_block_scope_leak"
            else if acc.dirty && acc.implObs != acc.gmsObs then "out_param_not_reset"
            else if acc.implObs == acc.gmsObs then
              -- the divergence is explained by the three semantic choices alone: name the first one
              -- that is present and changes the result on its own, else the first one present
              (if hasIterateRepeat [] body && acc.iterObs != acc.specObs then "iterate_repeat_checks_until"
               else if hasRepeat body && acc.untilObs != acc.specObs then "repeat_until_null_exits"
               else if hasBareDeclare body && acc.declObs != acc.specObs then "declare_without_default_zero"
               else if hasIterateRepeat [] body then "iterate_repeat_checks_until"
               else if hasRepeat body then "repeat_until_null_exits"
               else if hasBareDeclare body then "declare_without_default_zero"
               else "-")
            else "-"
          answer implStr specStr region
    | _, _, _, _ => answer "bad-case"
  | _ => answer "bad-case"

def main : IO Unit := runPure handle
