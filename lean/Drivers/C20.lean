import Gms.Driver.Proto
import Gms.Model.AutoInc
open Gms.Proto Gms.AutoInc

/-!
Case:   (hist <lo> <hi> <uniq:0|1> <op>*)
  op ::= (ins <sess> <g>*)   g ::= n | <int>       plain INSERT, one g per row (n = NULL/DEFAULT/omitted)
       | (del <lo> <hi>)                           DELETE … WHERE id BETWEEN lo AND hi
       | (upd <a> <b>)                             UPDATE … SET id = b WHERE id = a
       | (alt <n>)                                 ALTER TABLE … AUTO_INCREMENT = n
       | (trunc)                                   TRUNCATE TABLE
       | (rw)                                      table rewrite: ALTER TABLE … ADD COLUMN w … NOT NULL DEFAULT 7 / DROP COLUMN w
Observation: per op  <res>|c=<counter>,<peek>|l=<last0>,<last1>|<id.tag,…>   joined by ';'
-/

def parseG : Sexp → Option (Option Int)
  | .atom "n" => some none
  | .atom s => s.toInt?.map some
  | _ => none

def parseOp : Sexp → Option Op
  | .list (.atom "ins" :: s :: gs) => do
    let s ← s.nat?
    let gs ← gs.mapM parseG
    pure (.ins s gs)
  | .list [.atom "del", a, b] => do pure (.del (← a.int?) (← b.int?))
  | .list [.atom "upd", a, b] => do pure (.upd (← a.int?) (← b.int?))
  | .list [.atom "alt", n] => do pure (.alter (← n.nat?))
  | .list [.atom "trunc"] => some .trunc
  | .list [.atom "rw"] => some .rewrite
  | _ => none

def fmtRes : Res → String
  | .ok a i => s!"ok:{a}:{i}"
  | .err .dup => "err:dup"
  | .err .range => "err:range"
  | .done => "done"

def insertSorted (r : Row) : List Row → List Row
  | [] => [r]
  | x :: xs => if r.id < x.id || (r.id == x.id && r.tag ≤ x.tag) then r :: x :: xs else x :: insertSorted r xs

def sortRows (rs : List Row) : List Row := rs.foldl (fun acc r => insertSorted r acc) []

def fmtState (c : Cfg) (s : St) : String :=
  let p := peek c s.tbl.ctr
  let ps := if p > 1 then toString p else "-"
  s!"c={s.tbl.ctr},{ps}|l={s.last 0},{s.last 1}|" ++ ",".intercalate ((sortRows s.tbl.rows).map fun r => s!"{r.id}.{r.tag}")

/-- Events of a successful INSERT = the new suffix of the log. -/
def newEvs (before after : St) : List Ev := after.log.drop before.log.length

structure DAcc where
  st : St
  obs : List String
  viol : Option (String × String)   -- (description, region) of the first Spec violation
  lastAlter : Option Region         -- most recent lowering ALTER since the last TRUNCATE

def hasFlag (fl : List Region) (r : Region) : Bool := fl.any (· == r)

def stepAcc (c : Cfg) (a : DAcc) (o : Op) : DAcc :=
  let (s', res, flags) := step c a.st o
  let k := a.st.opn
  let lastAlter :=
    match o with
    | .trunc => none
    | .alter _ =>
      if hasFlag flags .alter_below_existing then some Region.alter_below_existing
      else if hasFlag flags .alter_below_counter then some Region.alter_below_counter
      else a.lastAlter
    | .rewrite => if hasFlag flags .rewrite_lowers_counter then some Region.rewrite_lowers_counter else a.lastAlter
    | _ => a.lastAlter
  let viol :=
    match a.viol with
    | some v => some v
    | none =>
      match o, res with
      | .ins sess _, .ok _ iid =>
        let evs := newEvs a.st s'
        if s'.last sess ≠ specLast (a.st.last sess) true evs then
          some (s!"last_insert_id@{k}", "-")
        else if (match specInsertId evs with | some w => w != iid | none => false) then
          some (s!"insert_id@{k}", if hasFlag flags .okpacket_first_row_explicit then "okpacket_first_row_explicit" else "-")
        else if !goodFrom a.st.log evs then
          -- classify by the offending generated value
          let bad := (List.range evs.length).find? fun i =>
            match evs[i]? with
            | some e => e.gen && !((a.st.log ++ evs.take i).all fun w => decide (w.v < e.v))
            | none => false
          let v := match bad with | some i => (evs[i]?.map (·.v)).getD 0 | none => 0
          let region :=
            if hasFlag flags .saturated_reuse && v == c.hi then "saturated_reuse"
            else match lastAlter with
              | some r => r.name
              | none => "-"
          some (s!"not_increasing@{k}", region)
        else none
      | .ins sess _, .err _ =>
        if s'.last sess ≠ specLast (a.st.last sess) false [] then
          some (s!"last_insert_id@{k}",
            if hasFlag flags .failed_insert_sets_last_insert_id then "failed_insert_sets_last_insert_id" else "-")
        else none
      | .rewrite, _ =>
        -- Spec: a rewrite keeps the counter (MySQL carries AUTO_INCREMENT over a table copy)
        if s'.tbl.ctr < a.st.tbl.ctr then
          some (s!"rewrite_lowers_counter@{k}",
            if hasFlag flags .rewrite_lowers_counter then "rewrite_lowers_counter" else "-")
        else none
      | _, _ => none
  { st := s', obs := (fmtRes res ++ "|" ++ fmtState c s') :: a.obs, viol := viol, lastAlter := lastAlter }

def handle (p : List Sexp) : String :=
  match p with
  | [Sexp.list (Sexp.atom "hist" :: lo :: hi :: u :: ops)] =>
    match lo.int?, hi.int?, u.nat?, ops.mapM parseOp with
    | some lo, some hi, some u, some ops =>
      let c : Cfg := { lo := lo, hi := hi, uniq := u == 1 }
      let a := ops.foldl (stepAcc c) { st := St.init, obs := [], viol := none, lastAlter := none }
      let obs := ";".intercalate a.obs.reverse
      match a.viol with
      | none => answer obs
      | some (d, region) => answer obs ("violates:" ++ d) region
    | _, _, _, _ => answer "bad-case"
  | _ => answer "bad-case"

def main : IO Unit := runPure handle
