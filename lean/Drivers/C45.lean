import Gms.Driver.Proto
import Gms.Model.Redact
open Gms.Proto Gms.Redact

/-! Line-protocol driver for C45 (core-only).

  (session STMT*)      STMT = (pf) | (st (xIDENT*) ((typ xVAL ROLE)*))   ROLE = k | n | <class number>
  (emit typ xVAL (xIDENT*))        one synthetic token through emitToken on an empty mapping
  (conc nCount vCount ((xKEY k)*) ((xKEY k)*) ((i|v xKEY k)*))   final mapping + every returned token
-/

def parseRole (s : Sexp) : Role :=
  match s with
  | .atom "k" => .kw
  | .atom "n" => .name
  | .atom a => match a.toNat? with
    | some c => .leaky c
    | none => .kw
  | _ => .kw

def parseTok (s : Sexp) : Option Tok :=
  match s with
  | .list [t, v, r] =>
    match t.nat?, v.bytes? with
    | some t, some v => some { typ := t, val := v, role := parseRole r }
    | _, _ => none
  | _ => none

def parseStmt (s : Sexp) : Option Input :=
  match s with
  | .list [.atom "pf"] => some .parseFail
  | .list [.atom "st", .list ids, .list toks] =>
    match ids.mapM Sexp.bytes?, toks.mapM parseTok with
    | some ids, some toks => some (.parsed ids toks)
    | _, _ => none
  | _ => none

def showStatus : Status → String
  | .ok => "ok" | .parseErr => "parse" | .lexErr => "lex"

/-- insertion sort of (hex key, value) pairs by key: canonical form of a Go map. -/
def insertSorted (p : String × Nat) : List (String × Nat) → List (String × Nat)
  | [] => [p]
  | q :: rest => if p.1 < q.1 then p :: q :: rest else q :: insertSorted p rest

def showMap (l : List (Bytes × Nat)) : String :=
  let hs := (l.map fun (k, v) => (hex k, v)).foldr insertSorted []
  "[" ++ " ".intercalate (hs.map fun (k, v) => k ++ "=" ++ toString v) ++ "]"

def showMapping (m : Mapping) : String :=
  "I" ++ showMap m.idents ++ " V" ++ showMap m.values ++ " C[" ++ toString m.nCount ++ "," ++ toString m.vCount ++ "]"

def runSession (f : Mapping → Input → Bytes × Mapping × Status) (stmts : List Input) : String :=
  let (m, outs) := stmts.foldl (fun (acc : Mapping × List String) st =>
      let (out, m', s) := f acc.1 st
      (m', (hex out ++ ":" ++ showStatus s) :: acc.2)) (({} : Mapping), [])
  "[" ++ " ".intercalate outs.reverse ++ "] " ++ showMapping m

def sessionRegion (stmts : List Input) : String :=
  -- a leak outside the listed classes anywhere makes the whole case unlisted
  let rs := stmts.filterMap fun st =>
    match st with
    | .parseFail => none
    | .parsed S toks => if (toks.filter (leaks S)).isEmpty then none else some (region S toks)
  if rs.any (·.isNone) then "-"
  else match rs with
    | some r :: _ => r
    | _ => "-"

def pairList (xs : List Sexp) : Option (List (Bytes × Nat)) :=
  xs.mapM fun s =>
    match s with
    | .list [k, v] => match k.bytes?, v.nat? with
      | some k, some v => some (k, v)
      | _, _ => none
    | _ => none

/-- The conclusion of `Gms.C45.concurrent_consistent`, evaluated on an observed final mapping. -/
def consistentB (n : Nat) (l : List (Bytes × Nat)) : Bool :=
  let keys := l.map (·.1)
  let vals := l.map (·.2)
  decide (l.length = n) && (List.range' 1 n).all (fun k => vals.contains k) &&
    keys.all (fun k => (keys.filter (· == k)).length == 1)

def handle (p : List Sexp) : String :=
  match p with
  | [.list (.atom "session" :: stmts)] =>
    match stmts.mapM parseStmt with
    | some stmts =>
      let impl := runSession redactInto stmts
      let spec := runSession specInto stmts
      if impl == spec then answer impl else answer impl spec (sessionRegion stmts)
    | none => answer "bad-case"
  | [.list [.atom "emit", t, v, .list ids]] =>
    match t.nat?, v.bytes?, ids.mapM Sexp.bytes? with
    | some t, some v, some ids =>
      let r := emitToken ids {} t v
      answer (hex (renderPiece r.2) ++ " " ++ showMapping r.1)
    | _, _, _ => answer "bad-case"
  | [.list [.atom "conc", n, v, .list is, .list vs, .list rets]] =>
    match n.nat?, v.nat?, pairList is, pairList vs with
    | some n, some v, some is, some vs =>
      let retOk := rets.all fun r =>
        match r with
        | .list [.atom ns, k, t] =>
          match k.bytes?, t.nat? with
          | some k, some t => lookup (if ns == "i" then is else vs) k == some t
          | _, _ => false
        | _ => false
      if consistentB n is && consistentB v vs && retOk then answer ("ok " ++ toString n ++ " " ++ toString v)
      else answer "inconsistent"
    | _, _, _, _ => answer "bad-case"
  | _ => answer "bad-case"

def main : IO Unit := runPure handle
