import Gms.Driver.Proto
import Gms.Model.HashEq
open Gms.Proto Gms.HashEq

/-- `(w (rune wc w0) …)`: weights of the runes of the case under the case's collation (`wc`)
and under utf8mb4_0900_bin (`w0`). Runes not listed weigh their code point. -/
def parseW (s : Sexp) : Option Env :=
  match s with
  | .list (.atom "w" :: es) =>
    let tab := es.filterMap fun e =>
      match e with
      | .list [r, a, b] =>
        match r.nat?, a.int?, b.int? with
        | some r, some a, some b => some (r, a, b)
        | _, _, _ => none
      | _ => none
    if tab.length != es.length then none else
    let look (pick : Nat × Int × Int → Int) (r : Nat) : Int :=
      match tab.find? (·.1 == r) with
      | some t => pick t
      | none => Int.ofNat r
    some ⟨⟨false, look (·.2.1)⟩, ⟨false, look (·.2.2)⟩⟩
  | _ => none

def rawColl : Coll := ⟨true, fun r => Int.ofNat r⟩

def parseVal (s : Sexp) : Option Val :=
  match s with
  | .atom "null" => some .null
  | .list [.atom "i", n] => n.int?.map .int
  | .list [.atom "d", c, sc] =>
    match c.int?, sc.nat? with
    | some c, some sc => some (.dec c sc)
    | _, _ => none
  | .list [.atom "s", b] => (b.bytes?).map fun bs => .str (bs.map (·.toNat))
  | .list [.atom "f", c, sc, z] =>
    match c.int?, sc.nat?, z.nat? with
    | some c, some sc, some z => some (.flt c sc (z == 1))
    | _, _, _ => none
  | .list [.atom "b", .atom "1"] => some (.bool true)
  | .list [.atom "b", .atom "0"] => some (.bool false)
  | _ => none

def parseVals (s : Sexp) : Option (List Val) :=
  match s with
  | .list vs => vs.mapM parseVal
  | _ => none

def parseSch (e : Env) (s : Sexp) : Option (Option Coll) :=
  match s with
  | .atom "n" => some none
  | .atom "c" => some (some e.ci)
  | .atom "d" => some (some e.bin)
  | .atom "r" => some (some rawColl)
  | _ => none

def parseCmpTy (e : Env) (s : Sexp) : Option CmpTy :=
  match s with
  | .atom "int64" => some .int64
  | .atom "decimal" => some .decimal
  | .atom "float64" => some .float64
  | .atom "textc" => some (.text e.ci)
  | .atom "textd" => some (.text e.bin)
  | .atom "textr" => some (.text rawColl)
  | _ => none

def parseColTy (s : Sexp) : Option ColTy :=
  match s with
  | .atom "i" => some .int
  | .atom "d0" => some (.dec 0)
  | .atom "d1" => some (.dec 1)
  | .atom "d2" => some (.dec 2)
  | .atom "d3" => some (.dec 3)
  | .atom "sb" => some .strBin
  | .atom "sc" => some .strCi
  | .atom "f" => some .dbl
  | _ => none

def parseOp (s : Sexp) : Option Op :=
  match s with
  | .atom n => [Op.groupBy, .distinct, .countDistinct, .union, .intersect, .except, .inList, .inSub, .hashJoin].find? (·.name == n)
  | _ => none

def showHash : Option UInt64 → String
  | some h => toString h.toNat
  | none => "err"

def handle (p : List Sexp) : String :=
  match p with
  | [.list [.atom "hashof", w, .list (.atom "sch" :: sch), .list (.atom "row" :: row)]] =>
    match parseW w with
    | none => answer "bad-case"
    | some e =>
      match sch.mapM (parseSch e), row.mapM parseVal with
      | some sch, some row => answer (showHash (hashOf sch row))
      | _, _ => answer "bad-case"
  | [.list [.atom "hsimple", w, ty, v]] =>
    match parseW w with
    | none => answer "bad-case"
    | some e =>
      match parseCmpTy e ty, parseVal v with
      | some t, some v => answer (showHash (hashOfSimple t v))
      | _, _ => answer "bad-case"
  | [.list [.atom "htuple", w, .list tys, .list vs]] =>
    match parseW w with
    | none => answer "bad-case"
    | some e =>
      match tys.mapM (parseCmpTy e), vs.mapM parseVal with
      | some ts, some vs => answer (showHash (hashOfSimpleTuple ts vs))
      | _, _ => answer "bad-case"
  -- same key ⇔ `=` on one pair of non-NULL numbers: `ty` = a compare type (HashOfSimple) or `hashof`
  -- (HashOf without schema); observation: 1 = the two hashes are equal
  | [.list [.atom "hpair", ty, a, b]] =>
    match parseVal a, parseVal b with
    | some a, some b =>
      let k : Option Bool :=
        if ty == .atom "hashof" then some (hashOfRel none a b)
        else (parseCmpTy ⟨rawColl, rawColl⟩ ty).map fun t => keyEq (simpleKey t a) (simpleKey t b)
      match k with
      | some k =>
        let i := if k then "1" else "0"
        let sp := if mtch rawColl a b then "1" else "0"
        if i == sp then answer i else answer i sp "hpair_unfaithful"
      | none => answer "bad-case"
    | _, _ => answer "bad-case"
  | [.list [.atom "cdkey", .list vs]] =>
    match vs.mapM parseVal with
    | some vs => answer (toString (XX.sum64 (countDistinctKey vs)).toNat)
    | none => answer "bad-case"
  | [.list [.atom "eq", w, coll, a, b]] =>
    match parseW w with
    | none => answer "bad-case"
    | some e =>
      let c := if coll == .atom "c" then e.ci else e.bin
      match parseVal a, parseVal b with
      | some a, some b =>
        answer (match eqVal c a b with
          | some true => "1" | some false => "0" | none => "null")
      | _, _ => answer "bad-case"
  | [.list [.atom "op", op, w, lt, rt, xs, ys]] =>
    match parseW w, parseOp op, parseColTy lt, parseColTy rt, parseVals xs, parseVals ys with
    | some e, some op, some lt, some rt, some xs, some ys =>
      let i := (implObs e op lt rt xs ys).render
      let s := (specObs e op lt rt xs ys).render
      if i == s then answer i else answer i s (regionName (region e op lt rt xs ys))
    | _, _, _, _, _, _ => answer "bad-case"
  | _ => answer "bad-case"

def main : IO Unit := runPure handle
