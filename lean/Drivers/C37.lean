import Gms.Driver.Proto
import Gms.Model.ProcList
import Gms.Model.ProcListSql
open Gms.Proto Gms.ProcList

/-! Line-protocol driver of C37.

payload  `(seq ev*)`   one goroutine calls the methods in this order; observation after every call
         `(conc (ev*) (ev*) …)`  one goroutine per list (each list names its own connection only);
                       observation at quiescence, the model runs the lists one after the other
ev       `(add c) (ready c) (rm c) (bq c pid) (eq c pid) (bo c) (eo c) (kill c)`   direct calls
         `(kq i pid c) (kc i pid c) (kd i pid c) (show i pid)`   statements KILL QUERY c / KILL CONNECTION c /
                       KILL c / SHOW PROCESSLIST executed through the engine by connection i as query pid
observation per call: `result|connected,running|process list|pid index|cancelled contexts|close requests`
-/

def parseEv : Sexp → Option Ev
  | .list [.atom "add", c] => c.nat?.map Ev.add
  | .list [.atom "ready", c] => c.nat?.map Ev.ready
  | .list [.atom "rm", c] => c.nat?.map Ev.remove
  | .list [.atom "bq", c, p] => do some (Ev.beginQ (← c.nat?) (← p.nat?))
  | .list [.atom "eq", c, p] => do some (Ev.endQ (← c.nat?) (← p.nat?))
  | .list [.atom "bo", c] => c.nat?.map Ev.beginOp
  | .list [.atom "eo", c] => c.nat?.map Ev.endOp
  | .list [.atom "kill", c] => c.nat?.map Ev.kill
  | _ => none

def parseSqlEv : Sexp → Option SqlEv
  | .list [.atom "kq", i, p, c] => do some (SqlEv.killStmt .query (← i.nat?) (← p.nat?) (← c.nat?))
  | .list [.atom "kc", i, p, c] => do some (SqlEv.killStmt .connection (← i.nat?) (← p.nat?) (← c.nat?))
  -- the grammar's bare `KILL n` sets Kill.Connection
  | .list [.atom "kd", i, p, c] => do some (SqlEv.killStmt .connection (← i.nat?) (← p.nat?) (← c.nat?))
  | .list [.atom "show", i, p] => do some (SqlEv.show (← i.nat?) (← p.nat?))
  | e => (parseEv e).map SqlEv.call

def insSorted (le : α → α → Bool) (x : α) : List α → List α
  | [] => [x]
  | y :: ys => if le x y then x :: y :: ys else y :: insSorted le x ys

def sortBy (le : α → α → Bool) (l : List α) : List α := l.foldr (insSorted le) []

def cmdLetter : Cmd → String
  | .connect => "C" | .sleep => "S" | .query => "Q"

def resStr : Res → String
  | .done => "d" | .ok t => "o" ++ toString t | .errNotRegistered => "eN" | .errPidUsed => "eP"
  | .errBusy => "eB" | .crash => "X"

def viewStr (procs : List (Nat × Proc)) : String :=
  ",".intercalate ((sortBy (fun a b => a.1 ≤ b.1) procs).map fun (c, p) =>
    s!"{c}:{cmdLetter p.cmd}:{p.pid}:{if p.kill.isSome then 1 else 0}:{match p.query with | none => "-" | some q => toString q}")

def byPidStr (m : List (Nat × Nat)) : String :=
  ",".intercalate ((sortBy (fun a b => a.1 ≤ b.1) m).map fun (pid, c) => s!"{pid}>{c}")

def cancStr (l : List Nat) : String :=
  ",".intercalate ((sortBy (fun a b => decide (a ≤ b)) l).map toString)

/-- The Spec's derived pid index. -/
def aByPid (procs : List (Nat × Proc)) : List (Nat × Nat) :=
  procs.filterMap fun (c, p) => if p.cmd = .query then some (p.pid, c) else none

/-- The rows of SHOW PROCESSLIST: Id, Command, State ("running" for a query without table progress), Info. -/
def rowsStr (procs : List (Nat × Proc)) : String :=
  ",".intercalate ((sortBy (fun a b => a.1 ≤ b.1) procs).map fun (c, p) =>
    s!"{c}:{cmdLetter p.cmd}:{if p.cmd = .query then "r" else "-"}:{match p.query with | none => "-" | some q => toString q}")

def sresStr : SRes → String
  | .call r => resStr r
  | .ok => "d"
  | .rows v => "w[" ++ rowsStr v ++ "]"
  | .crash => "X"

def closedStr (l : List Nat) : String := ",".intercalate (l.map toString)

def stObs (s : SSt) : String :=
  s!"{s.pl.connected},{s.pl.running}|{viewStr s.pl.procs}|{byPidStr s.pl.byPid}|{cancStr s.pl.cancelled}|{closedStr s.closed}"

def aObs (a : SASt) : String :=
  s!"{aConnected a.pl},{aRunning a.pl}|{viewStr a.pl.procs}|{byPidStr (aByPid a.pl.procs)}|{cancStr a.pl.cancelled}|{closedStr a.closed}"

def stObsQuiet (s : St) : String := s!"{s.connected},{s.running}|{viewStr s.procs}|{byPidStr s.byPid}"
def aObsQuiet (a : ASt) : String := s!"{aConnected a},{aRunning a}|{viewStr a.procs}|{byPidStr (aByPid a.procs)}"

/-- Impl trace, Spec trace (`none` once the protocol is left), first region hit.
`regionName` knows `remove_during_query` and `ready_during_operation` only: F-C37-a
(`begin_query_error_path`) was repaired (`Gms.C37.beginQuery_refines`), so a history whose only
departure from the Spec is a failed `BeginQuery` gets region "-" and is a violation again. -/
partial def runBoth (s : SSt) (a : Option SASt) (region : String) (es : List SqlEv)
    (accI accS : List String) : (SSt × Option SASt × String × List String × List String) :=
  match es with
  | [] => (s, a, region, accI.reverse, accS.reverse)
  | e :: es =>
    let (s', r) := sstep s e
    let oi := sresStr r ++ "|" ++ stObs s'
    match a with
    | none => runBoth s' none region es (oi :: accI) accS
    | some a0 =>
      let region := if region == "-" then sRegionName a0 e else region
      match sastep a0 e with
      | none => runBoth s' none region es (oi :: accI) accS
      | some (a', r') => runBoth s' (some a') region es (oi :: accI) ((sresStr r' ++ "|" ++ aObs a') :: accS)

def handle (p : List Sexp) : String :=
  match p with
  | [Sexp.list (Sexp.atom "seq" :: evs)] =>
    match evs.mapM parseSqlEv with
    | none => answer "bad-case"
    | some es =>
      let (_, a, region, oi, os) := runBoth SSt.init (some SASt.init) "-" es [] []
      let io := ";".intercalate oi
      match a with
      | none => answer io "?" "-"
      | some _ =>
        let so := ";".intercalate os
        if so == io then answer io else answer io so region
  | [Sexp.list (Sexp.atom "conc" :: streams)] =>
    match streams.mapM (fun s => s.items.mapM parseSqlEv) with
    | none => answer "bad-case"
    | some ss =>
      let es := ss.flatten
      let (s, a, region, _, _) := runBoth SSt.init (some SASt.init) "-" es [] []
      let io := stObsQuiet s.pl
      match a with
      | none => answer io "?" "-"
      | some a =>
        let so := aObsQuiet a.pl
        if so == io then answer io else answer io so region
  | _ => answer "bad-case"

def main : IO Unit := runPure handle
