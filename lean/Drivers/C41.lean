import Gms.Driver.Proto
import Gms.Model.PrivSerial
import Gms.Driver.AclParse
open Gms.Proto Gms.Priv Gms.PrivSerial Gms.AclParse

/-! Line-protocol driver for C41: one access-control state per line (dump of the engine before
persisting), see harness/cmd/c41/main.go. Output: canonical rendering of the reloaded state and the
decision grid of the listed sessions on it. -/

def hx (s : String) : String := hex s.toUTF8.toList
def b01 (b : Bool) : String := if b then "1" else "0"

def nats (s : Sexp) : Option (List Nat) :=
  match s with
  | .list xs => xs.mapM Sexp.nat?
  | _ => none

def parseTbl : Sexp → Option NTbl
  | .list [.atom "t", k, n, ps] => do some { key := (← sx k), name := (← sx n), privs := (← nats ps) }
  | _ => none

def parseRtn : Sexp → Option NRtn
  | .list [.atom "r", k, ip, n, ps] => do some { key := (← sx k), isProc := (← flag ip), name := (← sx n), privs := (← nats ps) }
  | _ => none

def parseDb : Sexp → Option NDb
  | .list [.atom "db", k, n, ps, .list ts, .list rs] => do
    some { key := (← sx k), name := (← sx n), privs := (← nats ps), tables := (← ts.mapM parseTbl), routines := (← rs.mapM parseRtn) }
  | _ => none

def parseDyn : Sexp → Option (String × Bool)
  | .list [n, w] => do some ((← sx n), (← flag w))
  | _ => none

def parseUser : Sexp → Option NUser
  | .list [.atom "u", n, h, pl, au, lk, su, ep, .list ex, g, .list dy, .list dbs] => do
    some { name := (← sx n), host := (← sx h), plugin := (← sx pl), auth := (← sx au), locked := (← flag lk),
           isSuper := (← flag su), isEphemeral := (← flag ep), extra := (← ex.mapM sx),
           privs := { global := (← nats g), dynamic := (← dy.mapM parseDyn), dbs := (← dbs.mapM parseDb) } }
  | _ => none

def parseEdge : Sexp → Option Edge
  | .list [.atom "e", fh, fu, th, tu, a] => do some ⟨(← sx fh), (← sx fu), (← sx th), (← sx tu), (← flag a)⟩
  | _ => none

def parsePair (s : Sexp) : Option (String × String) := pair s

/-! ### canonical rendering (mirrored by `render` in the Go harness) -/

def privsStr (l : List Priv) : String := ",".intercalate ((toSlice l).map toString)

def renderTbl (t : NTbl) : String := "T" ++ hx t.name ++ "[" ++ privsStr t.privs ++ "]"
def renderRtn (r : NRtn) : String := "R" ++ b01 r.isProc ++ "/" ++ hx r.name ++ "[" ++ privsStr r.privs ++ "]"

def sortStrs (l : List String) : List String := l.mergeSort (fun a b => decide (a ≤ b))

def renderDb (d : NDb) : String :=
  "D" ++ hx d.name ++ "[" ++ privsStr d.privs ++ "](" ++
    " ".intercalate (sortStrs ((d.tables.filter NTbl.hasPrivileges).map renderTbl)) ++ ")(" ++
    " ".intercalate (sortStrs ((d.routines.filter NRtn.hasPrivileges).map renderRtn)) ++ ")"

def renderUser (u : NUser) : String :=
  "U" ++ hx u.host ++ "@" ++ hx u.name ++ ":" ++ hx u.plugin ++ ":" ++ hx u.auth ++ ":" ++ b01 u.locked ++ ":" ++
    ",".intercalate (u.extra.map hx) ++ ":G" ++ privsStr u.privs.global ++ ":Y" ++
    ",".intercalate (sortStrs (u.privs.dynamic.map (fun d => hx d.1 ++ "=" ++ b01 d.2))) ++ ":" ++
    " ".intercalate (sortStrs ((u.privs.dbs.filter NDb.hasPrivileges).map renderDb))

def renderEdge (e : Edge) : String :=
  "E" ++ hx e.fromHost ++ "@" ++ hx e.fromUser ++ ">" ++ hx e.toHost ++ "@" ++ hx e.toUser ++ ":" ++ b01 e.admin

def renderState (s : NState) : String :=
  ";".intercalate (sortStrs ((s.users.filter (fun u => !u.isEphemeral)).map renderUser)) ++ "|" ++
  ";".intercalate (sortStrs (s.edges.map renderEdge).eraseDups)

/-! ### decision grid -/

def outcomeDigit : Outcome → String
  | .ok => "0" | .dbDenied => "1" | .tblDenied => "2" | _ => "9"

def gridFor (st : St PrivSet) (who : String × String) (dbs tbls : List String) (roles : List (String × String)) : String :=
  match getUserIdx st.keys who.1 who.2 false with
  | none => "S-"
  | some ui =>
    match st.users[ui]? with
    | none => "S-"
    | some u =>
      let v := (activePrivs implRaw st u).view
      let cells := dbs.flatMap fun d => tbls.map fun t =>
        String.join ((List.range 31).map fun p => b01 (userHasPrivileges v "" [{ db := d, tbl := t, statics := [p] }])) ++
        outcomeDigit (if t = "" then authCheckNames v "" d "" else authCheckNames v "" d t)
      let rtn := (dbs.map fun d => b01 (routineAdminCheck v "" [{ db := d, rtn := "p", isProc := true, statics := [P_Execute] }])) ++
        (dbs.map fun d => b01 (routineAdminCheck v "" [{ db := d, rtn := "f", isProc := false, statics := [P_Execute] }]))
      let rls := roles.map fun r => b01 (roleCheck v "" st.keys st.edges ui [r])
      "S" ++ ".".intercalate cells ++ "/" ++ String.join rtn ++ "/" ++ String.join rls

/-- Apply the follow-up statements (run by root) to the raw state. -/
def continue_ (st : St PrivSet) (cont : List Stmt) : St PrivSet :=
  cont.foldl (fun st c => (exec implRaw st "d" c).1) st

def gridAll (st : St PrivSet) (sessions : List (String × String)) (dbs tbls : List String) (roles : List (String × String)) : String :=
  " ".intercalate (sessions.map fun w => gridFor (normalizeSt st) w dbs tbls roles)

/-- Observation: the reloaded state by names, the decisions on it, and the decisions after the
follow-up statements. -/
def observe (s : NState) (cont : List Stmt) (sessions : List (String × String)) (dbs tbls : List String)
    (roles : List (String × String)) : String :=
  renderState s ++ "#" ++ gridAll (eraseState s) sessions dbs tbls roles ++ "#" ++
    gridAll (continue_ (eraseState s) cont) sessions dbs tbls roles

def handle (p : List Sexp) : String :=
  match p with
  | [.list [.atom "state", .list (.atom "users" :: us), .list (.atom "edges" :: es), .list (.atom "sessions" :: ss),
            .list [.atom "grid", .list dbs, .list tbls, .list roles], .list (.atom "cont" :: cs)]] =>
    match us.mapM parseUser, es.mapM parseEdge, ss.mapM parsePair, dbs.mapM sx, tbls.mapM sx, roles.mapM parsePair, cs.mapM parseStmt with
    | some us, some es, some ss, some dbs, some tbls, some roles, some cont =>
      let a : NState := { users := us, edges := es }
      let obs (s : NState) := observe s cont ss dbs tbls roles
      let impl := obs (reloadWith false false false a)
      let spec := obs a   -- the property: the reloaded engine is indistinguishable from the one that persisted
      if impl = spec then answer impl
      else
        -- attribute the difference to the known defect classes the state belongs to: a class is named
        -- only if repairing exactly the applicable classes restores the Spec observation
        let am := hasAmbiguous a ss
        let mx := hasMixedCase a
        let ad := hasAdminEdge a
        let region :=
          if am && obs (reloadWith false false true a) = spec then "reload_reorders_matching_accounts"
          else if mx && obs (reloadWith true false false a) = spec then "reload_loses_mixed_case_names"
          else if ad && obs (reloadWith false true false a) = spec then "reload_drops_admin_option"
          else if (am || mx || ad) && obs (reloadWith mx ad am a) = spec then
            (if am then "reload_reorders_matching_accounts" else if mx then "reload_loses_mixed_case_names" else "reload_drops_admin_option")
          else "-"
        answer impl spec region
    | _, _, _, _, _, _, _ => answer "bad-case"
  | _ => answer "bad-case"

def main : IO Unit := runPure handle
