import Gms.Driver.Proto
import Gms.Model.RegexFn
open Gms.Proto Gms.RegexFn

def parseStr : Sexp → Option StrArg
  | .atom "null" => some .null
  | .atom "bad" => some .badUtf8
  | .list (.atom "s" :: bl :: rs) => do
    let b ← bl.nat?
    let r ← rs.mapM Sexp.nat?
    pure (.ok r b)
  | _ => none

def parsePat : Sexp → Option PatArg
  | .atom "null" => some .null
  | .atom "bad" => some .badUtf8
  | .atom "empty" => some .empty
  | .atom "invalid" => some .invalid
  | .atom "ok" => some .ok
  | _ => none

def parseFlags : Sexp → Option FlagArg
  | .atom "absent" => some .absent
  | .atom "null" => some .null
  | .atom "bad" => some .badUtf8
  | .atom "badchar" => some .badChar
  | .atom "ok" => some .ok
  | _ => none

def parseInt : Sexp → Option IntArg
  | .atom "null" => some .null
  | a => a.int?.map IntArg.int

def parseFn : Sexp → Option Fn
  | .atom "like" => some .like
  | .atom "instr" => some .instr
  | .atom "substr" => some .substr
  | .atom "replace" => some .replace
  | _ => none

def parseMatch : Sexp → Option Match
  | .list [s, e] => do pure ((← s.nat?), (← e.nat?))
  | _ => none

def parseTbl : Sexp → Option (List (List Match))
  | .list rows => rows.mapM fun r => match r with
    | .list ms => ms.mapM parseMatch
    | _ => none
  | _ => none

def showRunes (rs : List Nat) : String := "(s" ++ String.join (rs.map fun r => " " ++ toString r) ++ ")"

def showRes : Res → String
  | .null => "null"
  | .int i => "(i " ++ toString i ++ ")"
  | .str rs => showRunes rs
  | .err c => "err:" ++ c

/-- One row of a statement: `(text patCls patId flagCls flagId rep (ints…) table)`. -/
def parseRow : Sexp → Option (Row × List (List Match))
  | .list [text, pat, pid, flags, fid, rep, .list ints, tbl] => do
    let text ← parseStr text
    let pat ← parsePat pat
    let pid ← pid.nat?
    let flags ← parseFlags flags
    let fid ← fid.nat?
    let rep ← parseStr rep
    let ints ← ints.mapM parseInt
    let tbl ← parseTbl tbl
    pure ({ text, pat := (pat, pid), flags := (flags, fid), rep, ints }, tbl)
  | _ => none

/-- The matcher world of a statement: the table the harness recorded for (pattern, flags, text). -/
def worldOf (rs : List (Row × List (List Match))) : World := fun k t =>
  match rs.find? (fun p => decide (p.1.key = k ∧ p.1.text = t)) with
  | some p => fun i => (p.2[i]?).getD []
  | none => fun _ => []

def showResList (rs : List Res) : String := "[" ++ " ".intercalate (rs.map showRes) ++ "]"

def parseModes : Sexp → Option Modes
  | .list [a, b, c, d] => do
    pure { textConst := (← a.nat?) == 1, patConst := (← b.nat?) == 1, flagsConst := (← c.nat?) == 1, restConst := (← d.nat?) == 1 }
  | _ => none

/-- A WHERE filter `… AND REGEXP_LIKE(…)` / `REGEXP_INSTR(…) > 0` keeps the row. -/
def selected : Res → String
  | .int i => if i > 0 then "1" else "0"
  | _ => "0"

def showSel (rs : List Res) : String := "[" ++ " ".intercalate (rs.map selected) ++ "]"

def handle (p : List Sexp) : String :=
  match p with
  | [Sexp.list [Sexp.atom "where", fn, md, Sexp.list rows]] =>
    match parseFn fn, parseModes md, rows.mapM parseRow with
    | some fn, some md, some rs =>
      let W := worldOf rs
      let rows := rs.map (·.1)
      if ¬ Respects md rows then answer "bad-case:constant-argument-varies" else
      answer (showSel (runRows .perRow W fn md Node.fresh rows)) (showSel (rows.map (evalFresh W fn)))
    | _, _, _ => answer "bad-case"
  | [Sexp.list [Sexp.atom "seq", fn, md, Sexp.list rows]] =>
    match parseFn fn, parseModes md, rows.mapM parseRow with
    | some fn, some md, some rs =>
      let W := worldOf rs
      let rows := rs.map (·.1)
      if ¬ Respects md rows then answer "bad-case:constant-argument-varies" else
      -- Impl model: the rows through ONE node with the code's discipline; Spec: every row on its own
      let i := runRows .perRow W fn md Node.fresh rows
      match regionRows W fn rows with
      | none => answer (showResList i) (showResList (rows.map (evalFresh W fn)))
      | some r => answer (showResList i) (showResList (specRows W fn rows)) r
    | _, _, _ => answer "bad-case"
  | [Sexp.list [Sexp.atom "re", fn, text, pat, flags, rep, Sexp.list ints, tbl]] =>
    match parseFn fn, parseStr text, parsePat pat, parseFlags flags, parseStr rep, ints.mapM parseInt, parseTbl tbl with
    | some fn, some text, some pat, some flags, some rep, some ints, some tbl =>
      let c : Call := { fn, text, pat, flags, rep, ints, m := fun i => (tbl[i]?).getD [] }
      let i := evalCall c
      match region c with
      | none => answer (showRes i)
      | some r => answer (showRes i) (showRes (spec c)) r
    | _, _, _, _, _, _, _ => answer "bad-case"
  | [Sexp.list [Sexp.atom "splitpos", Sexp.list rs, pos]] =>
    match rs.mapM Sexp.nat?, pos.int? with
    | some rs, some pos => answer (if splitsPair (encodeUtf16 rs) (clamp32 pos) then "split" else "nosplit")
    | _, _ => answer "bad-case"
  | [Sexp.list [Sexp.atom "utf16", Sexp.list rs]] =>
    match rs.mapM Sexp.nat? with
    | some rs => answer (showRunes (encodeUtf16 rs) ++ " " ++ showRunes (decodeUtf16 (encodeUtf16 rs)))
    | none => answer "bad-case"
  | [Sexp.list [Sexp.atom "utf16dec", Sexp.list us]] =>
    match us.mapM Sexp.nat? with
    | some us => answer (showRunes (decodeUtf16 us))
    | none => answer "bad-case"
  | _ => answer "bad-case"

def main : IO Unit := runPure handle
