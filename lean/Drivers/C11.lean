/-
C11 driver. Payloads:

`(hist (tbl (row v v v)…) (steps <step>…))` with `<step>` = `(s <session> <stmt>)` — a statement of the fragment of
Gms/Model/Prepared.lean without placeholders — or `(tx <session> begin|commit|rollback|ac0|ac1)`; the steps are issued
against one table from two sessions.
implModelObs: the session bookkeeping of the Go code (`Gms.TxSnapshot.runImpl`: marks, the working copy a finished
transaction leaves behind, reset at the next statement), every query through a *fresh* cache cell
(`Gms.QueryCache.iters {}`), as the engine plans afresh for every execution; specObs: `Gms.TxSnapshot.runSpec` — the
reference result on the data the session is entitled to see at that step (the current data outside a transaction).

`(trig <kind> (log i…) (body <setk> <mark> <operand>) (rows (r id k)…))`: one multi-row statement firing a trigger
whose body reads and writes the side table; implModelObs `Gms.TrigCache.implStmt` (one cell per subquery node for
the whole statement, subqueries marked volatile), specObs `Gms.TrigCache.specRows`.
-/
import Gms.Driver.PreparedProto
import Gms.Model.QueryCache
import Gms.Model.TxSnapshot
import Gms.Model.TrigCache
open Gms.Proto Gms.Sql Gms.Prepared Gms.PreparedProto Gms.QueryCache

/-- Impl model of one statement on the data the session sees: a SELECT is planned with a fresh cell that is
iterated once to the end -/
def implStmt (st : Stmt) (db : Table) : Outcome × Table :=
  match run [] st db with
  | (.rows rs, db') => (.rows ((iters {} rs [none]).1.headD []), db')
  | x => x

def specStmt (st : Stmt) (db : Table) : Outcome × Table := run [] st db

def txOp? (f : Stmt → Table → Outcome × Table) : Sexp → Option (Nat × Gms.TxSnapshot.Op Table Outcome)
  | .list [.atom "s", i, st] => do pure ((← i.nat?), .stmt (f (← stmt? st)))
  | .list (.atom "tx" :: i :: .atom "begin" :: _) => do pure ((← i.nat?), .start)
  | .list (.atom "tx" :: i :: .atom "commit" :: _) => do pure ((← i.nat?), .commit)
  | .list (.atom "tx" :: i :: .atom "rollback" :: _) => do pure ((← i.nat?), .rollback)
  | .list (.atom "tx" :: i :: .atom "ac0" :: _) => do pure ((← i.nat?), .setAC false)
  | .list (.atom "tx" :: i :: .atom "ac1" :: _) => do pure ((← i.nat?), .setAC true)
  | _ => none

def showObs : Option Outcome → String
  | none => "tx-ok"
  | some o => showOutcome o

/-! trigger cases -/
open Gms.TrigCache in
def operand? : Sexp → Option Operand
  | .atom "newid" => some .newId
  | .atom "newk" => some .newK
  | .list [.atom "c", i] => i.int?.map .const
  | _ => none

open Gms.TrigCache in
def agg? : Sexp → Option Agg
  | .atom "count" => some .count
  | .atom "max" => some .max
  | .atom "sum" => some .sum
  | _ => none

open Gms.TrigCache in
def subq? : Sexp → Option SubQ
  | .list [.atom "sq", a, .atom "none"] => do pure { agg := (← agg? a), below := none }
  | .list [.atom "sq", a, o] => do pure { agg := (← agg? a), below := some (← operand? o) }
  | _ => none

open Gms.TrigCache in
def test? : Sexp → Option Test
  | .list [.atom "inlog", o] => (operand? o).map .inLog
  | .list [.atom "subgt", q, c] => do pure (.subGt (← subq? q) (← c.int?))
  | .list [.atom "exists", o] => (operand? o).map .existsEq
  | _ => none

open Gms.TrigCache in
def body? : Sexp → Option Body
  | .list [.atom "body", sk, mk, lg] => do
    let sk ← (match sk with | .atom "none" => some none | s => (subq? s).map some)
    let mk ← (match mk with | .atom "none" => some none | s => (test? s).map some)
    pure { setK := sk, mark := mk, logs := (← operand? lg) }
  | _ => none

open Gms.TrigCache in
def newRow? : Sexp → Option NewRow
  | .list [.atom "r", i, k] => do pure { id := (← i.int?), k := (← k.int?) }
  | _ => none

def insertInt (x : Int) : List Int → List Int
  | [] => [x]
  | y :: ys => if x ≤ y then x :: y :: ys else y :: insertInt x ys

def sortInts (xs : List Int) : List Int := xs.foldr insertInt []

open Gms.TrigCache in
def showTrig (r : List NewRow × Log) : String :=
  let rows := r.1.map fun x => "(" ++ toString x.id ++ " " ++ toString x.k ++ " " ++ (if x.seen then "1" else "0") ++ ")"
  "t: " ++ " ".intercalate rows ++ " | log: " ++ " ".intercalate ((sortInts r.2).map toString)

def handle (p : List Sexp) : String :=
  match p with
  | [.list [.atom "hist", .list (.atom "tbl" :: rows), .list (.atom "steps" :: steps)]] =>
    match rows.mapM row?, steps.mapM (txOp? implStmt), steps.mapM (txOp? specStmt) with
    | some rows, some isteps, some ssteps =>
      let impl := " ; ".intercalate ((Gms.TxSnapshot.runImpl isteps rows (fun _ => {})).map showObs)
      let spec := " ; ".intercalate ((Gms.TxSnapshot.runSpec ssteps rows (fun _ => {})).map showObs)
      if impl == spec then answer impl else answer impl spec
    | _, _, _ => answer "bad-case"
  | [.list [.atom "trig", _, .list (.atom "log" :: log), body, .list (.atom "rows" :: rows)]] =>
    match log.mapM Sexp.int?, body? body, rows.mapM newRow? with
    | some log, some body, some rows =>
      let impl := showTrig (Gms.TrigCache.implStmt body log rows)
      let spec := showTrig (Gms.TrigCache.specRows body log rows)
      if impl == spec then answer impl else answer impl spec
    | _, _, _ => answer "bad-case"
  -- a reset statement of the harness that failed on the real engine (the model has no such failure)
  | [.list (.atom "setup" :: _)] => answer "setup-ok"
  | _ => answer "bad-case"

def main : IO Unit := runPure handle
