/-
C11 driver. Payload: `(hist (tbl (row v v v)…) (steps (st <stmt> ())…))` — statements of the fragment of
Gms/Model/Prepared.lean without placeholders, issued against one table from two sessions.
implModelObs: every query goes through a *fresh* cache cell (`Gms.QueryCache.iters {}`), as the engine
plans afresh for every execution; specObs: the reference result on the state current at that step.
-/
import Gms.Driver.PreparedProto
import Gms.Model.QueryCache
open Gms.Proto Gms.Sql Gms.Prepared Gms.PreparedProto Gms.QueryCache

/-- Impl model of a history: writes change the table, a SELECT is planned with a fresh cell that
is iterated once to the end -/
def implAll : List Stmt → Table → List Outcome
  | [], _ => []
  | st :: rest, db =>
    match run [] st db with
    | (.rows rs, db') => .rows ((iters {} rs [none]).1.headD []) :: implAll rest db'
    | (o, db') => o :: implAll rest db'

def specAll : List Stmt → Table → List Outcome
  | [], _ => []
  | st :: rest, db => (run [] st db).1 :: specAll rest (run [] st db).2

def handle (p : List Sexp) : String :=
  match p with
  | [.list [.atom "hist", .list (.atom "tbl" :: rows), .list (.atom "steps" :: steps)]] =>
    match rows.mapM row?, steps.mapM step? with
    | some rows, some steps =>
      let sts := steps.map (·.1)
      let impl := " ; ".intercalate ((implAll sts rows).map showOutcome)
      let spec := " ; ".intercalate ((specAll sts rows).map showOutcome)
      if impl == spec then answer impl else answer impl spec
    | _, _ => answer "bad-case"
  -- a reset statement of the harness that failed on the real engine (the model has no such failure)
  | [.list (.atom "setup" :: _)] => answer "setup-ok"
  | _ => answer "bad-case"

def main : IO Unit := runPure handle
