import Gms.Driver.Proto
import Gms.Model.ReadOnlyTie
open Gms.Proto Gms.ReadOnly

def bit (s : String) (i : Nat) : Bool := (s.toList.getD i '0') == '1'

def strOf (s : Sexp) : String :=
  match s.bytes? with
  | some bs => String.fromUTF8! (ByteArray.mk bs.toArray)
  | none => "?"

/-- `(n <field> <kind> <ischild> <attr> child*)` -/
partial def parseNode : Sexp → Option Node
  | .list (.atom "n" :: f :: k :: .atom c :: .atom a :: kids) =>
    match kids.mapM parseNode with
    | some cs => some (.mk (strOf f) (strOf k) (c == "1") ⟨bit a 0, bit a 1, bit a 2, bit a 3, bit a 4⟩ cs)
    | none => none
  | _ => none

def roObs (r : Res) : String := resStr r ++ " " ++ gates r

def handle (p : List Sexp) : String :=
  match p with
  | [Sexp.list [Sexp.atom "ro", t]] =>
    match parseNode t with
    | none => answer "bad-case"
    | some n =>
      let r := isRO tbl n
      if wf tbl expect n then
        let s := specRes n r
        if s == r then answer (roObs r)
        else answer (roObs r) (roObs s) (if storedProc tbl n then "stored_procedure_call_rejected" else "-")
      else if wfSpecOnly n then
        -- the source's table is unsound on a kind of this tree: the Spec is decided over the
        -- repaired table (what the expectation demands), never a known region
        let s := specRes n r
        if s == r then answer (roObs r) else answer (roObs r) (roObs s) "-"
      else answer (roObs r) "?"
  | [Sexp.list [Sexp.atom "tx", t]] =>
    match parseNode t with
    | none => answer "bad-case"
    | some n =>
      let impls := txSlots.map fun (tx, en) => roTxRule facts tx en n
      let obs := ",".intercalate (impls.map outStr)
      if wf tbl expect n && !reachNil n then
        let specs := (txSlots.zip impls).map fun ((tx, en), i) => specTx n tx en i
        let regs := ((impls.zip specs).map fun (i, s) => regionTx n i s).filter (· != "-")
        if specs == impls then answer obs
        else answer obs (",".intercalate (specs.map outStr)) (regs.headD "-")
      else answer obs "?"
  | [Sexp.list [Sexp.atom "db", t]] =>
    match parseNode t with
    | none => answer "bad-case"
    | some n =>
      let str (en : Bool) (o : Outcome) : String := if o == .reject then (if en then "asof" else "rodb") else outStr o
      let i0 := roDbRule facts false n
      let i1 := roDbRule facts true n
      let obs := str false i0 ++ "," ++ str true i1
      if wf tbl expect n && !reachNil n then
        let s0 := specDb n i0
        let s1 := specDb n i1
        if s0 == i0 && s1 == i1 then answer obs
        else
          let regs := [regionDb n i0 s0, regionDb n i1 s1].filter (· != "-")
          answer obs (str false s0 ++ "," ++ str true s1) (regs.headD "-")
      else answer obs "?"
  | [Sexp.list [Sexp.atom "sql", Sexp.atom mode, Sexp.atom _label, _q, t]] =>
    match parseNode t with
    | none => answer "bad-case"
    | some n =>
      let r := isRO tbl n
      let g := engineGate (mode == "ro") (mode == "locked") r
      let obsOf (g : Gate) : String :=
        match g with
        | .pass => "pass"
        | .errReadOnly => "blocked:ro same"
        | .errLocked => "blocked:locked same"
        | .panic => "crash"
        | .unknown => "unknown"
      if wf tbl expect n then
        let s := specRes n r
        let gs := engineGate (mode == "ro") (mode == "locked") s
        if gs == g then answer (obsOf g)
        else answer (obsOf g) (obsOf gs) (if storedProc tbl n then "stored_procedure_call_rejected" else "-")
      else if wfSpecOnly n then
        let gs := engineGate (mode == "ro") (mode == "locked") (specRes n r)
        if gs == g then answer (obsOf g) else answer (obsOf g) (obsOf gs) "-"
      else answer (obsOf g) "?"
  | [Sexp.list [Sexp.atom "sqltx", Sexp.atom label, Sexp.atom cls, _q, o]] =>
    -- READ ONLY transaction at the SQL level: the model does not see the tree the rule saw; the
    -- observation is echoed and judged against the statement's label
    let obs := strOf o
    -- account management implicitly commits: the property is silent about it inside a transaction
    let spec := if cls == "acct" then obs else if label == "R" then "pass same" else if label == "W" then "blocked:rotx same" else obs
    if spec == obs then answer obs
    else
      let region :=
        if obs.startsWith "crash" && cls == "dml" then "rotx_table_without_temporary_iface_panics"
        else if label == "W" && cls == "ddl" && obs.startsWith "pass" then "rotx_ddl_passes"
        else if label == "W" && cls == "call" && obs.startsWith "pass" then "rotx_call_not_checked"
        else "-"
      answer obs spec region
  | [Sexp.list [Sexp.atom "sqldb", Sexp.atom label, Sexp.atom cls, _q, o]] =>
    let obs := strOf o
    let spec := if label == "R" then "pass" else if label == "W" then "blocked:rodb" else obs
    if spec == obs then answer obs
    else answer obs spec (if label == "W" && cls == "ddlx" && obs.startsWith "pass" then "rodb_statement_without_resolved_table_passes" else "-")
  | _ => answer "bad-case"

def main : IO Unit := runPure handle
