import Gms.Driver.Proto
import Gms.Model.Fulltext
import Gms.Model.FulltextEditor
open Gms.Proto Gms.Fulltext

/-
rune  : <cp>.<len>.<ch 0|1>            (what Go's range loop delivers + isCharacter)
case  : (tok <ci 0|1> (d rune …))      obs: w=((<word hex> <pos>) …) u=((<word hex> <count>) …) n=<unique count>
        (hist <ci 0|1> (lay <k2 0|1> (pk ord …) (uks (ord …) …) (nn ord …)) <tail 0|1> (ops op …) (queries (d rune …) …))
          lay: key layout over the integer columns id (ordinal 0) and k2 (ordinal 1, present iff k2 = 1);
          tail = 1: the integer columns are placed after the text columns (does not enter the model)
          op = (ins id k2 col …) | (del id) | (upd id col …) | (rekey id new) | (rekey2 id new);  col = null | (d rune …)
          row = id | id:k2
          obs: t=((row col …) …) mw=((row …) …) me=((row …) …) dc=(…) gc=(…) rc=(…) pos=(…)   (every list sorted as strings)
          dc / pos entries carry the row's key values in schema order (id before k2), whatever the storage order C0 C1 …
-/

def minLen : Nat := 3
def maxLen : Nat := 84

def parseRune (s : Sexp) : Option R :=
  match s with
  | .atom a =>
    match a.splitOn "." with
    | [c, l, h] =>
      match c.toNat?, l.toNat? with
      | some c, some l => some { cp := c, len := l, ch := h == "1" }
      | _, _ => none
    | _ => none
  | _ => none

def parseDoc : Sexp → Option (List R)
  | .list (.atom "d" :: rs) => rs.mapM parseRune
  | _ => none

def parseCol : Sexp → Option (Option (List R))
  | .atom "null" => some none
  | s => (parseDoc s).map some

def parseOp : Sexp → Option Op
  | .list (.atom "ins" :: id :: k2 :: cols) => do
    let i ← id.nat?
    let j ← k2.nat?
    let cs ← cols.mapM parseCol
    pure (.ins { id := i, k2 := j, cols := cs })
  | .list [.atom "del", id] => id.nat?.map .del
  | .list (.atom "upd" :: id :: cols) => do
    let i ← id.nat?
    let cs ← cols.mapM parseCol
    pure (.upd i cs)
  | .list [.atom "rekey", id, n] => do
    let i ← id.nat?
    let n ← n.nat?
    pure (.rekey i n)
  | .list [.atom "rekey2", id, n] => do
    let i ← id.nat?
    let n ← n.nat?
    pure (.rekey2 i n)
  | _ => none

def parseNats (l : List Sexp) : Option (List Nat) := l.mapM (·.nat?)

def parseLay : Sexp → Option (Bool × Layout)
  | .list [.atom "lay", .atom k2, .list (.atom "pk" :: pk), .list (.atom "uks" :: uks), .list (.atom "nn" :: nn)] => do
    let pk ← parseNats pk
    let uks ← uks.mapM fun u => match u with
      | .list l => parseNats l
      | _ => none
    let nn ← parseNats nn
    pure (k2 == "1", { pk := pk, uks := uks, nn := nn })
  | _ => none

def utf8 (c : Nat) : List UInt8 :=
  let b (n : Nat) : UInt8 := UInt8.ofNat n
  if c < 0x80 then [b c]
  else if c < 0x800 then [b (0xC0 + c / 64), b (0x80 + c % 64)]
  else if c < 0x10000 then [b (0xE0 + c / 4096), b (0x80 + c / 64 % 64), b (0x80 + c % 64)]
  else [b (0xF0 + c / 262144), b (0x80 + c / 4096 % 64), b (0x80 + c / 64 % 64), b (0x80 + c % 64)]

def wordHex (w : Word) : String := hex (w.flatMap fun r => utf8 r.cp)
def cpsHex (w : List Nat) : String := hex (w.flatMap utf8)

/-- Collation hash classes on the generated alphabet: `utf8mb4_0900_bin` = identity,
`utf8mb4_0900_ai_ci` on ASCII = case folding. -/
def keyOf (ci : Bool) (w : Word) : List Nat :=
  w.map fun r => if ci && 65 ≤ r.cp && r.cp ≤ 90 then r.cp + 32 else r.cp

def insertSorted (s : String) : List String → List String
  | [] => [s]
  | x :: xs => if s < x || s == x then s :: x :: xs else x :: insertSorted s xs

def sortS (l : List String) : List String := l.foldl (fun acc s => insertSorted s acc) []

def plist (l : List String) : String := "(" ++ " ".intercalate l ++ ")"

def docOK (d : List R) : Bool := d.all fun r => !(r.ch && isApos r)

/-! ### Index tables as maintained by the editor model (Gms/Model/FulltextEditor.lean) -/

/-- What identifies a row in DOC_COUNT / POSITION: the primary key, or the row hash (= content). -/
inductive RKey where
  | key (vals : List Nat)
  | hash (r : Row)
  deriving DecidableEq

/-- The key columns in schema order (the observation names a row key independently of the order in
which DOC_COUNT / POSITION store its values). -/
def schemaOrder (ps : List Nat) : List Nat := (List.range (ps.foldl max 0 + 1)).filter ps.contains

/-- `ps` = the key columns of the layout (`[]` ⇔ row hash). -/
def rkOf (keyed : Bool) (ps : List Nat) (r : Row) : RKey := if keyed then .key (keyVals ps r) else .hash r

abbrev IdxT := Idx (List Nat) RKey

structure EdState where
  rows : List Row      -- parent table
  ix : IdxT            -- pseudo-index tables
  seen : List Row      -- every row ever handed to the editor (candidates for dumping the tables)

/-- Row-level editor calls of a DML statement (engine: one `Delete` / `Update` per matching row,
`Insert` per new row). -/
def edOpsOf (rows : List Row) (op : Op) : List EdOp :=
  match op with
  | .ins r => [.ins r]
  | .del _ => (touched rows op).map .del
  | .upd _ cols => (touched rows op).map fun r => .upd r { r with cols := cols }
  | .rekey _ n => (touched rows op).map fun r => .upd r { r with id := n }
  | .rekey2 _ n => (touched rows op).map fun r => .upd r { r with k2 := n }

def runOps (key : Word → List Nat) (keyed : Bool) (ps : List Nat) (ix : IdxT) : List EdOp → Option IdxT
  | [] => some ix
  | op :: ops =>
    match edStep key (rkOf keyed ps) minLen maxLen ix op with
    | some ix' => runOps key keyed ps ix' ops
    | none => none

def newRows : EdOp → List Row
  | .ins r => [r]
  | .del _ => []
  | .upd _ n => [n]

/-- One DML statement: the reference semantics decides which rows change (duplicate-key failures
included); the editor calls run on the index; if one of them fails the statement is discarded. -/
def stmt (key : Word → List Nat) (lay : Layout) (s : EdState) (op : Op) : EdState :=
  let keyed := keyedIdx lay
  let ps := schemaOrder (getKeyColumns lay).positions
  let rows' := applyOp lay s.rows op
  if rows' == s.rows && (match op with | .ins _ => true | _ => false) then s   -- rejected INSERT (duplicate key)
  else
    let eops := edOpsOf s.rows op
    -- a key change that is rejected by the table leaves everything as it was
    if (match op with | .rekey _ _ => rows' == s.rows | .rekey2 _ _ => rows' == s.rows | _ => false) then s
    else match runOps key keyed ps s.ix eops with
      | some ix' => { rows := rows', ix := ix', seen := s.seen ++ eops.flatMap newRows }
      | none => s

def dedupS (l : List String) : List String :=
  l.foldl (fun acc x => if acc.contains x then acc else acc ++ [x]) []

def handle (p : List Sexp) : String :=
  match p with
  | [.list [.atom "tok", .atom ci, d]] =>
    match parseDoc d with
    | some doc =>
      if !docOK doc then answer "bad-case" else
      let toks := tokenize minLen doc
      let u := uniqueWords (keyOf (ci == "1")) (toks.map (·.1))
      let rest := " u=" ++ plist (u.map fun e => "(" ++ wordHex e.1 ++ " " ++ toString e.2.2 ++ ")")
        ++ " n=" ++ toString u.length
      let ps := " p=" ++ plist (toks.map fun t => toString t.2)
      let impl := "w=" ++ plist (toks.map fun t => wordHex t.1) ++ ps ++ rest
      let spec := "w=" ++ plist ((specWords minLen doc).map wordHex) ++ ps ++ rest
      if impl == spec then answer impl else answer impl spec "tokenizer_differs_from_spec"
    | none => answer "bad-case"
  | [.list [.atom "hist", .atom ci, lay, .atom _tail, .list (.atom "ops" :: ops), .list (.atom "queries" :: qs)]] =>
    match ops.mapM parseOp, qs.mapM parseDoc, parseLay lay with
    | some ops, some qs, some (hasK2, lay) =>
      let ci := ci == "1"
      let keyed := keyedIdx lay
      let ps := schemaOrder (getKeyColumns lay).positions
      let key := keyOf ci
      let rowS (r : Row) : String := if hasK2 then toString r.id ++ ":" ++ toString r.k2 else toString r.id
      let ids (l : List Row) := plist (sortS (l.map rowS))
      let colS (c : Option (List R)) : String := match c with
        | none => "null"
        | some d => wordHex d
      let tbl (l : List Row) := plist (sortS (l.map fun r =>
        "(" ++ " ".intercalate (rowS r :: r.cols.map colS) ++ ")"))
      let keyS (vals : List Nat) : String := String.join (vals.map fun v => toString v ++ " ")
      let idS (r : Row) := if keyed then keyS (keyVals ps r) else ""
      -- observation of a table state; `whereImpl`: WHERE form as implemented / as specified
      let obsOf (rows : List Row) (whereImpl : Bool) : String :=
        let mw := qs.map fun q =>
          ids (if whereImpl then implWhere key minLen maxLen lay rows q else specMatch key minLen maxLen rows q)
        let me := qs.map fun q => ids (specMatch key minLen maxLen rows q)
        let dc := sortS ((specDocCount key minLen maxLen keyed rows).map fun e =>
          "(" ++ wordHex e.1 ++ " " ++ idS e.2.1 ++ toString e.2.2 ++ ")")
        let gc := sortS ((specGlobalCount key minLen maxLen rows).map fun e =>
          "(" ++ cpsHex e.1 ++ " " ++ toString e.2 ++ ")")
        let rc := sortS ((specRowCount key minLen keyed rows).map fun e =>
          "(" ++ toString e.1 ++ " " ++ toString e.2 ++ ")")
        let pos := sortS ((specPosition minLen maxLen keyed rows).map fun e =>
          "(" ++ wordHex e.1 ++ " " ++ idS e.2.1 ++ toString e.2.2 ++ ")")
        "t=" ++ tbl rows ++ " mw=" ++ plist mw ++ " me=" ++ plist me ++ " dc=" ++ plist dc ++ " gc=" ++ plist gc
          ++ " rc=" ++ plist rc ++ " pos=" ++ plist pos
      let rowsI := ops.foldl (applyOpImpl minLen maxLen lay) []
      let rowsS := ops.foldl (applyOp lay) []
      -- Impl model of the index tables: the editor model run over the history
      let st := ops.foldl (stmt key lay) { rows := [], ix := Idx.empty, seen := [] }
      let cand := st.rows ++ st.seen
      let rkS (q : RKey) : String := match q with
        | .key vals => keyS vals
        | .hash _ => ""
      let rkOf := rkOf keyed ps
      let firstBy {α β : Type} [BEq β] (f : α → β) (l : List α) : List α :=
        (l.foldl (fun (acc : List α × List β) x => if acc.2.contains (f x) then acc else (acc.1 ++ [x], acc.2 ++ [f x])) ([], [])).1
      let dcI := firstBy (fun (e : List Nat × RKey × String) => (e.1, e.2.1))
        (cand.flatMap fun r => (uniq key minLen r).filterMap fun e =>
          let n := st.ix.dc e.2.1 (rkOf r)
          if n == 0 then none else some (e.2.1, rkOf r, "(" ++ wordHex e.1 ++ " " ++ rkS (rkOf r) ++ toString n ++ ")"))
      let gcI := firstBy (fun (e : List Nat × String) => e.1)
        (cand.flatMap fun r => (uniq key minLen r).filterMap fun e =>
          let n := st.ix.gc e.2.1
          if n == 0 then none else some (e.2.1, "(" ++ cpsHex e.2.1 ++ " " ++ toString n ++ ")"))
      let rcI := (dedup cand).filterMap fun r =>
        let n := st.ix.rc r
        if n == 0 then none else some ("(" ++ toString n ++ " " ++ toString (uniq key minLen r).length ++ ")")
      let posI := firstBy (fun (e : (Word × RKey × Nat) × String) => e.1)
        (cand.flatMap fun r => (tokenize minLen (docOf r)).filterMap fun t =>
          if st.ix.pos t.1 (rkOf r) t.2 then
            some ((t.1, rkOf r, t.2), "(" ++ wordHex t.1 ++ " " ++ rkS (rkOf r) ++ toString t.2 ++ ")")
          else none)
      let implIdx := " dc=" ++ plist (sortS (dcI.map (·.2.2))) ++ " gc=" ++ plist (sortS (gcI.map (·.2)))
        ++ " rc=" ++ plist (sortS rcI) ++ " pos=" ++ plist (sortS (posI.map (·.2)))
      let implFull := obsOf rowsI true
      -- the index part of the Impl observation comes from the editor model, the rest from the table model
      let cut (o : String) : String := (o.splitOn " dc=").headD ""
      let impl := cut implFull ++ implIdx
      let spec := obsOf rowsS false
      -- the walk with explicit key resolution and the multiplicity model `implMatchWhere` are the same
      -- multiset (`C51.filter_walk_count`); checked here as well
      let walkOK := qs.all fun q =>
        ids (implWhere key minLen maxLen lay rowsI q) == ids (implMatchWhere key minLen maxLen keyed rowsI q)
      if st.rows != rowsI then answer "model-inconsistent: editor model and applyOpImpl disagree on the table" spec "no_region"
      else if !walkOK then answer "model-inconsistent: filterWalk and implMatchWhere disagree" spec "no_region"
      else if impl == spec then answer impl
      else
        let reg :=
          if rStuck minLen maxLen lay [] ops then "dml_rejected_for_row_with_overlong_word"
          else if qs.any (fun q => rRepeats key minLen maxLen keyed rowsI q) then "where_match_repeats_row_per_matched_word"
          else "no_region"
        answer impl spec reg
    | _, _, _ => answer "bad-case"
  | _ => answer "bad-case"

def main : IO Unit := runPure handle
