import Gms.Driver.Proto
import Gms.Model.ShowCreate
open Gms.Proto Gms.ShowCreate

/-! Line-protocol driver for C22: prints the CREATE TABLE text of a schema.

payload: `(table name (cols (name ty nn ai dflt comment)…) (pk name…) (keys (u name (col…) comment)…) comment)`
observation: hex of the statement text -/

def str? (s : Sexp) : Option Str := do
  let bs ← s.bytes?
  pure (bs.map fun b => Char.ofNat b.toNat)

def parseTy : Sexp → Option Ty
  | .atom "int" => some .int
  | .atom "bigint" => some .bigint
  | .atom "tinyint" => some .tinyint
  | .atom "double" => some .double
  | .atom "text" => some .text
  | .atom "date" => some .date
  | .list [.atom "varchar", n] => do pure (.varchar (← n.nat?))
  | .list [.atom "char", n] => do pure (.char (← n.nat?))
  | .list [.atom "decimal", p, s] => do pure (.decimal (← p.nat?) (← s.nat?))
  | _ => none

def parseDflt : Sexp → Option (Option Dflt)
  | .atom "-" => some none
  | .atom "null" => some (some .null)
  | .list [.atom "num", t] => do pure (some (.num (← str? t)))
  | .list [.atom "str", t] => do pure (some (.str (← str? t)))
  | _ => none

def parseCol : Sexp → Option Col
  | .list [n, ty, nn, ai, d, c] => do
    pure { name := ← str? n, ty := ← parseTy ty, notNull := (← nn.nat?) == 1, autoInc := (← ai.nat?) == 1,
           dflt := ← parseDflt d, comment := ← str? c }
  | _ => none

def parseKey : Sexp → Option Key
  | .list [u, n, .list cols, c] => do
    pure { unique := (← u.nat?) == 1, name := ← str? n, cols := ← cols.mapM str?, comment := ← str? c }
  | _ => none

def hexS (s : Str) : String := hex (s.map fun c => UInt8.ofNat c.toNat)   -- the model works on bytes

def handle (p : List Sexp) : String :=
  match p with
  | [.list [.atom "table", n, .list (.atom "cols" :: cols), .list (.atom "pk" :: pk), .list (.atom "keys" :: keys), c]] =>
    match str? n, cols.mapM parseCol, pk.mapM str?, keys.mapM parseKey, str? c with
    | some n, some cols, some pk, some keys, some c =>
      let t : Table := { name := n, cols := cols, pk := pk, keys := keys, comment := c }
      -- `index_comment_unescaped` was repaired (`Gms.C22.index_comment_round_trip`): the Go text is the
      -- Spec text (every comment escaped) on every case, there is no region any more
      answer (hexS (showTable t))
    | _, _, _, _, _ => answer "bad-case"
  | [.list [.atom "object", _]] => answer "object"      -- views / triggers / procedures: oracle only
  | _ => answer "bad-case"

def main : IO Unit := runPure handle
