import Gms.Driver.Proto
import Gms.Model.ShowCreate
open Gms.Proto Gms.ShowCreate

/-! Line-protocol driver for C22: prints the CREATE TABLE text of a schema.

payload: `(table name (cols (name ty nn ai dflt comment cs coll)…) (pk name…) (keys (u name (col…) comment)…) comment (opts cs coll))`
where `cs` / `coll` are the CHARACTER SET / COLLATE names as the CREATE TABLE statement gave them (`-` = absent).
The driver resolves them with the model's reader (`resolveColl`: the table options against the engine default,
each text column against the table collation) and prints the resolved table; a statement whose COLLATE does not
belong to its CHARACTER SET is `rejected`.
observation: hex of the statement text -/

def str? (s : Sexp) : Option Str := do
  let bs ← s.bytes?
  pure (bs.map fun b => Char.ofNat b.toNat)

def parseTy : Sexp → Option Ty
  | .atom "int" => some .int
  | .atom "bigint" => some .bigint
  | .atom "tinyint" => some .tinyint
  | .atom "double" => some .double
  | .atom "text" => some .text
  | .atom "date" => some .date
  | .list [.atom "varchar", n] => do pure (.varchar (← n.nat?))
  | .list [.atom "char", n] => do pure (.char (← n.nat?))
  | .list [.atom "decimal", p, s] => do pure (.decimal (← p.nat?) (← s.nat?))
  | _ => none

def parseDflt : Sexp → Option (Option Dflt)
  | .atom "-" => some none
  | .atom "null" => some (some .null)
  | .list [.atom "num", t] => do pure (some (.num (← str? t)))
  | .list [.atom "str", t] => do pure (some (.str (← str? t)))
  | _ => none

def optStr? : Sexp → Option (Option Str)
  | .atom "-" => some none
  | s => do pure (some (← str? s))

/-- A column with its clauses as issued (resolved later, once the table collation is known). -/
def parseCol : Sexp → Option (Col × CollSpec)
  | .list [n, ty, nn, ai, d, c, cs, co] => do
    pure ({ name := ← str? n, ty := ← parseTy ty, notNull := (← nn.nat?) == 1, autoInc := (← ai.nat?) == 1,
            dflt := ← parseDflt d, comment := ← str? c }, { cs := ← optStr? cs, coll := ← optStr? co })
  | _ => none

def resolveCol (tc : Coll) : Col × CollSpec → Option Col
  | (c, s) => if c.ty.isText then do pure { c with coll := some (← resolveColl collTable tc s) } else some c

def parseKey : Sexp → Option Key
  | .list [u, n, .list cols, c] => do
    pure { unique := (← u.nat?) == 1, name := ← str? n, cols := ← cols.mapM str?, comment := ← str? c }
  | _ => none

def hexS (s : Str) : String := hex (s.map fun c => UInt8.ofNat c.toNat)   -- the model works on bytes

def handle (p : List Sexp) : String :=
  match p with
  | [.list [.atom "table", n, .list (.atom "cols" :: cols), .list (.atom "pk" :: pk), .list (.atom "keys" :: keys), c,
            .list [.atom "opts", tcs, tco]]] =>
    match str? n, cols.mapM parseCol, pk.mapM str?, keys.mapM parseKey, str? c, optStr? tcs, optStr? tco with
    | some n, some cols, some pk, some keys, some c, some tcs, some tco =>
      match resolveColl collTable engineColl { cs := tcs, coll := tco } with
      | none => answer "rejected"
      | some tc =>
        match cols.mapM (resolveCol tc) with
        | none => answer "rejected"
        | some cols =>
          let t : Table := { name := n, cols := cols, pk := pk, keys := keys, comment := c, coll := tc }
          -- `index_comment_unescaped` was repaired (`Gms.C22.index_comment_round_trip`): the Go text is the
          -- Spec text (every comment escaped) on every case, there is no region any more
          -- Where a text column's collation differs from the table's, more than one clause text is sound
          -- (`Gms.C22.coll_round_trip` for the Go printer, `mysql_clause_round_trip` for MySQL's): the Spec —
          -- the statement recreates the same object — does not determine the text (`?`); the property is then
          -- decided on the engine by the object comparison of the harness, and a text that differs from the Go
          -- printer model is reported as a broken correspondence, not as a failing input by itself.
          let determined := cols.all fun c => match c.coll with
            | some cc => cc.name == tc.name
            | none => true
          answer (hexS (showTable t)) (if determined then "=" else "?")
    | _, _, _, _, _, _, _ => answer "bad-case"
  | [.list [.atom "object", _]] => answer "object"      -- views / triggers / procedures: oracle only
  | _ => answer "bad-case"

def main : IO Unit := runPure handle
