import Gms.Driver.Proto
import Gms.Model.Outfile
open Gms.Proto Gms.Outfile

/-
case:  (wr (opts <ft> <enc> <encOpt 0|1> <esc> <lt> <ls>) (rows (<v> …) …))   obs: f=<hex of the file>
       (rt (opts …) <ncols> (rows (<v> …) …))                                 obs: t=<table after LOAD DATA>
         v = null | (t <hex>) | (n <hex>)
       (rd (opts …) <ncols> <file hex>)                      -- reader alone on arbitrary bytes
       table = (<row> …), row = (<hex>|null …)
-/

def parseOpts : Sexp → Option Opts
  | .list [.atom "opts", ft, enc, .atom eo, esc, lt, ls] =>
    match ft.bytes?, enc.bytes?, esc.bytes?, lt.bytes?, ls.bytes? with
    | some ft, some enc, some esc, some lt, some ls =>
      some { ft := ft, enc := enc, encOpt := eo == "1", esc := esc, lt := lt, ls := ls }
    | _, _, _, _, _ => none
  | _ => none

def parseVal : Sexp → Option Val
  | .atom "null" => some .null
  | .list [.atom "t", b] => b.bytes?.map .text
  | .list [.atom "n", b] => b.bytes?.map .num
  | _ => none

def parseRows : Sexp → Option (List (List Val))
  | .list (.atom "rows" :: rs) => rs.mapM fun r => r.items.mapM parseVal
  | _ => none

def showCell : Option Bytes → String
  | none => "null"
  | some b => hex b

def showTable (t : List (List (Option Bytes))) : String :=
  "(" ++ " ".intercalate (t.map fun r => "(" ++ " ".intercalate (r.map showCell) ++ ")") ++ ")"

def handle (p : List Sexp) : String :=
  match p with
  | [.list [.atom "wr", os, rs]] =>
    -- the writer alone: the Spec does not determine the file bytes
    match parseOpts os, parseRows rs with
    | some o, some rows => answer ("f=" ++ hex (writeFile o rows)) "?"
    | _, _ => answer "bad-case"
  | [.list [.atom "rt", os, nc, rs]] =>
    match parseOpts os, nc.nat?, parseRows rs with
    | some o, some n, some rows =>
      let got := roundTrip o n rows
      let want := specRows rows
      let implObs := "t=" ++ showTable got
      if !optsWF o then answer implObs "?"
      else if got == want then answer implObs
      else answer implObs ("t=" ++ showTable want) ((region o rows).getD "no_region")
    | _, _, _ => answer "bad-case"
  | [.list [.atom "rd", os, nc, f]] =>
    match parseOpts os, nc.nat?, f.bytes? with
    | some o, some n, some file => answer ("t=" ++ showTable (readFile o n file)) "?"
    | _, _, _ => answer "bad-case"
  | [.list (.atom "typed" :: _)] => answer "typed" "?"
  | _ => answer "bad-case"

def main : IO Unit := runPure handle
