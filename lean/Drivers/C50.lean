import Gms.Driver.Proto
import Gms.Model.Outfile
open Gms.Proto Gms.Outfile

/-
case:  (wr (opts <ft> <enc> <encOpt 0|1> <esc> <lt> <ls>) (rows (<v> …) …))   obs: f=<hex of the file>
       (rt (opts …) <ncols> (rows (<v> …) …))                                 obs: t=<table after LOAD DATA>
         v = null | (t <hex>) | (n <hex>)
       (rd (opts …) <ncols> <file hex>)                      -- reader alone on arbitrary bytes
       table = (<row> …), row = (<hex>|null …)
       (sp <lt> <data> <atEOF 0|1>)                          obs: <advance> <token hex|nil>   (SplitLines itself)
       (sc <lt> (chunks <chunk> …))                          obs: (<token> …)   (bufio.Scanner over that chunking)
       (lc (opts …) <ncols> (chunks <chunk> …))              obs: t=<table>     (LOAD DATA LOCAL over that chunking)
         v also (tr <hex> <n>) = text, <hex> repeated n times; chunk = <hex> | (r <hex> <n>) | (j piece …)
-/

def parseOpts : Sexp → Option Opts
  | .list [.atom "opts", ft, enc, .atom eo, esc, lt, ls] =>
    match ft.bytes?, enc.bytes?, esc.bytes?, lt.bytes?, ls.bytes? with
    | some ft, some enc, some esc, some lt, some ls =>
      some { ft := ft, enc := enc, encOpt := eo == "1", esc := esc, lt := lt, ls := ls }
    | _, _, _, _, _ => none
  | _ => none

def parseVal : Sexp → Option Val
  | .atom "null" => some .null
  | .list [.atom "t", b] => b.bytes?.map .text
  | .list [.atom "n", b] => b.bytes?.map .num
  | .list [.atom "tr", b, n] =>
    match b.bytes?, n.nat? with
    | some b, some n => some (.text (List.replicate n b).flatten)
    | _, _ => none
  | _ => none

/-- piece = <hex> | (r <hex> <n>) -/
def parsePiece : Sexp → Option Bytes
  | .list [.atom "r", b, n] =>
    match b.bytes?, n.nat? with
    | some b, some n => some (List.replicate n b).flatten
    | _, _ => none
  | s => s.bytes?

/-- chunk = piece | (j piece …) -/
def parseChunk : Sexp → Option Bytes
  | .list (.atom "j" :: ps) => (ps.mapM parsePiece).map List.flatten
  | s => parsePiece s

def parseChunks : Sexp → Option (List Bytes)
  | .list (.atom "chunks" :: cs) => cs.mapM parseChunk
  | _ => none

def showToks (ts : List Bytes) : String := "(" ++ " ".intercalate (ts.map hex) ++ ")"

def parseRows : Sexp → Option (List (List Val))
  | .list (.atom "rows" :: rs) => rs.mapM fun r => r.items.mapM parseVal
  | _ => none

def showCell : Option Bytes → String
  | none => "null"
  | some b => hex b

def showTable (t : List (List (Option Bytes))) : String :=
  "(" ++ " ".intercalate (t.map fun r => "(" ++ " ".intercalate (r.map showCell) ++ ")") ++ ")"

def handle (p : List Sexp) : String :=
  match p with
  | [.list [.atom "wr", os, rs]] =>
    -- the writer alone: the Spec does not determine the file bytes
    match parseOpts os, parseRows rs with
    | some o, some rows => answer ("f=" ++ hex (writeFile o rows)) "?"
    | _, _ => answer "bad-case"
  | [.list [.atom "rt", os, nc, rs]] =>
    match parseOpts os, nc.nat?, parseRows rs with
    | some o, some n, some rows =>
      let got := roundTrip o n rows
      let want := specRows rows
      let implObs := "t=" ++ showTable got
      if !optsWF o then answer implObs "?"
      else if got == want then answer implObs
      else answer implObs ("t=" ++ showTable want) ((region o rows).getD "no_region")
    | _, _, _ => answer "bad-case"
  | [.list [.atom "rd", os, nc, f]] =>
    match parseOpts os, nc.nat?, f.bytes? with
    | some o, some n, some file => answer ("t=" ++ showTable (readFile o n file)) "?"
    | _, _, _ => answer "bad-case"
  | [.list [.atom "sp", lt, d, .atom e]] =>
    match lt.bytes?, d.bytes? with
    | some lt, some d =>
      let r := splitFn lt d (e == "1")
      answer (toString r.1 ++ " " ++ (match r.2 with | none => "nil" | some t => hex t)) "?"
    | _, _ => answer "bad-case"
  | [.list [.atom "sc", lt, cs]] =>
    -- Spec: the whole-file split (chunking independence, `scan_whole`)
    match lt.bytes?, parseChunks cs with
    | some lt, some chunks =>
      let got := scan lt [] chunks
      let want := splitLines lt 0 chunks.flatten []
      if lt.isEmpty then answer (showToks got) "?"
      else if got == want then answer (showToks got)
      else answer (showToks got) (showToks want) "no_region"
    | _, _ => answer "bad-case"
  | [.list [.atom "lc", os, nc, cs]] =>
    -- Spec: what the same bytes give when they are read as one piece (`read_chunking_independent`)
    match parseOpts os, nc.nat?, parseChunks cs with
    | some o, some n, some chunks =>
      let got := readFileChunked o n chunks
      let want := readFile o n chunks.flatten
      if o.lt.isEmpty then answer ("t=" ++ showTable got) "?"
      else if got == want then answer ("t=" ++ showTable got)
      else answer ("t=" ++ showTable got) ("t=" ++ showTable want) "no_region"
    | _, _, _ => answer "bad-case"
  | [.list (.atom "typed" :: _)] => answer "typed" "?"
  | _ => answer "bad-case"

def main : IO Unit := runPure handle
