import Gms.Driver.Proto
import Gms.Model.Similar
open Gms.Proto Gms.Similar

def subCost : Nat := 2
def skip : Nat := 3

def handle (p : List Sexp) : String :=
  match p with
  | [Sexp.list [Sexp.atom "dist", s, t]] =>
    match s.bytes?, t.bytes? with
    | some s, some t =>
      -- the recursive Spec is exponential; it is evaluated beside the DP only on short inputs
      -- (they are equal for all inputs by `Gms.C49.dp_eq_rec`)
      if s.length + t.length ≤ 8 then
        answer (toString (distDP subCost s t)) (toString (lev subCost s.reverse t.reverse))
      else answer (toString (distDP subCost s t))
    | _, _ => answer "bad-case"
  | [Sexp.list [Sexp.atom k, src, Sexp.list names]] =>
    if k == "find" || k == "findmap" then
      match src.bytes?, names.mapM Sexp.bytes? with
      | some src, some names =>
        match find (fun n => distDP subCost n src) skip src.isEmpty names with
        | none => answer "none"
        | some l => answer ("(" ++ " ".intercalate (l.map hex) ++ ")")
      | _, _ => answer "bad-case"
    else answer "bad-case"
  | _ => answer "bad-case"

def main : IO Unit := runPure handle
