import Gms.Driver.Proto
import Gms.Model.Auth
import Gms.Driver.AclParse
open Gms.Proto Gms.Priv Gms.Auth Gms.AclParse

/-! Line-protocol driver for C40 (see harness/cmd/c40/main.go). `H` is instantiated with `sha1`. -/

def hx (s : String) : String := hex (s.toList.map (fun c => UInt8.ofNat c.toNat))
def b01 (b : Bool) : String := if b then "1" else "0"
def hexPlain (bs : Bytes) : String := (hex bs).drop 1 |>.toString

def parseAcct : Sexp → Option Acct
  | .list [.atom "a", n, h, pl, au, lk] => do
    some { name := (← sx n), host := (← sx h), plugin := (← sx pl), auth := (← sx au).toList, locked := (← flag lk) }
  | _ => none

def outStr : Out → String
  | .accept u h => "accept:" ++ hx u ++ "@" ++ hx h
  | .deny => "deny"
  | .needMore => "needmore"
  | .crash => "crash"

def vnStr : Option Bool → String
  | none => "crash"
  | some b => b01 b

def handle (p : List Sexp) : String :=
  match p with
  | [.list [.atom "sha1", m]] =>
    match m.bytes? with
    | some msg => answer (hexPlain (sha1 msg))
    | none => answer "bad-case"
  | [.list [.atom "vn", r, s, st]] =>
    match r.bytes?, s.bytes?, sx st with
    | some resp, some salt, some stored =>
      let impl := vnStr (validateNative sha1 resp salt stored.toList)
      let spec := b01 (validateNativeSpec sha1 resp salt stored.toList)
      -- F-C40-a/b were repaired (`Gms.C40.native_impl_eq_spec`): there is no region any more
      if impl = spec then answer impl
      else answer impl spec "-"
    | _, _, _ => answer "bad-case"
  | [.list [.atom "login", en, .list as, u, h, s, r]] =>
    match flag en, as.mapM parseAcct, sx u, sx h, s.bytes?, r.bytes? with
    | some enabled, some accts, some user, some host, some salt, some resp =>
      let implO := authNative sha1 enabled accts user host salt resp
      let impl := outStr implO
      if !enabled then answer impl      -- without an accounts database every login is accepted: outside the property
      else
        match authNativeSpec sha1 accts user host salt resp with
        | none => answer impl "?"
        | some specO =>
          if implO = specO then answer impl
          else
            -- the scramble check is the Spec's (`Gms.C40.authNative_eq_spec_of_same_account`): the only listed
            -- region left is the choice of the account
            let region := if matchOrderDiffers accts user host then "match_order_by_insertion" else "-"
            answer impl (outStr specO) region
    | _, _, _, _, _, _ => answer "bad-case"
  | [.list [.atom "method", en, .list as, m, u, h]] =>
    match flag en, as.mapM parseAcct, sx m, sx u, sx h with
    | some enabled, some accts, some method, some user, some host => answer (b01 (handleUser enabled accts method user host))
    | _, _, _, _, _ => answer "bad-case"
  | [.list [.atom "fast", en, .list as, u, h, r]] =>
    match flag en, as.mapM parseAcct, sx u, sx h, r.bytes? with
    | some enabled, some accts, some user, some host, some resp => answer (outStr (sha2Fast enabled accts user host resp))
    | _, _, _, _, _ => answer "bad-case"
  | [.list [.atom "wire", .list as, u, h, pw]] =>
    match as.mapM parseAcct, sx u, sx h, pw.bytes? with
    | some accts, some user, some host, some pwb =>
      -- an honest client: empty response for an empty password, else the token for the server's salt (the
      -- verdict does not depend on the salt: `native_complete`, `native_sound`)
      let salt : Bytes := List.replicate 20 7
      let resp := if pwb.isEmpty then [] else clientToken sha1 salt (sha1 pwb)
      let o := authNative sha1 true accts user host salt resp
      let s := match o with
        | .accept un hn => "accept:" ++ un ++ "@" ++ hn
        | o => outStr o
      answer s
    | _, _, _, _ => answer "bad-case"
  | _ => answer "bad-case"

def main : IO Unit := runPure handle
