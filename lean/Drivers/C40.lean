import Gms.Driver.Proto
import Gms.Model.Auth
import Gms.Model.HostPattern
import Gms.Model.AuthHist
import Gms.Driver.AclParse
open Gms.Proto Gms.Priv Gms.Auth Gms.AclParse Gms.AuthHist

/-! Line-protocol driver for C40 (see harness/cmd/c40/main.go). `H` is instantiated with `sha1`. -/

def hx (s : String) : String := hex (s.toList.map (fun c => UInt8.ofNat c.toNat))
def b01 (b : Bool) : String := if b then "1" else "0"
def hexPlain (bs : Bytes) : String := (hex bs).drop 1 |>.toString

def parseAcct : Sexp → Option Acct
  | .list [.atom "a", n, h, pl, au, lk] => do
    some { name := (← sx n), host := (← sx h), plugin := (← sx pl), auth := (← sx au).toList, locked := (← flag lk) }
  | _ => none

def outStr : Out → String
  | .accept u h => "accept:" ++ hx u ++ "@" ++ hx h
  | .deny => "deny"
  | .needMore => "needmore"
  | .crash => "crash"

def vnStr : Option Bool → String
  | none => "crash"
  | some b => b01 b

/-! ### histories (`hist` cases) -/

def parseKey (n h : Sexp) : Option Key := do some ((← sx n), (← sx h))

def parseEv : Sexp → Option Ev
  | .list [.atom "cu", n, h, pl, au, lk] => do
    some (.op (.createUser (← parseKey n h) (← sx pl) (← sx au).toList (← flag lk)))
  | .list [.atom "cr", n] => do some (.op (.createRole (← sx n)))
  | .list [.atom "au", n, h, pl, au] => do some (.op (.alterUser (← parseKey n h) (← sx pl) (← sx au).toList))
  | .list [.atom "du", n, h] => do some (.op (.dropUser (← parseKey n h)))
  | .list [.atom "gg", n, h] => do some (.op (.grantGlobal (← parseKey n h)))
  | .list [.atom "gd", n, h] => do some (.op (.grantScoped (← parseKey n h)))
  | .list [.atom "fl"] => some (.op .flush)
  | .list [.atom "ul", n, h, b] => do some (.op (.dmlUpdate (← parseKey n h) (.lock (← flag b))))
  | .list [.atom "ua", n, h, au] => do some (.op (.dmlUpdate (← parseKey n h) (.auth (← sx au).toList)))
  | .list [.atom "up", n, h, pl] => do some (.op (.dmlUpdate (← parseKey n h) (.plugin (← sx pl))))
  | .list [.atom "dd", n, h] => do some (.op (.dmlDelete (← parseKey n h)))
  | .list [.atom "in", n, h, pl, au, lk] => do
    some (.op (.dmlInsert (← parseKey n h) (← sx pl) (← sx au).toList (← flag lk)))
  | .list [.atom "lg", u, h, pw] => do
    -- an honest client: empty response for an empty password, else the token for the salt
    let pwb ← pw.bytes?
    let salt : Bytes := List.replicate 20 7
    some (.login (← sx u) (← sx h) salt (if pwb.isEmpty then [] else clientToken sha1 salt (sha1 pwb)))
  | _ => none

def loginStr : LoginOut → String
  | .noMethod => "nomethod"
  | .out o => outStr o

def acctStr (a : Acct) : String :=
  hx a.name ++ "@" ++ hx a.host ++ ":" ++ hx a.plugin ++ ":" ++ hx (String.ofList a.auth) ++ ":" ++ b01 a.locked

def tableStr (es : List Entry) : String :=
  ",".intercalate (((acctsOf es).map acctStr).mergeSort (fun a b => decide (a ≤ b)))

structure HistAcc where
  esI : List Entry
  esS : List Entry
  ts : List (Key × String) := []
  outsI : List String := []
  outsS : List String := []
  others : List String := []       -- per login: sha2 fast path, HandleUser(caching_sha2), ValidateHash (Impl model)
  undetermined : Bool := false
  regions : List String := []      -- one per difference between Impl and Spec

def histStep (acc : HistAcc) : Ev → HistAcc
  | .op o =>
    { acc with esI := stepI acc.esI o, esS := stepS acc.esS o, ts := taintStep acc.esI acc.ts o }
  | .login u h salt resp =>
    let oI := loginStr (loginI sha1 acc.esI u h salt resp)
    let other :=
      if dupKey acc.esI u h then "crash,crash,crash"
      else outStr (sha2Fast true (acctsOf acc.esI) u h []) ++ "," ++
        b01 (handleUser true (acctsOf acc.esI) "caching_sha2_password" u h) ++ "," ++
        outStr (authNative sha1 true (acctsOf acc.esI) u h salt resp)
    let acc := { acc with others := other :: acc.others }
    match loginS sha1 acc.esS u h salt resp with
    | none => { acc with outsI := oI :: acc.outsI, outsS := "?" :: acc.outsS, undetermined := true }
    | some o =>
      let oS := loginStr o
      let region :=
        if oI = oS then []
        else
          let kI := (chooseEntry acc.esI u h).map (·.key)
          let kS := (chooseEntry acc.esS u h).map (·.key)
          let t := ((kI.bind (taintOf acc.ts)).or (kS.bind (taintOf acc.ts))).or (taintOf acc.ts (u, normHost h))
          match t with
          | some r => [r]
          | none => if matchOrderDiffers (acctsOf acc.esS) u h then ["match_order_by_insertion"] else ["-"]
      { acc with outsI := oI :: acc.outsI, outsS := oS :: acc.outsS, regions := acc.regions ++ region }

def histAnswer (es0 : List Entry) (evs : List Ev) : String :=
  let acc := evs.foldl histStep { esI := es0, esS := es0 }
  let keys := ((acc.esI ++ acc.esS).map (·.key)).eraseDups
  let tblRegions := keys.filterMap (fun k =>
    if (withKey acc.esI k).map (·.a) = (withKey acc.esS k).map (·.a) then none
    else some ((taintOf acc.ts k).getD "-"))
  let regions := acc.regions ++ tblRegions
  -- (the third part has no Spec of its own: the other entry points are compared with the Impl model only)
  let oth := "|" ++ ";".intercalate acc.others.reverse
  let impl := ";".intercalate acc.outsI.reverse ++ "|" ++ tableStr acc.esI ++ oth
  let spec := ";".intercalate acc.outsS.reverse ++ "|" ++ tableStr acc.esS ++ oth
  if acc.undetermined then answer impl "?"
  else if impl = spec then answer impl
  else
    let region := if regions.contains "-" then "-" else regions.headD "-"
    answer impl spec region

def handle (p : List Sexp) : String :=
  match p with
  | [.list [.atom "hp", h, pt]] =>
    match sx h, sx pt with
    | some host, some pat =>
      -- `Gms.Priv.matchesHostPattern` (what `getUserIdx` uses) = `Gms.HostPattern.matchesHostPattern`
      -- (`Gms.C40.matchesHostPattern_eq`); Spec: the language of the code's regular expression (`glob_iff_matches`)
      let impl := b01 (Gms.Priv.matchesHostPattern host pat)
      let spec := b01 (Gms.HostPattern.matchesHostPattern host pat)
      if impl = spec then answer impl else answer impl spec "-"
    | _, _ => answer "bad-case"
  | [.list [.atom "hist", .list as, .list evs]] =>
    match as.mapM parseAcct, evs.mapM parseEv with
    | some accts, some es => histAnswer (accts.map (fun a => { a := a, subPriv := false })) es
    | _, _ => answer "bad-case"
  | [.list [.atom "sha1", m]] =>
    match m.bytes? with
    | some msg => answer (hexPlain (sha1 msg))
    | none => answer "bad-case"
  | [.list [.atom "vn", r, s, st]] =>
    match r.bytes?, s.bytes?, sx st with
    | some resp, some salt, some stored =>
      let impl := vnStr (validateNative sha1 resp salt stored.toList)
      let spec := b01 (validateNativeSpec sha1 resp salt stored.toList)
      -- F-C40-a/b were repaired (`Gms.C40.native_impl_eq_spec`): there is no region any more
      if impl = spec then answer impl
      else answer impl spec "-"
    | _, _, _ => answer "bad-case"
  | [.list [.atom "login", en, .list as, u, h, s, r]] =>
    match flag en, as.mapM parseAcct, sx u, sx h, s.bytes?, r.bytes? with
    | some enabled, some accts, some user, some host, some salt, some resp =>
      let implO := authNative sha1 enabled accts user host salt resp
      let impl := outStr implO
      if !enabled then answer impl      -- without an accounts database every login is accepted: outside the property
      else
        match authNativeSpec sha1 accts user host salt resp with
        | none => answer impl "?"
        | some specO =>
          if implO = specO then answer impl
          else
            -- the scramble check is the Spec's (`Gms.C40.authNative_eq_spec_of_same_account`): the only listed
            -- region left is the choice of the account
            let region := if matchOrderDiffers accts user host then "match_order_by_insertion" else "-"
            answer impl (outStr specO) region
    | _, _, _, _, _, _ => answer "bad-case"
  | [.list [.atom "method", en, .list as, m, u, h]] =>
    match flag en, as.mapM parseAcct, sx m, sx u, sx h with
    | some enabled, some accts, some method, some user, some host => answer (b01 (handleUser enabled accts method user host))
    | _, _, _, _, _ => answer "bad-case"
  | [.list [.atom "fast", en, .list as, u, h, r]] =>
    match flag en, as.mapM parseAcct, sx u, sx h, r.bytes? with
    | some enabled, some accts, some user, some host, some resp => answer (outStr (sha2Fast enabled accts user host resp))
    | _, _, _, _, _ => answer "bad-case"
  | [.list [.atom "wire", .list as, u, h, pw]] =>
    match as.mapM parseAcct, sx u, sx h, pw.bytes? with
    | some accts, some user, some host, some pwb =>
      -- an honest client: empty response for an empty password, else the token for the server's salt (the
      -- verdict does not depend on the salt: `native_complete`, `native_sound`)
      let salt : Bytes := List.replicate 20 7
      let resp := if pwb.isEmpty then [] else clientToken sha1 salt (sha1 pwb)
      let o := authNative sha1 true accts user host salt resp
      let s := match o with
        | .accept un hn => "accept:" ++ un ++ "@" ++ hn
        | o => outStr o
      answer s
    | _, _, _, _ => answer "bad-case"
  | _ => answer "bad-case"

def main : IO Unit := runPure handle
