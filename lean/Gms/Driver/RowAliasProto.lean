/-
Line-protocol codec and history runner for the RowAlias model (C15 driver). Core-only.

payload ::= (odku (cfg n (nn c*) (ck [c bound])) (stmts stmt*))
stmt    ::= (ins row*) | (odku (asg*) row*)
asg     ::= (set c value) | (add c k) | (vals c)          value, row: as in MemTableProto

observation of one statement:  ok|fail "|" rows      (rendered rows, sorted, space separated)
The Impl observation comes from the memory-level model (`RowAlias.runStmt`: slices, in-place
`append`, copying `SetField.Eval`), the Spec observation from the value-level `specStmt`; they
agree by `Gms.C15.odku_refines_spec`, the driver evaluates both.
-/
import Gms.Driver.Proto
import Gms.Driver.MemTableProto
import Gms.Model.RowAlias
namespace Gms.RowAliasProto
open Gms.Proto Gms.MemTable Gms.MemTableProto Gms.RowAlias

def pCk : List Sexp → Option (Option (Nat × Int))
  | [] => some none
  | [c, b] => do pure (some ((← c.nat?), (← b.int?)))
  | _ => none

def pCfg : Sexp → Option Cfg
  | .list [.atom "cfg", n, .list (.atom "nn" :: nn), .list (.atom "ck" :: ck)] => do
    pure { n := (← n.nat?), nn := (← nn.mapM Sexp.nat?), ck := (← pCk ck) }
  | _ => none

def pStmt : Sexp → Option RowAlias.Stmt
  | .list (.atom "ins" :: rows) => do pure (.ins (← rows.mapM pRow))
  | .list (.atom "odku" :: .list asg :: rows) => do pure (.odku (← rows.mapM pRow) (← asg.mapM pAsg))
  | _ => none

def rObs (failed : Bool) (rows : List Row) : String := (if failed then "fail" else "ok") ++ "|" ++ rTable rows

def runHist (cfg : Cfg) : RowAlias.St → List RowAlias.Stmt → List String → List String → List String × List String
  | _, [], io, so => (io.reverse, so.reverse)
  | st, s :: rest, io, so =>
    let r := RowAlias.runStmt cfg st s
    let sp := RowAlias.specStmt cfg (visible st) s
    runHist cfg r.1 rest (rObs r.2 (visible r.1) :: io) (rObs sp.2 sp.1 :: so)

def wellSized (cfg : Cfg) (ss : List RowAlias.Stmt) : Bool := ss.all (fun s => s.rows.all (fun r => r.length == cfg.n))

def handle (p : List Sexp) : String :=
  match p with
  | [.list [.atom "odku", cfg, .list (.atom "stmts" :: stmts)]] =>
    match pCfg cfg, stmts.mapM pStmt with
    | some cfg, some stmts =>
      if !wellSized cfg stmts then answer "bad-case" else
      let (io, so) := runHist cfg ⟨[], []⟩ stmts [] []
      let i := ";".intercalate io
      let s := ";".intercalate so
      if i == s then answer i else answer i s "-"
    | _, _ => answer "bad-case"
  | _ => answer "bad-case"

def isOdku : List Sexp → Bool
  | [.list (.atom "odku" :: _)] => true
  | _ => false

end Gms.RowAliasProto
