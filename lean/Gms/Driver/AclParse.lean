import Gms.Driver.Proto
import Gms.Model.Priv
/-! Parsing of the access-control payloads shared by the C39 and C41 drivers (core-only). -/
namespace Gms.AclParse
open Gms.Proto Gms.Priv

def bytesToString (bs : List UInt8) : String := String.ofList (bs.map (fun b => Char.ofNat b.toNat))

def sx (s : Sexp) : Option String := s.bytes?.map bytesToString

def flag (s : Sexp) : Option Bool :=
  match s with
  | .atom "1" => some true
  | .atom "0" => some false
  | _ => none

def pair (s : Sexp) : Option (String × String) :=
  match s with
  | .list [a, b] => do some ((← sx a), (← sx b))
  | _ => none

def pairs (s : Sexp) : Option (List (String × String)) :=
  match s with
  | .list xs => xs.mapM pair
  | _ => none

def ppriv (s : Sexp) : Option PPriv :=
  match s with
  | .list [t, d, c] => do some { type := (← t.nat?), dyn := (← sx d), cols := (← flag c) }
  | _ => none

def ppriv_list (s : Sexp) : Option (List PPriv) :=
  match s with
  | .list xs => xs.mapM ppriv
  | _ => none

def parseStmt (s : Sexp) : Option Stmt :=
  match s with
  | .list [.atom "none"] => some .none
  | .list [.atom "cu", f, us] => do some (.createUser (← flag f) (← pairs us))
  | .list [.atom "cr", f, us] => do some (.createRole (← flag f) (← pairs us))
  | .list [.atom "du", f, us] => do some (.dropUser (← flag f) (← pairs us))
  | .list [.atom "dr", f, us] => do some (.dropRole (← flag f) (← pairs us))
  | .list [.atom "grant", d, t, ot, ps, us, wgo, as_] => do
    some (.grant (← sx d) (← sx t) (← ot.nat?) (← ppriv_list ps) (← pairs us) (← flag wgo) (← flag as_))
  | .list [.atom "revoke", d, t, ot, ps, us, ign] => do
    some (.revoke (← sx d) (← sx t) (← ot.nat?) (← ppriv_list ps) (← pairs us) (← flag ign))
  | .list [.atom "gr", rs, us, adm] => do some (.grantRole (← pairs rs) (← pairs us) (← flag adm))
  | .list [.atom "rr", rs, us, ie, ign] => do some (.revokeRole (← pairs rs) (← pairs us) (← flag ie) (← flag ign))
  | _ => none

def parseCall (s : Sexp) : Option Call :=
  match s with
  | .list [.atom "ha", a, t, .list ns] => do some (.ha (← sx a) (← sx t) (← ns.mapM sx))
  | .list [.atom "cd", d] => do some (.cd (← sx d))
  | .list [.atom "ct", d, t] => do some (.ct (← sx d) (← sx t))
  | _ => none

def parseStep (s : Sexp) : Option Step :=
  match s with
  | .list [.atom "s", u, h, cur, .list calls, stmt] => do
    some { who := ((← sx u), (← sx h)), cur := (← sx cur), calls := (← calls.mapM parseCall), stmt := (← parseStmt stmt) }
  | _ => none


end Gms.AclParse
