/-
Line protocol shared by all model drivers (core-only, no Mathlib).

One case per input line:   <id> TAB <s-expression payload>
One answer per output line: <id> TAB <implModelObs> TAB <specObs> TAB <region>

* implModelObs – what the Impl model predicts the real code prints for this case
* specObs      – what the property's Spec demands ("=" means: same as implModelObs)
* region       – "-" when Impl model = Spec on this case, otherwise the name of the Lean
                 `Region` predicate (a known-defect class) the case falls into

Strings and byte strings are hex encoded with an `x` prefix (`x` alone = empty).
The parser/printer here are not part of any theorem; the functions they call are.
-/
namespace Gms.Proto

inductive Sexp where
  | atom (s : String)
  | list (xs : List Sexp)
  deriving Repr, Inhabited, BEq

partial def tokenize (s : String) : List String :=
  let rec go (cs : List Char) (cur : List Char) (acc : List String) : List String :=
    let flush (cur : List Char) (acc : List String) :=
      if cur.isEmpty then acc else (String.ofList cur.reverse) :: acc
    match cs with
    | [] => (flush cur acc).reverse
    | c :: rest =>
      if c == '(' || c == ')' then go rest [] ((String.singleton c) :: flush cur acc)
      else if c == ' ' || c == '\t' || c == '\n' || c == '\r' then go rest [] (flush cur acc)
      else go rest (c :: cur) acc
  go s.toList [] []

partial def parseList : List String → List Sexp → (List Sexp × List String)
  | [], acc => (acc.reverse, [])
  | ")" :: rest, acc => (acc.reverse, rest)
  | "(" :: rest, acc =>
    let (inner, rest') := parseList rest []
    parseList rest' (Sexp.list inner :: acc)
  | t :: rest, acc => parseList rest (Sexp.atom t :: acc)

/-- Parse a whole payload as a list of s-expressions. -/
def parse (s : String) : List Sexp := (parseList (tokenize s) []).1

def hexDigit (c : Char) : Option Nat :=
  if '0' ≤ c ∧ c ≤ '9' then some (c.toNat - '0'.toNat)
  else if 'a' ≤ c ∧ c ≤ 'f' then some (c.toNat - 'a'.toNat + 10)
  else if 'A' ≤ c ∧ c ≤ 'F' then some (c.toNat - 'A'.toNat + 10)
  else none

partial def unhexChars : List Char → List UInt8 → Option (List UInt8)
  | [], acc => some acc.reverse
  | a :: b :: rest, acc =>
    match hexDigit a, hexDigit b with
    | some x, some y => unhexChars rest (UInt8.ofNat (x * 16 + y) :: acc)
    | _, _ => none
  | _, _ => none

/-- `x6162` ↦ bytes `[0x61, 0x62]`. -/
def unhex (s : String) : Option (List UInt8) :=
  match s.toList with
  | 'x' :: rest => unhexChars rest []
  | _ => none

def hexNibble (n : Nat) : Char :=
  if n < 10 then Char.ofNat ('0'.toNat + n) else Char.ofNat ('a'.toNat + n - 10)

def hex (bs : List UInt8) : String :=
  "x" ++ String.ofList (bs.flatMap fun b => [hexNibble (b.toNat / 16), hexNibble (b.toNat % 16)])

def Sexp.int? : Sexp → Option Int
  | .atom s => s.toInt?
  | _ => none

def Sexp.nat? : Sexp → Option Nat
  | .atom s => s.toNat?
  | _ => none

def Sexp.bytes? : Sexp → Option (List UInt8)
  | .atom s => unhex s
  | _ => none

def Sexp.items : Sexp → List Sexp
  | .list xs => xs
  | a => [a]

def Sexp.str? : Sexp → Option String
  | .atom s => some s
  | _ => none

/-- Render a result line's three model fields. -/
def answer (implObs : String) (specObs : String := "=") (region : String := "-") : String :=
  implObs ++ "\t" ++ specObs ++ "\t" ++ region

def splitIdPayload (line : String) : String × String :=
  let line := (line.dropEndWhile (fun c => c == '\n' || c == '\r')).toString
  match line.splitOn "\t" with
  | [] => ("", "")
  | [a] => (a, "")
  | a :: rest => (a, "\t".intercalate rest)

/-- Stateless driver loop. -/
partial def runPure (handle : List Sexp → String) : IO Unit := do
  let stdin ← IO.getStdin
  let stdout ← IO.getStdout
  let rec loop : IO Unit := do
    let line ← stdin.getLine
    if line.isEmpty then return ()
    let (id, payload) := splitIdPayload line
    if id.isEmpty then loop else
    stdout.putStrLn (id ++ "\t" ++ handle (parse payload))
    loop
  loop
  stdout.flush

/-- Stateful driver loop (one state threaded through all lines). -/
partial def runState {σ : Type} (init : σ) (step : σ → List Sexp → σ × String) : IO Unit := do
  let stdin ← IO.getStdin
  let stdout ← IO.getStdout
  let rec loop (s : σ) : IO Unit := do
    let line ← stdin.getLine
    if line.isEmpty then return ()
    let (id, payload) := splitIdPayload line
    if id.isEmpty then loop s else
    let (s', out) := step s (parse payload)
    stdout.putStrLn (id ++ "\t" ++ out)
    loop s'
  loop init
  stdout.flush

end Gms.Proto
