/-
Shared body of the C13 / C14 drivers: run a statement history through the Impl model and the
Spec of Gms/Model/MemTable.lean. Core-only.
-/
import Gms.Driver.Proto
import Gms.Driver.MemTableProto
import Gms.Model.MemTable
namespace Gms.MemTableRun
open Gms.Proto Gms.MemTable Gms.MemTableProto

/-- Region of one statement on pre-state `t` ("-" when Impl model and Spec agree, "?" when they
differ outside every named region). The former region `pk_print_collision` was repaired
(`Gms.C14.key_injective`, `Gms.C13.keyInj_typed`) and is not named any more: a statement that still
disagrees because of colliding printed keys gets "?" and surfaces as a violation. -/
def stmtRegion (counts : Bool) (sch : Schema) (t : List Row) (s : Stmt) (inexact differ : Bool) : String :=
  if !differ then "-"
  else if inexact then "unique_check_ignores_pending_edits"
  else if counts && regionReplaceMulti sch t s then "replace_multi_delete_count"
  else if regionPrefixMultibyte sch t s then "prefix_bytes_vs_chars"
  else if regionCiKey sch t s then "ci_collation_key"
  else "?"

def rOut (counts : Bool) (o : Outcome) : String :=
  if counts then rOutcome o
  else match o with
    | .ok _ _ => "ok"
    | .dup => "err:1062"
    | .stuck => "stuck"

/-- Run a history: every statement is judged from the Impl model's state before it (the Spec is
re-synchronised after each statement, so one defect does not hide the next). -/
def runHistory (counts : Bool) (sch : Schema) : List Row → List Stmt → List String → List String → List String →
    List String × List String × List String
  | _, [], io, so, rg => (io.reverse, so.reverse, rg.reverse)
  | t, s :: rest, io, so, rg =>
    let (o, e) := implStmtE sch t s
    let (o', t') := specStmt sch t s
    let i := rOut counts o ++ "|" ++ rTable e.rows
    let sp := rOut counts o' ++ "|" ++ rTable t'
    runHistory counts sch e.rows rest (i :: io) (sp :: so) (stmtRegion counts sch t s e.inexact (i != sp) :: rg)

/-- an unknown divergence ("?") beats every named region: it must surface as a violation. -/
def pickRegion (rs : List String) : String :=
  if rs.contains "?" then "-"
  else match rs.filter (· != "-") with
    | [] => "-"
    | r :: _ => r

def handle (counts : Bool) (p : List Sexp) : String :=
  match p with
  | [sch, .list (.atom "stmts" :: stmts)] =>
    match pSchema sch, stmts.mapM pStmt with
    | some sch, some stmts =>
      let (io, so, rg) := runHistory counts sch [] stmts [] [] []
      let i := ";".intercalate io
      let s := ";".intercalate so
      if i == s then answer i else answer i s (pickRegion rg)
    | _, _ => answer "bad-case"
  | _ => answer "bad-case"

end Gms.MemTableRun
