/-
S-expression reader/printer for the shared SQL reference semantics (core-only; used by the
drivers of C02/C05/C06 and meant to be reused). Mirrors harness/sqlgen/sexp.go.

  value ::= null | <decimal integer> | x<hex bytes>            (a string always starts with `x`)
  row   ::= ( value* )
  table ::= (tab (ty*) row*)          ty ::= i | s
  db    ::= (db table*)
  expr  ::= (lit value) | (col depth idx) | (neg e) | (arith add|sub|mul|idiv|mod a b)
          | (cmp eq|ne|lt|le|gt|ge|nseq a b) | (and a b) | (or a b) | (xor a b) | (not e)
          | (isnull e) | (istrue e) | (isfalse e) | (in e (e*)) | (between e lo hi)
          | (ite c a b) | (coalesce a b) | (exists q) | (insub e q) | (scalar q)
  query ::= (table n) | (filter p q) | (project (e*) q) | (join inner|left|right on l r)
          | (group (key*) (fn*) (arg*) q)      fn ::= countstar|count|sum|min|max|countdistinct
          | (distinct q) | (setop union|intersect|except all|distinct l r)
          | (orderby (key*) (a|d*) q) | (limit n off q)

Result observation: `rows <row> <row> …` with cells `null`, decimal integers, `x<hex>`; rows are
sorted by their rendered text unless the case is ordered.
-/
import Gms.Driver.Proto
import Gms.Model.Rel

namespace Gms.SqlProto
open Gms.Proto Gms.Sql Gms.Rel

def value? : Sexp → Option Value
  | .atom "null" => some .null
  | .atom s =>
    if s.startsWith "x" then (unhex s).map Value.str
    else s.toInt?.map Value.int
  | _ => none

def row? : Sexp → Option Row
  | .list xs => xs.mapM value?
  | _ => none

def ty? : Sexp → Option Ty
  | .atom "i" => some .int
  | .atom "s" => some .str
  | _ => none

def table? : Sexp → Option (List Ty × Table)
  | .list (.atom "tab" :: .list tys :: rows) => do
    let tys ← tys.mapM ty?
    let rows ← rows.mapM row?
    some (tys, { width := tys.length, rows := rows })
  | _ => none

def db? : Sexp → Option (List (List Ty) × Db)
  | .list (.atom "db" :: tabs) => do
    let ts ← tabs.mapM table?
    some (ts.map (·.1), ts.map (·.2))
  | _ => none

def arithOp? : String → Option ArithOp
  | "add" => some .add | "sub" => some .sub | "mul" => some .mul
  | "idiv" => some .idiv | "mod" => some .mod | _ => none

def cmpOp? : String → Option CmpOp
  | "eq" => some .eq | "ne" => some .ne | "lt" => some .lt | "le" => some .le
  | "gt" => some .gt | "ge" => some .ge | "nseq" => some .nseq | _ => none

def aggFn? : Sexp → Option AggFn
  | .atom "countstar" => some .countStar | .atom "count" => some .count
  | .atom "sum" => some .sum | .atom "min" => some .min | .atom "max" => some .max
  | .atom "countdistinct" => some .countDistinct | _ => none

def joinKind? : String → Option JoinKind
  | "inner" => some .inner | "left" => some .left | "right" => some .right | _ => none

def setOp? : String → Option SetOp
  | "union" => some .union | "intersect" => some .intersect | "except" => some .except | _ => none

mutual
partial def expr? : Sexp → Option Expr
  | .list [.atom "lit", v] => (value? v).map Expr.lit
  | .list [.atom "col", d, i] => do some (.col (← d.nat?) (← i.nat?))
  | .list [.atom "neg", e] => do some (.neg (← expr? e))
  | .list [.atom "arith", .atom op, a, b] => do some (.arith (← arithOp? op) (← expr? a) (← expr? b))
  | .list [.atom "cmp", .atom op, a, b] => do some (.cmp (← cmpOp? op) (← expr? a) (← expr? b))
  | .list [.atom "and", a, b] => do some (.and (← expr? a) (← expr? b))
  | .list [.atom "or", a, b] => do some (.or (← expr? a) (← expr? b))
  | .list [.atom "xor", a, b] => do some (.xor (← expr? a) (← expr? b))
  | .list [.atom "not", e] => do some (.not (← expr? e))
  | .list [.atom "isnull", e] => do some (.isNull (← expr? e))
  | .list [.atom "istrue", e] => do some (.isTruth true (← expr? e))
  | .list [.atom "isfalse", e] => do some (.isTruth false (← expr? e))
  | .list [.atom "in", e, .list es] => do some (.inList (← expr? e) (← es.mapM expr?))
  | .list [.atom "between", e, lo, hi] => do some (.between (← expr? e) (← expr? lo) (← expr? hi))
  | .list [.atom "ite", c, a, b] => do some (.ite (← expr? c) (← expr? a) (← expr? b))
  | .list [.atom "coalesce", a, b] => do some (.coalesce (← expr? a) (← expr? b))
  | .list [.atom "exists", q] => do some (.exists (← query? q))
  | .list [.atom "insub", e, q] => do some (.inSub (← expr? e) (← query? q))
  | .list [.atom "scalar", q] => do some (.scalar (← query? q))
  | _ => none

partial def query? : Sexp → Option Query
  | .list [.atom "table", n] => do some (.table (← n.nat?))
  | .list [.atom "filter", p, q] => do some (.filter (← expr? p) (← query? q))
  | .list [.atom "project", .list es, q] => do some (.project (← es.mapM expr?) (← query? q))
  | .list [.atom "join", .atom k, on, l, r] => do
    some (.join (← joinKind? k) (← expr? on) (← query? l) (← query? r))
  | .list [.atom "group", .list ks, .list fns, .list args, q] => do
    some (.group (← ks.mapM expr?) (← fns.mapM aggFn?) (← args.mapM expr?) (← query? q))
  | .list [.atom "distinct", q] => do some (.distinct (← query? q))
  | .list [.atom "setop", .atom op, .atom all, l, r] => do
    some (.setop (← setOp? op) (all == "all") (← query? l) (← query? r))
  | .list [.atom "orderby", .list ks, .list ds, q] => do
    some (.orderBy (← ks.mapM expr?) (ds.map (fun d => d == Sexp.atom "d")) (← query? q))
  | .list [.atom "limit", n, off, q] => do some (.limit (← n.nat?) (← off.nat?) (← query? q))
  | _ => none
end

/-! ### Printing -/

def strBytes (s : String) : List UInt8 := s.toUTF8.toList

def showValue : Value → String
  | .null => "null"
  | .int i => toString i
  | .str b => hex b

def showRow (r : Row) : String := "(" ++ " ".intercalate (r.map showValue) ++ ")"

def sortStrings (xs : List String) : List String :=
  (xs.toArray.qsort (fun a b => a < b)).toList

/-- Canonical observation of a result. -/
def showRows (ordered : Bool) (rows : List Row) : String :=
  let rs := rows.map showRow
  let rs := if ordered then rs else sortStrings rs
  "rows " ++ " ".intercalate rs

/-- Find `(key …)` among the items of a payload. -/
def field (items : List Sexp) (key : String) : Option Sexp :=
  items.find? (fun
    | .list (.atom k :: _) => k == key
    | _ => false)

def fieldArgs (items : List Sexp) (key : String) : List Sexp :=
  match field items key with
  | some (.list (_ :: args)) => args
  | _ => []

end Gms.SqlProto
