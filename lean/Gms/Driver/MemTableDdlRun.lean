/-
C14 driver body: statement histories that interleave DML with schema changes
(Gms/Model/MemTableDdl.lean). A history without a schema change is handed to the shared
C13/C14 body (Gms/Driver/MemTableRun.lean) unchanged. Core-only.

item ::= stmt (see MemTableProto) | (addcol p id) | (dropcol c) | (rencol c id) | (rentab)
-/
import Gms.Driver.Proto
import Gms.Driver.MemTableProto
import Gms.Driver.MemTableRun
import Gms.Model.MemTableDdl
namespace Gms.MemTableDdlRun
open Gms.Proto Gms.MemTable Gms.MemTableProto Gms.MemTableRun

inductive Item where
  | dml (s : Stmt)
  | ddl (d : Ddl)

def pItem : Sexp → Option Item
  | .list [.atom "addcol", p, id] => do pure (.ddl (.addCol (← p.nat?) (← id.nat?) {}))
  | .list [.atom "dropcol", c] => do pure (.ddl (.dropCol (← c.nat?)))
  | .list [.atom "rencol", c, id] => do pure (.ddl (.renCol (← c.nat?) (← id.nat?)))
  | .list [.atom "rentab"] => some (.ddl .renTab)
  | s => (pStmt s).map .dml

def Item.isDdl : Item → Bool
  | .ddl _ => true
  | .dml _ => false

/-- Run a history on the named table definition: a DML statement is executed by an editor created
from the definition as it is now (`NSchema.resolve`, i.e. `indexColsForTableEditor`), and judged as
in `MemTableRun.runHistory`; a schema change transforms the definition and every stored row. -/
def runHistory (ns : NSchema) : List Row → List Item → List String → List String → List String →
    List String × List String × List String
  | _, [], io, so, rg => (io.reverse, so.reverse, rg.reverse)
  | t, .dml s :: rest, io, so, rg =>
    let sch := ns.resolve
    let (o, e) := implStmtE sch t s
    let (o', t') := specStmt sch t s
    let i := rOut false o ++ "|" ++ rTable e.rows
    let sp := rOut false o' ++ "|" ++ rTable t'
    runHistory ns e.rows rest (i :: io) (sp :: so) (stmtRegion false sch t s e.inexact (i != sp) :: rg)
  | t, .ddl d :: rest, io, so, rg =>
    if ddlOk ns d then
      let ns' := ddlSchema ns d
      let t' := t.map (ddlRow d)
      let sp := "ok|" ++ rTable t'
      if ddlRewrites d && implDup ns'.resolve t' then
        -- the rewrite trips over two stored rows that the Impl's comparison takes for duplicates:
        -- ERROR 1062, table and definition unchanged (the Spec accepts the statement)
        let i := "err:1062|" ++ rTable t
        let sch := ns.resolve
        let region :=
          if regionPrefixMultibyte sch t (.delete [] [] none) then "prefix_bytes_vs_chars"
          else if regionCiKey sch t (.delete [] [] none) then "ci_collation_key"
          else "?"
        runHistory ns t rest (i :: io) (sp :: so) (region :: rg)
      else
        runHistory ns' t' rest (sp :: io) (sp :: so) ("-" :: rg)
    else
      runHistory ns t rest ("bad-ddl" :: io) ("bad-ddl" :: so) ("-" :: rg)

def handle (p : List Sexp) : String :=
  match p with
  | [sch, .list (.atom "stmts" :: items)] =>
    match pSchema sch, items.mapM pItem with
    | some sch, some items =>
      if !items.any Item.isDdl then Gms.MemTableRun.handle false p
      else
        let (io, so, rg) := runHistory (NSchema.ofSchema sch) [] items [] [] []
        let i := ";".intercalate io
        let s := ";".intercalate so
        if i == s then answer i else answer i s (pickRegion rg)
    | _, _ => answer "bad-case"
  | _ => answer "bad-case"

end Gms.MemTableDdlRun
