/-
Line-protocol codec for the MemTable model (used by the C13 and C14 drivers). Core-only.

payload ::= (sch (cols col*) (pk n*) (uq uniq*)) (stmts stmt*)
col     ::= (i|s nullable:0|1 b|c)
uniq    ::= ((col*) (prefixlen*))
value   ::= n | i<int> | x<hex>
row     ::= (value*)
stmt    ::= (ins 0|1 (row*)) | (rep (row*)) | (odku (row*) (asg*))
          | (upd (asg*) (cond*) (ord*) lim) | (del (cond*) (ord*) lim)        lim = -1: none
asg     ::= (set c value) | (add c int) | (vals c)
cond    ::= (eq|ne|lt|le|gt|ge c value) | (isnull c) | (notnull c)
ord     ::= (c desc:0|1)
-/
import Gms.Driver.Proto
import Gms.Model.MemTable
namespace Gms.MemTableProto
open Gms.Proto Gms.MemTable

def pVal : Sexp → Option Val
  | .atom s =>
    match s.toList with
    | ['n'] => some .null
    | 'i' :: rest => (String.ofList rest).toInt?.map Val.int
    | 'x' :: _ => (unhex s).map (fun bs => Val.str (bs.map UInt8.toNat))
    | _ => none
  | _ => none

def pRow : Sexp → Option Row
  | .list xs => xs.mapM pVal
  | _ => none

def pRows : Sexp → Option (List Row)
  | .list xs => xs.mapM pRow
  | _ => none

def pNats : Sexp → Option (List Nat)
  | .list xs => xs.mapM Sexp.nat?
  | _ => none

def pCol : Sexp → Option Col
  | .list [.atom k, .atom n, .atom c] =>
    some { str := k == "s", nullable := n == "1", ci := c == "c" }
  | _ => none

def pUniq : Sexp → Option (List Nat × List Nat)
  | .list [cs, ps] => do
    let cs ← pNats cs
    let ps ← pNats ps
    pure (cs, ps)
  | _ => none

def pSchema : Sexp → Option Schema
  | .list [.atom "sch", .list (.atom "cols" :: cols), .list (.atom "pk" :: pk), .list (.atom "uq" :: uq)] => do
    let cols ← cols.mapM pCol
    let pk ← pk.mapM Sexp.nat?
    let uq ← uq.mapM pUniq
    pure { cols := cols, pk := pk, uniques := uq }
  | _ => none

def pAsg : Sexp → Option Asg
  | .list [.atom "set", c, v] => do pure (.set (← c.nat?) (← pVal v))
  | .list [.atom "add", c, k] => do pure (.add (← c.nat?) (← k.int?))
  | .list [.atom "vals", c] => do pure (.vals (← c.nat?))
  | _ => none

def pCmp : String → Option Cmp
  | "eq" => some .eq | "ne" => some .ne | "lt" => some .lt
  | "le" => some .le | "gt" => some .gt | "ge" => some .ge
  | _ => none

def pCond : Sexp → Option Cond
  | .list [.atom "isnull", c] => do pure (.isNull (← c.nat?))
  | .list [.atom "notnull", c] => do pure (.notNull (← c.nat?))
  | .list [.atom op, c, v] => do pure (.cmp (← pCmp op) (← c.nat?) (← pVal v))
  | _ => none

def pOrd : Sexp → Option (Nat × Bool)
  | .list [c, .atom d] => do pure ((← c.nat?), d == "1")
  | _ => none

def pList {α : Type} (f : Sexp → Option α) : Sexp → Option (List α)
  | .list xs => xs.mapM f
  | _ => none

def pLim (s : Sexp) : Option (Option Nat) :=
  match s.int? with
  | some i => if i < 0 then some none else some (some i.toNat)
  | none => none

def pStmt : Sexp → Option Stmt
  | .list [.atom "ins", .atom ig, rows] => do pure (.insert (ig == "1") (← pRows rows))
  | .list [.atom "rep", rows] => do pure (.replace (← pRows rows))
  | .list [.atom "odku", rows, asg] => do pure (.odku (← pRows rows) (← pList pAsg asg))
  | .list [.atom "upd", asg, wh, ord, lim] => do
    pure (.update (← pList pAsg asg) (← pList pCond wh) (← pList pOrd ord) (← pLim lim))
  | .list [.atom "del", wh, ord, lim] => do
    pure (.delete (← pList pCond wh) (← pList pOrd ord) (← pLim lim))
  | _ => none

/-! rendering -/

def rVal : Val → String
  | .null => "n"
  | .int i => "i" ++ toString i
  | .str b => hex (b.map UInt8.ofNat)

def rRow (r : Row) : String := "(" ++ " ".intercalate (r.map rVal) ++ ")"

/-- canonical table dump: rendered rows sorted as strings. -/
def rTable (t : List Row) : String :=
  " ".intercalate ((t.map rRow).toArray.qsort (· < ·)).toList

def rOutcome : Outcome → String
  | .ok a m => "ok:" ++ toString a ++ ":" ++ toString m
  | .dup => "err:1062"
  | .stuck => "stuck"

def rStep (o : Outcome) (t : List Row) : String := rOutcome o ++ "|" ++ rTable t

end Gms.MemTableProto
