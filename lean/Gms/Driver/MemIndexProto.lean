/-
Line-protocol codec and history runner for the MemIndex model (C15 and C16 drivers). Core-only.

payload ::= (env (cols n) (pk c*) (idx ((c*) uniq:0|1 [(prefixlen*)])*) (np n) (pm ((value*) p)*)) (stmts stmt*)
stmt    ::= (eof|err|ign op*)
op      ::= (i row) | (d row) | (u row row) | (x)
value   ::= n | i<int> | x<hex>          row ::= (value*)

observation of one statement:  ok|fail "|" rows "|" index ("/" index)*
  rows  = rendered rows, sorted, space separated
  index = storage rows rendered `(vals)>(row)` or `(vals)>!` (dangling location), sorted
-/
import Gms.Driver.Proto
import Gms.Driver.MemTableProto
import Gms.Model.MemIndex
namespace Gms.MemIndexProto
open Gms.Proto Gms.MemTable Gms.MemTableProto Gms.MemIndex

def pIdx : Sexp → Option IdxDef
  | .list [cs, .atom u] => do pure { cols := (← pNats cs), unique := u == "1" }
  | .list [cs, .atom u, ps] => do pure { cols := (← pNats cs), unique := u == "1", pfx := (← pNats ps) }
  | _ => none

def pPm : Sexp → Option (List Val × Nat)
  | .list [k, p] => do pure ((← pRow k), (← p.nat?))
  | _ => none

def pEnv : Sexp → Option Env
  | .list [.atom "env", .list [.atom "cols", n], .list (.atom "pk" :: pk), .list (.atom "idx" :: idx),
      .list [.atom "np", np], .list (.atom "pm" :: pm)] => do
    let n ← n.nat?
    let pk ← pk.mapM Sexp.nat?
    let idxs ← idx.mapM pIdx
    let np ← np.nat?
    let pm ← pm.mapM pPm
    let cols : List Col := (List.range n).map (fun c => { nullable := !pk.contains c })
    let uniques := (idxs.filter (·.unique)).map (fun d => (d.cols, ([] : List Nat)))
    pure { sch := { cols := cols, pk := pk, uniques := uniques }, idxs := idxs, nparts := np, pmap := pm }
  | _ => none

def pOp : Sexp → Option Op
  | .list [.atom "i", r] => do pure (.ins (← pRow r))
  | .list [.atom "d", r] => do pure (.del (← pRow r))
  | .list [.atom "u", o, n] => do pure (.upd (← pRow o) (← pRow n))
  | .list [.atom "x"] => some .idx
  | _ => none

def pFin : String → Option Fin
  | "eof" => some .eof
  | "err" => some .err
  | "ign" => some .errIgn
  | _ => none

def pStmt : Sexp → Option MemIndex.Stmt
  | .list (.atom f :: ops) => do pure { ops := (← ops.mapM pOp), fin := (← pFin f) }
  | _ => none

def sortStrs (l : List String) : List String := (l.toArray.qsort (· < ·)).toList

def rVals (vs : List Val) : String := "(" ++ " ".intercalate (vs.map rVal) ++ ")"

def rEntry (e : List Val × Option Row) : String :=
  rVals e.1 ++ ">" ++ (match e.2 with | some r => rRow r | none => "!")

def rIndex (es : List (List Val × Option Row)) : String := " ".intercalate (sortStrs (es.map rEntry))

def rView (rows : List Row) (iv : List (List (List Val × Option Row))) : String :=
  rTable rows ++ "|" ++ "/".intercalate (iv.map rIndex)

def rObs (failed : Bool) (rows : List Row) (iv : List (List (List Val × Option Row))) : String :=
  (if failed then "fail" else "ok") ++ "|" ++ rView rows iv

/-- Run a history: Impl-model observation, Spec observation and region per statement. The Spec is
re-synchronised from the Impl model's rows before each statement. -/
def runHist (env : Env) : St → List MemIndex.Stmt → List String → List String → List String →
    List String × List String × List String
  | _, [], io, so, rg => (io.reverse, so.reverse, rg.reverse)
  | st, s :: rest, io, so, rg =>
    -- Region `index_rows_shared_with_snapshot`: what the shared index rows hold after the failed
    -- statement depends on the iteration order of Go maps (which pending delete renumbers first);
    -- the observation is opaque, the history ends here (the harness reports the finding through
    -- its before/after oracle).
    if regionMidApply env st s then ((("fail|*") :: io).reverse, (("fail|*") :: so).reverse, ("-" :: rg).reverse)
    else
    let (st', failed) := runStmt env st s
    let i := rObs failed (rowsOf st') (indexView st')
    -- Spec: a failed statement leaves rows and index contents as they were; a successful one
    -- applies every call, and every index holds exactly one storage row per stored row
    let sp :=
      if failed then rObs true (rowsOf st) (indexView st)
      else
        let t' := specStmt env (rowsOf st) s.ops false
        rObs false t' (specIndexView env t')
    let r := if i == sp then "-" else "?"
    runHist env st' rest (i :: io) (sp :: so) (r :: rg)

def pickRegion (rs : List String) : String :=
  if rs.contains "?" then "-"
  else match rs.filter (· != "-") with
    | [] => "-"
    | r :: _ => r

def handle (p : List Sexp) : String :=
  match p with
  | [env, .list (.atom "stmts" :: stmts)] =>
    match pEnv env, stmts.mapM pStmt with
    | some env, some stmts =>
      let (io, so, rg) := runHist env (initSt env) stmts [] [] []
      let i := ";".intercalate io
      let s := ";".intercalate so
      if i == s then answer i else answer i s (pickRegion rg)
    | _, _ => answer "bad-case"
  -- SQL-level cases have no Impl model: they are judged by the harness's model-free oracle only
  | [.list (.atom "sql" :: _)] => answer "sql"
  | _ => answer "bad-case"

/-! ### C16: histories of statements and DDL steps

payload ::= (env …) (steps step*)      step ::= (s stmt) | (trunc) | (mkidx (c*) uniq [(prefixlen*)]) | (rmidx j) -/

def pStep : Sexp → Option Step
  | .list [.atom "s", st] => do pure (.stmt (← pStmt st))
  | .list [.atom "trunc"] => some .trunc
  | .list [.atom "mkidx", cs, .atom u] => do pure (.mkidx { cols := (← pNats cs), unique := u == "1" })
  | .list [.atom "mkidx", cs, .atom u, ps] => do
    pure (.mkidx { cols := (← pNats cs), unique := u == "1", pfx := (← pNats ps) })
  | .list [.atom "rmidx", j] => do pure (.rmidx (← j.nat?))
  | _ => none

def specRows (env : Env) (t : List Row) : Step → List Row
  | .stmt s => specStmt env t s.ops false
  | .trunc => []
  | _ => t

def runSteps : Env → St → List Step → List String → List String → List String →
    List String × List String × List String
  | _, _, [], io, so, rg => (io.reverse, so.reverse, rg.reverse)
  | env, st, s :: rest, io, so, rg =>
    let inRegion := match s with
      | .stmt x => regionMidApply env st x
      | _ => false
    if inRegion then ((("fail|*") :: io).reverse, (("fail|*") :: so).reverse, ("-" :: rg).reverse)
    else
    let (env', st', failed) := runStep env st s
    let i := rObs failed (rowsOf st') (indexView st')
    -- Spec (the C16 invariant): after every step each index holds exactly one storage row per
    -- stored row, pointing at it; a failed step changes nothing
    let sp :=
      if failed then rObs true (rowsOf st) (specIndexView env (rowsOf st))
      else
        let t' := specRows env (rowsOf st) s
        rObs false t' (specIndexView env' t')
    let r := if i == sp then "-" else "?"
    runSteps env' st' rest (i :: io) (sp :: so) (r :: rg)

def handle16 (p : List Sexp) : String :=
  match p with
  | [env, .list (.atom "steps" :: steps)] =>
    match pEnv env, steps.mapM pStep with
    | some env, some steps =>
      let (io, so, rg) := runSteps env (initSt env) steps [] [] []
      let i := ";".intercalate io
      let s := ";".intercalate so
      if i == s then answer i else answer i s (pickRegion rg)
    | _, _ => answer "bad-case"
  | [.list (.atom "sql" :: _)] => answer "sql"
  | _ => answer "bad-case"

end Gms.MemIndexProto
