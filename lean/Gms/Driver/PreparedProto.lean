/-
S-expression reader / printer for the statement language of Gms/Model/Prepared.lean
(shared by the C12 and C11 drivers; not part of any theorem).
-/
import Gms.Driver.Proto
import Gms.Model.Prepared
namespace Gms.PreparedProto
open Gms.Proto Gms.Sql Gms.Prepared

def value? : Sexp → Option Value
  | .atom "null" => some .null
  | .list [.atom "i", n] => n.int?.map .int
  | .list [.atom "s", b] => b.bytes?.map .str
  | _ => none

def binding? : Sexp → Option (Option Value)
  | .atom "none" => some none
  | s => (value? s).map some

def atom? : Sexp → Option Atom
  | .list [.atom "lit", v] => (value? v).map .lit
  | .list [.atom "p", i] => i.nat?.map .param
  | _ => none

def arithOp? : String → Option ArithOp
  | "add" => some .add | "sub" => some .sub | "mul" => some .mul | _ => none

def cmpOp? : String → Option CmpOp
  | "eq" => some .eq | "ne" => some .ne | "lt" => some .lt | "le" => some .le
  | "gt" => some .gt | "ge" => some .ge | "nseq" => some .nseq | _ => none

partial def pexpr? : Sexp → Option PExpr
  | .list [.atom "a", a] => (atom? a).map .atom
  | .list [.atom "col", i] => i.nat?.map .col
  | .list [.atom "neg", e] => (pexpr? e).map .neg
  | .list [.atom "not", e] => (pexpr? e).map .not
  | .list [.atom "isnull", e] => (pexpr? e).map .isNull
  | .list [.atom "ar", .atom op, a, b] => do pure (.arith (← arithOp? op) (← pexpr? a) (← pexpr? b))
  | .list [.atom "cmp", .atom op, a, b] => do pure (.cmp (← cmpOp? op) (← pexpr? a) (← pexpr? b))
  | .list [.atom "and", a, b] => do pure (.and (← pexpr? a) (← pexpr? b))
  | .list [.atom "or", a, b] => do pure (.or (← pexpr? a) (← pexpr? b))
  | .list [.atom "in", e, .list items] => do pure (.inList (← pexpr? e) (← items.mapM atom?))
  | .list [.atom "btw", e, lo, hi] => do pure (.between (← pexpr? e) (← pexpr? lo) (← pexpr? hi))
  | _ => none

def stmt? : Sexp → Option Stmt
  | .list [.atom "select", .list proj, w, lim] => do
    let lim ← (match lim with
      | .atom "nolim" => some none
      | a => (atom? a).map some)
    pure (.select (← proj.mapM pexpr?) (← pexpr? w) lim)
  | .list [.atom "insert", .list vals] => do pure (.insert (← vals.mapM atom?))
  | .list [.atom "update", c, e, w] => do pure (.update (← c.nat?) (← pexpr? e) (← pexpr? w))
  | .list [.atom "delete", w] => do pure (.delete (← pexpr? w))
  | _ => none

def step? : Sexp → Option (Stmt × Bindings)
  | .list [.atom "st", st, .list bs] => do pure ((← stmt? st), (← bs.mapM binding?))
  | _ => none

def row? : Sexp → Option Row
  | .list (.atom "row" :: vs) => vs.mapM value?
  | _ => none

def showValue : Value → String
  | .null => "null"
  | .int i => toString i
  | .str b => hex b

def showOutcome : Outcome → String
  | .rows rs => (" ".intercalate ("rows" :: rs.map fun r => "(" ++ " ".intercalate (r.map showValue) ++ ")"))
  | .ok n => "ok " ++ toString n
  | .errDup => "err:1062"
  | .errNullKey => "err:1048"
  | .errMissing => "err:missing"
  | .errUnused => "err:unused"
  | .errLimit => "err:limit"


end Gms.PreparedProto
