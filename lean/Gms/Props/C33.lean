/-
C33 — Regular expression functions agree with each other and with the pattern.

Model: Gms/Model/RegexFn.lean — the SQL layer (/repo's regexp_*.go) and the wrapper layer
(go-icu-regex, reached through internal/regex) over an *arbitrary* matcher
`m : Nat → List (start, end)`. The theorems below hold for every matcher (ICU included, whatever
it matches), every subject, every position / occurrence / return option. The rows of one statement
go through ONE node (`runRows`): `rows_independent` — no row's result depends on the rows before it.
-/
import Gms.Model.RegexFn
import Gms.Generated.C33

namespace Gms.RegexFn

/-! ## Helper lemmas -/

theorem findFrom_zero (m : Matcher) (len : Nat) : findFrom m len 0 = some (m 0) := by
  simp [findFrom]

theorem findFrom_one_sub (m : Matcher) (len : Nat) : findFrom m len (1 - 1) = some (m 0) := by
  simp [findFrom]

theorem take_append_drop_take (u : List Nat) (h s : Nat) (hs : h ≤ s) :
    u.take h ++ (u.drop h).take (s - h) = u.take s := by
  have e : s = h + (s - h) := by omega
  conv => rhs; rw [e]
  exact List.take_add.symm

/-- The head copied by `appendHead` plus the first `appendReplacement` is the splice from 0. -/
theorem splice_head (units rep : List Nat) (h : Nat) (s e : Nat) (rest : List Match) (hs : h ≤ s) :
    units.take h ++ spliceFrom units rep h ((s, e) :: rest) = spliceFrom units rep 0 ((s, e) :: rest) := by
  simp only [spliceFrom, List.drop_zero, Nat.sub_zero]
  rw [← List.append_assoc, ← List.append_assoc, take_append_drop_take units h s hs]

theorem WFfrom_mono (len lo lo' : Nat) (ms : List Match) (h : lo' ≤ lo) (w : WFfrom len lo ms) :
    WFfrom len lo' ms := by
  cases ms with
  | nil => trivial
  | cons hd tl =>
    obtain ⟨s, e⟩ := hd
    simp only [WFfrom] at w ⊢
    exact ⟨by omega, w.2.1, w.2.2.1, w.2.2.2⟩

/-- Dropping `k` matches of a well-formed list leaves a well-formed list whose lower bound is the
end of the last dropped match (and still the original bound). -/
theorem WFfrom_drop (len : Nat) (ms : List Match) (lo k : Nat) (w : WFfrom len lo ms) :
    WFfrom len (max lo (if k = 0 then 0 else ((ms[k - 1]?).map (·.2)).getD 0)) (ms.drop k) := by
  induction k generalizing ms lo with
  | zero => simpa using w
  | succ k ih =>
    cases ms with
    | nil => simp [WFfrom]
    | cons hd tl =>
      obtain ⟨s, e⟩ := hd
      simp only [WFfrom] at w
      have w' := w.2.2.2
      simp only [List.drop_succ_cons, Nat.add_sub_cancel, Nat.succ_ne_zero, if_false]
      cases k with
      | zero =>
        simp only [List.drop_zero, List.getElem?_cons_zero, Option.map_some, Option.getD_some]
        exact WFfrom_mono len _ _ tl (by omega) w'
      | succ j =>
        have := ih tl (max e (s + 1)) w'
        simp only [Nat.succ_ne_zero, if_false, Nat.add_sub_cancel] at this
        simp only [List.getElem?_cons_succ]
        refine WFfrom_mono len _ _ _ ?_ this
        have : lo ≤ max e (s + 1) := by omega
        omega

theorem spliceFrom_length (units rep : List Nat) (p : Nat) (sel : List Match) (w : WFfrom units.length p sel)
    (hp : p ≤ units.length) :
    (spliceFrom units rep p sel).length + (sel.map fun m => m.2 - m.1).sum
      = (units.length - p) + sel.length * rep.length := by
  induction sel generalizing p with
  | nil => simp [spliceFrom]
  | cons hd tl ih =>
    obtain ⟨s, e⟩ := hd
    simp only [WFfrom] at w
    have wtl := WFfrom_mono units.length _ e tl (by omega) w.2.2.2
    have := ih e wtl w.2.2.1
    simp only [spliceFrom, List.length_append, List.length_take, List.length_drop, List.map_cons, List.sum_cons,
      List.length_cons]
    rw [Nat.add_mul]
    have hm : min (s - p) (units.length - p) = s - p := by omega
    rw [hm]
    omega

/-! ## UTF-16 -/

def isScalar (r : Nat) : Bool := r < 0xD800 || (0xE000 ≤ r && r < 0x110000)

set_option maxRecDepth 8192 in
theorem decode_encode_utf16 (rs : List Nat) (h : ∀ r ∈ rs, isScalar r = true) :
    decodeUtf16 (encodeUtf16 rs) = rs := by
  induction rs with
  | nil => rfl
  | cons r rs ih =>
    have hr := h r (by simp)
    have ht : ∀ x ∈ rs, isScalar x = true := fun x hx => h x (by simp [hx])
    simp only [isScalar, Bool.or_eq_true, Bool.and_eq_true, decide_eq_true_eq] at hr
    have ih' := ih ht
    simp only [encodeUtf16]
    by_cases hb : r < 0x10000
    · have ns : isSurrogate r = false := by simp [isSurrogate]; omega
      simp only [hb, if_true, ns, Bool.false_eq_true, if_false]
      cases he : encodeUtf16 rs with
      | nil =>
        rw [he] at ih'
        simp only [decodeUtf16, ns, Bool.false_eq_true, if_false]
        rw [← ih']; rfl
      | cons v rest =>
        rw [he] at ih'
        have nh : ¬ (0xD800 ≤ r ∧ r < 0xDC00 ∧ 0xDC00 ≤ v ∧ v < 0xE000) := by omega
        simp only [decodeUtf16, nh, if_false, ns, Bool.false_eq_true, ih']
    · have hlt : r < 0x110000 := by omega
      simp only [hb, if_false, hlt, if_true]
      have hp : 0xD800 ≤ 0xD800 + (r - 0x10000) / 1024 ∧ 0xD800 + (r - 0x10000) / 1024 < 0xDC00 ∧
          0xDC00 ≤ 0xDC00 + (r - 0x10000) % 1024 ∧ 0xDC00 + (r - 0x10000) % 1024 < 0xE000 := by omega
      have e : 0x10000 + (0xD800 + (r - 0x10000) / 1024 - 0xD800) * 1024 + (0xDC00 + (r - 0x10000) % 1024 - 0xDC00) = r := by
        omega
      simp only [decodeUtf16, hp, and_self, if_true, ih', e]

/-- Text without supplementary characters has no surrogate pair to split. -/
theorem encodeUtf16_bmp_no_high (rs : List Nat) (h : ∀ r ∈ rs, r < 0x10000) :
    ∀ u ∈ encodeUtf16 rs, ¬ (0xD800 ≤ u ∧ u < 0xE000) := by
  induction rs with
  | nil => simp [encodeUtf16]
  | cons r rs ih =>
    have hr := h r (by simp)
    have ht : ∀ x ∈ rs, x < 0x10000 := fun x hx => h x (by simp [hx])
    intro u hu
    simp only [encodeUtf16, hr, if_true, List.mem_cons] at hu
    rcases hu with rfl | hu
    · by_cases hsr : isSurrogate r = true
      · simp [hsr]
      · simp only [hsr, Bool.false_eq_true, if_false]
        simp only [isSurrogate, Bool.and_eq_true, decide_eq_true_eq] at hsr
        exact hsr
    · exact ih ht u hu

/-! ## Rows through one node -/

theorem Row.ext' (x y : Row) (h1 : x.text = y.text) (h2 : x.pat = y.pat) (h3 : x.flags = y.flags)
    (h4 : x.rep = y.rep) (h5 : x.ints = y.ints) : x = y := by
  cases x; cases y; simp_all

/-- Under a sound discipline `compile` leaves the regex of the row's own pattern and flags,
provided a cached regex (constant pattern and flags) is the one of this row. -/
theorem pickKey_sound (d : Discipline) (hd : d.Sound) (cR : Bool) (c : Option Key) (rk : Key)
    (h : cR = true → c = some rk) : pickKey d cR c rk = rk := by
  unfold pickKey
  cases cR with
  | true => simp [h rfl]
  | false =>
    simp only [Bool.false_eq_true, if_false]
    cases c with
    | none => rfl
    | some k0 =>
      simp only
      by_cases hk : d k0 rk = true
      · simp [hd k0 rk hk]
      · simp [hk]

/-- What is known of a node between two rows, relative to the rows still to come. -/
structure NodeInv (W : World) (fn : Fn) (md : Modes) (rows : List Row) (n : Node) : Prop where
  flags : n.once = true → n.cacheRegex = md.cacheRegex ∧ n.cacheVal = md.cacheVal
  regex : n.once = true → md.cacheRegex = true → ∀ r ∈ rows, n.compiled = some r.key
  value : ∀ v, n.cachedVal = some v → ∀ r ∈ rows, evalFresh W fn r = v

theorem NodeInv.tail {W : World} {fn : Fn} {md : Modes} {r : Row} {rs : List Row} {n : Node}
    (h : NodeInv W fn md (r :: rs) n) : NodeInv W fn md rs n :=
  ⟨h.flags, fun a b x hx => h.regex a b x (List.mem_cons_of_mem _ hx),
   fun v hv x hx => h.value v hv x (List.mem_cons_of_mem _ hx)⟩

theorem step_independent (d : Discipline) (hd : d.Sound) (W : World) (fn : Fn) (md : Modes)
    (n : Node) (r : Row) (rs : List Row) (inv : NodeInv W fn md (r :: rs) n)
    (hk : md.cacheRegex = true → ∀ x ∈ r :: rs, x.key = r.key)
    (hv : md.cacheVal = true → ∀ x ∈ r :: rs, x = r) :
    (step d W fn md n r).2 = evalFresh W fn r ∧ NodeInv W fn md rs (step d W fn md n r).1 := by
  unfold step
  cases hc : n.cachedVal with
  | some v =>
    simp only
    exact ⟨(inv.value v hc r (List.mem_cons_self)).symm, inv.tail⟩
  | none =>
    simp only
    -- the node after the once-block
    have h1 : (onceBlock md n r.key).cacheRegex = md.cacheRegex ∧ (onceBlock md n r.key).cacheVal = md.cacheVal ∧
        (md.cacheRegex = true → (onceBlock md n r.key).compiled = some r.key) := by
      unfold onceBlock
      by_cases ho : n.once = true
      · simp only [ho, if_true]
        exact ⟨(inv.flags ho).1, (inv.flags ho).2, fun hm => inv.regex ho hm r List.mem_cons_self⟩
      · simp only [ho]
        exact ⟨rfl, rfl, fun hm => by simp [hm]⟩
    have ho1 : (onceBlock md n r.key).once = true := by
      unfold onceBlock
      by_cases ho : n.once = true <;> simp [ho]
    generalize onceBlock md n r.key = n1 at h1 ho1 ⊢
    have hkey : pickKey d n1.cacheRegex n1.compiled r.key = r.key :=
      pickKey_sound d hd _ _ _ (fun hcr => h1.2.2 (by rw [← h1.1]; exact hcr))
    rw [hkey]
    refine ⟨rfl, ⟨fun _ => ⟨h1.1, h1.2.1⟩, ?_, ?_⟩⟩
    · intro _ hm x hx
      simp only
      rw [hk hm x (List.mem_cons_of_mem _ hx)]
    · intro v hcv x hx
      simp only at hcv
      by_cases hcond : (n1.cacheVal && cachesResult fn && (evalCompiled W fn r.key r).isValue) = true
      · rw [if_pos hcond] at hcv
        have hmv : md.cacheVal = true := by
          rw [← h1.2.1]
          simp only [Bool.and_eq_true] at hcond
          exact hcond.1.1
        have := hv hmv x (List.mem_cons_of_mem _ hx)
        subst this
        simpa [evalFresh] using hcv
      · rw [if_neg hcond] at hcv
        cases hcv

theorem runRows_independent (d : Discipline) (hd : d.Sound) (W : World) (fn : Fn) (md : Modes)
    (rows : List Row) (n : Node) (inv : NodeInv W fn md rows n)
    (hk : md.cacheRegex = true → ∀ x ∈ rows, ∀ y ∈ rows, x.key = y.key)
    (hv : md.cacheVal = true → ∀ x ∈ rows, ∀ y ∈ rows, x = y) :
    runRows d W fn md n rows = rows.map (evalFresh W fn) := by
  induction rows generalizing n with
  | nil => rfl
  | cons r rs ih =>
    have hs := step_independent d hd W fn md n r rs inv
      (fun hm x hx => hk hm x hx r List.mem_cons_self) (fun hm x hx => hv hm x hx r List.mem_cons_self)
    simp only [runRows, List.map_cons]
    rw [hs.1, ih _ hs.2 (fun hm x hx y hy => hk hm x (List.mem_cons_of_mem _ hx) y (List.mem_cons_of_mem _ hy))
      (fun hm x hx y hy => hv hm x (List.mem_cons_of_mem _ hx) y (List.mem_cons_of_mem _ hy))]

theorem NodeInv.fresh (W : World) (fn : Fn) (md : Modes) (rows : List Row) : NodeInv W fn md rows Node.fresh :=
  ⟨fun h => by simp [Node.fresh] at h, fun h => by simp [Node.fresh] at h, fun v h => by simp [Node.fresh] at h⟩

theorem Respects.keys {md : Modes} {rows : List Row} (h : Respects md rows) (hm : md.cacheRegex = true) :
    ∀ x ∈ rows, ∀ y ∈ rows, x.key = y.key := by
  simp only [Modes.cacheRegex, Bool.and_eq_true] at hm
  intro x hx y hy
  simp only [Row.key]
  rw [h.2.1 hm.1 x hx y hy, h.2.2.1 hm.2 x hx y hy]

theorem Respects.rows {md : Modes} {rows : List Row} (h : Respects md rows) (hm : md.cacheVal = true) :
    ∀ x ∈ rows, ∀ y ∈ rows, x = y := by
  simp only [Modes.cacheVal, Modes.cacheRegex, Bool.and_eq_true] at hm
  intro x hx y hy
  exact Row.ext' x y (h.1 hm.1.2 x hx y hy) (h.2.1 hm.1.1.1 x hx y hy) (h.2.2.1 hm.1.1.2 x hx y hy)
    (h.2.2.2 hm.2 x hx y hy).1 (h.2.2.2 hm.2 x hx y hy).2

theorem Respects.sub {md : Modes} {rows rows' : List Row} (h : Respects md rows) (hs : ∀ x ∈ rows', x ∈ rows) :
    Respects md rows' :=
  ⟨fun c x hx y hy => h.1 c x (hs x hx) y (hs y hy), fun c x hx y hy => h.2.1 c x (hs x hx) y (hs y hy),
   fun c x hx y hy => h.2.2.1 c x (hs x hx) y (hs y hy), fun c x hx y hy => h.2.2.2 c x (hs x hx) y (hs y hy)⟩

end Gms.RegexFn

namespace Gms.C33
open Gms.RegexFn

/-! ## Agreement of LIKE / INSTR / SUBSTR (any matcher) -/

/-- REGEXP_LIKE reports a match iff REGEXP_INSTR (position 1, occurrence 1) is positive. -/
theorem like_iff_instr_pos (m : Matcher) (len : Nat) :
    wMatches m len 0 0 = true ↔ wIndexOf m len 1 1 false > 0 := by
  unfold wMatches wIndexOf
  rw [findFrom_zero, findFrom_one_sub]
  have e0 : nth (m 0) 0 = (m 0)[0]? := by simp [nth]
  have e1 : nth (m 0) 1 = (m 0)[0]? := by simp [nth]
  simp only [e0, e1]
  cases h : (m 0)[0]? with
  | none => simp
  | some p =>
    obtain ⟨s, e⟩ := p
    simp

/-- REGEXP_INSTR is positive iff REGEXP_SUBSTR is not NULL (same position and occurrence). -/
theorem instr_pos_iff_substr_some (m : Matcher) (units : List Nat) (pos occ : Int) (ro : Bool) :
    wIndexOf m units.length pos occ ro > 0 ↔ (wSubstring m units pos occ).isSome = true := by
  unfold wIndexOf wSubstring
  cases hf : findFrom m units.length (pos - 1) with
  | none => simp
  | some ms =>
    simp only
    cases hn : nth ms occ with
    | none => simp
    | some p =>
      obtain ⟨s, e⟩ := p
      simp only [Option.isSome_some, iff_true]
      split <;> omega

/-- The substring returned is the text between the reported start and the reported end. -/
theorem substr_at_instr (m : Matcher) (units : List Nat) (pos occ : Int) (sub : List Nat)
    (h : wSubstring m units pos occ = some sub) :
    let k := wIndexOf m units.length pos occ false
    let kend := wIndexOf m units.length pos occ true
    0 < k ∧ 0 < kend ∧ sub = decodeUtf16 ((units.drop (k - 1).toNat).take ((kend - 1).toNat - (k - 1).toNat)) := by
  unfold wSubstring at h
  unfold wIndexOf
  cases hf : findFrom m units.length (pos - 1) with
  | none => simp [hf] at h
  | some ms =>
    rw [hf] at h
    simp only at h ⊢
    cases hn : nth ms occ with
    | none => simp [hn] at h
    | some p =>
      obtain ⟨s, e⟩ := p
      simp only [hn, Option.some.injEq] at h
      simp only [Bool.false_eq_true, if_false, if_true]
      refine ⟨by omega, by omega, ?_⟩
      have e1 : ((s : Int) + 1 - 1).toNat = s := by omega
      have e2 : ((e : Int) + 1 - 1).toNat = e := by omega
      rw [e1, e2]; exact h.symm

/-- LIKE ⇔ INSTR > 0 ⇔ SUBSTR ≠ NULL at the SQL level (default position and occurrence). -/
theorem sql_like_instr_substr_agree (text : List Nat) (bl : Nat) (m : Matcher) :
    let call (fn : Fn) : Call := { fn, text := .ok text bl, pat := .ok, flags := .absent, rep := .null, ints := [], m }
    (evalCall (call .like) = .int 1 ↔ ∃ k, 0 < k ∧ evalCall (call .instr) = .int k) ∧
    (evalCall (call .like) = .int 1 ↔ ∃ s, evalCall (call .substr) = .str s) := by
  have hl := like_iff_instr_pos m (encodeUtf16 text).length
  have hs := instr_pos_iff_substr_some m (encodeUtf16 text) 1 1 false
  have c1 : clamp32 1 = 1 := by decide
  have c0 : clamp32 0 = 0 := by decide
  simp only [evalCall, compile, defaults, c1, c0]
  constructor
  · constructor
    · intro h
      have : wMatches m (encodeUtf16 text).length 0 0 = true := by
        by_cases hm : wMatches m (encodeUtf16 text).length 0 0 = true
        · exact hm
        · simp [hm] at h
      exact ⟨_, hl.mp this, by simp⟩
    · rintro ⟨k, hk, he⟩
      have hk' : wIndexOf m (encodeUtf16 text).length 1 1 false > 0 := by
        simp at he; omega
      simp [hl.mpr hk']
  · constructor
    · intro h
      have : wMatches m (encodeUtf16 text).length 0 0 = true := by
        by_cases hm : wMatches m (encodeUtf16 text).length 0 0 = true
        · exact hm
        · simp [hm] at h
      have := hs.mp (hl.mp this)
      cases hw : wSubstring m (encodeUtf16 text) 1 1 with
      | none => simp [hw] at this
      | some s => exact ⟨s, by simp⟩
    · rintro ⟨s, he⟩
      cases hw : wSubstring m (encodeUtf16 text) 1 1 with
      | none => simp [hw] at he
      | some s' =>
        have : wIndexOf m (encodeUtf16 text).length 1 1 false > 0 := hs.mpr (by simp [hw])
        simp [hl.mpr this]

/-! ## Order of the occurrences (well-formed matchers) -/

theorem WF_getElem (len : Nat) (ms : List Match) (lo i : Nat) (w : WFfrom len lo ms) (p : Match)
    (h : ms[i]? = some p) : lo ≤ p.1 ∧ p.1 ≤ p.2 ∧ p.2 ≤ len := by
  induction i generalizing ms lo with
  | zero =>
    cases ms with
    | nil => simp at h
    | cons hd tl =>
      obtain ⟨s, e⟩ := hd
      simp at h; subst h
      simp only [WFfrom] at w
      exact ⟨w.1, w.2.1, w.2.2.1⟩
  | succ i ih =>
    cases ms with
    | nil => simp at h
    | cons hd tl =>
      obtain ⟨s, e⟩ := hd
      simp only [WFfrom] at w
      simp at h
      have := ih tl _ w.2.2.2 h
      exact ⟨by omega, this.2.1, this.2.2⟩

theorem WF_succ (len : Nat) (ms : List Match) (lo i : Nat) (w : WFfrom len lo ms) (p q : Match)
    (hp : ms[i]? = some p) (hq : ms[i + 1]? = some q) : p.1 < q.1 ∧ p.2 ≤ q.1 := by
  induction i generalizing ms lo with
  | zero =>
    cases ms with
    | nil => simp at hp
    | cons hd tl =>
      obtain ⟨s, e⟩ := hd
      simp at hp; subst hp
      simp only [WFfrom] at w
      simp at hq
      have := WF_getElem len tl _ 0 w.2.2.2 q hq
      simp at this ⊢
      omega
  | succ i ih =>
    cases ms with
    | nil => simp at hp
    | cons hd tl =>
      obtain ⟨s, e⟩ := hd
      simp only [WFfrom] at w
      simp at hp hq
      exact ih tl _ w.2.2.2 hp hq

/-- The reported end is not before the reported start, the start is not before the search
position, and the next occurrence starts strictly further right (at or after the previous end). -/
theorem occurrence_monotone (m : Matcher) (len : Nat) (pos occ : Int) (hpos : 1 ≤ pos) (hlen : pos - 1 ≤ len)
    (hocc : 1 ≤ occ) (w : WFfrom len (pos - 1).toNat (m (pos - 1).toNat)) :
    let k := wIndexOf m len pos occ false
    let kend := wIndexOf m len pos occ true
    let k' := wIndexOf m len pos (occ + 1) false
    (0 < k → pos ≤ k ∧ k ≤ kend ∧ kend ≤ len + 1) ∧ (0 < k → 0 < k' → k < k' ∧ kend ≤ k') := by
  have hf : findFrom m len (pos - 1) = some (m (pos - 1).toNat) := by
    unfold findFrom
    have a : ¬ (pos - 1 = -1) := by omega
    have b : ¬ (pos - 1 < 0 ∨ pos - 1 > len) := by omega
    simp [a, b]
  unfold wIndexOf
  simp only [hf, nth]
  have e1 : (occ + 1 - 1).toNat = (occ - 1).toNat + 1 := by omega
  rw [e1]
  generalize (occ - 1).toNat = i
  generalize m (pos - 1).toNat = ms at w
  cases hp : ms[i]? with
  | none => simp
  | some p =>
    obtain ⟨s, e⟩ := p
    have b := WF_getElem len ms _ i w (s, e) hp
    simp only [Bool.false_eq_true, if_false, if_true]
    constructor
    · intro _; simp at b; omega
    · intro _
      cases hq : ms[i + 1]? with
      | none => simp
      | some q =>
        obtain ⟨s', e'⟩ := q
        have := WF_succ len ms _ i w (s, e) (s', e') hp hq
        simp at this ⊢
        omega

/-! ## REPLACE substitutes exactly the reported matches -/

/-- With a well-formed matcher and a non-empty text, REGEXP_REPLACE is the text in which exactly
the selected matches — all of them for occurrence 0, the `occ`-th otherwise — are replaced; when
the selection is empty the text is returned unchanged. -/
theorem replace_splices_exactly_matches (m : Matcher) (units rep : List Nat) (pos occ : Int)
    (hne : units ≠ []) (hpos : 1 ≤ pos) (hlen : pos - 1 ≤ units.length)
    (w : WFfrom units.length (pos - 1).toNat (m (pos - 1).toNat)) :
    let ms := m (pos - 1).toNat
    wReplace m units rep pos occ =
      spliceSpec units rep (if occ = 0 then ms else (ms.drop (occ - 1).toNat).take 1) := by
  have hf : findFrom m units.length (pos - 1) = some (m (pos - 1).toNat) := by
    unfold findFrom
    have a : ¬ (pos - 1 = -1) := by omega
    have b : ¬ (pos - 1 < 0 ∨ pos - 1 > units.length) := by omega
    simp [a, b]
  have hemp : units.isEmpty = false := by cases units; contradiction; rfl
  simp only
  unfold wReplace
  rw [hf]
  simp only
  generalize hms : m (pos - 1).toNat = ms at w
  cases hd : ms.drop (occ - 1).toNat with
  | nil =>
    simp only
    by_cases ho : occ = 0
    · subst ho
      simp at hd
      subst hd
      simp [spliceSpec, spliceFrom]
    · simp [ho, spliceSpec, spliceFrom]
  | cons hit rest =>
    obtain ⟨s, e⟩ := hit
    simp only [hemp, Bool.false_eq_true, if_false]
    have wd := WFfrom_drop units.length ms (pos - 1).toNat (occ - 1).toNat w
    rw [hd] at wd
    simp only [WFfrom] at wd
    have hle : max (if (occ - 1).toNat = 0 then 0 else ((ms[(occ - 1).toNat - 1]?).map (·.2)).getD 0) (pos - 1).toNat ≤ s := by
      have := wd.1
      omega
    by_cases ho : occ = 0
    · subst ho
      simp only [if_true]
      have h0 : ((0 : Int) - 1).toNat = 0 := by decide
      rw [h0] at hd hle
      simp only [List.drop_zero] at hd
      rw [hd]
      exact splice_head units rep _ s e rest hle
    · simp only [ho, if_false, List.take_succ_cons, List.take_zero]
      exact splice_head units rep _ s e [] hle

/-- Length law of the splice: every selected match `[s,e)` is exchanged for one copy of the
replacement. -/
theorem replace_length (units rep : List Nat) (sel : List Match) (w : WFfrom units.length 0 sel) :
    (spliceSpec units rep sel).length + (sel.map fun m => m.2 - m.1).sum
      = units.length + sel.length * rep.length := by
  have := spliceFrom_length units rep 0 sel w (by omega)
  simpa [spliceSpec] using this

/-- No match from the start position ⇒ the text is returned unchanged. -/
theorem replace_no_match (m : Matcher) (units rep : List Nat) (pos occ : Int) (hpos : 1 ≤ pos)
    (hlen : pos - 1 ≤ units.length) (h : m (pos - 1).toNat = []) : wReplace m units rep pos occ = units := by
  unfold wReplace findFrom
  have a : ¬ (pos - 1 = -1) := by omega
  have b : ¬ (pos - 1 < 0 ∨ pos - 1 > units.length) := by omega
  rw [if_neg a, if_neg b]
  simp only [h, List.drop_nil]

/-! ## UTF-16 conversion of the wrapper -/

/-- `UCharStr.GetString ∘ SetString` is the identity on every well-formed string. -/
theorem utf16_roundtrip (rs : List Nat) (h : ∀ r ∈ rs, isScalar r = true) :
    decodeUtf16 (encodeUtf16 rs) = rs := decode_encode_utf16 rs h

/-- For text without supplementary characters no position splits a surrogate pair: the region
`pos_splits_surrogate_pair` is empty there (`…_partial` guard). -/
theorem bmp_never_splits (rs : List Nat) (h : ∀ r ∈ rs, r < 0x10000) (pos : Int) :
    splitsPair (encodeUtf16 rs) pos = false := by
  unfold splitsPair
  simp only
  split
  · rfl
  · cases h1 : (encodeUtf16 rs)[(pos - 1).toNat]? with
    | none => rfl
    | some lo =>
      cases h2 : (encodeUtf16 rs)[(pos - 1).toNat - 1]? with
      | none => rfl
      | some hi =>
        have := encodeUtf16_bmp_no_high rs h lo (List.mem_of_getElem? h1)
        simp only [decide_eq_false_iff_not]
        omega

/-! ## NULL propagation and errors of the SQL layer -/

theorem compile_decided (p : PatArg) (f : FlagArg) (r : Res) (hc : compile p f = some r) :
    r = .null ∨ ∃ e, r = .err e := by
  unfold compile at hc
  cases p <;> cases f <;> simp at hc <;> subst hc <;> simp

/-- A NULL pattern makes the result NULL; a NULL text never yields a value (the result is NULL, or
the error raised earlier while compiling the pattern and flags). -/
theorem null_arguments (c : Call) :
    (c.pat = .null → evalCall c = .null) ∧
    (c.text = .null → evalCall c = .null ∨ ∃ e, evalCall c = .err e) := by
  constructor
  · intro h; simp [evalCall, compile, h]
  · intro h
    unfold evalCall
    cases hc : compile c.pat c.flags with
    | some r => simpa using compile_decided _ _ r hc
    | none => simp [h]

/-- An invalid pattern is an error whatever the other arguments are (unless the pattern or the
flags are NULL / unusable, which is decided first). -/
theorem invalid_pattern_errors (c : Call) (hp : c.pat = .invalid) (hf : c.flags = .absent ∨ c.flags = .ok) :
    evalCall c = .err "invalidregex" := by
  unfold evalCall compile
  rcases hf with hf | hf <;> simp [hp, hf]

/-! ## Findings on the unchanged tree -/

-- Full statement (false on the unchanged tree): ∀ c, evalCall c = spec c
/-- `REGEXP_REPLACE('中','x','y',3)`: position 3 passes the byte-length check (3 bytes) but lies
beyond the one-unit text; the result is the empty string — the text is lost. -/
theorem finding_replace_pos_beyond_text_empties :
    ∃ c : Call, region c = some "replace_pos_beyond_text_empties" ∧ evalCall c = .str [] ∧ spec c = .err "oob" :=
  ⟨{ fn := .replace, text := .ok [0x4E2D] 3, pat := .ok, flags := .absent, rep := .ok [0x79] 1,
     ints := [.int 3], m := fun _ => [] }, by decide⟩

/-- `REGEXP_REPLACE('', 'x*', 'y')`: REGEXP_INSTR reports the (empty) match at 1, but nothing is
substituted. -/
theorem finding_replace_empty_text_drops_replacement :
    ∃ c : Call, region c = some "replace_empty_text_drops_replacement" ∧ evalCall c = .str [] ∧ spec c = .str [0x79] ∧
      evalCall { c with fn := .instr, ints := [] } = .int 1 :=
  ⟨{ fn := .replace, text := .ok [] 0, pat := .ok, flags := .absent, rep := .ok [0x79] 1,
     ints := [], m := fun _ => [(0, 0)] }, by decide⟩

/-- A position can point into the middle of a surrogate pair (`REGEXP_INSTR('😀', p, 2)`); ICU is
then started inside a character, where its behaviour is undefined (observed: wrong matches and
SIGSEGV). -/
theorem finding_pos_splits_surrogate_pair :
    ∃ rs pos, (∀ r ∈ rs, isScalar r = true) ∧ splitsPair (encodeUtf16 rs) pos = true :=
  ⟨[0x1F600], 2, by decide, by decide⟩

/-- Outside the regions the Spec is the Impl model. -/
theorem spec_eq_impl_outside_regions (c : Call) (h : region c = none) : spec c = evalCall c := by
  unfold spec; rw [h]

/-! ## One node, many rows: a row's result does not depend on the rows evaluated before it -/

theorem perRow_sound : Discipline.perRow.Sound := by
  intro o n h; simp [Discipline.perRow] at h

theorem keyed_sound : Discipline.keyed.Sound := by
  intro o n h; simpa [Discipline.keyed] using h

/-- **Row independence.** Whatever regexes the earlier rows left in the node, under a sound caching
discipline (the regex is kept only if pattern *and* flags are unchanged) every row of a statement
gets the result it would get on a node of its own — for every matcher world, every function, every
combination of constant / per-row arguments, every sequence of rows. -/
theorem rows_independent (d : Discipline) (hd : d.Sound) (W : World) (fn : Fn) (md : Modes) (rows : List Row)
    (h : Respects md rows) :
    runRows d W fn md Node.fresh rows = rows.map (evalFresh W fn) :=
  runRows_independent d hd W fn md rows Node.fresh (NodeInv.fresh W fn md rows) h.keys h.rows

/-- The code's discipline (re-compile on every row unless pattern and flags are constants). -/
theorem code_rows_independent (W : World) (fn : Fn) (md : Modes) (rows : List Row) (h : Respects md rows) :
    runRows .perRow W fn md Node.fresh rows = rows.map (evalFresh W fn) :=
  rows_independent _ perRow_sound W fn md rows h

/-- "Re-compile iff pattern or flags changed" is observationally the code's discipline. -/
theorem keyed_eq_perRow (W : World) (fn : Fn) (md : Modes) (rows : List Row) (h : Respects md rows) :
    runRows .keyed W fn md Node.fresh rows = runRows .perRow W fn md Node.fresh rows := by
  rw [rows_independent _ keyed_sound W fn md rows h, code_rows_independent W fn md rows h]

/-- Descending instead of ascending order: the same results, reversed. -/
theorem rows_descending (d : Discipline) (hd : d.Sound) (W : World) (fn : Fn) (md : Modes) (rows : List Row)
    (h : Respects md rows) :
    runRows d W fn md Node.fresh rows.reverse = (runRows d W fn md Node.fresh rows).reverse := by
  rw [rows_independent d hd W fn md rows h,
    rows_independent d hd W fn md rows.reverse (h.sub fun _ hx => List.mem_reverse.mp hx), List.map_reverse]

/-- A filter in front of the node (WHERE id <= k AND REGEXP_LIKE(…)): the surviving rows get the
results they get without the filter. -/
theorem rows_filtered (d : Discipline) (hd : d.Sound) (W : World) (fn : Fn) (md : Modes) (rows : List Row)
    (p : Row → Bool) (h : Respects md rows) :
    runRows d W fn md Node.fresh (rows.filter p) = (rows.filter p).map (evalFresh W fn) :=
  rows_independent d hd W fn md _ (h.sub fun _ hx => (List.mem_filter.mp hx).1)

/-- Non-vacuity: a two-row statement with per-row pattern and flags and a constant position. -/
example : Respects ⟨false, false, false, true⟩
    [⟨.ok [66] 1, (.ok, 0), (.ok, 0), .null, [.int 1]⟩, ⟨.ok [98] 1, (.ok, 0), (.ok, 1), .null, [.int 1]⟩] := by
  decide

/-- The two-row world of the witnesses: pattern `b` on the subject `B`; flags value 0 is `'i'`
(one match), flags value 1 is `'c'` (none); pattern value 1 (`x`) never matches. -/
def witnessWorld : World := fun k _ => if k.1.2 = 0 ∧ k.2.2 = 0 then fun i => if i = 0 then [(0, 1)] else [] else fun _ => []

/-- Keyed on the pattern alone the second row is answered with the first row's flags:
`REGEXP_LIKE('B','b','i')`, then `REGEXP_LIKE('B','b','c')` → 1, 1 instead of 1, 0. -/
theorem patternOnly_not_independent :
    ∃ (W : World) (md : Modes) (rows : List Row), Respects md rows ∧
      runRows .patternOnly W .like md Node.fresh rows ≠ rows.map (evalFresh W .like) :=
  ⟨witnessWorld, ⟨false, false, false, true⟩,
   [⟨.ok [66] 1, (.ok, 0), (.ok, 0), .null, []⟩, ⟨.ok [66] 1, (.ok, 0), (.ok, 1), .null, []⟩], by decide, by decide⟩

/-- Keyed on the flags alone the second row is answered with the first row's pattern. -/
theorem flagsOnly_not_independent :
    ∃ (W : World) (md : Modes) (rows : List Row), Respects md rows ∧
      runRows .flagsOnly W .instr md Node.fresh rows ≠ rows.map (evalFresh W .instr) :=
  ⟨witnessWorld, ⟨false, false, false, true⟩,
   [⟨.ok [66] 1, (.ok, 0), (.ok, 0), .null, []⟩, ⟨.ok [66] 1, (.ok, 1), (.ok, 0), .null, []⟩], by decide, by decide⟩

/-- A stale compile outcome also hides NULL / error classes: with the pattern-only key a NULL
match_type after a usable one is answered with a value. -/
theorem patternOnly_hides_null_flags :
    runRows .patternOnly witnessWorld .like ⟨false, false, false, true⟩ Node.fresh
      [⟨.ok [66] 1, (.ok, 0), (.ok, 0), .null, []⟩, ⟨.ok [66] 1, (.ok, 0), (.null, 2), .null, []⟩] = [.int 1, .int 1] ∧
    evalFresh witnessWorld .like ⟨.ok [66] 1, (.ok, 0), (.null, 2), .null, []⟩ = .null := by decide

theorem evalFresh_eq_call (W : World) (fn : Fn) (r : Row) : evalFresh W fn r = evalCall (r.call W fn) := rfl

/-- Outside the defect regions of single calls the Spec of a statement is what the code computes
through one node. -/
theorem spec_rows_outside_regions (W : World) (fn : Fn) (md : Modes) (rows : List Row) (h : Respects md rows)
    (hr : regionRows W fn rows = none) :
    specRows W fn rows = runRows .perRow W fn md Node.fresh rows := by
  rw [code_rows_independent W fn md rows h]
  unfold specRows
  apply List.map_congr_left
  intro r hm
  have := (List.findSome?_eq_none_iff.mp hr) r hm
  rw [evalFresh_eq_call, spec_eq_impl_outside_regions _ this]

/-! ## Regenerated facts -/

theorem facts_registry :
    Generated.C33.registry = [("regexp_instr", "FunctionN", "NewRegexpInstr"), ("regexp_like", "FunctionN", "NewRegexpLike"),
      ("regexp_replace", "FunctionN", "NewRegexpReplace"), ("regexp_substr", "FunctionN", "NewRegexpSubstr")] := by decide

/-- The literal defaults of the constructors (position 1, occurrence 1 — 0 for REPLACE —,
return_option 0), and nothing is filled in any other way than `args[i]` or such a literal. -/
theorem facts_ctor_defaults :
    Generated.C33.ctorLitFields =
      [("NewRegexpInstr", 4, "ReturnOption", 0),
       ("NewRegexpInstr", 3, "Occurrence", 1), ("NewRegexpInstr", 3, "ReturnOption", 0),
       ("NewRegexpInstr", 2, "Position", 1), ("NewRegexpInstr", 2, "Occurrence", 1),
       ("NewRegexpInstr", 2, "ReturnOption", 0),
       ("NewRegexpSubstr", 3, "Occurrence", 1),
       ("NewRegexpSubstr", 2, "Position", 1), ("NewRegexpSubstr", 2, "Occurrence", 1),
       ("NewRegexpReplace", 4, "Occurrence", 0),
       ("NewRegexpReplace", 3, "Position", 1), ("NewRegexpReplace", 3, "Occurrence", 0)] ∧
    Generated.C33.ctorArgFields.length = 57 ∧ Generated.C33.ctorOtherFields = [] := by decide

/-- `defaults` agrees with the regenerated table on every arity. -/
theorem facts_defaults_model :
    defaults .instr [] = [.int 1, .int 1, .int 0] ∧ defaults .instr [.int 7] = [.int 7, .int 1, .int 0] ∧
    defaults .instr [.int 7, .int 8] = [.int 7, .int 8, .int 0] ∧
    defaults .substr [] = [.int 1, .int 1] ∧ defaults .substr [.int 7] = [.int 7, .int 1] ∧
    defaults .replace [] = [.int 1, .int 0] ∧ defaults .replace [.int 7] = [.int 7, .int 0] := by decide

theorem facts_flags :
    Generated.C33.compileFlagSwitch =
      ["'i' => regexFlags |= regex.RegexFlags_Case_Insensitive", "'m' => regexFlags |= regex.RegexFlags_Multiline",
       "'n' => regexFlags |= regex.RegexFlags_Dot_All", "'u' => regexFlags |= regex.RegexFlags_Unix_Lines"] ∧
    Generated.C33.consolidateSwitch.length = 6 ∧
    Generated.C33.consolidateSwitch.head? = some "'c' => delete(flagSet, \"i\")" := by decide

theorem facts_wrapper_calls :
    Generated.C33.wrapperCalls =
      ["RegexpLike: r.re.Matches(ctx, 0, 0)",
       "RegexpInstr: r.re.IndexOf(ctx, int(pos.(int32)), int(occurrence.(int32)), returnOption.(int32) == 1)",
       "RegexpSubstr: r.re.Substring(ctx, int(pos.(int32)), int(occurrence.(int32)))",
       "RegexpReplace: r.re.Replace(ctx, rText.(string), int(pos.(int32)), int(occurrence.(int32)))"] ∧
    Generated.C33.replacePosChecks =
      ["pos.(int32) <= 0", "len(text.(string)) != 0 && int(pos.(int32)) > len(text.(string))"] := by decide

/-! ### The per-node state (what survives from row to row, and what it is keyed on) -/

def recvOf : Fn → String
  | .like => "RegexpLike"
  | .instr => "RegexpInstr"
  | .substr => "RegexpSubstr"
  | .replace => "RegexpReplace"

/-- The state of a node is exactly the one modelled by `Node`: `compileOnce`/`cacheRegex`/`cacheVal`
(`once`, `cacheRegex`, `cacheVal`), `re`/`compileErr` (`compiled`) and `cachedVal` — no further
field (such as a remembered pattern value) survives from row to row. -/
theorem facts_node_state :
    ∀ fn : Fn, Generated.C33.nodeState.lookup (recvOf fn) =
      some ["cacheRegex bool", "cacheVal bool", "cachedVal any", "compileErr error", "compileOnce sync.Once", "re regex.Regex"] := by
  intro fn; cases fn <;> decide

/-- The cached regex is keyed on pattern **and** flags (`Modes.cacheRegex`), the cached value in
addition on every other argument (`Modes.cacheVal`); the per-row branch closes the previous regex
and re-compiles from the row's pattern and flags unconditionally (`Discipline.perRow`). -/
theorem facts_cache_discipline :
    (∀ fn : Fn, Generated.C33.cacheRegexKey.lookup (recvOf fn) = some ["Pattern", "Flags"]) ∧
    Generated.C33.cacheValKey =
      [("RegexpLike", ["Text"]), ("RegexpInstr", ["Text", "Position", "Occurrence", "ReturnOption"]),
       ("RegexpSubstr", ["Text", "Position", "Occurrence"]), ("RegexpReplace", ["Text", "RText", "Position", "Occurrence"])] ∧
    (∀ fn : Fn, Generated.C33.onceBlock.lookup (recvOf fn) =
      some ["cacheRegex := canBeCached", "cacheVal := cacheRegex && canBeCached",
            "if cacheRegex: re, compileErr := compileRegex(pattern=Pattern, text=Text, flags=Flags, row)"]) ∧
    (∀ fn : Fn, Generated.C33.perRowBranch.lookup (recvOf fn) =
      some ["close the previous regex", "re, compileErr := compileRegex(pattern=Pattern, text=Text, flags=Flags, row)"]) := by
  refine ⟨?_, by decide, ?_, ?_⟩ <;> intro fn <;> cases fn <;> decide

/-- Every argument field of a constructor is covered by one of the two `canBeCached` calls, i.e.
the cached value depends on no argument outside its key. -/
theorem facts_cache_key_covers_arguments :
    ∀ row ∈ Generated.C33.ctorArgFields,
      let recv := ([("NewRegexpLike", "RegexpLike"), ("NewRegexpInstr", "RegexpInstr"), ("NewRegexpSubstr", "RegexpSubstr"),
        ("NewRegexpReplace", "RegexpReplace")].lookup row.1).getD ""
      row.2.2.1 ∈ (Generated.C33.cacheRegexKey.lookup recv).getD [] ∨
      row.2.2.1 ∈ (Generated.C33.cacheValKey.lookup recv).getD [] := by
  decide

/-- Who writes the state: `compile` (and `WithChildren`, which hands the regex over to the copy);
`Eval` writes `cachedVal` in LIKE / INSTR / SUBSTR only (`cachesResult`), behind `r.cacheVal`, and
the `cachedVal != nil` short cut sits in front of `compile`. -/
theorem facts_state_writers :
    (∀ fn : Fn, Generated.C33.stateWrites.filterMap (fun w => if w.1 = recvOf fn then some w.2 else none) =
      [("WithChildren", "re"), ("compile", "cacheRegex"), ("compile", "cacheVal"), ("compile", "re,compileErr"),
       ("compile", "compileErr"), ("compile", "re,compileErr")] ++ (if cachesResult fn then [("Eval", "cachedVal")] else [])) ∧
    Generated.C33.stateWrites.length = 27 ∧
    (∀ fn : Fn, Generated.C33.evalHead.lookup (recvOf fn) =
      some ["if r.cachedVal != nil { return r.cachedVal, nil }", "r.compile(ctx, row)"]) ∧
    (∀ fn : Fn, Generated.C33.cachedValGuards.lookup (recvOf fn) = some (if cachesResult fn then ["r.cacheVal"] else [])) := by
  refine ⟨?_, by decide, ?_, ?_⟩ <;> intro fn <;> cases fn <;> decide

end Gms.C33
