/-
C48 — Guarded goroutines turn panics into errors.
-/
import Gms.Model.Errguard
import Gms.Generated.C48

namespace Gms.C48
open Gms.Errguard
variable {E P : Type}

/-- The premises of the model, re-read from errguard.go on this run: the closure passed to
`g.Go` has a named error result, its first statement is a `defer` of a function literal that
calls `recover()`, tests it against nil and assigns the named result, and its last statement is
`return fn()`; `RecoverAndLog` also calls `recover()` and does not re-panic. -/
theorem facts_match :
    Gms.Generated.C48.goCallsGroupGo = true ∧ Gms.Generated.C48.namedResult = "err" ∧
    Gms.Generated.C48.firstStmtIsDeferRecover = true ∧ Gms.Generated.C48.recoverAssignsNamedResult = true ∧
    Gms.Generated.C48.lastStmtReturnsFn = true ∧ Gms.Generated.C48.closureStmtCount = 2 ∧
    Gms.Generated.C48.noRepanic = true ∧ Gms.Generated.C48.recoverAndLogRecovers = true := by decide

/-- An ordinary returned error is propagated unchanged (identity, not wrapped); nil stays nil. -/
theorem guard_preserves_error (e : Option E) :
    guard (Outcome.ret e : Outcome E P) = e.map GErr.same := by
  cases e <;> rfl

/-- A panic, with any panic value, becomes a (non-nil) error built from that value. -/
theorem guard_panic_is_error (v : P) : guard (Outcome.panic v : Outcome E P) = some (GErr.recovered v) := rfl

/-- The guarded closure returns nil iff the function returned nil. -/
theorem guard_none_iff (o : Outcome E P) : guard o = none ↔ o = Outcome.ret none := by
  cases o with
  | ret e => cases e <;> simp [Errguard.guard]
  | panic v => simp [Errguard.guard]

/-- `Wait` is nil iff every function returned nil — for every completion order. -/
theorem wait_none_iff (order : List (Outcome E P)) :
    wait order = none ↔ ∀ o ∈ order, o = Outcome.ret none := by
  simp [wait, List.findSome?_eq_none_iff, guard_none_iff]

/-- `Wait` returns the guarded result of the first goroutine, in completion order, that did
not return nil. -/
theorem wait_first (pre : List (Outcome E P)) (o : Outcome E P) (post : List (Outcome E P))
    (hpre : ∀ p ∈ pre, p = Outcome.ret none) (ho : o ≠ Outcome.ret none) :
    wait (pre ++ o :: post) = guard o := by
  induction pre with
  | nil =>
    simp only [wait, List.nil_append, List.findSome?_cons]
    cases h : guard o with
    | none => exact absurd ((guard_none_iff o).mp h) ho
    | some g => rfl
  | cons p pre ih =>
    have hp : p = Outcome.ret none := hpre p (by simp)
    subst hp
    have := ih (fun q hq => hpre q (by simp [hq]))
    simpa [wait, List.findSome?_cons, Errguard.guard] using this

/-- Whatever the schedule, a non-nil `Wait` result is the guarded result of one of the
functions: an own error of a function that returned it, or the recovered value of one that
panicked. -/
theorem wait_mem (order : List (Outcome E P)) (g : GErr E P) (h : wait order = some g) :
    ∃ o ∈ order, guard o = some g := by
  simp only [wait] at h
  obtain ⟨o, ho, hg⟩ := List.exists_of_findSome?_eq_some h
  exact ⟨o, ho, hg⟩

/-- Nil-ness of `Wait` does not depend on the schedule (any permutation of completion order). -/
theorem wait_none_perm (o₁ o₂ : List (Outcome E P)) (hp : o₁.Perm o₂) :
    wait o₁ = none ↔ wait o₂ = none := by
  rw [wait_none_iff, wait_none_iff]
  constructor
  · intro h o ho; exact h o (hp.mem_iff.mpr ho)
  · intro h o ho; exact h o (hp.mem_iff.mp ho)

/-- Nested groups compose: a function that runs an inner guarded group and returns its `Wait()`
never panics, and the outer `Wait` is nil iff all inner functions returned nil. -/
theorem nested_none_iff (inner : List (Outcome E P)) :
    wait [(nested inner : Outcome (GErr E P) P)] = none ↔ ∀ o ∈ inner, o = Outcome.ret none := by
  rw [wait_none_iff]
  simp only [List.mem_singleton, forall_eq, nested]
  constructor
  · intro h
    have : wait inner = none := by injection h
    exact (wait_none_iff inner).mp this
  · intro h
    rw [(wait_none_iff inner).mpr h]

/-- Non-vacuity: a schedule in which a panic completes first, then an error. -/
example : wait ([.ret none, .panic 7, .ret (some 3)] : List (Outcome Nat Nat)) = some (.recovered 7) := by
  decide
example : wait ([.ret none, .ret (some 3), .panic 7] : List (Outcome Nat Nat)) = some (.same 3) := by
  decide

end Gms.C48
