/-
C49 — Name suggestions pick a closest candidate.

Property theorems (see DESIGN.md §6 C49). Helper lemmas are in the `Lemmas` section; the
property theorems are at the end, in the `Gms.C49` namespace, and are the ones audited.
-/
import Gms.Model.Similar
import Gms.Generated.C49

namespace Gms.Similar
variable {α : Type} [DecidableEq α]

/-! ## Lemmas: the two-row DP computes the recursive distance -/

/-- Values of `f` on the reversed prefixes of `t` stacked on `acc`, without the first. -/
def tailSpec (f : List α → Nat) : List α → List α → List Nat
  | _, [] => []
  | acc, b :: t => f (b :: acc) :: tailSpec f (b :: acc) t

def rowSpec (f : List α → Nat) (acc t : List α) : List Nat := f acc :: tailSpec f acc t

theorem lev_nil_right (sub : Nat) (s : List α) : lev sub s [] = s.length := by
  induction s with
  | nil => rfl
  | cons a s ih => simp [lev, levRow, ih]

theorem nextRowAux_spec (sub : Nat) (a : α) (f : List α → Nat) (t acc : List α) :
    nextRowAux sub a t (f acc :: tailSpec f acc t) (levRow sub a f acc)
      = tailSpec (levRow sub a f) acc t := by
  induction t generalizing acc with
  | nil => simp [nextRowAux, tailSpec]
  | cons b t ih =>
    simp only [tailSpec, nextRowAux]
    have h := ih (b :: acc)
    simp only [levRow] at h ⊢
    rw [h]

theorem nextRow_spec (sub : Nat) (a : α) (f : List α → Nat) (t : List α) :
    nextRow sub a t (rowSpec f [] t) (f [] + 1) = rowSpec (levRow sub a f) [] t := by
  unfold nextRow rowSpec
  have h := nextRowAux_spec sub a f t []
  simp only [levRow] at h
  rw [h]
  simp [levRow]

theorem rows_spec (sub : Nat) (t s p : List α) :
    rows sub t s (rowSpec (lev sub p) [] t) p.length = rowSpec (lev sub (s.reverse ++ p)) [] t := by
  induction s generalizing p with
  | nil => simp [rows]
  | cons a s ih =>
    simp only [rows]
    have h := nextRow_spec sub a (lev sub p) t
    rw [lev_nil_right] at h
    rw [h]
    have h2 := ih (a :: p)
    simp only [List.length_cons] at h2
    have e : levRow sub a (lev sub p) = lev sub (a :: p) := by
      funext x; simp [lev]
    rw [e, h2]
    simp

theorem tailSpec_length (acc t : List α) :
    tailSpec (fun x => x.length) acc t = List.range' (acc.length + 1) t.length := by
  induction t generalizing acc with
  | nil => simp [tailSpec]
  | cons b t ih => simp [tailSpec, ih, List.range'_succ]

theorem range_eq_rowSpec (sub : Nat) (t : List α) :
    List.range (t.length + 1) = rowSpec (lev sub ([] : List α)) [] t := by
  have e : lev sub ([] : List α) = fun x => x.length := by funext x; simp [lev]
  rw [e, rowSpec, tailSpec_length, List.range_eq_range', List.range'_succ]
  simp

theorem rowSpec_getLast (f : List α → Nat) (acc t : List α) :
    (f acc :: tailSpec f acc t).getLast? = some (f (t.reverse ++ acc)) := by
  induction t generalizing acc with
  | nil => simp [tailSpec]
  | cons b t ih =>
    simp only [tailSpec]
    rw [List.getLast?_cons_cons, ih]
    simp

/-! ## Lemmas: `Find` -/

theorem mapGet_mapAppend {β : Type} (m : List (Nat × List β)) (d d' : Nat) (x : β) :
    mapGet (mapAppend m d x) d' = if d' = d then mapGet m d' ++ [x] else mapGet m d' := by
  induction m with
  | nil =>
    by_cases h : d' = d
    · simp [mapAppend, mapGet, h]
    · have h' : ¬ d = d' := fun e => h e.symm
      simp [mapAppend, mapGet, h, h']
  | cons p rest ih =>
    obtain ⟨k, xs⟩ := p
    by_cases hk : k = d
    · subst hk
      by_cases h : d' = k
      · simp [mapAppend, mapGet, h]
      · have h' : ¬ k = d' := fun e => h e.symm
        simp [mapAppend, mapGet, h, h']
    · by_cases h : k = d'
      · subst h
        have : ¬ k = d := hk
        simp [mapAppend, mapGet, hk]
      · simp [mapAppend, mapGet, hk, h, ih]

/-- Minimum of the qualifying distances in a list (`none` if no name qualifies). -/
def minQual {β : Type} (dist : β → Nat) (skip : Nat) : List β → Option Nat
  | [] => none
  | n :: ns =>
    match minQual dist skip ns with
    | none => if dist n < skip then some (dist n) else none
    | some m => if dist n < skip ∧ dist n < m then some (dist n) else some m

theorem minQual_none {β : Type} (dist : β → Nat) (skip : Nat) (l : List β) :
    minQual dist skip l = none ↔ ∀ n ∈ l, skip ≤ dist n := by
  induction l with
  | nil => simp [minQual]
  | cons n ns ih =>
    simp only [minQual, List.mem_cons, forall_eq_or_imp]
    cases h : minQual dist skip ns with
    | none =>
      rw [h] at ih
      by_cases hn : dist n < skip
      · simp [hn]; omega
      · simp [hn]; exact ⟨by omega, ih.mp rfl⟩
    | some m =>
      rw [h] at ih
      have : ¬ ∀ n ∈ ns, skip ≤ dist n := fun hh => by simpa using ih.mpr hh
      dsimp only
      split <;> simp [this]

theorem minQual_some {β : Type} (dist : β → Nat) (skip : Nat) (l : List β) (m : Nat)
    (h : minQual dist skip l = some m) :
    (∃ x ∈ l, dist x = m) ∧ m < skip ∧ ∀ n ∈ l, dist n < skip → m ≤ dist n := by
  induction l generalizing m with
  | nil => simp [minQual] at h
  | cons n ns ih =>
    simp only [minQual] at h
    cases hq : minQual dist skip ns with
    | none =>
      rw [hq] at h
      have hall := (minQual_none dist skip ns).mp hq
      by_cases hn : dist n < skip
      · simp [hn] at h
        subst h
        refine ⟨⟨n, by simp, rfl⟩, hn, ?_⟩
        intro k hk hks
        rcases List.mem_cons.mp hk with rfl | hk'
        · exact Nat.le_refl _
        · have := hall k hk'; omega
      · simp [hn] at h
    | some m' =>
      rw [hq] at h
      dsimp only at h
      obtain ⟨⟨x, hx, hxm⟩, hlt, hmin⟩ := ih m' hq
      by_cases hc : dist n < skip ∧ dist n < m'
      · simp [hc] at h
        subst h
        refine ⟨⟨n, by simp, rfl⟩, hc.1, ?_⟩
        intro k hk hks
        rcases List.mem_cons.mp hk with rfl | hk'
        · exact Nat.le_refl _
        · have := hmin k hk' hks; omega
      · rw [if_neg hc] at h
        simp at h
        subst h
        refine ⟨⟨x, by simp [hx], hxm⟩, hlt, ?_⟩
        intro k hk hks
        rcases List.mem_cons.mp hk with rfl | hk'
        · omega
        · exact hmin k hk' hks

/-- Loop invariant of `Find`, stated for the fold over `p.reverse`-free form: after the names
`p` have been processed from state `st0` satisfying the invariant for `q`, the state
satisfies it for `q ++ p`. -/
structure FindInv {β : Type} (dist : β → Nat) (skip : Nat) (q : List β) (st : FindState β) : Prop where
  minD : st.minD = minQual dist skip q.reverse
  get : ∀ d, mapGet st.m d = q.filter (fun n => decide (dist n = d) && decide (dist n < skip))

theorem minQual_reverse_snoc {β : Type} (dist : β → Nat) (skip : Nat) (q : List β) (n : β) :
    minQual dist skip (q ++ [n]).reverse =
      (match minQual dist skip q.reverse with
       | none => if dist n < skip then some (dist n) else none
       | some m => if dist n < skip ∧ dist n < m then some (dist n) else some m) := by
  simp [minQual]

theorem findStep_inv {β : Type} (dist : β → Nat) (skip : Nat) (q : List β) (st : FindState β)
    (n : β) (h : FindInv dist skip q st) : FindInv dist skip (q ++ [n]) (findStep dist skip st n) := by
  obtain ⟨hm, hg⟩ := h
  constructor
  · rw [minQual_reverse_snoc]
    unfold findStep
    by_cases hs : dist n ≥ skip
    · have : ¬ dist n < skip := by omega
      simp only [hs, if_true]
      rw [hm]
      cases minQual dist skip q.reverse <;> simp [this]
    · have hlt : dist n < skip := by omega
      simp only [hs, if_false]
      rw [hm]
      cases minQual dist skip q.reverse with
      | none => simp [hlt]
      | some m =>
        by_cases hd : dist n < m
        · simp [hlt, hd]
        · simp [hd]
  · intro d
    unfold findStep
    by_cases hs : dist n ≥ skip
    · have : ¬ dist n < skip := by omega
      simp only [hs, if_true]
      rw [hg d]
      simp [List.filter_append, this]
    · have hlt : dist n < skip := by omega
      simp only [hs, if_false]
      rw [mapGet_mapAppend, hg d]
      by_cases hd : d = dist n
      · subst hd; simp [List.filter_append, hlt]
      · have hd' : ¬ dist n = d := fun e => hd e.symm
        simp [List.filter_append, hd, hd']

theorem foldl_inv {β : Type} (dist : β → Nat) (skip : Nat) (p q : List β) (st : FindState β)
    (h : FindInv dist skip q st) : FindInv dist skip (q ++ p) (p.foldl (findStep dist skip) st) := by
  induction p generalizing q st with
  | nil => simpa using h
  | cons n p ih =>
    simp only [List.foldl_cons]
    have := ih (q ++ [n]) _ (findStep_inv dist skip q st n h)
    simpa using this

theorem minQual_perm_invariant {β : Type} (dist : β → Nat) (skip : Nat) (l : List β) (m : Nat)
    (h : minQual dist skip l.reverse = some m) :
    (∃ x ∈ l, dist x = m) ∧ m < skip ∧ ∀ n ∈ l, dist n < skip → m ≤ dist n := by
  have := minQual_some dist skip l.reverse m h
  simpa using this

end Gms.Similar

/-! ## Property theorems -/
namespace Gms.C49
open Gms.Similar

/-- The substitution cost and threshold the model is instantiated with are the ones the
extractor read from the source on this run. -/
theorem facts_match : Gms.Generated.C49.substitutionCost = 2 ∧ Gms.Generated.C49.distanceSkipped = 3
    ∧ Gms.Generated.C49.skipComparison = ">=" ∧ Gms.Generated.C49.insertDeleteCosts = [1, 1] := by
  decide

/-- `distanceForStrings` (two-row DP) computes the recursive edit distance, for all strings. -/
theorem dp_eq_rec {α : Type} [DecidableEq α] (sub : Nat) (s t : List α) :
    distDP sub s t = lev sub s.reverse t.reverse := by
  unfold distDP
  rw [range_eq_rowSpec sub t]
  have h := rows_spec sub t s []
  simp only [List.length_nil, List.append_nil] at h
  rw [h, rowSpec, rowSpec_getLast]
  simp

/-- The recursive distance is a genuine distance-like function: zero on equal strings. -/
theorem lev_self {α : Type} [DecidableEq α] (sub : Nat) (s : List α) : lev sub s s = 0 := by
  induction s with
  | nil => rfl
  | cons a s ih => simp [lev, levRow, cost, ih]

/-- `Find` suggests nothing iff the name is empty or no candidate is within the threshold. -/
theorem find_none_iff {β : Type} (dist : β → Nat) (skip : Nat) (e : Bool) (names : List β) :
    find dist skip e names = none ↔ e = true ∨ ∀ n ∈ names, skip ≤ dist n := by
  unfold find
  cases e with
  | true => simp
  | false =>
    have inv := foldl_inv dist skip names [] { minD := none, m := [] }
      ⟨by simp [minQual], by intro d; simp [mapGet]⟩
    simp only [List.nil_append] at inv
    simp only [Bool.false_eq_true, if_false, false_or]
    rw [← (show (∀ n ∈ names.reverse, skip ≤ dist n) ↔ ∀ n ∈ names, skip ≤ dist n by simp)]
    rw [← minQual_none, ← inv.minD]
    cases (List.foldl (findStep dist skip) { minD := none, m := [] } names).minD <;> simp

/-- Soundness: every suggested name is a candidate within the threshold whose distance is
minimal among all candidates within the threshold. -/
theorem find_sound {β : Type} (dist : β → Nat) (skip : Nat) (e : Bool) (names l : List β)
    (h : find dist skip e names = some l) :
    ∀ x ∈ l, x ∈ names ∧ dist x < skip ∧ ∀ n ∈ names, dist n < skip → dist x ≤ dist n := by
  unfold find at h
  cases e with
  | true => simp at h
  | false =>
    have inv := foldl_inv dist skip names [] { minD := none, m := [] }
      ⟨by simp [minQual], by intro d; simp [mapGet]⟩
    simp only [List.nil_append] at inv
    simp only [Bool.false_eq_true, if_false] at h
    cases hm : (List.foldl (findStep dist skip) { minD := none, m := [] } names).minD with
    | none => rw [hm] at h; simp at h
    | some d =>
      rw [hm] at h
      simp only [Option.some.injEq] at h
      have hq := minQual_perm_invariant dist skip names d (by rw [← inv.minD, hm])
      intro x hx
      rw [← h, inv.get d] at hx
      simp only [List.mem_filter, Bool.and_eq_true, decide_eq_true_eq] at hx
      obtain ⟨hxn, hxd, hxs⟩ := hx
      refine ⟨hxn, hxs, ?_⟩
      intro n hn hns
      rw [hxd]; exact hq.2.2 n hn hns

/-- Completeness: *all* closest candidates are suggested, in input order, and the list is
non-empty. -/
theorem find_complete {β : Type} (dist : β → Nat) (skip : Nat) (e : Bool) (names l : List β)
    (h : find dist skip e names = some l) :
    l ≠ [] ∧ ∃ d, d < skip ∧ (∀ n ∈ names, dist n < skip → d ≤ dist n) ∧
      l = names.filter (fun n => decide (dist n = d)) := by
  unfold find at h
  cases e with
  | true => simp at h
  | false =>
    have inv := foldl_inv dist skip names [] { minD := none, m := [] }
      ⟨by simp [minQual], by intro d; simp [mapGet]⟩
    simp only [List.nil_append] at inv
    simp only [Bool.false_eq_true, if_false] at h
    cases hm : (List.foldl (findStep dist skip) { minD := none, m := [] } names).minD with
    | none => rw [hm] at h; simp at h
    | some d =>
      rw [hm] at h
      simp only [Option.some.injEq] at h
      have hq := minQual_perm_invariant dist skip names d (by rw [← inv.minD, hm])
      obtain ⟨⟨x, hx, hxd⟩, hds, hmin⟩ := hq
      have hl : l = names.filter (fun n => decide (dist n = d)) := by
        rw [← h, inv.get d]
        apply List.filter_congr
        intro n _
        by_cases hnd : dist n = d
        · simp [hnd, hds]
        · simp [hnd]
      refine ⟨?_, d, hds, hmin, hl⟩
      rw [hl]
      intro hnil
      have : x ∈ names.filter (fun n => decide (dist n = d)) := by
        simp [List.mem_filter, hx, hxd]
      rw [hnil] at this
      simp at this

/-- Non-vacuity: a concrete candidate list where two names tie for the minimum. -/
example : find (fun (n : List Nat) => lev 2 n.reverse [1, 2, 3].reverse) 3 false
    [[1, 2, 3, 4], [9, 9, 9, 9, 9], [1, 2], [7]] = some [[1, 2, 3, 4], [1, 2]] := by
  decide

example : distDP 2 [1, 2, 3, 4] [1, 2, 3] = 1 ∧ distDP 2 [1, 2] [1, 3] = 2 := by decide

end Gms.C49
