/-
C39 — Privilege checks allow exactly what the grants permit.

Model: Gms/Model/Priv.lean (Impl: privilege_set.go, mysql_db.go, auth_default.go, plan/grant.go,
plan/revoke.go, rowexec/priv.go; Spec: a privilege set is a set of grants). Lemmas: Gms/Lemmas/Priv.lean.
The property theorems are in `namespace Gms.C39` at the end.
-/
import Gms.Lemmas.Priv
import Gms.Generated.C39

namespace Gms.Priv

/-- A `switch priv.Type` table of grant.go / revoke.go, as (plan privilege, sql privilege) pairs, is
the model's level table `types` with the model's conversion `planToSql`. -/
def casesOk (cases : List (Nat × Nat)) (types : List Nat) : Bool :=
  cases.length == types.length &&
  cases.all (fun c => types.contains c.1 && planToSql c.1 == some c.2) &&
  types.all (fun t => cases.any (fun c => c.1 == t))

def simpleAuthNames : List String :=
  ["ALTER", "ALTER_ROUTINE", "CREATE", "CREATE_ROUTINE", "CREATE_TEMP", "CREATE_USER", "CREATE_VIEW", "DELETE", "DROP", "EVENT",
   "FILE", "FOREIGN_KEY", "INDEX", "INSERT", "LOCK", "PROCESS", "RELOAD", "REPLACE", "REPLICATION_CLIENT", "SELECT", "SUPER",
   "TRIGGER", "UPDATE"]

/-- The case labels of `HandleAuth`'s first switch whose body is not just `privilegeTypes = …`, in
source order; the model has a branch for each (`SHOW`'s body is empty: no privilege needed). -/
def specialAuthTypes : List String :=
  ["IGNORE", "ALTER_USER", "BINLOG", "CALL", "CREATE_ROLE", "DROP_ROLE", "GRANT_PRIVILEGE", "GRANT_PROXY", "GRANT_ROLE",
   "RENAME", "REPLICATION", "REVOKE_ALL", "REVOKE_PRIVILEGE", "REVOKE_PROXY", "REVOKE_ROLE", "SHOW",
   "SHOW_CREATE_PROCEDURE", "VISIBLE", "default"]

end Gms.Priv

namespace Gms.C39
open Gms.Priv Gms.Generated.C39

/-! ## Facts regenerated from the source on this run -/

/-- `sql.PrivilegeType` and `plan.PrivilegeType` are the enumerations the model's constants number
(`P_Select = 0 … P_DropRole = 30`; `PT_All = 0 … PT_Usage = 32, PT_Dynamic = 33`). -/
theorem facts_enums :
    enumsAgreeAtRuntime = true ∧
    sqlPrivNames = ["PrivilegeType_Select", "PrivilegeType_Insert", "PrivilegeType_Update", "PrivilegeType_Delete",
      "PrivilegeType_Create", "PrivilegeType_Drop", "PrivilegeType_Reload", "PrivilegeType_Shutdown", "PrivilegeType_Process",
      "PrivilegeType_File", "PrivilegeType_GrantOption", "PrivilegeType_References", "PrivilegeType_Index", "PrivilegeType_Alter",
      "PrivilegeType_ShowDB", "PrivilegeType_Super", "PrivilegeType_CreateTempTable", "PrivilegeType_LockTables",
      "PrivilegeType_Execute", "PrivilegeType_ReplicationSlave", "PrivilegeType_ReplicationClient", "PrivilegeType_CreateView",
      "PrivilegeType_ShowView", "PrivilegeType_CreateRoutine", "PrivilegeType_AlterRoutine", "PrivilegeType_CreateUser",
      "PrivilegeType_Event", "PrivilegeType_Trigger", "PrivilegeType_CreateTablespace", "PrivilegeType_CreateRole",
      "PrivilegeType_DropRole"] ∧
    planPrivNames = ["PrivilegeType_All", "PrivilegeType_Alter", "PrivilegeType_AlterRoutine", "PrivilegeType_Create",
      "PrivilegeType_CreateRole", "PrivilegeType_CreateRoutine", "PrivilegeType_CreateTablespace",
      "PrivilegeType_CreateTemporaryTables", "PrivilegeType_CreateUser", "PrivilegeType_CreateView", "PrivilegeType_Delete",
      "PrivilegeType_Drop", "PrivilegeType_DropRole", "PrivilegeType_Event", "PrivilegeType_Execute", "PrivilegeType_File",
      "PrivilegeType_GrantOption", "PrivilegeType_Index", "PrivilegeType_Insert", "PrivilegeType_LockTables",
      "PrivilegeType_Process", "PrivilegeType_References", "PrivilegeType_Reload", "PrivilegeType_ReplicationClient",
      "PrivilegeType_ReplicationSlave", "PrivilegeType_Select", "PrivilegeType_ShowDatabases", "PrivilegeType_ShowView",
      "PrivilegeType_Shutdown", "PrivilegeType_Super", "PrivilegeType_Trigger", "PrivilegeType_Update", "PrivilegeType_Usage",
      "PrivilegeType_Dynamic"] ∧
    validDynamicConsts = ["DynamicPrivilege_ReplicationSlaveAdmin", "DynamicPrivilege_CloneAdmin"] := by
  decide

/-- `convertToSqlPrivilegeType` and the `switch` tables of `Grant.Handle*Privileges` /
`Revoke.Handle*Privileges` are the model's `planToSql` and level tables, with the expected methods. -/
theorem facts_level_tables :
    casesOk convertCases globalTypes = true ∧ convertSpecials = [PT_All, PT_Usage, PT_Dynamic] ∧
    casesOk grantHandleGlobalPrivilegesCases globalTypes = true ∧ grantHandleGlobalPrivilegesSpecials = [PT_All, PT_Usage, PT_Dynamic, 99] ∧
    casesOk grantHandleDatabasePrivilegesCases dbTypes = true ∧ grantHandleDatabasePrivilegesSpecials = [PT_All, PT_Usage, PT_Dynamic, 99] ∧
    casesOk grantHandleTablePrivilegesCases tblTypes = true ∧ grantHandleTablePrivilegesSpecials = [PT_All, PT_Usage, PT_Dynamic, 99] ∧
    casesOk grantHandleRoutinePrivilegesCases rtnTypes = true ∧ grantHandleRoutinePrivilegesSpecials = [99] ∧
    casesOk revokeHandleGlobalPrivilegesCases globalTypes = true ∧ revokeHandleGlobalPrivilegesSpecials = [PT_All, PT_Usage, PT_Dynamic, 99] ∧
    casesOk revokeHandleDatabasePrivilegesCases dbTypes = true ∧ revokeHandleDatabasePrivilegesSpecials = [PT_All, PT_Usage, PT_Dynamic, 99] ∧
    casesOk revokeHandleTablePrivilegesCases tblTypes = true ∧ revokeHandleTablePrivilegesSpecials = [PT_All, PT_Usage, PT_Dynamic, 99] ∧
    casesOk revokeHandleRoutinePrivilegesCases rtnTypes = true ∧ revokeHandleRoutinePrivilegesSpecials = [99] ∧
    [convertMethod, grantHandleGlobalPrivilegesMethod, grantHandleDatabasePrivilegesMethod, grantHandleTablePrivilegesMethod,
     grantHandleRoutinePrivilegesMethod, revokeHandleGlobalPrivilegesMethod, revokeHandleDatabasePrivilegesMethod,
     revokeHandleTablePrivilegesMethod, revokeHandleRoutinePrivilegesMethod] =
    ["append", "AddGlobalStatic", "AddDatabase", "AddTable", "AddRoutine", "RemoveGlobalStatic", "RemoveDatabase", "RemoveTable",
     "RemoveRoutine"] := by
  decide

/-- The privilege lists behind `ALL`: what GRANT ALL adds and what the `CheckAuth` methods demand. -/
theorem facts_all_lists :
    grantAllGlobal = allGlobal ∧ grantAllDb = allDb ∧ grantAllTbl = allTbl ∧
    grantCheckAllGlobal = allGlobalWithGrant ∧ grantCheckAllDb = allDbWithGrant ∧ grantCheckAllTbl = allTblWithGrant ∧
    revokeCheckAllGlobal = allGlobalWithGrant ∧ revokeCheckAllDb = allDbWithGrant ∧ revokeCheckAllTbl = allTblWithGrant := by
  decide

/-- `HandleAuth`: AuthType ↦ required privileges (first switch), its other case labels, the TargetType
cases (second switch), the parser's string constants, and the conditions tested by `UserHasPrivileges`. -/
theorem facts_handle_auth :
    handleAuthSimple.map (·.1) = simpleAuthNames ∧
    (∀ e ∈ handleAuthSimple, simpleAuth e.1 = some e.2) ∧
    handleAuthSpecial = specialAuthTypes ∧
    handleAuthTargetTypes = ["AuthTargetType_Ignore", "AuthTargetType_DatabaseIdentifiers", "AuthTargetType_Global",
      "AuthTargetType_MultipleTableIdentifiers", "AuthTargetType_SingleTableIdentifier", "AuthTargetType_TableColumn",
      "AuthTargetType_TODO", "default"] ∧
    parserAuthConsts = [("AuthType_SELECT", "SELECT", ""), ("AuthType_IGNORE", "IGNORE", ""), ("AuthType_LOCK", "LOCK", ""),
      ("AuthType_REPLACE", "REPLACE", ""), ("AuthType_FOREIGN_KEY", "FOREIGN_KEY", ""), ("AuthType_VISIBLE", "VISIBLE", ""),
      ("AuthTargetType_Ignore", "IGNORE", ""), ("AuthTargetType_DatabaseIdentifiers", "DB_IDENTS", ""),
      ("AuthTargetType_Global", "GLOBAL", ""), ("AuthTargetType_MultipleTableIdentifiers", "DB_TABLE_IDENTS", ""),
      ("AuthTargetType_SingleTableIdentifier", "DB_TABLE_IDENT", ""), ("AuthTargetType_TableColumn", "DB_TABLE_COLUMN_IDENT", ""),
      ("AuthTargetType_TODO", "TODO", "")] ∧
    userHasPrivilegesConditions = ["!db.Enabled()", "database == \"\"", "dbSet.Has(operationPriv)", "privSet.Has(operationPriv)",
      "privSet.Has(sql.PrivilegeType_Super)", "privSet.HasDynamic(operationPriv)", "routineSet.Has(operationPriv)",
      "tblSet.Has(operationPriv)"] := by
  decide

/-- Shape of the privilege lookups of `UserHasPrivileges`: every level (global, database, table, routine)
is asked about ONE static privilege of the operation at a time, inside the loop over
`operation.StaticPrivileges` (the model's `op.statics.all (fun p => … || … || … || …)`), never about the
whole list at once — that reading (`opAllowedOneLevel` below) is a different decision
(`oneLevel_differs`). -/
theorem facts_per_privilege_lookups :
    userHasPrivilegesLookups = [
      ("", "privSet.Has", "sql.PrivilegeType_Super"),
      ("operationPriv := range operation.StaticPrivileges", "privSet.Has", "operationPriv"),
      ("operationPriv := range operation.StaticPrivileges", "dbSet.Has", "operationPriv"),
      ("operationPriv := range operation.StaticPrivileges", "tblSet.Has", "operationPriv"),
      ("operationPriv := range operation.StaticPrivileges", "routineSet.Has", "operationPriv"),
      ("operationPriv := range operation.DynamicPrivileges", "privSet.HasDynamic", "operationPriv")] := by
  decide

/-! ## The decision -/

/-- What `UserHasPrivileges` demands of one operation, in terms of the grants held. -/
def OpGranted (holds : Grant → Bool) (cur : String) (op : Op) : Prop :=
  (∀ p ∈ op.statics,
      holds (.glob p) = true ∨ holds (.db (lower (opDb cur op)) p) = true ∨
      holds (.tbl (lower (opDb cur op)) (lower op.tbl) p) = true ∨
      holds (.rtn (lower (opDb cur op)) (lower op.rtn) op.isProc p) = true) ∧
  (∀ n ∈ op.dynamics, holds (.dyn (lower n)) = true)

/-- **Decision logic of the Impl model** (`MySQLDb.UserHasPrivileges`): the operations are allowed
exactly when the active set holds global SUPER, or holds, for every operation, each static privilege
at the global, database, table or routine level of the operation's subject and each dynamic privilege
globally. -/
theorem allow_iff (ps : PrivSet) (cur : String) (ops : List Op) :
    userHasPrivileges ps.view cur ops = true ↔
      ps.holds (.glob P_Super) = true ∨ ∀ op ∈ ops, OpGranted ps.holds cur op := by
  have e1 : ∀ p, ps.view.hasGlobal p = ps.holds (.glob p) := fun _ => rfl
  have e2 : ∀ n, ps.view.hasDyn n = ps.holds (.dyn (lower n)) := fun _ => rfl
  have e3 : ∀ d p, ps.view.hasDb d p = ps.holds (.db (lower d) p) := fun _ _ => rfl
  have e4 : ∀ d t p, ps.view.hasTbl d t p = ps.holds (.tbl (lower d) (lower t) p) := fun _ _ _ => rfl
  have e5 : ∀ d r b p, ps.view.hasRtn d r b p = ps.holds (.rtn (lower d) (lower r) b p) := fun _ _ _ _ => rfl
  unfold userHasPrivileges opAllowed OpGranted
  simp only [Bool.or_eq_true, List.all_eq_true, Bool.and_eq_true, e1, e2, e3, e4, e5, or_assoc]

/-- The same decision on the Spec (a set of grants). -/
theorem allow_iff_spec (gs : GSet) (cur : String) (ops : List Op) :
    userHasPrivileges gs.view cur ops = true ↔
      Grant.glob P_Super ∈ gs ∨ ∀ op ∈ ops, OpGranted (fun g => decide (g ∈ gs)) cur op := by
  unfold userHasPrivileges opAllowed OpGranted
  simp only [Bool.or_eq_true, List.all_eq_true, Bool.and_eq_true, GSet.view, decide_eq_true_eq, or_assoc]

/-- Every answer the authorization code can get from an Impl privilege set equals the answer it gets
from the set of grants the Impl set denotes; hence every decision is the same. -/
theorem decisions_refine {ps : PrivSet} {gs : GSet} (h : Refines ps gs) (cur : String) (ops : List Op) :
    userHasPrivileges ps.view cur ops = userHasPrivileges gs.view cur ops ∧
    routineAdminCheck ps.view cur ops = routineAdminCheck gs.view cur ops ∧
    (∀ d t, authCheckNames ps.view cur d t = authCheckNames gs.view cur d t) ∧
    (∀ keys edges ui adminOnly stmt at_ tt names,
      handleAuth ps.view cur keys edges ui adminOnly stmt at_ tt names =
      handleAuth gs.view cur keys edges ui adminOnly stmt at_ tt names) := by
  rw [view_eq h]
  exact ⟨rfl, rfl, fun _ _ => rfl, fun _ _ _ _ _ _ _ _ => rfl⟩


/-! ## GRANT and REVOKE on one privilege set -/

/-- **GRANT adds exactly the named grants** at every level (Impl model, for all sets and names):
afterwards a grant is held iff it was held before or is one of those named. -/
theorem grant_exact (ps : PrivSet) (g : Grant) :
    (∀ privs, (ps.addGlobal privs).holds g = (ps.holds g || decide (g ∈ privs.map Grant.glob))) ∧
    (∀ wgo names, (ps.addDynamic wgo names).holds g = (ps.holds g || decide (g ∈ names.map (fun n => Grant.dyn (lower n))))) ∧
    (∀ d privs, (ps.addDb d privs).holds g = (ps.holds g || decide (g ∈ privs.map (Grant.db (lower d))))) ∧
    (∀ d t privs, (ps.addTbl d t privs).holds g = (ps.holds g || decide (g ∈ privs.map (Grant.tbl (lower d) (lower t))))) ∧
    (∀ d r b privs, (ps.addRtn d r b privs).holds g = (ps.holds g || decide (g ∈ privs.map (Grant.rtn (lower d) (lower r) b)))) :=
  ⟨fun _ => PrivSet.holds_addGlobal .., fun _ _ => PrivSet.holds_addDynamic .., fun _ _ => PrivSet.holds_addDb ..,
   fun _ _ _ => PrivSet.holds_addTbl .., fun _ _ _ _ => PrivSet.holds_addRtn ..⟩

/-- **REVOKE removes exactly the named grants and nothing else** at the global, table and routine
level, and `REVOKE ALL` at the global and table level removes exactly that level (Impl model). The
database level is `revoke_db_exact_partial` / `finding_db_revoke_drops_lower_grants`. -/
theorem revoke_exact (ps : PrivSet) (g : Grant) :
    (∀ privs, (ps.remGlobal privs).holds g = (ps.holds g && !decide (g ∈ privs.map Grant.glob))) ∧
    (∀ names, (ps.remDynamic names).holds g = (ps.holds g && !decide (g ∈ names.map Grant.dyn))) ∧
    (∀ d t privs, (ps.remTbl d t privs).holds g = (ps.holds g && !decide (g ∈ privs.map (Grant.tbl (lower d) (lower t))))) ∧
    (∀ d r b privs, (ps.remRtn d r b privs).holds g = (ps.holds g && !decide (g ∈ privs.map (Grant.rtn (lower d) (lower r) b)))) ∧
    (ps.clearGlobal.holds g = (ps.holds g && !g.isGlobalLevel)) ∧
    (∀ d t, (ps.clearTbl d t).holds g = (ps.holds g && !g.isTbl (lower d) (lower t))) :=
  ⟨fun _ => PrivSet.holds_remGlobal .., fun _ => PrivSet.holds_remDynamic .., fun _ _ _ => PrivSet.holds_remTbl ..,
   fun _ _ _ _ => PrivSet.holds_remRtn .., PrivSet.holds_clearGlobal .., fun _ _ => PrivSet.holds_clearTbl ..⟩

/-- What the database-level REVOKE of the Impl model really does: when the database-level set of `d`
becomes empty the *whole* entry of `d` disappears — table and routine grants included. -/
theorem revoke_db_actual (ps : PrivSet) (d : String) (privs : List Priv) (g : Grant) :
    (ps.remDb d privs).holds g =
      (if ps.dbEmptied d privs then (ps.holds g && !g.atDb (lower d))
       else (ps.holds g && !decide (g ∈ privs.map (Grant.db (lower d))))) ∧
    (ps.clearDb d).holds g = (ps.holds g && !g.atDb (lower d)) :=
  ⟨PrivSet.holds_remDb .., PrivSet.holds_clearDb ..⟩

/- Full statement (FALSE for the unchanged code, see the finding below):
   theorem revoke_db_exact (ps d privs g) :
     (ps.remDb d privs).holds g = (ps.holds g && !decide (g ∈ privs.map (Grant.db (lower d)))) -/

/-- Guarded version: a database-level REVOKE (single privileges or ALL) removes exactly the named
database-level grants provided the account holds no table- or routine-level grant in that database. -/
theorem revoke_db_exact_partial (ps : PrivSet) (d : String) (privs : List Priv) (g : Grant)
    (hreg : ¬ holdsBelow ps d) :
    (ps.remDb d privs).holds g = (ps.holds g && !decide (g ∈ privs.map (Grant.db (lower d)))) ∧
    (ps.clearDb d).holds g = (ps.holds g && !g.isDbLevel (lower d)) := by
  constructor
  · -- via the refinement with the set of all grants `ps` holds, stated pointwise
    rw [PrivSet.holds_remDb]
    by_cases he : ps.dbEmptied d privs = true
    · simp only [he, if_true]
      rw [atDb_split]
      by_cases hgd : g.isDbLevel (lower d) = true
      · cases g <;> simp [Grant.isDbLevel] at hgd
        case db d' p =>
          subst hgd
          unfold PrivSet.dbEmptied at he
          cases hm : mget ps.dbs (lower d) with
          | none => simp [PrivSet.holds, hm]
          | some s =>
            rw [hm] at he
            simp only [isEmpty_iff_forall_not_mem, mem_premAll] at he
            by_cases hp : p ∈ s.privs
            · have : p ∈ privs := Classical.byContradiction (fun hn => he p ⟨hp, hn⟩)
              simp [Grant.isDbLevel, this]
            · simp [PrivSet.holds, hm, hp]
      · have hgd' : g.isDbLevel (lower d) = false := by simpa using hgd
        have hnm : decide (g ∈ privs.map (Grant.db (lower d))) = false := by
          simp only [decide_eq_false_iff_not, List.mem_map, not_exists, not_and]
          rintro p _ rfl
          simp [Grant.isDbLevel] at hgd
        rw [hnm, hgd']
        by_cases hb : g.belowDb (lower d) = true
        · have : ps.holds g = false := by
            cases hh : ps.holds g with
            | false => rfl
            | true => exact absurd ⟨g, hb, hh⟩ hreg
          simp [this]
        · have hb' : g.belowDb (lower d) = false := by simpa using hb
          simp [hb']
    · have he' : ps.dbEmptied d privs = false := by simpa using he
      simp [he']
  · rw [PrivSet.holds_clearDb, atDb_split]
    by_cases hb : g.belowDb (lower d) = true
    · have : ps.holds g = false := by
        cases hh : ps.holds g with
        | false => rfl
        | true => exact absurd ⟨g, hb, hh⟩ hreg
      simp [this]
    · have hb' : g.belowDb (lower d) = false := by simpa using hb
      simp [hb']

/-- **Finding F-C39-a** (region `db_revoke_drops_lower_grants`): for every database `d`, table `t` and
privileges `p`, `q`: an account holding only `p ON d.t` loses it by `REVOKE q ON d.* ` (and by
`REVOKE ALL ON d.*`) in the Impl model, whereas the Spec keeps it — so the Impl set no longer denotes
the Spec set. Replayed on the engine: `GRANT SELECT ON d.t TO u; REVOKE INSERT ON d.* FROM u`. -/
theorem finding_db_revoke_drops_lower_grants (d t : String) (p q : Priv) :
    let ps := implPS.addTbl implPS.empty d t [p]
    let gs := specPS.addTbl specPS.empty d t [p]
    let g := Grant.tbl (lower d) (lower t) p
    Refines ps gs ∧ ps.holds g = true ∧
    (implPS.remDb ps d [q]).holds g = false ∧ g ∈ specPS.remDb gs d [q] ∧
    (implPS.clearDb ps d).holds g = false ∧ g ∈ specPS.clearDb gs d ∧
    ¬ Refines (implPS.remDb ps d [q]) (specPS.remDb gs d [q]) := by
  intro ps gs g
  have hr : Refines ps gs := refines_addTbl refines_empty d t [p]
  have hg : ps.holds g = true := by
    show (PrivSet.addTbl {} d t [p]).holds g = true
    rw [PrivSet.holds_addTbl]; simp [g]
  have he : ps.dbEmptied d [q] = true := by
    show PrivSet.dbEmptied (PrivSet.addTbl {} d t [p]) d [q] = true
    simp [PrivSet.dbEmptied, PrivSet.addTbl, PrivSet.setDb, PrivSet.dbOrNew, mget_mset, mget, premAll, prem]
  have h1 : (implPS.remDb ps d [q]).holds g = false := by
    show (ps.remDb d [q]).holds g = false
    rw [PrivSet.holds_remDb, he]; simp [g, Grant.atDb]
  have h2 : g ∈ specPS.remDb gs d [q] := by
    simp [specPS, gs, g]
  have h3 : (implPS.clearDb ps d).holds g = false := by
    show (ps.clearDb d).holds g = false
    rw [PrivSet.holds_clearDb]; simp [g, Grant.atDb]
  have h4 : g ∈ specPS.clearDb gs d := by
    simp [specPS, gs, g, Grant.isDbLevel]
  refine ⟨hr, hg, h1, h2, h3, h4, ?_⟩
  intro hcon
  have := hcon g
  rw [h1] at this
  simp [h2] at this

/-! ## Statements that require several privileges -/

/-- An operation that requires several static privileges is decided privilege by privilege: it is
allowed exactly when each of its static privileges alone would be allowed on the same subject (and
the dynamic ones are held). Nothing couples the levels at which two different privileges are found. -/
theorem multi_priv_decomposes (v : View) (cur : String) (op : Op) :
    opAllowed v cur op =
      (op.statics.all (fun p => opAllowed v cur { op with statics := [p], dynamics := [] })
        && op.dynamics.all v.hasDyn) := by
  simp [opAllowed, opDb]

/-- Appending requirements: `[p₁ … pₙ] ++ [q₁ … qₘ]` is allowed iff both halves are. -/
theorem opAllowed_append (v : View) (cur : String) (op : Op) (ps qs : List Priv) :
    opAllowed v cur { op with statics := ps ++ qs } =
      (opAllowed v cur { op with statics := ps } && opAllowed v cur { op with statics := qs, dynamics := [] }) := by
  simp only [opAllowed, opDb, List.all_append, List.all_nil, Bool.and_true]
  cases List.all ps _ <;> cases List.all qs _ <;> simp

/-- The coupled reading (all static privileges of the operation found together at ONE level: all
global, or all on the database, or all on the table, or all on the routine). It is NOT what the code
and the Spec demand; it is defined here to state how it differs. -/
def opAllowedOneLevel (v : View) (cur : String) (op : Op) : Bool :=
  (op.statics.all v.hasGlobal || op.statics.all (v.hasDb (opDb cur op)) ||
    op.statics.all (v.hasTbl (opDb cur op) op.tbl) || op.statics.all (v.hasRtn (opDb cur op) op.rtn op.isProc))
  && op.dynamics.all v.hasDyn

/-- The coupled reading never allows more … -/
theorem oneLevel_imp_allowed (v : View) (cur : String) (op : Op)
    (h : opAllowedOneLevel v cur op = true) : opAllowed v cur op = true := by
  simp only [opAllowedOneLevel, opAllowed, Bool.and_eq_true, Bool.or_eq_true, List.all_eq_true] at h ⊢
  refine ⟨fun p hp => ?_, h.2⟩
  rcases h.1 with ((h1 | h1) | h1) | h1
  · exact Or.inl (Or.inl (Or.inl (h1 p hp)))
  · exact Or.inl (Or.inl (Or.inr (h1 p hp)))
  · exact Or.inl (Or.inr (h1 p hp))
  · exact Or.inr (h1 p hp)

/-- … and agrees with the real decision on every operation that needs at most one static privilege
(all the single-privilege statement classes): only multi-privilege statements can tell them apart. -/
theorem oneLevel_eq_of_single (v : View) (cur : String) (op : Op) (h : op.statics.length ≤ 1) :
    opAllowedOneLevel v cur op = opAllowed v cur op := by
  match hs : op.statics, h with
  | [], _ => simp [opAllowedOneLevel, opAllowed, hs]
  | [p], _ => simp [opAllowedOneLevel, opAllowed, hs]

/-- **Privileges held at different levels add up** (database + table): after `GRANT p ON d.*` and
`GRANT q ON d.t` — in this order or the other, on top of any set — the operation on `d.t` that needs
both `p` and `q` (REPLACE: INSERT+DELETE, LOCK TABLES, RENAME, a non-super GRANT) is allowed. -/
theorem split_levels_allowed (ps : PrivSet) (cur d t : String) (p q : Priv) (hd : d ≠ "") :
    userHasPrivileges ((ps.addDb d [p]).addTbl d t [q]).view cur [{ db := d, tbl := t, statics := [p, q] }] = true ∧
    userHasPrivileges ((ps.addTbl d t [q]).addDb d [p]).view cur [{ db := d, tbl := t, statics := [p, q] }] = true := by
  have e3 : ∀ (s : PrivSet) d p, s.view.hasDb d p = s.holds (.db (lower d) p) := fun _ _ _ => rfl
  have e4 : ∀ (s : PrivSet) d t p, s.view.hasTbl d t p = s.holds (.tbl (lower d) (lower t) p) := fun _ _ _ _ => rfl
  constructor <;>
  · simp only [userHasPrivileges, opAllowed, opDb, hd, List.all_cons, List.all_nil, Bool.and_true, if_false, e3, e4,
      PrivSet.holds_addTbl, PrivSet.holds_addDb]
    simp

/-- The same through a role: one privilege on the account's own table-level set, the other held
globally by a role united into the active set (`UserActivePrivilegeSet`). -/
theorem split_levels_allowed_role (own role : PrivSet) (cur d t : String) (p q : Priv) (hd : d ≠ "") :
    userHasPrivileges ((own.addTbl d t [p]).union (role.addGlobal [q])).view cur
      [{ db := d, tbl := t, statics := [p, q] }] = true := by
  have e1 : ∀ (s : PrivSet) p, s.view.hasGlobal p = s.holds (.glob p) := fun _ _ => rfl
  have e4 : ∀ (s : PrivSet) d t p, s.view.hasTbl d t p = s.holds (.tbl (lower d) (lower t) p) := fun _ _ _ _ => rfl
  simp only [userHasPrivileges, opAllowed, opDb, hd, List.all_cons, List.all_nil, Bool.and_true, if_false, e1, e4,
    PrivSet.holds_union, PrivSet.holds_addTbl, PrivSet.holds_addGlobal]
  simp

/-- The two readings really differ: INSERT ON d.* together with DELETE ON d.t allows REPLACE INTO d.t
(`split_levels_allowed`), while the coupled reading refuses it. A change of `UserHasPrivileges` to the
coupled reading is therefore visible on this input (and only on inputs of this kind,
`oneLevel_eq_of_single`). -/
theorem oneLevel_differs :
    opAllowed ((({} : PrivSet).addDb "d" [P_Insert]).addTbl "d" "t" [P_Delete]).view "d"
      { db := "d", tbl := "t", statics := [P_Insert, P_Delete] } = true ∧
    opAllowedOneLevel ((({} : PrivSet).addDb "d" [P_Insert]).addTbl "d" "t" [P_Delete]).view "d"
      { db := "d", tbl := "t", statics := [P_Insert, P_Delete] } = false := by
  have e1 : ∀ (s : PrivSet) p, s.view.hasGlobal p = s.holds (.glob p) := fun _ _ => rfl
  have e3 : ∀ (s : PrivSet) d p, s.view.hasDb d p = s.holds (.db (lower d) p) := fun _ _ _ => rfl
  have e4 : ∀ (s : PrivSet) d t p, s.view.hasTbl d t p = s.holds (.tbl (lower d) (lower t) p) := fun _ _ _ _ => rfl
  have e5 : ∀ (s : PrivSet) d r b p, s.view.hasRtn d r b p = s.holds (.rtn (lower d) (lower r) b p) := fun _ _ _ _ _ => rfl
  have h0 : ∀ g, ({} : PrivSet).holds g = false := by
    intro g; cases g <;> simp [PrivSet.holds, mget]
  constructor <;>
  · simp only [opAllowed, opAllowedOneLevel, opDb, List.all_cons, List.all_nil, Bool.and_true, e1, e3, e4, e5,
      PrivSet.holds_addTbl, PrivSet.holds_addDb, h0]
    simp [P_Insert, P_Delete]

/-- Granting privileges that were not held and revoking the same ones restores the set (table level;
the other non-database levels are alike). -/
theorem grant_revoke_inverse (ps : PrivSet) (d t : String) (privs : List Priv) (g : Grant)
    (hnew : ∀ p ∈ privs, ps.holds (.tbl (lower d) (lower t) p) = false) :
    ((ps.addTbl d t privs).remTbl d t privs).holds g = ps.holds g := by
  rw [PrivSet.holds_remTbl, PrivSet.holds_addTbl]
  by_cases hm : g ∈ privs.map (Grant.tbl (lower d) (lower t))
  · obtain ⟨p, hp, rfl⟩ := List.mem_map.mp hm
    simp [hm, hnew p hp]
  · simp [hm]

/-- After `GRANT p ON d.t`, every operation on `d.t` that needs only `p` is allowed, whatever else
the set contains; likewise at database level for every table of the database. -/
theorem grant_then_allowed (ps : PrivSet) (cur d t : String) (p : Priv) (hd : d ≠ "") :
    userHasPrivileges (ps.addTbl d t [p]).view cur [{ db := d, tbl := t, statics := [p] }] = true ∧
    (∀ t', userHasPrivileges (ps.addDb d [p]).view cur [{ db := d, tbl := t', statics := [p] }] = true) := by
  constructor
  · rw [allow_iff]
    right
    intro op hop
    simp only [List.mem_singleton] at hop
    subst hop
    refine ⟨?_, by simp⟩
    intro p' hp'
    simp only [List.mem_singleton] at hp'
    subst hp'
    right; right; left
    rw [PrivSet.holds_addTbl]
    simp [opDb, hd]
  · intro t'
    rw [allow_iff]
    right
    intro op hop
    simp only [List.mem_singleton] at hop
    subst hop
    refine ⟨?_, by simp⟩
    intro p' hp'
    simp only [List.mem_singleton] at hp'
    subst hp'
    right; left
    rw [PrivSet.holds_addDb]
    simp [opDb, hd]

/-- Roles: the union of two sets holds exactly what either holds (`UnionWith`), so the active set of
an account is its own grants together with the grants of the roles united into it. -/
theorem role_union (a b : PrivSet) (g : Grant) : (a.union b).holds g = (a.holds g || b.holds g) :=
  PrivSet.holds_union a b g

/-- **Every operation of the privilege-set algebra refines the Spec** (the Impl set keeps denoting
the Spec set), the two database-level REVOKE forms under the guard of the known defect. -/
theorem ops_refine {ps : PrivSet} {gs : GSet} (h : Refines ps gs) :
    Refines implPS.empty specPS.empty ∧
    (∀ privs, Refines (implPS.addGlobal ps privs) (specPS.addGlobal gs privs)) ∧
    (∀ w names, Refines (implPS.addDynamic ps w names) (specPS.addDynamic gs w names)) ∧
    (∀ d privs, Refines (implPS.addDb ps d privs) (specPS.addDb gs d privs)) ∧
    (∀ d t privs, Refines (implPS.addTbl ps d t privs) (specPS.addTbl gs d t privs)) ∧
    (∀ d r b privs, Refines (implPS.addRtn ps d r b privs) (specPS.addRtn gs d r b privs)) ∧
    (∀ privs, Refines (implPS.remGlobal ps privs) (specPS.remGlobal gs privs)) ∧
    (∀ names, Refines (implPS.remDynamic ps names) (specPS.remDynamic gs names)) ∧
    (∀ d t privs, Refines (implPS.remTbl ps d t privs) (specPS.remTbl gs d t privs)) ∧
    (∀ d r b privs, Refines (implPS.remRtn ps d r b privs) (specPS.remRtn gs d r b privs)) ∧
    Refines (implPS.clearGlobal ps) (specPS.clearGlobal gs) ∧
    (∀ d t, Refines (implPS.clearTbl ps d t) (specPS.clearTbl gs d t)) ∧
    (∀ ps' gs', Refines ps' gs' → Refines (implPS.union ps ps') (specPS.union gs gs')) ∧
    (∀ d privs, ¬ holdsBelow ps d → Refines (implPS.remDb ps d privs) (specPS.remDb gs d privs)) ∧
    (∀ d, ¬ holdsBelow ps d → Refines (implPS.clearDb ps d) (specPS.clearDb gs d)) :=
  ⟨refines_empty, refines_addGlobal h, refines_addDynamic h, refines_addDb h, refines_addTbl h, refines_addRtn h,
   refines_remGlobal h, refines_remDynamic h, refines_remTbl h, refines_remRtn h, refines_clearGlobal h, refines_clearTbl h,
   fun _ _ h' => refines_union h h', fun d privs hg => refines_remDb_partial h d privs hg,
   fun d hg => refines_clearDb_partial h d hg⟩

/-! ## Failed statements -/

/-- **Finding F-C39-b** (region `failed_statement_partial_effect`): `GRANT SELECT, SUPER ON d.* TO u`
fails with "Illegal GRANT/REVOKE command" (SUPER is not a database-level privilege) — after SELECT has
already been added to the account, which is mutated in place: the failed statement has granted
SELECT ON d.*. Replayed on the engine: the account can then read d.t. -/
theorem finding_failed_statement_partial_effect (ps : PrivSet) (d : String) :
    foldE (grantDbOne implPS d 2) (enum [⟨25, "", false⟩, ⟨29, "", false⟩]) ps
      = (implPS.addDb ps d [P_Select], some ExecErr.illegal) ∧
    (implPS.addDb ps d [P_Select]).holds (.db (lower d) P_Select) = true := by
  constructor
  · rfl
  · show (ps.addDb d [P_Select]).holds _ = true
    rw [PrivSet.holds_addDb]; simp

/- Full statement (FALSE for the unchanged code): a statement whose execution returns an error leaves
   the privilege state unchanged, i.e. `step A false = step A true` for every statement. -/

/-- Guarded version: the implementation's step (`atomic = false`) is the Spec's atomic step whenever
the statement's execution does not fail. -/
theorem step_atomic_partial {σ : Type} (A : PS σ) (st : St σ) (who : String × String) (cur : String)
    (calls : List Call) (stmt : Stmt) (h : (exec A st cur stmt).2 = none) :
    step A false st who cur calls stmt = step A true st who cur calls stmt := by
  unfold step
  cases hx : exec A st cur stmt with
  | mk st' e =>
    rw [hx] at h
    simp only at h
    subst h
    rfl


/-! ## Non-vacuity -/

/-- The hypothesis of `revoke_db_exact_partial` is satisfiable and the conclusion non-trivial. -/
example : ¬ holdsBelow (implPS.addDb implPS.empty "d" [P_Select, P_Insert]) "d" := by
  rintro ⟨g, hb, hh⟩
  change (PrivSet.addDb {} "d" [P_Select, P_Insert]).holds g = true at hh
  rw [PrivSet.holds_addDb] at hh
  cases g <;> simp [Grant.belowDb, PrivSet.holds, mget] at hb hh

/-- `Refines` relates non-trivial sets (a global, a database and a table grant). -/
example : Refines (implPS.addTbl (implPS.addDb (implPS.addGlobal implPS.empty [P_Process]) "d" [P_Select]) "D" "t" [P_Update])
    [Grant.glob P_Process, Grant.db (lower "d") P_Select, Grant.tbl (lower "D") (lower "t") P_Update] :=
  refines_addTbl (refines_addDb (refines_addGlobal refines_empty [P_Process]) "d" [P_Select]) "D" "t" [P_Update]


end Gms.C39
