import Gms.Model.RowPipe
import Gms.Generated.C19

/-!
C19 — CHECK, NOT NULL, defaults and generated columns hold for stored rows.

The model (`Gms/Model/RowPipe.lean`) transliterates the row pipeline of INSERT and UPDATE
(`planbuilder/dml.go`, `rowexec/insert.go`, `rowexec/update.go`). This file proves, for *all*
tables, statements, rows and histories of the model:

* `assignFold_spec`          the column-by-column evaluation of default / generated expressions
                             yields a row in which every assigned column equals its expression
                             over the *final* row (expressions only mention earlier columns);
* `insertRow_stored`         a row stored by INSERT [IGNORE] satisfies NOT NULL, every generated
                             column equals its expression, every enforced CHECK is not FALSE
                             (guards: `¬ checksLost`, `¬ adjusts`);
* `insert_defaults`          omitted / DEFAULT columns hold their declared default (or NULL),
                             explicit columns the given value;
* `updateRow_stored`         the same for UPDATE [IGNORE]; generated columns are recomputed
                             whenever the row changed, an unchanged row is not written;
* `applySetsSel_genOk`, `chain_recomputed_on_update`, `direct_selection_breaks_chain`
                             generated columns over generated columns: WHICH generated columns
                             an UPDATE must recompute — any selection closed under "reads a column
                             that changes" is enough (the code selects all of them, which is
                             closed); the direct-dependency selection is refuted on a chain;
* `stepOdku_preserves`       INSERT … ON DUPLICATE KEY UPDATE (one tuple) runs as the UPDATE of the
                             existing row or as the INSERT of the tuple;
* `step_preserves`, `history_stored`  the `Stored` invariant holds after every guarded history;
* `step_fail_no_effect`      a failed statement leaves the table unchanged;
* `finding_virtual_column_disables_checks`, `finding_ignore_null_adjustment`
                             the unchanged code *violates* the property inside the two regions.
-/

namespace Gms.RowPipe

-- ---------------------------------------------------------------------------------------------
-- Prop-level form of the `Stored` predicate

/-- Every generated column equals its expression over the row's current values. -/
def GenOk (T : Table) (r : Row) : Prop :=
  ∀ i, i < T.cols.length → ∀ e, (colSpec T i).gen.expr? = some e → getc r i = e.eval r

/-- No NOT NULL column holds NULL. -/
def NnOk (T : Table) (r : Row) : Prop :=
  ∀ i, i < T.cols.length → (colSpec T i).notNull = true → (getc r i).isSome = true

/-- No enforced CHECK evaluates to FALSE. -/
def ChkOk (T : Table) (r : Row) : Prop :=
  ∀ c ∈ T.checks, c.enforced = true → c.expr.eval r ≠ .f

/-- The property for one stored row (plus the shape invariant: one value per column). -/
structure Stored (T : Table) (r : Row) : Prop where
  len : r.length = T.cols.length
  chk : ChkOk T r
  nn : NnOk T r
  gen : GenOk T r

theorem storedOk_iff (T : Table) (r : Row) :
    storedOk T r = true ↔ ChkOk T r ∧ NnOk T r ∧ GenOk T r := by
  unfold storedOk ChkOk NnOk GenOk
  simp only [Bool.and_eq_true, List.all_eq_true, List.mem_range, Bool.or_eq_true,
    Bool.not_eq_true', bne_iff_ne, ne_eq]
  constructor
  · rintro ⟨h1, h2⟩
    refine ⟨?_, ?_, ?_⟩
    · intro c hc he
      rcases h1 c hc with h | h
      · simp [he] at h
      · exact h
    · intro i hi hn
      rcases (h2 i hi).1 with h | h
      · simp [hn] at h
      · exact h
    · intro i hi e he
      have := (h2 i hi).2
      simp only [he] at this
      exact beq_iff_eq.mp this
  · rintro ⟨h1, h2, h3⟩
    refine ⟨?_, ?_⟩
    · intro c hc
      cases he : c.enforced
      · exact Or.inl rfl
      · exact Or.inr (h1 c hc he)
    · intro i hi
      refine ⟨?_, ?_⟩
      · cases hn : (colSpec T i).notNull
        · exact Or.inl rfl
        · exact Or.inr (h2 i hi hn)
      · cases he : (colSpec T i).gen.expr? with
        | none => rfl
        | some e => exact beq_iff_eq.mpr (h3 i hi e he)

-- ---------------------------------------------------------------------------------------------
-- Rows

theorem getc_set (r : Row) (i j : Nat) (v : Val) :
    getc (r.set i v) j = if i = j ∧ i < r.length then v else getc r j := by
  unfold getc
  by_cases h : i = j
  · subst h
    by_cases hl : i < r.length
    · simp [hl]
    · simp [hl]
  · simp [h, List.getD_eq_getElem?_getD, List.getElem?_set_ne h]

theorem getc_set_ne (r : Row) {i j : Nat} (v : Val) (h : i ≠ j) : getc (r.set i v) j = getc r j := by
  simp [getc_set, h]

theorem getc_set_self (r : Row) {i : Nat} (v : Val) (h : i < r.length) : getc (r.set i v) i = v := by
  simp [getc_set, h]

theorem set_getc_self (r : Row) (i : Nat) : r.set i (getc r i) = r := by
  unfold getc
  by_cases h : i < r.length
  · simp [List.getD_eq_getElem?_getD, h]
  · exact List.set_eq_of_length_le (Nat.le_of_not_lt h)

/-- An expression over columns `< k` has the same value on rows that agree on those columns. -/
theorem E.eval_agree {k : Nat} {r r' : Row} (e : E) (hk : e.colsLt k = true)
    (h : ∀ j, j < k → getc r j = getc r' j) : e.eval r = e.eval r' := by
  induction e with
  | col i =>
    simp only [E.colsLt, decide_eq_true_eq] at hk
    simp [E.eval, h i hk]
  | lit v => rfl
  | add a b iha ihb =>
    simp only [E.colsLt, Bool.and_eq_true] at hk
    simp [E.eval, iha hk.1, ihb hk.2]
  | mul a b iha ihb =>
    simp only [E.colsLt, Bool.and_eq_true] at hk
    simp [E.eval, iha hk.1, ihb hk.2]

-- ---------------------------------------------------------------------------------------------
-- `assignFold`: the column-by-column evaluation of default and generated expressions

def asgStep (g : Nat → Option E) (r : Row) (i : Nat) : Row :=
  match g i with | some e => r.set i (e.eval r) | none => r

theorem assignFold_eq (g : Nat → Option E) (n : Nat) (r : Row) :
    assignFold g n r = (List.range n).foldl (asgStep g) r := rfl

theorem asgStep_length (g : Nat → Option E) (r : Row) (i : Nat) : (asgStep g r i).length = r.length := by
  unfold asgStep; split <;> simp

theorem assignFold_aux (g : Nat → Option E) (n : Nat) (r : Row) (hlen : r.length = n)
    (hwf : ∀ i e, i < n → g i = some e → e.colsLt i = true) (k : Nat) (hk : k ≤ n) :
    ((List.range k).foldl (asgStep g) r).length = n ∧
    (∀ i e, i < k → g i = some e →
      getc ((List.range k).foldl (asgStep g) r) i = e.eval ((List.range k).foldl (asgStep g) r)) ∧
    (∀ i, (g i = none ∨ k ≤ i) → getc ((List.range k).foldl (asgStep g) r) i = getc r i) := by
  induction k with
  | zero => exact ⟨by simpa using hlen, by intro i e hi; omega, by intro i _; rfl⟩
  | succ k ih =>
    obtain ⟨hl, hg, hu⟩ := ih (by omega)
    rw [List.range_succ, List.foldl_append]
    simp only [List.foldl_cons, List.foldl_nil]
    generalize (List.range k).foldl (asgStep g) r = rk at hl hg hu
    refine ⟨by rw [asgStep_length]; exact hl, ?_, ?_⟩
    · intro i e hi hgi
      cases hgk : g k with
      | none =>
        have hs : asgStep g rk k = rk := by simp [asgStep, hgk]
        rw [hs]
        have hik : i < k := by
          rcases Nat.lt_succ_iff_lt_or_eq.mp hi with h | h
          · exact h
          · subst h; rw [hgk] at hgi; cases hgi
        exact hg i e hik hgi
      | some ek =>
        have hs : asgStep g rk k = rk.set k (ek.eval rk) := by simp [asgStep, hgk]
        rw [hs]
        have hagree : ∀ j, j < k → getc rk j = getc (rk.set k (ek.eval rk)) j := by
          intro j hj; rw [getc_set_ne]; omega
        rcases Nat.lt_succ_iff_lt_or_eq.mp hi with hik | hik
        · rw [getc_set_ne _ _ (by omega), hg i e hik hgi]
          exact E.eval_agree e (hwf i e (by omega) hgi) (fun j hj => hagree j (by omega))
        · subst hik
          rw [hgk] at hgi; cases hgi
          rw [getc_set_self _ _ (by omega)]
          exact E.eval_agree e (hwf i e (by omega) hgk) hagree
    · intro i hi
      have hne : g k = none ∨ k ≠ i := by
        rcases hi with h | h
        · by_cases hki : k = i
          · subst hki; exact Or.inl h
          · exact Or.inr hki
        · exact Or.inr (by omega)
      have hi' : g i = none ∨ k ≤ i := by
        rcases hi with h | h
        · exact Or.inl h
        · exact Or.inr (by omega)
      rw [← hu i hi']
      unfold asgStep
      rcases hne with h | h
      · simp [h]
      · split
        · exact getc_set_ne _ _ h
        · rfl

/-- **Column-by-column assignment.** If the expression of column `i` only mentions columns `< i`,
then after `assignFold` every assigned column equals its expression *over the final row*, and every
other column is untouched. -/
theorem assignFold_spec (g : Nat → Option E) (n : Nat) (r : Row) (hlen : r.length = n)
    (hwf : ∀ i e, i < n → g i = some e → e.colsLt i = true) :
    (assignFold g n r).length = n ∧
    (∀ i e, i < n → g i = some e → getc (assignFold g n r) i = e.eval (assignFold g n r)) ∧
    (∀ i, g i = none → getc (assignFold g n r) i = getc r i) := by
  obtain ⟨h1, h2, h3⟩ := assignFold_aux g n r hlen hwf n (Nat.le_refl n)
  exact ⟨h1, h2, fun i hi => h3 i (Or.inl hi)⟩

-- ---------------------------------------------------------------------------------------------
-- NOT NULL validation and the IGNORE adjustment

theorem nullBad_nil_iff (T : Table) (r : Row) : nullBad T r = [] ↔ NnOk T r := by
  unfold nullBad NnOk
  simp only [List.filter_eq_nil_iff, List.mem_range, Bool.and_eq_true, not_and]
  constructor
  · intro h i hi hn
    cases hv : getc r i with
    | none => exact absurd (by simp [hv]) (h i hi hn)
    | some v => rfl
  · intro h i hi hn
    have := h i hi hn
    cases hv : getc r i with
    | none => simp [hv] at this
    | some v => simp

theorem mem_nullBad (T : Table) (r : Row) (i : Nat) :
    i ∈ nullBad T r ↔ i < T.cols.length ∧ (colSpec T i).notNull = true ∧ (getc r i).isNone = true := by
  simp [nullBad, List.mem_filter]

theorem zeroFold_spec (bad : List Nat) (r : Row) :
    (bad.foldl (fun r i => r.set i (some 0)) r).length = r.length ∧
    ∀ j, getc (bad.foldl (fun r i => r.set i (some 0)) r) j
      = if j ∈ bad ∧ j < r.length then some 0 else getc r j := by
  induction bad generalizing r with
  | nil => simp
  | cons b bs ih =>
    simp only [List.foldl_cons]
    obtain ⟨h1, h2⟩ := ih (r.set b (some 0))
    refine ⟨by simpa using h1, ?_⟩
    intro j
    rw [h2 j]
    simp only [List.length_set, List.mem_cons]
    by_cases hj : j ∈ bs ∧ j < r.length
    · simp [hj]
    · rw [if_neg hj, getc_set]
      by_cases hb : b = j
      · subst hb
        by_cases hl : b < r.length
        · simp [hl]
        · simp [hl]
      · have : ¬ j = b := fun e => hb e.symm
        simp [hb, this, hj]

/-- Go `validateNullability`: an accepted row has no NULL in a NOT NULL column; unless the IGNORE
adjustment fires it is the row that was offered. -/
theorem nullability_ok {T : Table} {ig : Bool} {r r' : Row} (hlen : r.length = T.cols.length)
    (h : nullability T ig r = .ok r') :
    r'.length = T.cols.length ∧ NnOk T r' ∧ (adjusts T ig r = false → r' = r) := by
  unfold nullability at h
  simp only at h
  split at h
  · rename_i he
    cases h
    have : nullBad T r = [] := by simpa using he
    exact ⟨hlen, (nullBad_nil_iff T r).mp this, fun _ => rfl⟩
  · rename_i he
    split at h
    · rename_i hig
      cases h
      obtain ⟨h1, h2⟩ := zeroFold_spec (nullBad T r) r
      refine ⟨by rw [h1, hlen], ?_, ?_⟩
      · intro i hi hn
        rw [h2 i]
        by_cases hb : i ∈ nullBad T r
        · simp [hb, hlen, hi]
        · have hb' : ¬ (i ∈ nullBad T r ∧ i < r.length) := fun x => hb x.1
          rw [if_neg hb']
          rw [mem_nullBad] at hb
          cases hv : getc r i with
          | none => exact absurd ⟨hi, hn, by simp [hv]⟩ hb
          | some v => rfl
      · intro ha
        simp [adjusts, hig, he] at ha
    · cases h

theorem checksPass_iff (cs : List Chk) (r : Row) :
    checksPass cs r = true ↔ ∀ c ∈ cs, c.enforced = true → c.expr.eval r ≠ .f := by
  unfold checksPass
  simp only [List.all_eq_true, Bool.or_eq_true, Bool.not_eq_true', bne_iff_ne, ne_eq]
  constructor
  · intro h c hc he
    rcases h c hc with h | h
    · simp [he] at h
    · exact h
  · intro h c hc
    cases he : c.enforced
    · exact Or.inl rfl
    · exact Or.inr (h c hc he)

/-- `check_null_passes`: a CHECK rejects a row only when it is FALSE — NULL (unknown) passes, and a
NOT ENFORCED check never rejects. -/
theorem check_null_passes (c : Chk) (r : Row) (h : c.expr.eval r = .u ∨ c.enforced = false) :
    checksPass [c] r = true := by
  rw [checksPass_iff]
  intro c' hc he
  simp only [List.mem_singleton] at hc
  subst hc
  rcases h with h | h
  · simp [h]
  · simp [h] at he

/-- Outside region `virtual_column_disables_checks` the checks the statement evaluates are the
table's checks. -/
theorem loadedChecks_chk {T : Table} {r : Row} (hcl : T.checksLost = false)
    (hp : checksPass T.loadedChecks r = true) : ChkOk T r := by
  unfold Table.checksLost at hcl
  unfold Table.loadedChecks at hp
  intro c hc he
  cases hv : T.hasVirtual
  · simp only [hv] at hp
    exact (checksPass_iff _ _).mp hp c hc he
  · simp only [hv, Bool.true_and, List.any_eq_false] at hcl
    exact absurd he (hcl c hc)

-- ---------------------------------------------------------------------------------------------
-- INSERT

theorem explicitRow_length (n : Nat) (cols : List Nat) (vals : List Src) :
    (explicitRow n cols vals).length = n := by
  simp [explicitRow]

theorem defaultExpr_gen {c : ColSpec} {e : E} (h : c.gen.expr? = some e) : defaultExpr c = e := by
  simp [defaultExpr, h]

theorem wf_col {T : Table} (hwf : T.wf = true) {i : Nat} (hi : i < T.cols.length) :
    (defaultExpr (colSpec T i)).colsLt i = true := by
  unfold Table.wf at hwf
  simp only [List.all_eq_true, List.mem_range] at hwf
  exact hwf i hi

/-- The expression column `i` is filled from when the tuple gives no explicit value for it. -/
def fillG (T : Table) (cols : List Nat) (vals : List Src) (i : Nat) : Option E :=
  if isExplicit cols vals i then none else some (defaultExpr (colSpec T i))

theorem fillDefaults_eq (T : Table) (cols : List Nat) (vals : List Src) (r0 : Row) :
    fillDefaults T cols vals r0 = assignFold (fillG T cols vals) T.cols.length r0 := rfl

theorem fillDefaults_spec {T : Table} (hwf : T.wf = true) (cols : List Nat) (vals : List Src) :
    let r := fillDefaults T cols vals (explicitRow T.cols.length cols vals)
    r.length = T.cols.length ∧
    (∀ i, i < T.cols.length → isExplicit cols vals i = false →
      getc r i = (defaultExpr (colSpec T i)).eval r) ∧
    (∀ i, isExplicit cols vals i = true → getc r i = getc (explicitRow T.cols.length cols vals) i) := by
  intro r
  have hg : ∀ i e, i < T.cols.length → fillG T cols vals i = some e → e.colsLt i = true := by
    intro i e hi h
    unfold fillG at h
    split at h
    · cases h
    · cases h; exact wf_col hwf hi
  obtain ⟨h1, h2, h3⟩ := assignFold_spec (fillG T cols vals) T.cols.length
    (explicitRow T.cols.length cols vals) (explicitRow_length _ _ _) hg
  refine ⟨h1, ?_, ?_⟩
  · intro i hi he
    exact h2 i _ hi (by simp [fillG, he])
  · intro i he
    exact h3 i (by simp [fillG, he])

/-- The assumption of the INSERT theorems: the tuple gives no explicit value for a generated column. -/
def TupleWf (T : Table) (cols : List Nat) (vals : List Src) : Prop :=
  ∀ i, i < T.cols.length → isExplicit cols vals i = true → (colSpec T i).gen.expr? = none

theorem fillDefaults_genOk {T : Table} (hwf : T.wf = true) {cols : List Nat} {vals : List Src}
    (hexp : TupleWf T cols vals) :
    GenOk T (fillDefaults T cols vals (explicitRow T.cols.length cols vals)) := by
  obtain ⟨_, h2, _⟩ := fillDefaults_spec hwf cols vals
  intro i hi e he
  have hne : isExplicit cols vals i = false := by
    cases hx : isExplicit cols vals i
    · rfl
    · rw [hexp i hi hx] at he; cases he
  rw [h2 i hi hne, defaultExpr_gen he]

theorem insertRow_cases {T : Table} {ig : Bool} {cols : List Nat} {vals : List Src} {rows : List Row}
    {r : Row} (h : insertRow T ig cols vals rows = .stored r) :
    nullability T ig (fillDefaults T cols vals (explicitRow T.cols.length cols vals)) = .ok r ∧
    checksPass T.loadedChecks r = true := by
  unfold insertRow at h
  simp only at h
  split at h
  · cases h
  · rename_i r1 hn
    split at h
    · split at h <;> cases h
    · rename_i hc
      split at h
      · split at h <;> cases h
      · cases h
        exact ⟨hn, by simpa using hc⟩

/-- **INSERT [IGNORE], unconditional part.** Whatever the table and the tuple: a stored row has one
value per column and no NULL in a NOT NULL column, and — outside region
`virtual_column_disables_checks` — no enforced CHECK is FALSE on it (the checks are evaluated
after the NULL adjustment). -/
theorem insertRow_nn_chk {T : Table} (hwf : T.wf = true) {ig : Bool} {cols : List Nat} {vals : List Src}
    {rows : List Row} {r : Row} (h : insertRow T ig cols vals rows = .stored r) :
    r.length = T.cols.length ∧ NnOk T r ∧ (T.checksLost = false → ChkOk T r) := by
  obtain ⟨hn, hc⟩ := insertRow_cases h
  obtain ⟨hl, _, _⟩ := fillDefaults_spec hwf cols vals
  obtain ⟨h1, h2, _⟩ := nullability_ok hl hn
  exact ⟨h1, h2, fun hcl => loadedChecks_chk hcl hc⟩

/-- **INSERT [IGNORE].** Outside the two regions a row stored by INSERT satisfies the property:
NOT NULL, CHECK, and every generated column equals its expression over the stored values. -/
theorem insertRow_stored {T : Table} (hwf : T.wf = true) (hcl : T.checksLost = false) {ig : Bool}
    {cols : List Nat} {vals : List Src} (hexp : TupleWf T cols vals)
    (hadj : adjusts T ig (fillDefaults T cols vals (explicitRow T.cols.length cols vals)) = false)
    {rows : List Row} {r : Row} (h : insertRow T ig cols vals rows = .stored r) : Stored T r := by
  obtain ⟨hn, _⟩ := insertRow_cases h
  obtain ⟨hl, _, _⟩ := fillDefaults_spec hwf cols vals
  obtain ⟨h1, h2, h3⟩ := insertRow_nn_chk hwf h
  have hr : r = fillDefaults T cols vals (explicitRow T.cols.length cols vals) :=
    (nullability_ok hl hn).2.2 hadj
  exact ⟨h1, h3 hcl, h2, by rw [hr]; exact fillDefaults_genOk hwf hexp⟩

/-- `default_filled`: in a row stored by INSERT (no adjustment) every omitted / DEFAULT column
holds its declared default — the generated expression, else the DEFAULT expression, else NULL —
evaluated over the stored row, and every explicit column holds the value given. -/
theorem insert_defaults {T : Table} (hwf : T.wf = true) {ig : Bool} {cols : List Nat} {vals : List Src}
    (hadj : adjusts T ig (fillDefaults T cols vals (explicitRow T.cols.length cols vals)) = false)
    {rows : List Row} {r : Row} (h : insertRow T ig cols vals rows = .stored r) :
    (∀ i, i < T.cols.length → isExplicit cols vals i = false →
      getc r i = (defaultExpr (colSpec T i)).eval r) ∧
    (∀ i, isExplicit cols vals i = true → getc r i = getc (explicitRow T.cols.length cols vals) i) := by
  obtain ⟨hn, _⟩ := insertRow_cases h
  obtain ⟨hl, h2, h3⟩ := fillDefaults_spec hwf cols vals
  have hr : r = fillDefaults T cols vals (explicitRow T.cols.length cols vals) :=
    (nullability_ok hl hn).2.2 hadj
  subst hr
  exact ⟨h2, h3⟩

theorem defaultExpr_plain_none {c : ColSpec} (hg : c.gen = .none) (hd : c.dflt = none) (r : Row) :
    (defaultExpr c).eval r = none := by
  simp [defaultExpr, hg, Gen.expr?, hd, E.eval]

-- ---------------------------------------------------------------------------------------------
-- UPDATE

/-- What is read back is what is stored, once the generated columns agree with their expressions
(the `VirtualColumnTable` projection recomputes the virtual columns on every read). -/
theorem readRow_fixed {T : Table} {r : Row} (hg : GenOk T r) : readRow T r = r := by
  unfold readRow
  have : ∀ l : List Nat, (∀ i ∈ l, i < T.cols.length) →
      l.foldl (fun r i => match (colSpec T i).gen with | .virt e => r.set i (e.eval r) | _ => r) r = r := by
    intro l
    induction l with
    | nil => intro _; rfl
    | cons i l ih =>
      intro hl
      simp only [List.foldl_cons]
      have hi : i < T.cols.length := hl i (by simp)
      have hstep : (match (colSpec T i).gen with | .virt e => r.set i (e.eval r) | _ => r) = r := by
        cases hgi : (colSpec T i).gen with
        | none => rfl
        | stored e => rfl
        | virt e =>
          have := hg i hi e (by simp [hgi, Gen.expr?])
          simp only
          rw [← this, set_getc_self]
      rw [hstep]
      exact ih (fun j hj => hl j (by simp [hj]))
  exact this _ (by intro i hi; simpa using hi)

def setStep (T : Table) (r : Row) (p : Nat × Src) : Row :=
  r.set p.1 (match p.2 with
    | .val v => v
    | .dflt => (defaultExpr (colSpec T p.1)).eval r
    | .expr e => e.eval r)

theorem setFold_length (T : Table) (sets : List (Nat × Src)) (r : Row) :
    (sets.foldl (setStep T) r).length = r.length := by
  induction sets generalizing r with
  | nil => rfl
  | cons p ps ih => simp only [List.foldl_cons]; rw [ih]; simp [setStep]

theorem applySets_eq (T : Table) (old : Row) (sets : List (Nat × Src)) :
    applySets T old sets =
      (if sets.foldl (setStep T) old == old then sets.foldl (setStep T) old
       else assignFold (fun i => (colSpec T i).gen.expr?) T.cols.length (sets.foldl (setStep T) old)) := rfl

theorem genWf {T : Table} (hwf : T.wf = true) :
    ∀ i e, i < T.cols.length → (colSpec T i).gen.expr? = some e → e.colsLt i = true := by
  intro i e hi he
  have := wf_col hwf hi
  rwa [defaultExpr_gen he] at this

/-- `generated_recomputed_on_update`: whatever the SET list assigns (even a generated column), a
row that the assignments changed has one value per column and every generated column equals its
expression over the new values; a row they did not change is returned as it was. -/
theorem applySets_spec {T : Table} (hwf : T.wf = true) {old : Row} (hlen : old.length = T.cols.length)
    (sets : List (Nat × Src)) :
    (applySets T old sets).length = T.cols.length ∧
    (applySets T old sets ≠ old → GenOk T (applySets T old sets)) := by
  rw [applySets_eq]
  have hl : (sets.foldl (setStep T) old).length = T.cols.length := by rw [setFold_length, hlen]
  split
  · rename_i heq
    exact ⟨hl, fun hne => absurd (beq_iff_eq.mp heq) hne⟩
  · obtain ⟨h1, h2, _⟩ := assignFold_spec (fun i => (colSpec T i).gen.expr?) T.cols.length _ hl (genWf hwf)
    exact ⟨h1, fun _ i hi e he => h2 i e hi he⟩

theorem updateRow_cases {T : Table} {ig : Bool} {sets : List (Nat × Src)} {old : Row} {others : List Row}
    {r : Row} (h : updateRow T ig sets old others = .stored r) :
    (applySets T old sets = old ∧ r = old) ∨
    (applySets T old sets ≠ old ∧ checksPass T.loadedChecks (applySets T old sets) = true ∧
      nullability T ig (applySets T old sets) = .ok r) := by
  unfold updateRow at h
  simp only at h
  split at h
  · rename_i heq
    cases h
    exact Or.inl ⟨beq_iff_eq.mp heq, rfl⟩
  · rename_i hne
    have hne' : applySets T old sets ≠ old := by
      intro e; rw [e] at hne; simp at hne
    split at h
    · split at h <;> cases h
    · rename_i hc
      split at h
      · cases h
      · rename_i new hn
        split at h
        · split at h <;> cases h
        · cases h
          exact Or.inr ⟨hne', by simpa using hc, hn⟩

/-- **UPDATE [IGNORE], unconditional part**: the written row has no NULL in a NOT NULL column. -/
theorem updateRow_nn {T : Table} (hwf : T.wf = true) {ig : Bool} {sets : List (Nat × Src)} {old : Row}
    (hold : Stored T old) {others : List Row} {r : Row}
    (h : updateRow T ig sets old others = .stored r) : r.length = T.cols.length ∧ NnOk T r := by
  rcases updateRow_cases h with ⟨_, hr⟩ | ⟨_, _, hn⟩
  · subst hr; exact ⟨hold.len, hold.nn⟩
  · obtain ⟨h1, h2, _⟩ := nullability_ok (applySets_spec hwf hold.len sets).1 hn
    exact ⟨h1, h2⟩

/-- **UPDATE [IGNORE].** Outside the two regions the row an UPDATE leaves in the table satisfies
the property: an unchanged row is kept, a changed row has its generated columns recomputed, passes
every enforced CHECK and holds no NULL in a NOT NULL column. -/
theorem updateRow_stored {T : Table} (hwf : T.wf = true) (hcl : T.checksLost = false) {ig : Bool}
    {sets : List (Nat × Src)} {old : Row} (hold : Stored T old)
    (hadj : adjusts T ig (applySets T old sets) = false) {others : List Row} {r : Row}
    (h : updateRow T ig sets old others = .stored r) : Stored T r := by
  rcases updateRow_cases h with ⟨_, hr⟩ | ⟨hne, hc, hn⟩
  · subst hr; exact hold
  · obtain ⟨hl, hg⟩ := applySets_spec hwf hold.len sets
    obtain ⟨h1, h2, h3⟩ := nullability_ok hl hn
    have hr : r = applySets T old sets := h3 hadj
    subst hr
    exact ⟨h1, loadedChecks_chk hcl hc, h2, hg hne⟩

/-- An UPDATE that assigns every column the value it already holds writes nothing. -/
theorem update_unchanged_noop {T : Table} {ig : Bool} {sets : List (Nat × Src)} {old : Row} {others : List Row}
    (h : applySets T old sets = old) : updateRow T ig sets old others = .stored old := by
  unfold updateRow
  simp [h]

-- ---------------------------------------------------------------------------------------------
-- UPDATE: WHICH generated columns get a derived SET (generated columns over generated columns)

/-- The columns an expression reads. -/
def E.reads : E → List Nat
  | .col i => [i]
  | .lit _ => []
  | .add a b => a.reads ++ b.reads
  | .mul a b => a.reads ++ b.reads

/-- An expression has the same value on rows that agree on the columns it reads. -/
theorem E.eval_agree_reads {r r' : Row} (e : E) (h : ∀ j ∈ e.reads, getc r j = getc r' j) :
    e.eval r = e.eval r' := by
  induction e with
  | col i => simp [E.eval, h i (by simp [E.reads])]
  | lit v => rfl
  | add a b iha ihb =>
    have ha := iha (fun j hj => h j (by simp [E.reads, hj]))
    have hb := ihb (fun j hj => h j (by simp [E.reads, hj]))
    simp [E.eval, ha, hb]
  | mul a b iha ihb =>
    have ha := iha (fun j hj => h j (by simp [E.reads, hj]))
    have hb := ihb (fun j hj => h j (by simp [E.reads, hj]))
    simp [E.eval, ha, hb]

/-- `applySets` with the derived SETs restricted to a selection `sel` of the generated columns.
Go `addDependentUpdateExprs` selects every generated column (`applySetsSel_all`); an "only what
depends on the SET list" optimisation is a smaller selection. -/
def applySetsSel (sel : Nat → Bool) (T : Table) (old : Row) (sets : List (Nat × Src)) : Row :=
  let r := sets.foldl (setStep T) old
  if r == old then r
  else assignFold (fun i => if sel i then (colSpec T i).gen.expr? else none) T.cols.length r

/-- The real code: one derived SET per generated column (fact `generatedColumnsGetDerivedSet`). -/
theorem applySetsSel_all (T : Table) (old : Row) (sets : List (Nat × Src)) :
    applySetsSel (fun _ => true) T old sets = applySets T old sets := by
  rw [applySets_eq]; rfl

/-- A column no SET assigns keeps its value through the explicit assignments. -/
theorem setFold_untouched (T : Table) (sets : List (Nat × Src)) (r : Row) (j : Nat)
    (h : ∀ p ∈ sets, p.1 ≠ j) : getc (sets.foldl (setStep T) r) j = getc r j := by
  induction sets generalizing r with
  | nil => rfl
  | cons p ps ih =>
    simp only [List.foldl_cons]
    rw [ih _ (fun q hq => h q (by simp [hq]))]
    unfold setStep
    exact getc_set_ne _ _ (h p (by simp))

/-- The selection is *closed* for this SET list: a generated column that is left out is not
assigned, and reads only columns that keep their value — not assigned, and not recomputed either.
(A chain `g1 AS (a*2)`, `g2 AS (g1+1)` with `SET a = …` forces `g1` in, hence `g2` in.) -/
def SelClosed (sel : Nat → Bool) (T : Table) (sets : List (Nat × Src)) : Prop :=
  ∀ i e, i < T.cols.length → (colSpec T i).gen.expr? = some e → sel i = false →
    (∀ p ∈ sets, p.1 ≠ i) ∧
    ∀ j ∈ e.reads, (∀ p ∈ sets, p.1 ≠ j) ∧ ((colSpec T j).gen.expr? = none ∨ sel j = false)

/-- **Which generated columns must be recomputed.** Recomputing a *closed* selection of the
generated columns of a row whose generated columns were right keeps every generated column —
selected or not, at any depth of a chain — equal to its expression over the new values. -/
theorem applySetsSel_genOk {T : Table} (hwf : T.wf = true) {old : Row} (hlen : old.length = T.cols.length)
    (hold : GenOk T old) {sel : Nat → Bool} {sets : List (Nat × Src)} (hcl : SelClosed sel T sets)
    (hne : applySetsSel sel T old sets ≠ old) : GenOk T (applySetsSel sel T old sets) := by
  unfold applySetsSel at hne ⊢
  simp only at hne ⊢
  split
  · rename_i heq
    rw [if_pos heq] at hne
    exact absurd (beq_iff_eq.mp heq) hne
  · have hl : (sets.foldl (setStep T) old).length = T.cols.length := by rw [setFold_length, hlen]
    have hg : ∀ i e, i < T.cols.length → (if sel i then (colSpec T i).gen.expr? else none) = some e →
        e.colsLt i = true := by
      intro i e hi he
      cases hs : sel i
      · simp [hs] at he
      · simp only [hs, if_true] at he
        exact genWf hwf i e hi he
    obtain ⟨_, h2, h3⟩ := assignFold_spec _ T.cols.length _ hl hg
    intro i hi e he
    cases hs : sel i
    · obtain ⟨hni, hreads⟩ := hcl i e hi he hs
      rw [h3 i (by simp [hs]), setFold_untouched T sets old i hni, hold i hi e he]
      apply E.eval_agree_reads
      intro j hj
      obtain ⟨hnj, hj2⟩ := hreads j hj
      have hgj : (if sel j then (colSpec T j).gen.expr? else none) = none := by
        rcases hj2 with h | h
        · simp [h]
        · simp [h]
      rw [h3 j hgj, setFold_untouched T sets old j hnj]
    · exact h2 i e hi (by simp [hs, he])

/-- The selection "generated columns whose expression reads a column of the SET list" (direct
dependencies only, not transitive). -/
def directSel (T : Table) (sets : List (Nat × Src)) (i : Nat) : Bool :=
  match (colSpec T i).gen.expr? with
  | some e => e.reads.any fun j => sets.any fun p => p.1 == j
  | none => false

-- ---------------------------------------------------------------------------------------------
-- Statements and histories

def AllStored (T : Table) (rows : List Row) : Prop := ∀ r ∈ rows, Stored T r

theorem foldlM_except_inv {α β ε : Type} (P : β → Prop) (Q : α → Prop) (f : β → α → Except ε β)
    (hf : ∀ b a b', Q a → P b → f b a = .ok b' → P b') (l : List α) (hQ : ∀ a ∈ l, Q a)
    (b : β) (hb : P b) (b' : β) (h : l.foldlM f b = .ok b') : P b' := by
  induction l generalizing b with
  | nil => simp [List.foldlM, pure, Except.pure] at h; subst h; exact hb
  | cons a l ih =>
    simp only [List.foldlM_cons, bind, Except.bind] at h
    split at h
    · cases h
    · rename_i b1 hb1
      exact ih (fun a' ha' => hQ a' (by simp [ha'])) b1 (hf b a b1 (hQ a (by simp)) hb hb1) h

theorem mem_insertBy {α : Type} (le : α → α → Bool) (a x : α) (l : List α) :
    x ∈ insertBy le a l ↔ x = a ∨ x ∈ l := by
  induction l with
  | nil => simp [insertBy]
  | cons b bs ih =>
    unfold insertBy
    split
    · simp
    · simp only [List.mem_cons, ih]
      constructor
      · rintro (h | h | h)
        · exact Or.inr (Or.inl h)
        · exact Or.inl h
        · exact Or.inr (Or.inr h)
      · rintro (h | h | h)
        · exact Or.inr (Or.inl h)
        · exact Or.inl h
        · exact Or.inr (Or.inr h)

theorem mem_isort {α : Type} (le : α → α → Bool) (x : α) (l : List α) : x ∈ isort le l ↔ x ∈ l := by
  induction l with
  | nil => simp [isort]
  | cons a as ih => simp [isort, mem_insertBy, ih]

/-- Guard of the statement theorems: statement shape, and the statement is outside region
`ignore_null_adjustment` on the table contents it runs against. -/
def StmtOk (T : Table) (rows : List Row) (st : Stmt) : Prop :=
  stmtWf T st = true ∧ stmtAdjusts T rows st = false

theorem runStmt_preserves {T : Table} (hwf : T.wf = true) (hcl : T.checksLost = false)
    {rows : List Row} {st : Stmt} (hst : StmtOk T rows st) (hinv : AllStored T rows)
    {rows' : List Row} (h : runStmt T rows st = .ok rows') : AllStored T rows' := by
  obtain ⟨hw, ha⟩ := hst
  cases st with
  | insert ig cols tuples =>
    simp only [runStmt] at h
    simp only [stmtWf, List.all_eq_true, List.mem_range, Bool.or_eq_true, Bool.not_eq_true',
      Option.isNone_iff_eq_none] at hw
    simp only [stmtAdjusts, List.any_eq_false] at ha
    refine foldlM_except_inv (AllStored T)
      (fun vals => TupleWf T cols vals ∧
        adjusts T ig (fillDefaults T cols vals (explicitRow T.cols.length cols vals)) = false)
      _ ?_ tuples ?_ rows hinv rows' h
    · intro b vals b' ⟨hq1, hq2⟩ hb hstep
      split at hstep
      · rename_i r hr
        cases hstep
        intro x hx
        rcases List.mem_append.mp hx with hx | hx
        · exact hb x hx
        · simp only [List.mem_singleton] at hx
          subst hx
          exact insertRow_stored hwf hcl hq1 hq2 hr
      · cases hstep; exact hb
      · cases hstep
    · intro vals hv
      refine ⟨?_, by simpa using ha vals hv⟩
      intro i hi he
      rcases hw vals hv i hi with h1 | h1
      · rw [h1] at he; cases he
      · exact h1
  | update ig sets key =>
    simp only [runStmt] at h
    simp only [stmtAdjusts, List.any_eq_false] at ha
    refine foldlM_except_inv (AllStored T)
      (fun old => Stored T old ∧ adjusts T ig (applySets T (readRow T old) sets) = false)
      _ ?_ _ ?_ rows hinv rows' h
    · intro b old b' ⟨hq1, hq2⟩ hb hstep
      split at hstep
      · rename_i r hr
        cases hstep
        rw [readRow_fixed hq1.gen] at hr hq2
        have hs := updateRow_stored hwf hcl hq1 hq2 hr
        intro x hx
        rcases List.mem_map.mp hx with ⟨y, hy, hxy⟩
        split at hxy
        · subst hxy; exact hs
        · subst hxy; exact hb y hy
      · cases hstep; exact hb
      · cases hstep
    · intro old ho
      rw [mem_isort] at ho
      exact ⟨hinv old (List.mem_filter.mp ho).1, by simpa using ha old ho⟩
  | delete k =>
    simp only [runStmt] at h
    cases h
    intro x hx
    exact hinv x (List.mem_filter.mp hx).1

/-- **One statement.** Outside the two regions every statement keeps the `Stored` invariant,
whether it succeeds or fails. -/
theorem step_preserves {T : Table} (hwf : T.wf = true) (hcl : T.checksLost = false)
    {rows : List Row} {st : Stmt} (hst : StmtOk T rows st) (hinv : AllStored T rows) :
    AllStored T (step T rows st).1 := by
  unfold step
  split
  · rename_i rows' h
    exact runStmt_preserves hwf hcl hst hinv h
  · exact hinv

/-- A failed statement has no effect on the table. -/
theorem step_fail_no_effect (T : Table) (rows : List Row) (st : Stmt) (e : Err)
    (h : (step T rows st).2 = some e) : (step T rows st).1 = rows := by
  unfold step at h ⊢
  split
  · rename_i h'; rw [h'] at h; cases h
  · rfl

/-- **INSERT … ON DUPLICATE KEY UPDATE** keeps the invariant too: it runs as the UPDATE of the
existing row (all generated columns recomputed, chains included) or as the INSERT of the tuple, or
fails without effect. -/
theorem stepOdku_preserves {T : Table} (hwf : T.wf = true) (hcl : T.checksLost = false)
    {rows : List Row} (cols : List Nat) (vals : List Src) (sets : List (Nat × Src))
    (hst : ∀ st, odkuStmt T rows cols vals sets = .ok st → StmtOk T rows st) (hinv : AllStored T rows) :
    AllStored T (stepOdku T rows cols vals sets).1 := by
  unfold stepOdku
  split
  · rename_i st h
    exact step_preserves hwf hcl (hst st h) hinv
  · exact hinv

def run (T : Table) (rows : List Row) (h : List Stmt) : List Row :=
  h.foldl (fun rows st => (step T rows st).1) rows

/-- The history stays outside region `ignore_null_adjustment` (evaluated along the run). -/
def Guarded (T : Table) : List Row → List Stmt → Prop
  | _, [] => True
  | rows, st :: h => StmtOk T rows st ∧ Guarded T (step T rows st).1 h

theorem run_preserves {T : Table} (hwf : T.wf = true) (hcl : T.checksLost = false) (h : List Stmt)
    (rows : List Row) (hg : Guarded T rows h) (hinv : AllStored T rows) : AllStored T (run T rows h) := by
  induction h generalizing rows with
  | nil => exact hinv
  | cons st h ih =>
    simp only [run, List.foldl_cons]
    exact ih _ hg.2 (step_preserves hwf hcl hg.1 hinv)

theorem allStoredOk_of {T : Table} {rows : List Row} (h : AllStored T rows) : allStoredOk T rows = true := by
  unfold allStoredOk tableRows
  simp only [List.all_eq_true, List.mem_map, forall_exists_index, and_imp]
  intro x r hr hx
  subst hx
  rw [readRow_fixed (h r hr).gen, storedOk_iff]
  exact ⟨(h r hr).chk, (h r hr).nn, (h r hr).gen⟩

def guardedB (T : Table) : List Row → List Stmt → Bool
  | _, [] => true
  | rows, st :: h => stmtWf T st && !stmtAdjusts T rows st && guardedB T (step T rows st).1 h

theorem guardedB_iff (T : Table) (rows : List Row) (h : List Stmt) :
    guardedB T rows h = true ↔ Guarded T rows h := by
  induction h generalizing rows with
  | nil => simp [guardedB, Guarded]
  | cons st h ih => simp [guardedB, Guarded, StmtOk, ih, and_assoc]

/-- Under IGNORE the NULL adjustment never rejects: it writes the zero value into exactly the NOT
NULL columns that held NULL and leaves every other column alone. -/
theorem nullability_ignore (T : Table) (r : Row) :
    ∃ r', nullability T true r = .ok r' ∧
      ∀ j, getc r' j = if j ∈ nullBad T r ∧ j < r.length then some 0 else getc r j := by
  unfold nullability
  simp only
  split
  · rename_i he
    refine ⟨r, rfl, fun j => ?_⟩
    have : nullBad T r = [] := by simpa using he
    simp [this]
  · exact ⟨_, rfl, (zeroFold_spec (nullBad T r) r).2⟩

/-- INSERT IGNORE never fails on NOT NULL / CHECK / duplicate key: the tuple is stored (possibly
adjusted) or skipped. -/
theorem insertRow_ignore_total (T : Table) (cols : List Nat) (vals : List Src) (rows : List Row) (e : Err) :
    insertRow T true cols vals rows ≠ .failed e := by
  unfold insertRow
  simp only
  obtain ⟨r', hr, _⟩ := nullability_ignore T (fillDefaults T cols vals (explicitRow T.cols.length cols vals))
  rw [hr]
  simp only
  split
  · simp
  · split <;> simp

end Gms.RowPipe

-- =============================================================================================
-- The property theorems

namespace Gms.C19
open Gms.RowPipe

/-- Region `virtual_column_disables_checks` (a class of *tables*). -/
def RegionVirtual (T : Table) : Prop := T.checksLost = true

instance (T : Table) : Decidable (RegionVirtual T) := by unfold RegionVirtual; infer_instance

/-- Region `ignore_null_adjustment` (a class of *statements on a table state*). -/
def RegionIgnoreAdjust (T : Table) (rows : List Row) (st : Stmt) : Prop := stmtAdjusts T rows st = true

/-
The property at full strength — FALSE for the unchanged code (see the two findings below):

  theorem stored_preserved (T : Table) (hwf : T.wf = true) (h : List Stmt)
      (hs : ∀ st ∈ h, stmtWf T st = true) : allStoredOk T (run T [] h) = true
-/

/-- **C19, guarded.** After every history that stays outside the two regions, every row of the
table satisfies the `Stored` predicate: no enforced CHECK is FALSE, no NOT NULL column holds
NULL, every generated column equals its expression over the row's current values. -/
theorem stored_preserved_partial {T : Table} (hwf : T.wf = true) (hcl : ¬ RegionVirtual T)
    (h : List Stmt) (hg : Guarded T [] h) : allStoredOk T (run T [] h) = true := by
  have hcl' : T.checksLost = false := by
    unfold RegionVirtual at hcl
    cases hc : T.checksLost
    · rfl
    · exact absurd hc hcl
  exact allStoredOk_of (run_preserves hwf hcl' h [] hg (by intro r hr; cases hr))

/-- The invariant form (any starting table whose rows are `Stored`). -/
theorem stored_invariant {T : Table} (hwf : T.wf = true) (hcl : T.checksLost = false)
    {rows : List Row} {st : Stmt} (hst : StmtOk T rows st) (hinv : AllStored T rows) :
    AllStored T (step T rows st).1 :=
  step_preserves hwf hcl hst hinv

/-- One statement of the guarded kind either fails without effect or keeps the invariant. -/
theorem fail_no_effect (T : Table) (rows : List Row) (st : Stmt) (e : Err)
    (h : (step T rows st).2 = some e) : (step T rows st).1 = rows :=
  step_fail_no_effect T rows st e h

/-- `default_filled` (INSERT). -/
theorem default_filled {T : Table} (hwf : T.wf = true) {ig : Bool} {cols : List Nat} {vals : List Src}
    (hadj : adjusts T ig (fillDefaults T cols vals (explicitRow T.cols.length cols vals)) = false)
    {rows : List Row} {r : Row} (h : insertRow T ig cols vals rows = .stored r) :
    (∀ i, i < T.cols.length → isExplicit cols vals i = false →
      getc r i = (defaultExpr (colSpec T i)).eval r) ∧
    (∀ i, isExplicit cols vals i = true → getc r i = getc (explicitRow T.cols.length cols vals) i) :=
  insert_defaults hwf hadj h

/-- `generated_recomputed_on_update`. -/
theorem generated_recomputed_on_update {T : Table} (hwf : T.wf = true) {old : Row}
    (hlen : old.length = T.cols.length) (sets : List (Nat × Src))
    (hne : applySets T old sets ≠ old) : GenOk T (applySets T old sets) :=
  (applySets_spec hwf hlen sets).2 hne

/-- `ignore_adjusts_with_warning` (the adjustment itself; the warning is not modelled). -/
theorem ignore_adjusts (T : Table) (r : Row) :
    ∃ r', nullability T true r = .ok r' ∧
      ∀ j, getc r' j = if j ∈ nullBad T r ∧ j < r.length then some 0 else getc r j :=
  nullability_ignore T r

-- Witness tables ------------------------------------------------------------------------------

/-- `CREATE TABLE t (c0 INT PRIMARY KEY, c1 INT, c2 INT AS (c0*2) VIRTUAL, CHECK (0 < c1))`. -/
def wT1 : Table :=
  { cols := [{ notNull := true, dflt := none, gen := .none }, { notNull := false, dflt := none, gen := .none },
             { notNull := false, dflt := none, gen := .virt (.mul (.col 0) (.lit (some 2))) }],
    checks := [{ expr := .lt (.lit (some 0)) (.col 1), enforced := true }] }

/-- `INSERT INTO t (c0,c1) VALUES (1,-1)`. -/
def wH1 : List Stmt := [.insert false [0, 1] [[.val (some 1), .val (some (-1))]]]

/-- The same table with a STORED generated column. -/
def wT1s : Table := { wT1 with cols := [{ notNull := true, dflt := none, gen := .none },
  { notNull := false, dflt := none, gen := .none },
  { notNull := false, dflt := none, gen := .stored (.mul (.col 0) (.lit (some 2))) }] }

/-- `CREATE TABLE t (c0 INT PRIMARY KEY, c1 INT NOT NULL DEFAULT 3, c2 INT AS (c1+1) STORED, CHECK (c1 <> 0))`. -/
def wT2 : Table :=
  { cols := [{ notNull := true, dflt := none, gen := .none }, { notNull := true, dflt := some (.lit (some 3)), gen := .none },
             { notNull := false, dflt := none, gen := .stored (.add (.col 1) (.lit (some 1))) }],
    checks := [{ expr := .ne (.col 1) (.lit (some 0)), enforced := true }] }

/-- `INSERT INTO t (c0,c1) VALUES (2,5); UPDATE IGNORE t SET c1 = NULL WHERE c0 = 2`. -/
def wH2 : List Stmt :=
  [.insert false [0, 1] [[.val (some 2), .val (some 5)]], .update true [(1, .val none)] (some 2)]

/-- `INSERT IGNORE INTO t (c0,c1) VALUES (1,NULL)` into `wT2` without its check. -/
def wT3 : Table := { wT2 with checks := [] }
def wH3 : List Stmt := [.insert true [0, 1] [[.val (some 1), .val none]]]

/-- **Finding `virtual_column_disables_checks`** (DESIGN §8 F-C19-a): a table with a VIRTUAL
column stores a row that makes an enforced CHECK FALSE. -/
theorem finding_virtual_column_disables_checks :
    ∃ (T : Table) (h : List Stmt), T.wf = true ∧ guardedB T [] h = true ∧ RegionVirtual T ∧
      run T [] h = [[some 1, some (-1), some 2]] ∧ allStoredOk T (run T [] h) = false :=
  ⟨wT1, wH1, by decide, by decide, by decide, by decide, by decide⟩

/-- The same statement on the same table with a STORED column is rejected. -/
theorem stored_variant_rejects :
    step wT1s [] (.insert false [0, 1] [[.val (some 1), .val (some (-1))]]) = ([], some Err.check) := by decide

/-- **Finding `ignore_null_adjustment`**: UPDATE IGNORE writes the zero value into a NOT NULL
column *after* the CHECKs were evaluated and the generated columns computed: the stored row
`(2, 0, NULL)` makes `CHECK (c1 <> 0)` FALSE and `c2 ≠ c1 + 1`. -/
theorem finding_ignore_null_adjustment :
    ∃ (T : Table) (h : List Stmt), T.wf = true ∧ ¬ RegionVirtual T ∧ (∀ st ∈ h, stmtWf T st = true) ∧
      run T [] h = [[some 2, some 0, none]] ∧ allStoredOk T (run T [] h) = false :=
  ⟨wT2, wH2, by decide, by decide, by decide, by decide, by decide⟩

/-- INSERT IGNORE has the generated-column half of the same defect (`c2` is computed from the
NULL that is adjusted afterwards): stored row `(1, 0, NULL)`. -/
theorem finding_ignore_null_adjustment_insert :
    ∃ (T : Table) (h : List Stmt), T.wf = true ∧ ¬ RegionVirtual T ∧ (∀ st ∈ h, stmtWf T st = true) ∧
      run T [] h = [[some 1, some 0, none]] ∧ allStoredOk T (run T [] h) = false :=
  ⟨wT3, wH3, by decide, by decide, by decide, by decide, by decide⟩

-- Generated columns over generated columns ------------------------------------------------------

/-- `CREATE TABLE t (c0 INT PRIMARY KEY, c1 INT, c2 INT AS (c1*2) STORED, c3 INT AS (c2+1) STORED,
c4 INT AS (c3+c1) STORED)`: a chain of depth 3. -/
def chT : Table :=
  { cols := [{ notNull := true, dflt := none, gen := .none }, { notNull := false, dflt := none, gen := .none },
             { notNull := false, dflt := none, gen := .stored (.mul (.col 1) (.lit (some 2))) },
             { notNull := false, dflt := none, gen := .stored (.add (.col 2) (.lit (some 1))) },
             { notNull := false, dflt := none, gen := .stored (.add (.col 3) (.col 1)) }],
    checks := [] }

/-- `INSERT INTO t (c0,c1) VALUES (2,2); UPDATE t SET c1 = 10 WHERE c0 = 2`. -/
def chH : List Stmt :=
  [.insert false [0, 1] [[.val (some 2), .val (some 2)]], .update false [(1, .val (some 10))] (some 2)]

/-- `chain_recomputed_on_update`: an UPDATE that assigns only the base column of a chain of generated
columns recomputes every link, whatever its depth (all tables whose generated expressions mention
earlier columns only — generated or plain — all SET lists). -/
theorem chain_recomputed_on_update {T : Table} (hwf : T.wf = true) {old : Row}
    (hlen : old.length = T.cols.length) (sets : List (Nat × Src))
    (hne : applySets T old sets ≠ old) (i : Nat) (hi : i < T.cols.length) (e : E)
    (he : (colSpec T i).gen.expr? = some e) :
    getc (applySets T old sets) i = e.eval (applySets T old sets) :=
  (applySets_spec hwf hlen sets).2 hne i hi e he

/-- Non-vacuity: the depth-3 chain, `SET c1 = 10` on the stored row `(2,2,4,5,7)` gives `(2,10,20,21,31)`. -/
example : chT.wf = true ∧ run chT [] chH = [[some 2, some 10, some 20, some 21, some 31]] := by decide

/-- `derived_selection_sound`: the derived SETs may be restricted to any selection of the generated
columns that is closed under "reads a column that changes" — and the real code's selection (all of
them, `applySetsSel_all`) is closed for every SET list. -/
theorem derived_selection_sound {T : Table} (hwf : T.wf = true) {old : Row}
    (hlen : old.length = T.cols.length) (hold : GenOk T old) {sel : Nat → Bool} {sets : List (Nat × Src)}
    (hcl : SelClosed sel T sets) (hne : applySetsSel sel T old sets ≠ old) :
    GenOk T (applySetsSel sel T old sets) := applySetsSel_genOk hwf hlen hold hcl hne

theorem all_selection_closed (T : Table) (sets : List (Nat × Src)) : SelClosed (fun _ => true) T sets := by
  intro i e _ _ h; cases h

/-- **The direct-dependency selection is not enough** (the class of change "recompute a generated
column only when the statement assigns a column it reads"): on the chain table, `SET c1 = 10`
selects `c2` and `c4` (they read `c1`) but not `c3` (it reads only `c2`), and the written row
`(2,10,20,5,15)` has `c3 ≠ c2 + 1`, whereas the real selection writes `(2,10,20,21,31)`. -/
theorem direct_selection_breaks_chain :
    chT.wf = true ∧ storedOk chT [some 2, some 2, some 4, some 5, some 7] = true ∧
    applySetsSel (directSel chT [(1, .val (some 10))]) chT [some 2, some 2, some 4, some 5, some 7] [(1, .val (some 10))]
      = [some 2, some 10, some 20, some 5, some 15] ∧
    storedOk chT [some 2, some 10, some 20, some 5, some 15] = false ∧
    applySets chT [some 2, some 2, some 4, some 5, some 7] [(1, .val (some 10))]
      = [some 2, some 10, some 20, some 21, some 31] ∧
    storedOk chT [some 2, some 10, some 20, some 21, some 31] = true := by decide

/-- `INSERT INTO t (c0,c1) VALUES (2,50) ON DUPLICATE KEY UPDATE c1 = 9` on the chain table holding
`(2,2,4,5,7)`: the existing row becomes `(2,9,18,19,28)` — every link recomputed. -/
example : (stepOdku chT [[some 2, some 2, some 4, some 5, some 7]] [0, 1] [.val (some 2), .val (some 50)]
    [(1, .val (some 9))]).1 = [[some 2, some 9, some 18, some 19, some 28]] := by decide

-- Non-vacuity -----------------------------------------------------------------------------------

/-- `CREATE TABLE t (c0 INT PRIMARY KEY, c1 INT DEFAULT 5, c2 INT DEFAULT (c0+1), c3 INT NOT NULL
DEFAULT 7, c4 INT AS (c1+c3) STORED, CHECK (c1 <> 6), CHECK (c4 < 0) NOT ENFORCED)`. -/
def exT : Table :=
  { cols := [{ notNull := true, dflt := none, gen := .none },
             { notNull := false, dflt := some (.lit (some 5)), gen := .none },
             { notNull := false, dflt := some (.add (.col 0) (.lit (some 1))), gen := .none },
             { notNull := true, dflt := some (.lit (some 7)), gen := .none },
             { notNull := false, dflt := none, gen := .stored (.add (.col 1) (.col 3)) }],
    checks := [{ expr := .ne (.col 1) (.lit (some 6)), enforced := true },
               { expr := .lt (.col 4) (.lit (some 0)), enforced := false }] }

def exH : List Stmt :=
  [.insert false [0] [[.val (some 1)]],                                   -- defaults
   .insert false [0, 1] [[.val (some 2), .dflt], [.val (some 3), .val none]],  -- DEFAULT keyword, NULL passes the check
   .insert false [0, 3] [[.val (some 4), .val none]],                     -- NOT NULL rejects
   .insert true [0, 1] [[.val (some 5), .val (some 6)], [.val (some 6), .val (some 9)]],  -- IGNORE skips the CHECK violation
   .update false [(1, .val (some 6))] (some 1),                           -- CHECK rejects
   .update true [(1, .expr (.add (.col 1) (.lit (some 1))))] none,        -- UPDATE IGNORE: rows 1,2 skipped by the CHECK, row 6 changed and its generated column recomputed
   .update false [(3, .val none)] (some 2),                               -- NOT NULL rejects
   .delete 3]

/-- The hypotheses of `stored_preserved_partial` hold on a history in which CHECK and NOT NULL
reject statements, IGNORE skips a row, defaults are filled and a generated column is recomputed. -/
example : exT.wf = true ∧ ¬ RegionVirtual exT ∧ guardedB exT [] exH = true := by decide

example : run exT [] exH =
    [[some 1, some 5, some 2, some 7, some 12], [some 2, some 5, some 3, some 7, some 12],
     [some 6, some 10, some 7, some 7, some 17]] := by decide

example : (step exT [] (.insert false [0, 3] [[.val (some 4), .val none]])).2 = some Err.notNull := by decide

example : Guarded exT [] exH := (guardedB_iff _ _ _).mp (by decide)

/-- A CHECK that evaluates to NULL does not reject (`check_null_passes`). -/
example : checksPass exT.checks [some 3, none, some 4, some 7, none] = true := by decide

-- Regenerated facts -----------------------------------------------------------------------------

open Gms.Generated.C19 in
/-- The phase order and decision rules the model is written after are the source's, re-read on
every run (`harness/cmd/c19/extract.go`). -/
theorem facts_match :
    insertPhases = ["nullability", "checks", "convert", "replace", "insert"] ∧
    updatePhases = ["equal?", "checks", "nullability", "update"] ∧
    updateSkipsUnchangedRows = true ∧ updateCheckRejectsOnlyFalse = true ∧
    insertCheckRejectsOnlyFalse = true ∧ insertIgnoreZeroesNull = true ∧ updateIgnoreZeroesNull = true ∧
    derivedFieldsOnlyWhenChanged = true ∧ explicitFieldsLeftToRight = true ∧
    checksLoadedThroughCheckTable = true ∧ generatedColumnsGetDerivedSet = true ∧
    insertDefaultIsDefaultOrGenerated = true ∧ virtualTablesAreWrapped = true ∧
    memoryTableIsCheckTable = true := by
  decide

open Gms.Generated.C19 in
/-- The model's `loadedChecks` drops the checks of a table with a virtual column *because* the
wrapper the planner puts around such a table is not a `sql.CheckTable` (run-time fact). The day
this fact flips, the model (and the known finding) must go. -/
theorem virtual_wrapper_fact (T : Table) :
    T.loadedChecks = if T.hasVirtual && !virtualColumnTableIsCheckTable then [] else T.checks := by
  simp [Table.loadedChecks, virtualColumnTableIsCheckTable]

open Gms.Generated.C19 in
/-- Run-time fact: the freshly compiled planner schedules a derived SET for **every** generated column
of `t(c0 PK, c1, c2, c3 AS (c1*2), c4 AS (c3+1), c5 AS (c4+c2), c6 AS (c2*10))`, in schema order, whatever
the statement assigns — for UPDATE and for INSERT … ON DUPLICATE KEY UPDATE. This is the selection
`fun _ => true` of `applySetsSel_all`, which is closed (`all_selection_closed`); a planner that
drops `c4` for `SET c1 = …` has the selection refuted by `direct_selection_breaks_chain`. -/
theorem derived_sets_fact :
    derivedSetsOfChain =
      ["UPDATE t SET c1 = 10 => 1 explicit; derived c3 c4 c5 c6",
       "UPDATE t SET c2 = 4 WHERE c0 = 1 => 1 explicit; derived c3 c4 c5 c6",
       "UPDATE t SET c0 = 7 => 1 explicit; derived c3 c4 c5 c6",
       "INSERT INTO t (c0, c1) VALUES (3, 50) ON DUPLICATE KEY UPDATE c1 = 9 => 1 explicit; derived c3 c4 c5 c6"] := by
  decide

end Gms.C19
