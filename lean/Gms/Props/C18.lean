import Gms.Model.Fk
import Gms.Generated.C18

/-!
C18 — Foreign keys keep referential integrity.

The model (`Gms/Model/Fk.lean`) transliterates the analyzer's editor-graph construction, the
`ForeignKeyEditor` recursion and the handler entry points. This file proves, for *all* schemas,
editor graphs, databases, rows, scan orders and recursion depths:

* `insert_row_ri`, `insert_stmt_ri`   INSERT keeps referential integrity (RI) and key uniqueness;
* `del_contract`                      one `ForeignKeyEditor.Delete` call (any cascade depth, any
                                      graph: chains, diamonds, self references, cycles; actions
                                      RESTRICT / NO ACTION / CASCADE): the database only shrinks, the
                                      row is gone, and *no key that lost its last parent row keeps a
                                      child row* — by induction over the recursion;
* `delete_stmt_ri`                    hence every such DELETE statement keeps RI;
* `upd_noCascade_ri`, `update_stmt_ri_partial`  UPDATE keeps RI when no ON UPDATE CASCADE / SET NULL
                                      action fires, outside the region `SelfMove`;
* `finding_selfref_update_moves_key`  the unchanged code *violates* RI inside `SelfMove`;
* `step_fail_no_effect`, `history_ri` failed statements have no effect; RI holds after every guarded
                                      history.
-/

namespace Gms.Fk

-- ---------------------------------------------------------------------------------------------
-- Basic definitions (Prop level) and their Boolean counterparts

/-- Referential integrity: every child row with a NULL-free key has a parent row with that key. -/
def RI (S : Schema) (db : Db) : Prop :=
  ∀ f ∈ S.fks, ∀ c ∈ db f.child, hasNull (key c f.ccols) = false →
    ∃ p ∈ db f.parent, key p f.pcols = key c f.ccols

/-- Primary keys are unique in every table. -/
def PkU (db : Db) : Prop := ∀ t, ((db t).map pk).Nodup

/-- `db'` is obtained from `db` by removing rows. -/
def Sub (db db' : Db) : Prop := ∀ t, (db' t).Sublist (db t)

/-- No key that has lost its last parent row keeps a child row. -/
def Lost (S : Schema) (db db' : Db) : Prop :=
  ∀ f ∈ S.fks, ∀ k, hasNull k = false →
    (∃ p ∈ db f.parent, key p f.pcols = k) → (¬ ∃ p ∈ db' f.parent, key p f.pcols = k) →
    ∀ c ∈ db' f.child, key c f.ccols ≠ k

/-- The only row of table `t` with `row`'s primary key is `row` itself (if any). -/
def OnlyRow (db : Db) (t : Nat) (row : Row) : Prop := ∀ p ∈ db t, pk p = pk row → p = row

/-- No row of table `t` has `row`'s primary key. -/
def Removed (db : Db) (t : Nat) (row : Row) : Prop := ∀ r ∈ db t, pk r ≠ pk row

theorem riB_iff (S : Schema) (db : Db) : riB S db = true ↔ RI S db := by
  simp only [riB, fkHolds, RI, List.all_eq_true, List.any_eq_true, Bool.or_eq_true, beq_iff_eq]
  constructor
  · intro h f hf c hc hn
    rcases h f hf c hc with h1 | h1
    · simp [hn] at h1
    · exact h1
  · intro h f hf c hc
    cases hn : hasNull (key c f.ccols)
    · exact Or.inr (h f hf c hc hn)
    · exact Or.inl rfl

theorem Sub.refl (db : Db) : Sub db db := fun _ => List.Sublist.refl _
theorem Sub.trans {a b c : Db} (h1 : Sub a b) (h2 : Sub b c) : Sub a c :=
  fun t => (h2 t).trans (h1 t)
theorem Sub.mem {a b : Db} (h : Sub a b) {t : Nat} {r : Row} (hr : r ∈ b t) : r ∈ a t :=
  (h t).subset hr

theorem PkU.sub {a b : Db} (h : PkU a) (hs : Sub a b) : PkU b :=
  fun t => ((hs t).map pk).nodup (h t)

theorem OnlyRow.sub {a b : Db} {t : Nat} {row : Row} (h : OnlyRow a t row) (hs : Sub a b) : OnlyRow b t row :=
  fun p hp => h p (hs.mem hp)

theorem Removed.sub {a b : Db} {t : Nat} {row : Row} (h : Removed a t row) (hs : Sub a b) : Removed b t row :=
  fun p hp => h p (hs.mem hp)

theorem nodup_map_inj {α β : Type} {f : α → β} : ∀ {l : List α}, (l.map f).Nodup →
    ∀ {x y : α}, x ∈ l → y ∈ l → f x = f y → x = y := by
  intro l
  induction l with
  | nil => intro _ x y hx; cases hx
  | cons a l ih =>
    intro h x y hx hy hxy
    simp only [List.map_cons, List.nodup_cons, List.mem_map, not_exists, not_and] at h
    rcases List.mem_cons.mp hx with rfl | hx' <;> rcases List.mem_cons.mp hy with rfl | hy'
    · rfl
    · exact absurd hxy.symm (h.1 y hy')
    · exact absurd hxy (h.1 x hx')
    · exact ih h.2 hx' hy' hxy

/-- In a table with unique keys, a row of the table is the only one with its key. -/
theorem onlyRow_of_mem {db : Db} (h : PkU db) {t : Nat} {row : Row} (hr : row ∈ db t) : OnlyRow db t row := by
  intro p hp hpk
  exact nodup_map_inj (h t) hp hr hpk

theorem Lost.refl (S : Schema) (db : Db) : Lost S db db := by
  intro f _ k _ h1 h2; exact absurd h1 h2

theorem Lost.trans {S : Schema} {a b c : Db} (hab : Lost S a b) (hbc : Lost S b c) (sbc : Sub b c) :
    Lost S a c := by
  intro f hf k hk h1 h3 x hx
  by_cases h2 : ∃ p ∈ b f.parent, key p f.pcols = k
  · exact hbc f hf k hk h2 h3 x hx
  · exact hab f hf k hk h1 h2 x (sbc.mem hx)

/-- The preorder all delete-rooted executions move along. -/
def Shr (S : Schema) (db db' : Db) : Prop := Sub db db' ∧ Lost S db db'

theorem Shr.refl (S : Schema) (db : Db) : Shr S db db := ⟨Sub.refl db, Lost.refl S db⟩
theorem Shr.trans {S : Schema} {a b c : Db} (h1 : Shr S a b) (h2 : Shr S b c) : Shr S a c :=
  ⟨h1.1.trans h2.1, h1.2.trans h2.2 h2.1⟩

/-- RI survives every `Shr` move. -/
theorem ri_of_shr {S : Schema} {db db' : Db} (h : RI S db) (hs : Shr S db db') : RI S db' := by
  intro f hf c hc hn
  obtain ⟨p, hp, hk⟩ := h f hf c (hs.1.mem hc) hn
  by_cases h2 : ∃ p ∈ db' f.parent, key p f.pcols = key c f.ccols
  · exact h2
  · exact absurd rfl (hs.2 f hf _ hn ⟨p, hp, hk⟩ h2 c hc)

-- ---------------------------------------------------------------------------------------------
-- Loops

theorem iterM_nil {α : Type} (f : α → Db → Except Err Db) (db : Db) : iterM f [] db = .ok db := rfl

theorem iterM_cons {α : Type} (f : α → Db → Except Err Db) (a : α) (as : List α) (db : Db) :
    iterM f (a :: as) db = match f a db with | .ok db' => iterM f as db' | .error e => .error e := rfl

/-- Loop rule: every iteration moves along the preorder `Q` and establishes `Post a`, which later
`Q` moves keep; then the loop moves along `Q` and establishes every `Post a`. The body may rely on
the current state being `Q`-reachable from the loop's start. -/
theorem iterM_rule {α : Type} (f : α → Db → Except Err Db) (Q : Db → Db → Prop) (Post : α → Db → Prop)
    (qrefl : ∀ db, Q db db) (qtrans : ∀ a b c, Q a b → Q b c → Q a c)
    (stable : ∀ a d d', Post a d → Q d d' → Post a d')
    (start : Db) (l : List α)
    (body : ∀ a ∈ l, ∀ cur db1, Q start cur → f a cur = .ok db1 → Q cur db1 ∧ Post a db1) :
    ∀ cur db', Q start cur → iterM f l cur = .ok db' → Q cur db' ∧ ∀ a ∈ l, Post a db' := by
  induction l with
  | nil =>
    intro cur db' _ h
    simp [iterM] at h
    subst h
    exact ⟨qrefl _, by simp⟩
  | cons a as ih =>
    intro cur db' hq h
    rw [iterM_cons] at h
    cases hfa : f a cur with
    | error e => rw [hfa] at h; cases h
    | ok db1 =>
      rw [hfa] at h
      obtain ⟨q1, p1⟩ := body a (List.mem_cons_self) cur db1 hq hfa
      have ih' := ih (fun b hb => body b (List.mem_cons_of_mem _ hb)) db1 db' (qtrans _ _ _ hq q1) h
      refine ⟨qtrans _ _ _ q1 ih'.1, ?_⟩
      intro b hb
      rcases List.mem_cons.mp hb with rfl | hb
      · exact stable _ _ _ p1 ih'.1
      · exact ih'.2 b hb

-- ---------------------------------------------------------------------------------------------
-- Editor primitives

theorem setTab_same (db : Db) (t : Nat) (rows : List Row) : setTab db t rows t = rows := by simp [setTab]
theorem setTab_other (db : Db) (t u : Nat) (rows : List Row) (h : u ≠ t) : setTab db t rows u = db u := by
  simp [setTab, h]

theorem edDelete_sub (db : Db) (t : Nat) (row : Row) : Sub db (edDelete db t row) := by
  intro u
  by_cases h : u = t
  · subst h; simp only [edDelete, setTab_same]; exact List.filter_sublist
  · simp only [edDelete, setTab_other _ _ _ _ h]; exact List.Sublist.refl _

theorem edDelete_removed (db : Db) (t : Nat) (row : Row) : Removed (edDelete db t row) t row := by
  intro r hr
  simp only [edDelete, setTab_same, List.mem_filter, bne_iff_ne, ne_eq] at hr
  exact hr.2

/-- What `edDelete` removes from its table is `row` itself, when `row` is the only row with its key. -/
theorem edDelete_lost_row {db : Db} {t : Nat} {row p : Row} (h : OnlyRow db t row)
    (hp : p ∈ db t) (hnot : p ∉ edDelete db t row t) : p = row := by
  apply h p hp
  by_cases hne : pk p = pk row
  · exact hne
  · exfalso
    apply hnot
    simp only [edDelete, setTab_same, List.mem_filter, bne_iff_ne, ne_eq]
    exact ⟨hp, hne⟩

theorem matching_mem {db : Db} {t : Nat} {cols : List Nat} {k : List Val} {r : Row}
    (hk : hasNull k = false) : r ∈ matching db t cols k ↔ r ∈ db t ∧ key r cols = k := by
  simp [matching, hk]

theorem matching_null {db : Db} {t : Nat} {cols : List Nat} {k : List Val}
    (hk : hasNull k = true) : matching db t cols k = [] := by
  simp [matching, hk]

-- ---------------------------------------------------------------------------------------------
-- Well-formed editor graphs

/-- The action list of `nd` covers every constraint that references `nd.tbl` (same columns and
ON DELETE action; `onUpd` may have been replaced by RESTRICT by the analyzer). -/
def Covers (S : Schema) (nd : Node) : Prop :=
  ∀ f ∈ S.fks, f.parent = nd.tbl → ∃ a ∈ nd.acts,
    a.fk.child = f.child ∧ a.fk.ccols = f.ccols ∧ a.fk.parent = f.parent ∧ a.fk.pcols = f.pcols ∧
    a.fk.onDel = f.onDel

/-- `ids` is a set of node ids closed under "child editor of an action", all of whose nodes
cover their table and point to editors of the right table. -/
def Closed (S : Schema) (G : Graph) (ids : List Nat) : Prop :=
  ∀ e ∈ ids, e < G.length ∧ Covers S (gnode G e) ∧
    ∀ a ∈ (gnode G e).acts, a.child ∈ ids ∧ (gnode G a.child).tbl = a.fk.child ∧
      a.fk.parent = (gnode G e).tbl

/-- No ON DELETE SET NULL action in the graph. -/
def NoSetNullOnDelete (G : Graph) (ids : List Nat) : Prop :=
  ∀ e ∈ ids, ∀ a ∈ (gnode G e).acts, a.fk.onDel ≠ .setNull

-- ---------------------------------------------------------------------------------------------
-- The delete contract

/-- What one `ForeignKeyEditor.Delete` call guarantees. -/
def DelPost (S : Schema) (G : Graph) (e : Nat) (row : Row) (db db' : Db) : Prop :=
  Shr S db db' ∧ Removed db' (gnode G e).tbl row

def DelContract (S : Schema) (G : Graph) (ids : List Nat) (rec : Op → Db → Except Err Db) : Prop :=
  ∀ e row d db db', e ∈ ids → PkU db → OnlyRow db (gnode G e).tbl row →
    rec (.del e row d) db = .ok db' → DelPost S G e row db db'

/-- After one ON DELETE action for constraint `a.fk`, no row of the child table carries the
deleted row's key any more. -/
def NoChild (a : ActData) (row : Row) (db : Db) : Prop :=
  hasNull (key row a.fk.pcols) = false → ∀ c ∈ db a.fk.child, key c a.fk.ccols ≠ key row a.fk.pcols

theorem NoChild.sub {a : ActData} {row : Row} {d d' : Db} (h : NoChild a row d) (hs : Sub d d') :
    NoChild a row d' := fun hk c hc => h hk c (hs.mem hc)

/-- One referential action of a delete: moves along `Shr` and leaves no child with the key. -/
theorem onDeleteAct_post {S : Schema} {G : Graph} {ids : List Nat} {rec : Op → Db → Except Err Db}
    (hrec : DelContract S G ids rec) (hcl : Closed S G ids) (hns : NoSetNullOnDelete G ids)
    {e : Nat} (he : e ∈ ids) {a : ActData} (ha : a ∈ (gnode G e).acts)
    (cyc : Bool) (row : Row) (depth : Nat) {start cur db1 : Db}
    (blocked : delBlocked (gnode G e).acts row start = false)
    (hstart : Sub start cur) (hpk : PkU cur)
    (h : onDeleteAct rec cyc row depth a cur = .ok db1) :
    Shr S cur db1 ∧ NoChild a row db1 := by
  obtain ⟨_, _, hch⟩ := hcl e he
  obtain ⟨hcid, hctbl, _⟩ := hch a ha
  unfold onDeleteAct at h
  cases hact : a.fk.onDel with
  | setNull => exact absurd hact (hns e he a ha)
  | restrict =>
    rw [hact] at h
    simp only [Except.ok.injEq] at h
    subst h
    refine ⟨Shr.refl S cur, ?_⟩
    -- the RESTRICT check found no child at the start; the table only shrank since
    intro hk c hc hkey
    have hb := blocked
    simp only [delBlocked, List.any_eq_false] at hb
    have := hb a ha
    simp [hact] at this
    have hm : c ∈ matching start a.fk.child a.fk.ccols (key row a.fk.pcols) :=
      (matching_mem hk).mpr ⟨hstart.mem hc, hkey⟩
    rw [this] at hm
    cases hm
  | cascade =>
    rw [hact] at h
    -- inner loop over the matching child rows
    have rule := iterM_rule
      (fun c db => if delDepthExceeded cyc depth then Except.error Err.depth else rec (.del a.child c depth) db)
      (Shr S) (fun c d => Removed d a.fk.child c)
      (Shr.refl S) (fun _ _ _ => Shr.trans) (fun _ _ _ hp hq => hp.sub hq.1)
      cur (matching cur a.fk.child a.fk.ccols (key row a.fk.pcols))
      (by
        intro c hc cur' db2 hq hf
        by_cases hd : delDepthExceeded cyc depth = true
        · simp [hd] at hf
        · simp only [hd, Bool.false_eq_true, ↓reduceIte] at hf
          have hcmem : c ∈ cur a.fk.child := by
            by_cases hk : hasNull (key row a.fk.pcols) = true
            · rw [matching_null hk] at hc; cases hc
            · exact ((matching_mem (by simpa using hk)).mp hc).1
          have honly : OnlyRow cur' (gnode G a.child).tbl c := by
            rw [hctbl]; exact (onlyRow_of_mem hpk hcmem).sub hq.1
          have := hrec a.child c depth cur' db2 hcid (hpk.sub hq.1) honly hf
          exact ⟨this.1, by rw [← hctbl]; exact this.2⟩)
      cur db1 (Shr.refl S cur) h
    refine ⟨rule.1, ?_⟩
    intro hk c hc hkey
    have hm : c ∈ matching cur a.fk.child a.fk.ccols (key row a.fk.pcols) :=
      (matching_mem hk).mpr ⟨rule.1.1.mem hc, hkey⟩
    exact rule.2 c hm c hc rfl

/-- One level of `ForeignKeyEditor.Delete` satisfies the contract if the next level does. -/
theorem del_step {S : Schema} {G : Graph} {ids : List Nat} {rec : Op → Db → Except Err Db}
    (hrec : DelContract S G ids rec) (hcl : Closed S G ids) (hns : NoSetNullOnDelete G ids) :
    DelContract S G ids (execStep S G rec) := by
  intro e row d db db' he hpk honly h
  simp only [execStep] at h
  by_cases hb : delBlocked (gnode G e).acts row db = true
  · simp [hb] at h
  · have hb' : delBlocked (gnode G e).acts row db = false := by simpa using hb
    simp only [hb', Bool.false_eq_true, ↓reduceIte] at h
    obtain ⟨_, hcov, hch⟩ := hcl e he
    let nd := gnode G e
    let db1 := edDelete db nd.tbl row
    have hsub1 : Sub db db1 := edDelete_sub db nd.tbl row
    have rule := iterM_rule (onDeleteAct rec nd.cyclical row (d + 1)) (Shr S) (fun a dd => NoChild a row dd)
      (Shr.refl S) (fun _ _ _ => Shr.trans) (fun _ _ _ hp hq => hp.sub hq.1)
      db1 nd.acts
      (by
        intro a ha cur db2 hq hf
        exact onDeleteAct_post hrec hcl hns he ha nd.cyclical row (d + 1) hb'
          (hsub1.trans hq.1) ((hpk.sub hsub1).sub hq.1) hf)
      db1 db' (Shr.refl S db1) h
    have hsub : Sub db db' := hsub1.trans rule.1.1
    refine ⟨⟨hsub, ?_⟩, (edDelete_removed db nd.tbl row).sub rule.1.1⟩
    -- Lost db db'
    intro f hf k hk hpar hnone c hc hkey
    by_cases h1 : ∃ p ∈ db1 f.parent, key p f.pcols = k
    · exact rule.1.2 f hf k hk h1 hnone c hc hkey
    · -- the parent row vanished in `edDelete`: it is `row`, and `f` references this node's table
      obtain ⟨p, hp, hpk'⟩ := hpar
      have hft : f.parent = nd.tbl := by
        by_cases hne : f.parent = nd.tbl
        · exact hne
        · exfalso
          apply h1
          refine ⟨p, ?_, hpk'⟩
          show p ∈ edDelete db nd.tbl row f.parent
          simp only [edDelete, setTab_other _ _ _ _ hne]; exact hp
      have hprow : p = row := by
        apply edDelete_lost_row (t := nd.tbl) honly (hft ▸ hp)
        intro hin
        exact h1 ⟨p, hft ▸ hin, hpk'⟩
      subst hprow
      obtain ⟨a, ha, hc1, hc2, _, hc4, _⟩ := hcov f hf hft
      have hno := rule.2 a ha
      have hk' : hasNull (key p a.fk.pcols) = false := by rw [hc4, hpk']; exact hk
      exact hno hk' c (hc1 ▸ hc) (by rw [hc2, hc4, hpk']; exact hkey)

/-- **Delete contract at every recursion depth.** -/
theorem del_contract {S : Schema} {G : Graph} {ids : List Nat}
    (hcl : Closed S G ids) (hns : NoSetNullOnDelete G ids) :
    ∀ n, DelContract S G ids (exec S G n) := by
  intro n
  induction n with
  | zero => intro e row d db db' _ _ _ h; simp [exec] at h
  | succ n ih => exact del_step ih hcl hns

-- ---------------------------------------------------------------------------------------------
-- The Boolean well-formedness checks (evaluated by the driver) imply the hypotheses used above

theorem coversB_sound {S : Schema} {nd : Node} (h : coversB S nd = true) : Covers S nd := by
  intro f hf hpar
  simp only [coversB, List.all_eq_true, Bool.or_eq_true, bne_iff_ne, ne_eq, List.any_eq_true,
    Bool.and_eq_true, beq_iff_eq] at h
  rcases h f hf with h1 | ⟨a, ha, ⟨⟨⟨⟨h1, h2⟩, h3⟩, h4⟩, h5⟩⟩
  · exact absurd hpar h1
  · exact ⟨a, ha, h1, h2, h3, h4, h5⟩

theorem closedB_sound {S : Schema} {G : Graph} {ids : List Nat} (h : closedB S G ids = true) :
    Closed S G ids := by
  intro e he
  simp only [closedB, List.all_eq_true, Bool.and_eq_true, decide_eq_true_eq, List.contains_iff_mem,
    beq_iff_eq] at h
  obtain ⟨⟨h1, h2⟩, h3⟩ := h e he
  refine ⟨h1, coversB_sound h2, ?_⟩
  intro a ha
  obtain ⟨⟨h4, h5⟩, h6⟩ := h3 a ha
  exact ⟨h4, h5, h6⟩

-- ---------------------------------------------------------------------------------------------
-- INSERT

theorem edInsert_spec {db db' : Db} {t : Nat} {row : Row} (h : edInsert db t row = .ok db') :
    db' = setTab db t (db t ++ [row]) ∧ ∀ r ∈ db t, pk r ≠ pk row := by
  unfold edInsert at h
  split at h
  · cases h
  · rename_i hany
    simp only [Except.ok.injEq] at h
    refine ⟨h.symm, ?_⟩
    intro r hr hpk
    apply hany
    simp only [List.any_eq_true, beq_iff_eq]
    exact ⟨r, hr, hpk⟩

/-- Appending a row whose references resolve keeps RI. -/
theorem append_ri {S : Schema} {db : Db} {t : Nat} {row : Row} (hri : RI S db)
    (hrefs : ∀ f ∈ S.fks, f.child = t → checkReference db f row = true) :
    RI S (setTab db t (db t ++ [row])) := by
  intro f hf c hc hn
  have parent_mono : ∀ p ∈ db f.parent, p ∈ setTab db t (db t ++ [row]) f.parent := by
    intro p hp
    by_cases hpt : f.parent = t
    · rw [hpt, setTab_same]; exact List.mem_append_left _ (hpt ▸ hp)
    · rw [setTab_other _ _ _ _ hpt]; exact hp
  by_cases hct : f.child = t
  · rw [hct, setTab_same] at hc
    rcases List.mem_append.mp hc with hc | hc
    · obtain ⟨p, hp, hk⟩ := hri f hf c (hct ▸ hc) hn
      exact ⟨p, parent_mono p hp, hk⟩
    · simp only [List.mem_singleton] at hc
      subst hc
      have := hrefs f hf hct
      simp only [checkReference, Bool.or_eq_true, hn, Bool.false_eq_true, false_or, List.any_eq_true,
        beq_iff_eq, Bool.and_eq_true] at this
      rcases this with ⟨p, hp, hk⟩ | ⟨hself, hk⟩
      · exact ⟨p, parent_mono p hp, hk⟩
      · refine ⟨c, ?_, hk.symm⟩
        rw [← hself, hct, setTab_same]; exact List.mem_append_right _ (List.mem_singleton.mpr rfl)
  · rw [setTab_other _ _ _ _ hct] at hc
    obtain ⟨p, hp, hk⟩ := hri f hf c hc hn
    exact ⟨p, parent_mono p hp, hk⟩

theorem append_pku {db : Db} {t : Nat} {row : Row} (hpk : PkU db) (hnew : ∀ r ∈ db t, pk r ≠ pk row) :
    PkU (setTab db t (db t ++ [row])) := by
  intro u
  by_cases hu : u = t
  · subst hu
    rw [setTab_same, List.map_append, List.nodup_append]
    refine ⟨hpk u, by simp, ?_⟩
    intro a ha b hb
    simp only [List.map_cons, List.map_nil, List.mem_singleton] at hb
    obtain ⟨r, hr, rfl⟩ := List.mem_map.mp ha
    subst hb
    exact hnew r hr
  · rw [setTab_other _ _ _ _ hu]; exact hpk u

/-- The root "editor" of an INSERT: exactly the constraints declared on the table. -/
def InsertRootOk (S : Schema) (root : Option Node) (t : Nat) : Prop :=
  match root with
  | none => ∀ f ∈ S.fks, f.child ≠ t
  | some nd => ∀ f ∈ S.fks, f.child = t → f ∈ nd.refs

/-- **INSERT of one row keeps RI and key uniqueness** (`ForeignKeyHandler.Insert`). -/
theorem insert_row_ri {S : Schema} {root : Option Node} {t : Nat} {row : Row} {db db' : Db}
    (hroot : InsertRootOk S root t) (hri : RI S db) (hpk : PkU db)
    (h : insertRow S root t row db = .ok db') : RI S db' ∧ PkU db' := by
  unfold insertRow at h
  split at h
  · cases h
  · cases root with
    | none =>
      obtain ⟨rfl, hnew⟩ := edInsert_spec h
      exact ⟨append_ri hri (fun f hf hc => absurd hc (hroot f hf)), append_pku hpk hnew⟩
    | some nd =>
      simp only at h
      split at h
      · rename_i hall
        obtain ⟨rfl, hnew⟩ := edInsert_spec h
        refine ⟨append_ri hri ?_, append_pku hpk hnew⟩
        intro f hf hc
        exact (List.all_eq_true.mp hall) f (hroot f hf hc)
      · cases h

/-- `build S .insert t` produces exactly such a root. -/
theorem build_insert_ok (S : Schema) (t : Nat) :
    InsertRootOk S ((build S .insert t).2.map (gnode (build S .insert t).1)) t := by
  unfold build
  simp only
  split
  · rename_i hemp
    simp only [Option.map_none, InsertRootOk]
    intro f hf hc
    have : f ∈ S.fks.filter (fun f => f.child == t) := List.mem_filter.mpr ⟨hf, by simp [hc]⟩
    rw [List.isEmpty_iff.mp hemp] at this
    cases this
  · simp only [Option.map_some, InsertRootOk, gnode, List.getD_cons_zero]
    intro f hf hc
    exact List.mem_filter.mpr ⟨hf, by simp [hc]⟩

/-- **Every INSERT statement keeps RI and key uniqueness** — no hypothesis on the schema. -/
theorem insert_stmt_ri {S : Schema} {t : Nat} {rows : List Row} {db db' : Db}
    (hri : RI S db) (hpk : PkU db) (h : runStmt S db (.insert t rows) = .ok db') :
    RI S db' ∧ PkU db' := by
  simp only [runStmt] at h
  have rule := iterM_rule (insertRow S ((build S .insert t).2.map (gnode (build S .insert t).1)) t)
    (fun a b => (RI S a ∧ PkU a) → (RI S b ∧ PkU b)) (fun _ _ => True)
    (fun _ h => h) (fun _ _ _ h1 h2 h => h2 (h1 h)) (fun _ _ _ _ _ => trivial)
    db rows
    (by
      intro row _ cur db1 _ hf
      exact ⟨fun hc => insert_row_ri (build_insert_ok S t) hc.1 hc.2 hf, trivial⟩)
    db db' (fun h => h) h
  exact rule.1 ⟨hri, hpk⟩

-- ---------------------------------------------------------------------------------------------
-- DELETE statements

/-- Hypothesis on the editor graph of a DELETE on `t`. -/
def DelGraphOk (S : Schema) (G : Graph) (root : Option Nat) (t : Nat) : Prop :=
  match root with
  | none => ∀ f ∈ S.fks, f.parent ≠ t
  | some r => ∃ ids, r ∈ ids ∧ (gnode G r).tbl = t ∧ Closed S G ids ∧ NoSetNullOnDelete G ids

theorem shr_of_sub_noparent {S : Schema} {db db' : Db} {t : Nat} (hs : Sub db db')
    (hsame : ∀ u, u ≠ t → db' u = db u) (hno : ∀ f ∈ S.fks, f.parent ≠ t) : Shr S db db' := by
  refine ⟨hs, ?_⟩
  intro f hf k _ h1 h2
  rw [hsame f.parent (hno f hf)] at h2
  exact absurd h1 h2

theorem deleteRow_shr {S : Schema} {G : Graph} {root : Option Nat} {t : Nat} {row : Row} {db db' : Db}
    (hG : DelGraphOk S G root t) (hpk : PkU db) (honly : OnlyRow db t row)
    (h : deleteRow S G root t row db = .ok db') : Shr S db db' := by
  unfold deleteRow at h
  cases root with
  | none =>
    simp only [Except.ok.injEq] at h
    subst h
    exact shr_of_sub_noparent (edDelete_sub db t row)
      (fun u hu => by simp [edDelete, setTab_other _ _ _ _ hu]) hG
  | some r =>
    obtain ⟨ids, hr, htbl, hcl, hns⟩ := hG
    exact (del_contract hcl hns topFuel r row 1 db db' hr hpk (htbl ▸ honly) h).1

theorem insertBy_perm {α : Type} (le : α → α → Bool) (a : α) :
    ∀ l : List α, (insertBy le a l).Perm (a :: l) := by
  intro l
  induction l with
  | nil => exact List.Perm.refl _
  | cons b bs ih =>
    simp only [insertBy]
    split
    · exact List.Perm.refl _
    · exact (List.Perm.cons b ih).trans (List.Perm.swap a b bs)

theorem isort_perm {α : Type} (le : α → α → Bool) : ∀ l : List α, (isort le l).Perm l := by
  intro l
  induction l with
  | nil => exact List.Perm.refl _
  | cons a as ih => exact (insertBy_perm le a _).trans (List.Perm.cons a ih)

theorem selectRows_perm (db : Db) (t : Nat) (w : Pred) (ord : List Int) :
    (selectRows db t w ord).Perm ((db t).filter w.eval) := by
  unfold selectRows
  exact isort_perm _ _

theorem selectRows_mem {db : Db} {t : Nat} {w : Pred} {ord : List Int} {r : Row}
    (h : r ∈ selectRows db t w ord) : r ∈ db t :=
  (List.mem_filter.mp ((selectRows_perm db t w ord).mem_iff.mp h)).1

/-- **Every DELETE statement keeps RI** when no ON DELETE SET NULL action is reachable: any
graph (chains, diamonds, self references, cycles), any number of rows, any scan order, any
cascade depth (the depth limit turns into an error, which has no effect). -/
theorem delete_stmt_ri {S : Schema} {t : Nat} {w : Pred} {ord : List Int} {db db' : Db}
    (hG : DelGraphOk S (build S .delete t).1 (build S .delete t).2 t)
    (hri : RI S db) (hpk : PkU db) (h : runStmt S db (.delete t w ord) = .ok db') :
    RI S db' ∧ PkU db' := by
  simp only [runStmt] at h
  split at h
  · -- DELETE without WHERE on a table no other table references: TRUNCATE
    rename_i htr
    simp only [Except.ok.injEq] at h
    subst h
    simp only [Bool.and_eq_true, truncatable, List.all_eq_true, Bool.or_eq_true, bne_iff_ne, ne_eq,
      beq_iff_eq] at htr
    refine ⟨?_, ?_⟩
    · intro f hf c hc hn
      by_cases hct : f.child = t
      · rw [hct, setTab_same] at hc; cases hc
      · rw [setTab_other _ _ _ _ hct] at hc
        have hpt : f.parent ≠ t := by
          intro hpt
          rcases htr.2 f hf with h1 | h1
          · exact h1 hpt
          · exact hct h1
        rw [setTab_other _ _ _ _ hpt]
        exact hri f hf c hc hn
    · intro u
      by_cases hu : u = t
      · subst hu; simp [setTab_same]
      · rw [setTab_other _ _ _ _ hu]; exact hpk u
  · have rule := iterM_rule (deleteRow S (build S .delete t).1 (build S .delete t).2 t)
      (Shr S) (fun _ _ => True) (Shr.refl S) (fun _ _ _ => Shr.trans) (fun _ _ _ _ _ => trivial)
      db (selectRows db t w ord)
      (by
        intro row hrow cur db1 hq hf
        refine ⟨deleteRow_shr hG (hpk.sub hq.1) ?_ hf, trivial⟩
        exact (onlyRow_of_mem hpk (selectRows_mem hrow)).sub hq.1)
      db db' (Shr.refl S db) h
    exact ⟨ri_of_shr hri rule.1, hpk.sub rule.1.1⟩

-- ---------------------------------------------------------------------------------------------
-- UPDATE (no cascading action fires)

/-- Region of finding `selfref_update_moves_key`: the statement moves a row of a table with a
self-referential constraint to a new parent key and, in the same assignment list, makes its child
columns point at the parent key it just abandoned. -/
def SelfMove (S : Schema) (t : Nat) (old new : Row) : Prop :=
  ∃ f ∈ S.fks, f.child = t ∧ f.parent = t ∧ key old f.ccols ≠ key new f.ccols ∧
    key old f.pcols ≠ key new f.pcols ∧ key new f.ccols = key old f.pcols

/-- No ON UPDATE CASCADE / SET NULL action fires for this row. -/
def NoFire (acts : List ActData) (old new : Row) : Prop :=
  ∀ a ∈ acts, a.fk.onUpd = .restrict ∨ columnsUpdated a.fk old new = false

theorem edUpdate_spec {db db1 : Db} {t : Nat} {old new : Row} (h : edUpdate db t old new = .ok db1) :
    db1 = setTab (edDelete db t old) t (((edDelete db t old) t).filter (fun r => pk r != pk new) ++ [new]) ∧
    (pk old ≠ pk new → ∀ r ∈ edDelete db t old t, pk r ≠ pk new) := by
  unfold edUpdate at h
  simp only at h
  split at h
  · cases h
  · rename_i hc
    simp only [Except.ok.injEq] at h
    refine ⟨h.symm, ?_⟩
    intro hne r hr hpk
    apply hc
    simp only [Bool.and_eq_true, bne_iff_ne, ne_eq, List.any_eq_true, beq_iff_eq]
    exact ⟨hne, r, hr, hpk⟩

theorem edUpdate_other {db db1 : Db} {t u : Nat} {old new : Row} (h : edUpdate db t old new = .ok db1)
    (hu : u ≠ t) : db1 u = db u := by
  rw [(edUpdate_spec h).1, setTab_other _ _ _ _ hu]
  simp [edDelete, setTab_other _ _ _ _ hu]

theorem edUpdate_new_mem {db db1 : Db} {t : Nat} {old new : Row} (h : edUpdate db t old new = .ok db1) :
    new ∈ db1 t := by
  rw [(edUpdate_spec h).1, setTab_same]; exact List.mem_append_right _ (List.mem_singleton.mpr rfl)

theorem edUpdate_mem {db db1 : Db} {t : Nat} {old new r : Row} (h : edUpdate db t old new = .ok db1)
    (hr : r ∈ db1 t) : r = new ∨ (r ∈ db t ∧ pk r ≠ pk old) := by
  rw [(edUpdate_spec h).1, setTab_same] at hr
  rcases List.mem_append.mp hr with hr | hr
  · right
    have := (List.mem_filter.mp hr).1
    simp only [edDelete, setTab_same, List.mem_filter, bne_iff_ne, ne_eq] at this
    exact this
  · left; exact List.mem_singleton.mp hr

theorem edUpdate_keeps {db db1 : Db} {t : Nat} {old new r : Row} (h : edUpdate db t old new = .ok db1)
    (hr : r ∈ db t) (hne : pk r ≠ pk old) : r ∈ db1 t := by
  have hspec := edUpdate_spec h
  rw [hspec.1, setTab_same]
  apply List.mem_append_left
  have hr1 : r ∈ edDelete db t old t := by
    simp only [edDelete, setTab_same, List.mem_filter, bne_iff_ne, ne_eq]; exact ⟨hr, hne⟩
  refine List.mem_filter.mpr ⟨hr1, ?_⟩
  simp only [bne_iff_ne, ne_eq]
  by_cases hpk : pk old = pk new
  · rw [← hpk]; exact hne
  · exact hspec.2 hpk r hr1

theorem edUpdate_pku {db db1 : Db} {t : Nat} {old new : Row} (hpk : PkU db)
    (h : edUpdate db t old new = .ok db1) : PkU db1 := by
  intro u
  by_cases hu : u = t
  · subst hu
    rw [(edUpdate_spec h).1, setTab_same, List.map_append, List.nodup_append]
    refine ⟨?_, by simp, ?_⟩
    · have hs : (((edDelete db u old) u).filter (fun r => pk r != pk new)).Sublist (db u) :=
        List.filter_sublist.trans (edDelete_sub db u old u)
      exact (hs.map pk).nodup (hpk u)
    · intro a ha b hb
      simp only [List.map_cons, List.map_nil, List.mem_singleton] at hb
      obtain ⟨r, hr, rfl⟩ := List.mem_map.mp ha
      subst hb
      have := (List.mem_filter.mp hr).2
      simpa using this
  · rw [edUpdate_other h hu]; exact hpk u

/-- The heart of the UPDATE argument: replacing `old` by `new` keeps RI when (child side) every
constraint whose child columns changed resolves for `new`, (parent side) every constraint whose
parent columns changed had no child row for the old key, and the row does not move onto its own
abandoned key. -/
theorem edUpdate_ri {S : Schema} {db db1 : Db} {t : Nat} {old new : Row}
    (hri : RI S db) (hpk : PkU db) (hold : old ∈ db t) (hed : edUpdate db t old new = .ok db1)
    (hchild : ∀ f ∈ S.fks, f.child = t → key old f.ccols = key new f.ccols ∨ checkReference db f new = true)
    (hparent : ∀ f ∈ S.fks, f.parent = t → key old f.pcols = key new f.pcols ∨
      matching db f.child f.ccols (key old f.pcols) = [])
    (hself : ¬ SelfMove S t old new) : RI S db1 := by
  have honly := onlyRow_of_mem hpk hold
  -- a parent row of the old database is still there, or was `old`
  have parent_step : ∀ f ∈ S.fks, ∀ k, hasNull k = false → ∀ p ∈ db f.parent, key p f.pcols = k →
      (∃ p' ∈ db1 f.parent, key p' f.pcols = k) ∨ (f.parent = t ∧ p = old ∧ key new f.pcols ≠ k) := by
    intro f hf k _ p hp hk
    by_cases hpt : f.parent = t
    · by_cases hpo : pk p = pk old
      · have : p = old := honly p (hpt ▸ hp) hpo
        subst this
        by_cases hkn : key new f.pcols = k
        · left; exact ⟨new, hpt ▸ edUpdate_new_mem hed, hkn⟩
        · right; exact ⟨hpt, rfl, hkn⟩
      · left; exact ⟨p, hpt ▸ edUpdate_keeps hed (hpt ▸ hp) hpo, hk⟩
    · left; exact ⟨p, by rw [edUpdate_other hed hpt]; exact hp, hk⟩
  intro f hf c hc hn
  by_cases hct : f.child = t
  · rcases edUpdate_mem hed (hct ▸ hc) with hcn | ⟨hcold, hcpk⟩
    · -- the child row is `new`
      subst hcn
      rcases hchild f hf hct with hsame | hchk
      · -- child key unchanged: `old` had a parent
        have hn' : hasNull (key old f.ccols) = false := hsame ▸ hn
        obtain ⟨p, hp, hk⟩ := hri f hf old (hct ▸ hold) hn'
        rcases parent_step f hf _ hn' p hp hk with h1 | ⟨hpt, hpo, hkn⟩
        · rw [← hsame]; exact h1
        · -- parent was `old` itself and its key changed: the RESTRICT lookup would have found `old`
          subst hpo
          rcases hparent f hf hpt with h2 | h2
          · exact absurd (h2 ▸ hk) (fun h => hkn (by rw [← h2]; exact hk))
          · have : p ∈ matching db f.child f.ccols (key p f.pcols) :=
              (matching_mem (hk ▸ hn')).mpr ⟨hct ▸ hold, hk.symm⟩
            rw [h2] at this; cases this
      · -- child key changed and `CheckReference` passed
        simp only [checkReference, Bool.or_eq_true, hn, Bool.false_eq_true, false_or, List.any_eq_true,
          beq_iff_eq, Bool.and_eq_true] at hchk
        rcases hchk with ⟨p, hp, hk⟩ | ⟨hselfref, hk⟩
        · rcases parent_step f hf _ hn p hp hk with h1 | ⟨hpt, hpo, hkn⟩
          · exact h1
          · -- the parent found was `old`, whose key is being abandoned: region `SelfMove`
            subst hpo
            exfalso
            apply hself
            refine ⟨f, hf, hct, hpt, ?_, ?_, hk.symm⟩
            · intro h
              -- were the child key unchanged, `old` would be a child row of its own old key
              rcases hparent f hf hpt with h4 | h4
              · exact hkn (h4 ▸ hk)
              · have : p ∈ matching db f.child f.ccols (key p f.pcols) :=
                  (matching_mem (hk ▸ hn)).mpr ⟨hct ▸ hold, by rw [h, hk]⟩
                rw [h4] at this; cases this
            · intro h; exact hkn (h ▸ hk)
        · refine ⟨c, ?_, hk.symm⟩
          rw [← hselfref, hct]; exact edUpdate_new_mem hed
    · -- an untouched child row of the updated table
      obtain ⟨p, hp, hk⟩ := hri f hf c (hct ▸ hcold) hn
      rcases parent_step f hf _ hn p hp hk with h1 | ⟨hpt, hpo, hkn⟩
      · exact h1
      · subst hpo
        rcases hparent f hf hpt with h2 | h2
        · exact absurd (h2 ▸ hk) hkn
        · have : c ∈ matching db f.child f.ccols (key p f.pcols) :=
            (matching_mem (hk ▸ hn)).mpr ⟨hct ▸ hcold, hk.symm⟩
          rw [h2] at this; cases this
  · -- a child row of another table
    rw [edUpdate_other hed hct] at hc
    obtain ⟨p, hp, hk⟩ := hri f hf c hc hn
    rcases parent_step f hf _ hn p hp hk with h1 | ⟨hpt, hpo, hkn⟩
    · exact h1
    · subst hpo
      rcases hparent f hf hpt with h2 | h2
      · exact absurd (h2 ▸ hk) hkn
      · have : c ∈ matching db f.child f.ccols (key p f.pcols) :=
          (matching_mem (hk ▸ hn)).mpr ⟨hc, hk.symm⟩
        rw [h2] at this; cases this

/-- Hypothesis on the editor graph of an UPDATE on `t`. -/
def UpdGraphOk (S : Schema) (G : Graph) (root : Option Nat) (t : Nat) : Prop :=
  match root with
  | none => ∀ f ∈ S.fks, f.child ≠ t ∧ f.parent ≠ t
  | some r => (gnode G r).tbl = t ∧ Covers S (gnode G r) ∧ (∀ f ∈ S.fks, f.child = t → f ∈ (gnode G r).refs)

theorem iterM_noop {α : Type} (f : α → Db → Except Err Db) :
    ∀ (l : List α) (db : Db), (∀ a ∈ l, ∀ d, f a d = .ok d) → iterM f l db = .ok db := by
  intro l
  induction l with
  | nil => intro db _; rfl
  | cons a as ih =>
    intro db h
    rw [iterM_cons, h a List.mem_cons_self db]
    exact ih db (fun b hb => h b (List.mem_cons_of_mem _ hb))

theorem onUpdateAct_noop (rec : Op → Db → Except Err Db) (old new : Row) (depth : Nat) (a : ActData)
    (h : a.fk.onUpd = .restrict ∨ columnsUpdated a.fk old new = false) (db : Db) :
    onUpdateAct rec old new depth a db = .ok db := by
  unfold onUpdateAct
  rcases h with h | h
  · rw [h]
  · cases a.fk.onUpd <;> simp [h]

/-- The guard of `update_row_ri_partial`, for one visited row. -/
def UpdRowGuard (S : Schema) (G : Graph) (root : Option Nat) (t : Nat) (old new : Row) : Prop :=
  (match root with | none => True | some r => NoFire (gnode G r).acts old new) ∧ ¬ SelfMove S t old new

/-- What one visited row of an UPDATE guarantees. -/
def UpdRowPost (S : Schema) (t : Nat) (old : Row) (db db' : Db) : Prop :=
  RI S db' ∧ PkU db' ∧ (∀ r ∈ db t, pk r ≠ pk old → r ∈ db' t)

/-- **One row of an UPDATE keeps RI** (`ForeignKeyEditor.Update` at depth 1) when no ON UPDATE
CASCADE / SET NULL action fires for it and it is outside region `SelfMove`.

Full statement (false on the unchanged tree, see `finding_selfref_update_moves_key`):
  `RI S db → updateRow S G root t sets old db = .ok db' → RI S db'`. -/
theorem update_row_ri_partial {S : Schema} {G : Graph} {root : Option Nat} {t : Nat}
    {sets : List (Nat × SetExpr)} {old : Row} {db db' : Db}
    (hG : UpdGraphOk S G root t) (hri : RI S db) (hpk : PkU db) (hold : old ∈ db t)
    (hguard : UpdRowGuard S G root t old (applySets old sets))
    (h : updateRow S G root t sets old db = .ok db') : UpdRowPost S t old db db' := by
  unfold updateRow at h
  simp only at h
  split at h
  · simp only [Except.ok.injEq] at h; subst h
    exact ⟨hri, hpk, fun r hr _ => hr⟩
  · split at h
    · cases h
    · cases root with
      | none =>
        simp only at h
        refine ⟨?_, edUpdate_pku hpk h, fun r hr hne => edUpdate_keeps h hr hne⟩
        exact edUpdate_ri hri hpk hold h (fun f hf hc => absurd hc (hG f hf).1)
          (fun f hf hp => absurd hp (hG f hf).2) hguard.2
      | some r =>
        obtain ⟨htbl, hcov, hrefs⟩ := hG
        simp only [topFuel, exec, execStep] at h
        split at h
        · cases h
        · rename_i hrefsOk
          split at h
          · cases h
          · rename_i hblk
            split at h
            · cases h
            · rw [htbl] at h
              cases hed : edUpdate db t old (applySets old sets) with
              | error e => rw [hed] at h; cases h
              | ok db1 =>
                rw [hed] at h
                simp only at h
                have hnf : NoFire (gnode G r).acts old (applySets old sets) := hguard.1
                rw [iterM_noop _ _ _ (fun a ha d => onUpdateAct_noop _ _ _ _ a (hnf a ha) d)] at h
                simp only [Except.ok.injEq] at h
                subst h
                refine ⟨?_, edUpdate_pku hpk hed, fun r hr hne => edUpdate_keeps hed hr hne⟩
                apply edUpdate_ri hri hpk hold hed _ _ hguard.2
                · intro f hf hc
                  have hrf := hrefs f hf hc
                  have hall : refsOk (gnode G r).refs old (applySets old sets) db = true := by
                    simpa using hrefsOk
                  have := (List.all_eq_true.mp hall) f hrf
                  simpa [Bool.or_eq_true, beq_iff_eq] using this
                · intro f hf hp
                  obtain ⟨a, ha, hc1, hc2, _, hc4, _⟩ := hcov f hf (hp.trans htbl.symm)
                  rcases hnf a ha with hr' | hcu
                  · have hb : updBlocked (gnode G r).acts old (applySets old sets) db = false := by
                      simpa using hblk
                    simp only [updBlocked, List.any_eq_false] at hb
                    have := hb a ha
                    simp only [hr', beq_self_eq_true, Bool.true_and, Bool.and_eq_true, Bool.not_eq_true',
                      not_and] at this
                    by_cases hcu : columnsUpdated a.fk old (applySets old sets) = true
                    · right
                      have := this hcu
                      rw [← hc1, ← hc2, ← hc4]
                      exact List.isEmpty_iff.mp (by simpa using this)
                    · left
                      simp only [columnsUpdated, bne_iff_ne, ne_eq, Decidable.not_not, hc4] at hcu
                      exact hcu
                  · left
                    simp only [columnsUpdated, bne_eq_false_iff_eq, hc4] at hcu
                    exact hcu

theorem update_loop {S : Schema} {G : Graph} {root : Option Nat} {t : Nat} {sets : List (Nat × SetExpr)}
    (hG : UpdGraphOk S G root t) :
    ∀ (rows : List Row) (cur db' : Db), (rows.map pk).Nodup → (∀ o ∈ rows, o ∈ cur t) →
      (∀ o ∈ rows, UpdRowGuard S G root t o (applySets o sets)) → RI S cur → PkU cur →
      iterM (updateRow S G root t sets) rows cur = .ok db' → RI S db' ∧ PkU db' := by
  intro rows
  induction rows with
  | nil => intro cur db' _ _ _ hri hpk h; simp [iterM] at h; subst h; exact ⟨hri, hpk⟩
  | cons old rest ih =>
    intro cur db' hnd hmem hguard hri hpk h
    rw [iterM_cons] at h
    cases hf : updateRow S G root t sets old cur with
    | error e => rw [hf] at h; cases h
    | ok db1 =>
      rw [hf] at h
      simp only [List.map_cons, List.nodup_cons, List.mem_map, not_exists, not_and] at hnd
      obtain ⟨hri1, hpk1, hkeep⟩ := update_row_ri_partial hG hri hpk (hmem old List.mem_cons_self)
        (hguard old List.mem_cons_self) hf
      apply ih db1 db' hnd.2 _ (fun o ho => hguard o (List.mem_cons_of_mem _ ho)) hri1 hpk1 h
      intro o ho
      exact hkeep o (hmem o (List.mem_cons_of_mem _ ho)) (fun hpo => hnd.1 o ho hpo)

theorem selectRows_nodup {db : Db} (hpk : PkU db) (t : Nat) (w : Pred) (ord : List Int) :
    ((selectRows db t w ord).map pk).Nodup := by
  have hp := (selectRows_perm db t w ord).map pk
  rw [hp.nodup_iff]
  exact ((List.filter_sublist (l := db t) (p := w.eval)).map pk).nodup (hpk t)

/-- **UPDATE statements keep RI** when no ON UPDATE CASCADE / SET NULL action fires for any
visited row and no visited row is in region `SelfMove`; any number of rows, any scan order.
(Firing update cascades are covered by the correspondence and the RI oracle only.) -/
theorem update_stmt_ri_partial {S : Schema} {t : Nat} {sets : List (Nat × SetExpr)} {w : Pred}
    {ord : List Int} {db db' : Db}
    (hG : UpdGraphOk S (build S .update t).1 (build S .update t).2 t)
    (hguard : ∀ old ∈ selectRows db t w ord,
      UpdRowGuard S (build S .update t).1 (build S .update t).2 t old (applySets old sets))
    (hri : RI S db) (hpk : PkU db) (h : runStmt S db (.update t sets w ord) = .ok db') :
    RI S db' ∧ PkU db' := by
  simp only [runStmt] at h
  exact update_loop hG _ db db' (selectRows_nodup hpk t w ord) (fun o ho => selectRows_mem ho) hguard hri hpk h

-- ---------------------------------------------------------------------------------------------
-- Statements and histories

/-- **A failed statement has no effect** (in the model: by construction of `step`, which mirrors
`DiscardChanges` on every updater; on the implementation this is what the harness oracle checks). -/
theorem step_fail_no_effect (S : Schema) (db : Db) (st : Stmt) (e : Err)
    (h : (step S db st).2 = some e) : (step S db st).1 = db := by
  unfold step at h ⊢
  cases hr : runStmt S db st with
  | ok db' => rw [hr] at h; cases h
  | error e' => rfl

/-- The hypotheses under which a statement is covered by the theorems above. -/
def StmtOk (S : Schema) (db : Db) : Stmt → Prop
  | .insert _ _ => True
  | .delete t _ _ => DelGraphOk S (build S .delete t).1 (build S .delete t).2 t
  | .update t sets w ord =>
    UpdGraphOk S (build S .update t).1 (build S .update t).2 t ∧
    ∀ old ∈ selectRows db t w ord,
      UpdRowGuard S (build S .update t).1 (build S .update t).2 t old (applySets old sets)

theorem step_ri {S : Schema} {db : Db} {st : Stmt} (hok : StmtOk S db st) (hri : RI S db) (hpk : PkU db) :
    RI S (step S db st).1 ∧ PkU (step S db st).1 := by
  unfold step
  cases hr : runStmt S db st with
  | error e => exact ⟨hri, hpk⟩
  | ok db' =>
    cases st with
    | insert t rows => exact insert_stmt_ri hri hpk hr
    | delete t w ord => exact delete_stmt_ri hok hri hpk hr
    | update t sets w ord => exact update_stmt_ri_partial hok.1 hok.2 hri hpk hr

/-- Every statement of the history is covered, at the state it runs in. -/
def GuardedRun (S : Schema) : Db → List Stmt → Prop
  | _, [] => True
  | db, st :: rest => StmtOk S db st ∧ GuardedRun S (step S db st).1 rest

/-- **RI after every guarded history**: by induction over the history, from any RI state (in
particular the empty database). Failed statements are part of the history. -/
theorem history_ri {S : Schema} : ∀ (sts : List Stmt) (db : Db), GuardedRun S db sts → RI S db → PkU db →
    RI S (run S db sts) ∧ PkU (run S db sts) := by
  intro sts
  induction sts with
  | nil => intro db _ hri hpk; exact ⟨hri, hpk⟩
  | cons st rest ih =>
    intro db hg hri hpk
    obtain ⟨h1, h2⟩ := step_ri hg.1 hri hpk
    exact ih _ hg.2 h1 h2

theorem ri_empty (S : Schema) : RI S (fun _ => []) := by
  intro f _ c hc; cases hc

theorem pku_empty : PkU (fun _ => []) := by intro t; simp

end Gms.Fk

-- ---------------------------------------------------------------------------------------------
-- Property theorems, findings, facts, non-vacuity

namespace Gms.C18
open Gms.Fk

/-- `t0(c0 PK, c1 → t0.c0)`: the smallest self-referencing schema. -/
def selfS : Schema := { ntab := 1, notNull := fun _ => [], fks := [⟨0, [1], 0, [0], .restrict, .restrict⟩] }

def selfDb : Db := fun t => if t = 0 then [[some 1, none]] else []

/-- `UPDATE t0 SET c0 = 2, c1 = 1 WHERE c0 = 1`. -/
def selfMoveStmt : Stmt := .update 0 [(0, .const (some 2)), (1, .const (some 1))] (.eq 0 1) []

/-- **Finding `selfref_update_moves_key`** (replayed on the real engine: corpus case 1 of the
harness). The Impl model — like the code — accepts the statement, and the stored row `(2,1)`
references the key `1` that no row has any more. `CheckReference` finds the parent row *before*
the update (it is the row being updated) and `OnUpdateRestrict` only looks for children of the
old key. -/
theorem finding_selfref_update_moves_key :
    ∃ (S : Schema) (db : Db) (st : Stmt),
      riB S db = true ∧ (step S db st).2 = none ∧ riB S (step S db st).1 = false :=
  ⟨selfS, selfDb, selfMoveStmt, by decide⟩

/-- `t0.c1 → t1.c1` and `t0.c1 → t1.c0`, both ON UPDATE CASCADE, and `t2.c1 → t0.c1`. -/
def sharedS : Schema :=
  { ntab := 3, notNull := fun _ => [],
    fks := [⟨0, [1], 1, [1], .restrict, .cascade⟩, ⟨2, [1], 0, [1], .restrict, .restrict⟩,
            ⟨0, [1], 1, [0], .restrict, .cascade⟩] }

def sharedDb : Db := fun t => if t = 0 then [[some 1, some 1]] else if t = 1 then [[some 1, some 1]] else []

/-- **Finding `shared_child_column_update_cascade`** (replayed on the real engine: corpus case of
the harness). `UPDATE t1 SET c0 = 3 WHERE c0 = 1` cascades `t0.c1 := 3` through the second
constraint using the editor that was cached for the first one (`GetEditor` compares only the
*number* of references), so `t0.c1 → t1.c1` is not re-checked and `(1,3)` dangles. This is a firing
ON UPDATE CASCADE, i.e. outside `StmtOk`; the witness shows the unguarded statement fails there too. -/
theorem finding_shared_child_column_update_cascade :
    ∃ (S : Schema) (db : Db) (st : Stmt),
      riB S db = true ∧ (step S db st).2 = none ∧ riB S (step S db st).1 = false :=
  ⟨sharedS, sharedDb, .update 1 [(0, .const (some 3))] (.eq 0 1) [], by decide⟩

/-- Guarded version of the full statement `∀ S db st, RI S db → RI S (step S db st).1`, which
`finding_selfref_update_moves_key` refutes: outside `SelfMove` (and with no firing ON UPDATE
cascade, no ON DELETE SET NULL) every statement keeps RI. -/
theorem ri_preserved_partial {S : Schema} {db : Db} {st : Stmt} (hok : StmtOk S db st)
    (hri : RI S db) (hpk : PkU db) : RI S (step S db st).1 :=
  (step_ri hok hri hpk).1

/-- RI (Boolean form, as the driver evaluates it) after every guarded history from the empty database. -/
theorem ri_after_history {S : Schema} (sts : List Stmt) (h : GuardedRun S (fun _ => []) sts) :
    riB S (run S (fun _ => []) sts) = true :=
  (riB_iff S _).mpr (history_ri sts _ h (ri_empty S) pku_empty).1

-- Facts regenerated from the source on every run ------------------------------------------------

open Gms.Generated.C18 in
/-- The dispatch of `ForeignKeyEditor.Delete/Update`, the order of their phases, the depth tests,
the entry depth, the restrict-equivalence table and the analyzer shapes are what the model assumes. -/
theorem facts_match :
    deletePhases = ["actions", "editor:Delete", "actions", "return"] ∧
    deleteBefore = [("default", "OnDeleteRestrict"), ("Cascade", ""), ("SetNull", ""), ("SetDefault", "")] ∧
    deleteAfter = [("Cascade", "OnDeleteCascade"), ("SetNull", "OnDeleteSetNull"), ("SetDefault", "OnDeleteSetDefault")] ∧
    updatePhases = ["range:fkEditor.References", "actions", "range:fkEditor.Schema", "editor:Update", "actions", "return"] ∧
    updateBefore = [("default", "OnUpdateRestrict"), ("Cascade", ""), ("SetNull", ""), ("SetDefault", "")] ∧
    updateAfter = [("Cascade", "OnUpdateCascade"), ("SetNull", "OnUpdateSetNull"), ("SetDefault", "OnUpdateSetDefault")] ∧
    onDeleteCascadeDepthShape = true ∧ onDeleteSetNullDepthShape = true ∧
    onUpdateCascadeDepthShape = true ∧ onUpdateSetNullDepthShape = true ∧
    handlerUpdateDepth = 1 ∧ handlerDeleteDepth = 1 ∧
    insertChecksEveryReference = true ∧ checkReferenceNullExempts = true ∧ checkReferenceSelfEscape = true ∧
    getIterNullIsEmpty = true ∧ revisitedTableUpdateIsRestrict = true ∧ cachedEditorMarkedCyclical = true ∧
    refActionsCoverEveryReferencingKey = true ∧ getEditorMatchesByRefCount = true ∧ checksOffSkipsRule = true ∧
    chainKeysSkippedInReferences = true ∧
    restrictEquivalent = [("DEFAULT", "true"), ("RESTRICT", "true"), ("NO ACTION", "true"), ("CASCADE", "false"),
      ("SET NULL", "false"), ("SET DEFAULT", "false")] := by
  decide

/-- The model's depth tests are the source's, with the regenerated constants. -/
theorem depth_tests_match (c : Bool) (d : Nat) :
    delDepthExceeded c d = (decide (d ≥ Gms.Generated.C18.delDepthGe) && (c || decide (d > Gms.Generated.C18.delDepthGt))) ∧
    updDepthExceeded d = decide (d > Gms.Generated.C18.updDepthGt) := by
  simp [delDepthExceeded, updDepthExceeded, Gms.Generated.C18.delDepthGe, Gms.Generated.C18.delDepthGt,
    Gms.Generated.C18.updDepthGt]

/-- The model's fuel can never be what stops a recursion: the depth limit fires first. -/
theorem fuel_above_depth_limit :
    topFuel > Gms.Generated.C18.delDepthGt + 2 ∧ topFuel > Gms.Generated.C18.updDepthGt + 2 := by decide

-- Non-vacuity --------------------------------------------------------------------------------------

/-- t0 ← t1 (CASCADE) ← t2 (RESTRICT on delete, CASCADE on update), t0 self reference (CASCADE),
t1 ↔ t0 cycle (t0.c2 → t1.c0 RESTRICT). -/
def demoS : Schema :=
  { ntab := 3, notNull := fun _ => [],
    fks := [⟨1, [1], 0, [0], .cascade, .cascade⟩, ⟨2, [1], 1, [0], .restrict, .cascade⟩,
            ⟨0, [1], 0, [0], .cascade, .restrict⟩, ⟨0, [2], 1, [0], .restrict, .restrict⟩] }

def demoDb : Db := fun t =>
  match t with
  | 0 => [[some 1, none, none], [some 2, some 1, none], [some 3, some 2, none]]
  | 1 => [[some 1, some 1], [some 2, some 3], [some 3, none]]
  | 2 => [[some 1, some 3]]
  | _ => []

/-- The hypotheses of `delete_stmt_ri` hold for a schema with a chain, a self reference and a cycle… -/
example : DelGraphOk demoS (build demoS .delete 0).1 (build demoS .delete 0).2 0 :=
  ⟨reach (build demoS .delete 0).1 (build demoS .delete 0).1.length [0], by decide, by decide,
    closedB_sound (by decide), by unfold NoSetNullOnDelete; decide⟩

/-- …the statement really cascades through two tables and the self reference (rows 1,2,3 of t0 and
rows 1,2 of t1 go; t2's row references t1's row 3, which stays)… -/
example : (step demoS demoDb (.delete 0 (.eq 0 1) [])).2 = none ∧
    (step demoS demoDb (.delete 0 (.eq 0 1) [])).1 0 = [] ∧
    (step demoS demoDb (.delete 0 (.eq 0 1) [])).1 1 = [[some 3, none]] ∧
    riB demoS demoDb = true ∧ riB demoS (step demoS demoDb (.delete 0 (.eq 0 1) [])).1 = true := by decide

/-- …RESTRICT blocks (t2's row references t1's row 3) and the failed statement changes nothing… -/
example : (step demoS demoDb (.delete 1 (.eq 0 3) [])).2 = some .fkParent ∧
    (step demoS demoDb (.delete 1 (.eq 0 3) [])).1 1 = demoDb 1 := by decide

/-- …and the UPDATE guard is satisfiable by an update that changes a child key (checked) and by
one that changes a parent key under RESTRICT. -/
example : StmtOk demoS demoDb (.update 2 [(1, .const (some 2))] (.eq 0 1) []) ∧
    (step demoS demoDb (.update 2 [(1, .const (some 2))] (.eq 0 1) [])).1 2 = [[some 1, some 2]] := by
  refine ⟨⟨⟨by decide, coversB_sound (by decide), by decide⟩, ?_⟩, by decide⟩
  intro old hold
  have : old = [some 1, some 3] := by
    have : selectRows demoDb 2 (.eq 0 1) [] = [[some 1, some 3]] := by decide
    rw [this] at hold; simpa using hold
  subst this
  have hroot : (build demoS .update 2).2 = some 0 := by decide
  refine ⟨by rw [hroot]; unfold NoFire; decide, ?_⟩
  rintro ⟨f, hf, hc, hp, -⟩
  have hdec : ∀ f ∈ demoS.fks, ¬ (f.child = 2 ∧ f.parent = 2) := by decide
  exact hdec f hf ⟨hc, hp⟩

/-- The depth limit is reachable in the model: a self-referencing chain of 16 rows cannot be
deleted from its head by ON DELETE CASCADE, a chain of 14 can. -/
def chainS : Schema := { ntab := 1, notNull := fun _ => [], fks := [⟨0, [1], 0, [0], .cascade, .restrict⟩] }
def chainDb (n : Nat) : Db := fun t =>
  if t = 0 then (List.range n).map (fun (i : Nat) => [some (Int.ofNat i + 1), if i = 0 then none else some (Int.ofNat i)]) else []

example : (step chainS (chainDb 16) (.delete 0 (.eq 0 1) [])).2 = some .depth ∧
    (step chainS (chainDb 14) (.delete 0 (.eq 0 1) [])).2 = none ∧
    (step chainS (chainDb 14) (.delete 0 (.eq 0 1) [])).1 0 = [] := by decide

end Gms.C18
