/-
C24 — Stored procedures follow structured-program semantics.

Model: `Gms/Model/ProcLang.lean` (compiler `compile` = `ConvertStmt`/`resolveGoToIndexes`, op machine
`step`/`run` = `Call`/`execOp`, Spec `exec` = big-step structured semantics, `callImpl`/`callSpec`).
Helper lemmas and the simulation proof are in `Gms/Lemmas/ProcLang.lean`; the property theorems are
at the end, in `namespace Gms.C24`.

Full statement (false on the unchanged tree, see the `finding_…` theorems):
  ∀ p args s fuel, callSpec Sem.mysql fuel p args s = some r → ∃ n, callImpl n p args s = r
What is proved instead:
  * `compile_correct` / `compile_correct_error` — for every statement without LEAVE/ITERATE whose
    IF/CASE final branches do not end in a BEGIN…END block, every store and every fuel: if the
    structured semantics (`Sem.gms` reading) finishes, the op machine run on the compiled code
    finishes with exactly the same store (resp. the same error, trace and parameters);
  * `sem_agree_partial` — the `Sem.gms` and `Sem.mysql` readings coincide on statements without
    REPEAT and without DEFAULT-less DECLARE, so under those guards the theorem is about MySQL's
    definition (`structured_correct_partial`);
  * `call_correct_partial` — the same at CALL level (parameter set-up, write-back of INOUT user variables)
    for procedures without OUT parameters in a fresh session;
  * `goto_resolved` — for every well-labelled statement (LEAVE/ITERATE included) no placeholder
    index (-1 / -2) survives compilation;
  * `scan_neutral` — the scope scans of OpCode_Goto are stack-neutral over the code of jump-free statements;
  * `goto_fwd_skips_scopeEnd` — for all code: a forward Goto whose target is preceded by a ScopeEnd
    arrives with that scope still on the stack (the mechanism of the regions `leave_block_scope_leak`,
    `else_block_scope_leak`, `iterate_repeat_block_scope_leak`); `jumpFree_not_iterateRepeatEndBlock`
    — the guarded fragment lies outside the last of them.

DECLARE … HANDLER (model `Gms/Model/ProcHandler.lean`, lemmas `Gms/Lemmas/ProcHandler.lean`, section
"The error path" at the end of this file):
  * `exit_scan_finds_block_end` / `exit_scan_compiled_block` / `compileH_balanced` — for ALL code: the
    EXIT scan of `handleError`, started at the handler's DECLARE op, stops at the `ScopeEnd` of the block
    that declared the handler, however deeply the code behind the DECLARE nests further blocks;
    `handleError_exit_independent_of_failing_op` — the resume counter does not depend on the failing op;
  * `spec_exit_skips_rest_of_declaring_block`, `spec_continue_resumes_in_nested_block` — what the
    structured semantics demands on the shape "error in a nested block of the handler's block";
  * `handler_exit_nested_agree` … — on the concrete witnesses the op machine and the Spec agree;
    `finding_nested_handler_outermost_wins`, `finding_exit_handler_scope_leak`,
    `finding_handler_body_dynamic_scope` — they do not (three defects of the unchanged tree).
  Full statement, NOT proved (no simulation proof for the handler fragment yet; tied by the line-protocol
  correspondence on every generated case instead):
    ∀ p args s fuel r, ¬nestedHandlers ∧ ¬exitHandlerNested ∧ ¬handlerDynScope ∧ ¬hasElseBlockH →
      callSpecH fuel p args s = some r → ∃ n, callImplH n p args s = r
-/
import Gms.Lemmas.ProcLang
import Gms.Lemmas.ProcHandler
import Gms.Generated.C24

namespace Gms.ProcLang

/-! ## The two readings of the semantics agree away from REPEAT and DEFAULT-less DECLARE -/

theorem exec_sem_agree (sem1 sem2 : Sem) : ∀ n s σ, hasBareDeclare s = false → hasRepeat s = false →
    exec sem1 n s σ = exec sem2 n s σ := by
  intro n
  induction n with
  | zero => intros; rfl
  | succ n ih =>
    intro s σ hd hr
    cases s with
    | seq a b =>
      simp only [hasBareDeclare, hasRepeat, Bool.or_eq_false_iff] at hd hr
      simp only [exec, ih a σ hd.1 hr.1, fun σ1 => ih b σ1 hd.2 hr.2]
    | block l b =>
      simp only [hasBareDeclare, hasRepeat] at hd hr
      simp only [exec, ih b _ hd hr]
    | declare x d =>
      cases d with
      | none => simp [hasBareDeclare] at hd
      | some v => simp only [exec, declValue]
    | ite c t e =>
      simp only [hasBareDeclare, hasRepeat, Bool.or_eq_false_iff] at hd hr
      simp only [exec, ih t σ hd.1 hr.1, ih e σ hd.2 hr.2]
    | «while» l c b =>
      have hd' : hasBareDeclare b = false := by simpa [hasBareDeclare] using hd
      have hr' : hasRepeat b = false := by simpa [hasRepeat] using hr
      simp only [exec, ih b σ hd' hr', fun σ1 => ih (.while l c b) σ1 hd hr]
    | «repeat» l b c => simp [hasRepeat] at hr
    | loop l b =>
      have hd' : hasBareDeclare b = false := by simpa [hasBareDeclare] using hd
      have hr' : hasRepeat b = false := by simpa [hasRepeat] using hr
      simp only [exec, ih b σ hd' hr', fun σ1 => ih (.loop l b) σ1 hd hr]
    | _ => simp only [exec]

/-! ## The scan of a forward `Goto` never covers the op in front of its target

This is the mechanism shared by the three scope-leak findings (`leave_block_scope_leak`,
`else_block_scope_leak`, `iterate_repeat_block_scope_leak`): in each of them `ConvertStmt` emits a
forward `Goto` whose target is preceded by a `ScopeEnd`. -/

/-- General form of `goto_fwd`: a forward `Goto` over the code `E` applies the scope effects of
`E.dropLast` only — the op at `Index-1` is neither scanned nor executed. -/
theorem goto_fwd_scan (A E P : List Op) (t : Option Name) (σ : Store) (st : List Scope) (hE : E ≠ [])
    (h : scanList true E.dropLast σ.stack = some st) :
    gotoStep (A ++ Op.goto t ((A.length + 1 + E.length : Nat) : Int) :: (E ++ P)) A.length
        ((A.length + 1 + E.length : Nat) : Int) σ
      = .running ⟨((A.length + 1 + E.length : Nat) : Int) - 1, { σ with stack := st }⟩ := by
  unfold gotoStep
  have hpos : 0 < E.length := List.length_pos_iff.mpr hE
  have h1 : (A.length : Int) ≤ ((A.length + 1 + E.length : Nat) : Int) := by omega
  simp only [h1, if_true]
  have h2 : (A.length : Int) < ((A.length + 1 + E.length : Nat) : Int) - 1 := by omega
  have h3 : (((A.length + 1 + E.length : Nat) : Int) - 1).toNat = A.length + E.length := by omega
  simp only [h2, if_true, h3]
  have h4 : ¬ (A.length + E.length > (A ++ Op.goto t ((A.length + 1 + E.length : Nat) : Int) :: (E ++ P)).length) := by
    simp; omega
  simp only [h4, if_false]
  have h5 : ((A ++ Op.goto t ((A.length + 1 + E.length : Nat) : Int) :: (E ++ P)).drop A.length).take (A.length + E.length - A.length)
      = Op.goto t ((A.length + 1 + E.length : Nat) : Int) :: E.dropLast := by
    rw [List.drop_left]
    have : A.length + E.length - A.length = (E.length - 1) + 1 := by omega
    rw [this, List.take_succ_cons, List.take_append_of_le_length (by omega), List.dropLast_eq_take]
  rw [h5]
  simp only [scanList, applyScope, h]

/-- A forward `Goto` whose target is preceded by a `ScopeEnd`: the machine arrives at the target
with the stack produced by the ops *before* that `ScopeEnd` — the scope it closes is still there
(sequential execution would have popped it). For every code `A`, `E`, `P`, label and store. -/
theorem goto_fwd_skips_scopeEnd (A E P : List Op) (t l : Option Name) (i : Int) (σ : Store) (st : List Scope)
    (h : scanList true E σ.stack = some st) :
    gotoStep (A ++ Op.goto t ((A.length + 1 + (E ++ [Op.scopeEnd l i]).length : Nat) : Int) ::
          ((E ++ [Op.scopeEnd l i]) ++ P)) A.length
        ((A.length + 1 + (E ++ [Op.scopeEnd l i]).length : Nat) : Int) σ
      = .running ⟨((A.length + 1 + (E ++ [Op.scopeEnd l i]).length : Nat) : Int) - 1, { σ with stack := st }⟩ :=
  goto_fwd_scan A (E ++ [Op.scopeEnd l i]) P t σ st (by simp) (by simpa using h)

/-- The jump-free fragment (the guard of `compile_correct`) lies outside the region
`iterate_repeat_block_scope_leak`. -/
theorem jumpFree_not_iterateRepeatEndBlock : ∀ (s : Stmt) (env : List (Name × Bool)), jumpFree s = true →
    hasIterateRepeatEndBlock env s = false := by
  intro s
  induction s with
  | seq a b iha ihb =>
    intro env h
    simp only [jumpFree, Bool.and_eq_true] at h
    simp only [hasIterateRepeatEndBlock, iha env h.1, ihb env h.2, Bool.or_self]
  | block l b ih =>
    intro env h
    simp only [jumpFree] at h
    simp only [hasIterateRepeatEndBlock]
    exact ih _ h
  | ite c t e iht ihe =>
    intro env h
    simp only [jumpFree, Bool.and_eq_true] at h
    simp only [hasIterateRepeatEndBlock, iht env h.1, ihe env h.2, Bool.or_self]
  | «while» l c b ih =>
    intro env h
    simp only [jumpFree] at h
    simp only [hasIterateRepeatEndBlock]
    exact ih _ h
  | «repeat» l b c ih =>
    intro env h
    simp only [jumpFree] at h
    simp only [hasIterateRepeatEndBlock]
    exact ih _ h
  | loop l b ih =>
    intro env h
    simp only [jumpFree] at h
    simp only [hasIterateRepeatEndBlock]
    exact ih _ h
  | iterate l => intro env h; simp [jumpFree] at h
  | _ => intro env _; simp [hasIterateRepeatEndBlock]

/-! ## No placeholder index survives compilation of a well-labelled statement -/

def envOf (label : Option Name) (env : List Name) : List Name :=
  match label with
  | some l => l :: env
  | none => env

/-- Every LEAVE / ITERATE names a label of an enclosing statement. -/
def wellLabelled (env : List Name) : Stmt → Bool
  | .seq a b => wellLabelled env a && wellLabelled env b
  | .block l b => wellLabelled (envOf l env) b
  | .ite _ t e => wellLabelled env t && wellLabelled env e
  | .while l _ b => wellLabelled (envOf l env) b
  | .repeat l b _ => wellLabelled (envOf l env) b
  | .loop l b => wellLabelled (envOf l env) b
  | .leave l => env.contains l
  | .iterate l => env.contains l
  | _ => true

/-- A goto is resolved, or it is a placeholder whose label is still to be closed by `env`. -/
def negOk (env : List Name) : Op → Prop
  | .goto t idx => 0 ≤ idx ∨ ((idx = -1 ∨ idx = -2) ∧ ∃ l, t = some l ∧ l ∈ env)
  | _ => True

theorem getLabel_cases (l : Name) (lb : Labels) : getLabel l lb = -1 ∨ 0 ≤ getLabel l lb := by
  induction lb with
  | nil => left; rfl
  | cons p r ih =>
    obtain ⟨k, i⟩ := p
    simp only [getLabel]
    split
    · right; omega
    · exact ih

theorem resolve_negOk (label : Option Name) (env : List Name) (a b : Int) (ha : 0 ≤ a) (hb : 0 ≤ b)
    (ops : List Op) (h : ∀ op ∈ ops, negOk (envOf label env) op) :
    ∀ op ∈ resolve label a b ops, negOk env op := by
  cases label with
  | none => exact h
  | some l =>
    intro op hop
    simp only [resolve, List.mem_map] at hop
    obtain ⟨op0, hop0, rfl⟩ := hop
    have h0 := h op0 hop0
    cases op0 with
    | goto t idx =>
      cases t with
      | none =>
        simp only [resolveOp, negOk] at h0 ⊢
        rcases h0 with h0 | ⟨_, l', hl', _⟩
        · exact Or.inl h0
        · cases hl'
      | some t =>
        simp only [negOk, envOf] at h0
        simp only [resolveOp]
        by_cases htl : t = l
        · simp only [htl, if_true]
          by_cases h1 : idx = -1
          · simp only [h1, if_true, negOk]; exact Or.inl ha
          · by_cases h2 : idx = -2
            · simp only [h2, if_true, negOk]
              have : ¬ ((-2 : Int) = -1) := by omega
              simp only [this, if_false]; exact Or.inl hb
            · simp only [h1, h2, if_false, negOk]
              rcases h0 with h0 | ⟨h0, _⟩
              · exact Or.inl h0
              · rcases h0 with h0 | h0
                · exact absurd h0 h1
                · exact absurd h0 h2
        · simp only [htl, if_false, negOk]
          rcases h0 with h0 | ⟨h0, l', hl', hmem⟩
          · exact Or.inl h0
          · right
            refine ⟨h0, l', hl', ?_⟩
            simp only [Option.some.injEq] at hl'
            subst hl'
            simp only [List.mem_cons] at hmem
            rcases hmem with h | h
            · exact absurd h htl
            · exact h
    | _ => trivial

theorem compile_negOk (s : Stmt) : ∀ env base lb, wellLabelled env s = true →
    ∀ op ∈ (compile base lb s).1, negOk env op := by
  induction s with
  | seq a b iha ihb =>
    intro env base lb hw op hop
    simp only [wellLabelled, Bool.and_eq_true] at hw
    simp only [compile, List.mem_append] at hop
    rcases hop with h | h
    · exact iha _ _ _ hw.1 op h
    · exact ihb _ _ _ hw.2 op h
  | block l b ih =>
    intro env base lb hw op hop
    simp only [wellLabelled] at hw
    simp only [compile, List.mem_cons] at hop
    rcases hop with rfl | h
    · trivial
    · refine resolve_negOk l env _ _ (by omega) (by omega) _ ?_ op h
      intro op' hop'
      simp only [List.mem_append, List.mem_cons, List.not_mem_nil, or_false] at hop'
      rcases hop' with h' | rfl
      · exact ih _ _ _ hw op' h'
      · trivial
  | ite c t e iht ihe =>
    intro env base lb hw op hop
    simp only [wellLabelled, Bool.and_eq_true] at hw
    simp only [compile, List.mem_cons, List.mem_append, List.not_mem_nil, or_false] at hop
    rcases hop with rfl | (h | rfl) | h
    · trivial
    · exact iht _ _ _ hw.1 op h
    · simp only [negOk]; left; omega
    · exact ihe _ _ _ hw.2 op h
  | «while» l c b ih =>
    intro env base lb hw op hop
    simp only [wellLabelled] at hw
    simp only [compile] at hop
    refine resolve_negOk l env _ _ (by omega) (by omega) _ ?_ op hop
    intro op' hop'
    simp only [List.mem_append, List.mem_cons, List.not_mem_nil, or_false] at hop'
    rcases hop' with rfl | h' | rfl
    · trivial
    · exact ih _ _ _ hw op' h'
    · simp only [negOk]; left; omega
  | «repeat» l b c ih =>
    intro env base lb hw op hop
    simp only [wellLabelled] at hw
    simp only [compile] at hop
    refine resolve_negOk l env _ _ (by omega) (by omega) _ ?_ op hop
    intro op' hop'
    simp only [List.mem_append, List.mem_cons, List.not_mem_nil, or_false] at hop'
    rcases hop' with h' | rfl | h' | rfl
    · exact ih _ _ _ hw op' h'
    · trivial
    · exact ih _ _ _ hw op' h'
    · simp only [negOk]; left; omega
  | loop l b ih =>
    intro env base lb hw op hop
    simp only [wellLabelled] at hw
    simp only [compile] at hop
    refine resolve_negOk l env _ _ (by omega) (by omega) _ ?_ op hop
    intro op' hop'
    simp only [List.mem_append, List.mem_cons, List.not_mem_nil, or_false] at hop'
    rcases hop' with h' | rfl
    · exact ih _ _ _ hw op' h'
    · simp only [negOk]; left; omega
  | leave l =>
    intro env base lb hw op hop
    simp only [wellLabelled, List.contains_iff_mem] at hw
    simp only [compile, List.mem_cons, List.not_mem_nil, or_false] at hop
    subst hop
    exact Or.inr ⟨Or.inr rfl, l, rfl, hw⟩
  | iterate l =>
    intro env base lb hw op hop
    simp only [wellLabelled, List.contains_iff_mem] at hw
    simp only [compile, List.mem_cons, List.not_mem_nil, or_false] at hop
    subst hop
    rcases getLabel_cases l lb with h | h
    · exact Or.inr ⟨Or.inl h, l, rfl, hw⟩
    · exact Or.inl h
  | skip => intro env base lb hw op hop; simp [compile] at hop
  | _ =>
    intro env base lb hw op hop
    simp only [compile, List.mem_cons, List.not_mem_nil, or_false] at hop
    subst hop
    trivial

/-! ## Parameter set-up and write-back without OUT parameters -/

theorem lookupSess_append_none {x : Name} : ∀ {acc : List (Name × Spp)} {y : Name} {p : Spp},
    lookupSess x acc = none → x ≠ y → lookupSess x (acc ++ [(y, p)]) = none := by
  intro acc
  induction acc with
  | nil => intro y p _ hxy; simp [lookupSess, Ne.symm hxy]
  | cons a acc ih =>
    intro y p h hxy
    obtain ⟨k, q⟩ := a
    simp only [lookupSess, List.cons_append] at h ⊢
    split at h
    · cases h
    · rename_i hk; simp only [hk, if_false]; exact ih h hxy

theorem assignSpp_append_new {x : Name} {v : Val} : ∀ {acc : List (Name × Spp)} {p : Spp},
    lookupSess x acc = none → assignSpp x v (acc ++ [(x, p)]) = acc ++ [(x, { p with val := v })] := by
  intro acc
  induction acc with
  | nil => intro p _; simp [assignSpp]
  | cons a acc ih =>
    intro p h
    obtain ⟨k, q⟩ := a
    simp only [lookupSess] at h
    split at h
    · cases h
    · rename_i hk
      simp only [List.cons_append, assignSpp, hk, if_false, ih h]

def paramNames (ps : List Param) : List Name := ps.map (·.name)

/-- With no OUT parameter, distinct names and a session that holds none of them, the engine's
parameter set-up (NewStoredProcParam + value assignment) builds exactly the Spec's parameter list
behind what the session already held. -/
theorem initParams_agree (uv : List (Name × Val)) : ∀ (ps : List Param) (as : List Arg) (acc : List (Name × Spp)),
    (∀ q ∈ ps, q.mode ≠ .out) → (paramNames ps).Nodup → (∀ q ∈ ps, lookupSess q.name acc = none) →
    initParamsImpl uv ps as acc = acc ++ initParamsSpec uv ps as := by
  intro ps
  induction ps with
  | nil => intro as acc _ _ _; cases as <;> simp [initParamsImpl, initParamsSpec]
  | cons p ps ih =>
    intro as acc hm hnd hfree
    cases as with
    | nil => simp [initParamsImpl, initParamsSpec]
    | cons a as =>
      have hp : lookupSess p.name acc = none := hfree p (by simp)
      have hmode : p.mode ≠ .out := hm p (by simp)
      simp only [paramNames, List.map_cons, List.nodup_cons] at hnd
      simp only [initParamsImpl, initParamsSpec, newSpp, hp, assignSpp_append_new hp, hmode, if_false]
      rw [ih as _ (fun q hq => hm q (by simp [hq])) hnd.2]
      · simp
      · intro q hq
        apply lookupSess_append_none (hfree q (by simp [hq]))
        intro heq
        apply hnd.1
        simp only [List.mem_map]
        exact ⟨q, hq, heq⟩

theorem writeBack_agree (ss : List (Name × Spp)) : ∀ (ps : List Param) (as : List Arg) (uv : List (Name × Val)),
    (∀ q ∈ ps, q.mode ≠ .out) → writeBackImpl ss ps as uv = writeBackSpec ss ps as uv := by
  intro ps
  induction ps with
  | nil => intro as uv _; cases as <;> simp [writeBackImpl, writeBackSpec]
  | cons p ps ih =>
    intro as uv hm
    cases as with
    | nil => simp [writeBackImpl, writeBackSpec]
    | cons a as =>
      have hmode : p.mode ≠ .out := hm p (by simp)
      simp only [writeBackImpl, writeBackSpec]
      have ihx := fun uv' => ih as uv' (fun q hq => hm q (by simp [hq]))
      cases hpm : p.mode with
      | in_ => simp only []; exact ihx _
      | out => exact absurd hpm hmode
      | inout =>
        cases a with
        | lit v => simp only []; exact ihx _
        | uvar u =>
          simp only []
          cases lookupSess p.name ss with
          | none => simp only []; exact ihx _
          | some spp =>
            have : (decide (Mode.inout = Mode.out) && !spp.hasBeenSet) = false := by simp
            simp only [this, Bool.false_eq_true, if_false]
            exact ihx _

end Gms.ProcLang

/-! ## Property theorems -/
namespace Gms.C24
open Gms.ProcLang

/-- The tables the model transliterates are the ones the extractor read from the source on this
run: op-code enumeration, per-statement op shapes of `ConvertStmt`, the LEAVE/ITERATE placeholders
and their resolution, the direction test / scan bounds / push-pop table of `OpCode_Goto`, the
`OpCode_If` jump, the error numbers, the `Call` loop and DECLARE's zero value. -/
theorem facts_match :
    Gms.Generated.C24.opCodes = ["Select", "Declare", "Signal", "Open", "Fetch", "Close", "Set", "Call", "If",
      "Goto", "Execute", "Exception", "Return", "ScopeBegin", "ScopeEnd"]
    ∧ Gms.Generated.C24.stmtOps = [
      ("*ast.BeginEndBlock", ["ScopeBegin", "ScopeEnd"]), ("*ast.Select", ["Select"]), ("*ast.Declare", ["Declare"]),
      ("*ast.OpenCursor", ["Open"]), ("*ast.FetchCursor", ["Fetch"]), ("*ast.CloseCursor", ["Close"]),
      ("*ast.Signal", ["Signal"]), ("*ast.Set", ["Execute", "Set"]), ("*ast.Call", ["Call"]),
      ("*ast.IfStatement", ["If", "Goto"]), ("*ast.CaseStatement", ["If", "Goto", "Exception"]),
      ("*ast.While", ["If", "Goto"]), ("*ast.Repeat", ["If", "Goto"]), ("*ast.Loop", ["Goto"]),
      ("*ast.Iterate", ["Goto"]), ("*ast.Leave", ["Goto"]), ("default", ["Execute"])]
    ∧ Gms.Generated.C24.leaveIndex = "-2"
    ∧ Gms.Generated.C24.iterateIndexExpr = "stack.GetLabel(s.Label)"
    ∧ Gms.Generated.C24.getLabelMissing = "-1"
    ∧ Gms.Generated.C24.resolveTable = [("-1", "loopStart"), ("-2", "loopEnd")]
    ∧ Gms.Generated.C24.resolveChecksTarget = true
    ∧ Gms.Generated.C24.gotoDirectionTest = "counter<=operation.Index"
    ∧ Gms.Generated.C24.gotoFwd = "counter<operation.Index-1;counter++;OpCode_ScopeBegin→PushScope;OpCode_ScopeEnd→PopScope"
    ∧ Gms.Generated.C24.gotoBwd = "counter>operation.Index-1;counter--;OpCode_ScopeBegin→PopScope;OpCode_ScopeEnd→PushScope"
    ∧ Gms.Generated.C24.ifJump = "cond==nil||cond.(int8)==0⇒counter=operation.Index-1"
    ∧ Gms.Generated.C24.scopeOps = ["OpCode_ScopeBegin→stack.PushScope()", "OpCode_ScopeEnd→stack.PopScope(ctx)"]
    ∧ Gms.Generated.C24.errnos = ["case:1339", "signal:\"01\":1642", "signal:\"02\":1643", "signal:default:1644"]
    ∧ Gms.Generated.C24.callLoop = ["init:-1", "step:counter++", "break:counter>=len(statements)"]
    ∧ Gms.Generated.C24.newVariableBody = "{is.NewVariableWithValue(name,typ,typ.Zero())}" := by
  decide

/-- Guards of the compiler-correctness theorem: no LEAVE/ITERATE, no IF/CASE whose final branch
ends with a BEGIN…END block (region `else_block_scope_leak`), no LOOP with an empty body (not
expressible in SQL). -/
def Structured (s : Stmt) : Prop :=
  jumpFree s = true ∧ hasElseBlock s = false ∧ loopsNonempty s = true

instance (s : Stmt) : Decidable (Structured s) := by unfold Structured; infer_instance

/-- **Compiler correctness, normal termination.** For every structured statement, every store with
a non-empty scope stack and every fuel: if the structured semantics finishes normally with store
`σ'`, the op machine started on `Parse`'s op list finishes with outcome `ok` and exactly `σ'`
(for every sufficiently large step budget). -/
theorem compile_correct (s : Stmt) (hs : Structured s) (σ σ' : Store) (hne : σ.stack ≠ []) (fuel : Nat)
    (h : exec Sem.gms fuel s σ = some (.normal, σ')) :
    ∃ n, ∀ k, n ≤ k → run k (compileProgram s) ⟨-1, σ⟩ = (.ok, σ') := by
  obtain ⟨hj, he, hn⟩ := hs
  have hsim := sim fuel s σ .normal σ' h hj he hn hne [] [] 0 rfl
  simp only [List.nil_append, List.append_nil, SimGoal, Nat.zero_add] at hsim
  have hcode : compileProgram s = cjf 0 s := compile_eq_cjf s 0 [] hj
  rw [hcode]
  have hend : step (cjf 0 s) ⟨((codeLen s : Nat) : Int) - 1, σ'⟩ = .done .ok σ' := by
    have h1 : ((codeLen s : Nat) : Int) - 1 + 1 = (codeLen s : Int) := by omega
    have h2 : ¬ ((codeLen s : Int) < 0) := by omega
    have h3 : (cjf 0 s)[codeLen s]? = none := by
      rw [List.getElem?_eq_none_iff, cjf_length]; exact Nat.le_refl _
    simp [step, h1, h2, h3]
  have hreach : Reaches (cjf 0 s) ⟨((0 : Nat) : Int) - 1, σ⟩ (.done .ok σ') :=
    Reaches.trans hsim (Reaches.halt hend)
  exact hreach.run

/-- **Compiler correctness, errors.** If the structured semantics stops with error `e` (SIGNAL,
CASE not found, unresolved name), the machine stops with the same error number, the same trace and
the same parameter values. -/
theorem compile_correct_error (s : Stmt) (hs : Structured s) (σ σ' : Store) (hne : σ.stack ≠ []) (fuel e : Nat)
    (h : exec Sem.gms fuel s σ = some (.error e, σ')) :
    ∃ n σm, σm.sess = σ'.sess ∧ σm.log = σ'.log ∧
      ∀ k, n ≤ k → run k (compileProgram s) ⟨-1, σ⟩ = (.err e, σm) := by
  obtain ⟨hj, he, hn⟩ := hs
  have hsim := sim fuel s σ (.error e) σ' h hj he hn hne [] [] 0 rfl
  simp only [List.nil_append, List.append_nil, SimGoal] at hsim
  obtain ⟨σm, hr, hse, hlo⟩ := hsim
  have hcode : compileProgram s = cjf 0 s := compile_eq_cjf s 0 [] hj
  rw [hcode]
  obtain ⟨n, hn'⟩ := hr.run
  exact ⟨n, σm, hse, hlo, hn'⟩

/-- A structured statement never escapes with a LEAVE/ITERATE signal (so the two theorems above
cover every finishing run). -/
theorem structured_no_escape (s : Stmt) (hs : Structured s) (σ σ' : Store) (hne : σ.stack ≠ []) (fuel : Nat) (l : Name) :
    exec Sem.gms fuel s σ ≠ some (.leave l, σ') ∧ exec Sem.gms fuel s σ ≠ some (.iterate l, σ') := by
  obtain ⟨hj, he, hn⟩ := hs
  constructor
  · intro h; exact sim fuel s σ (.leave l) σ' h hj he hn hne [] [] 0 rfl
  · intro h; exact sim fuel s σ (.iterate l) σ' h hj he hn hne [] [] 0 rfl

/-- `Sem.mysql` (DECLARE without DEFAULT is NULL, REPEAT runs until the condition is TRUE, ITERATE
restarts a REPEAT body) and `Sem.gms` (what the op code implements) give the same result on every
statement without REPEAT and without DEFAULT-less DECLARE. -/
theorem sem_agree_partial (s : Stmt) (hd : hasBareDeclare s = false) (hr : hasRepeat s = false) (n : Nat) (σ : Store) :
    exec Sem.mysql n s σ = exec Sem.gms n s σ :=
  exec_sem_agree Sem.mysql Sem.gms n s σ hd hr

/-- The property on the region-free structured fragment, against MySQL's definition. -/
theorem structured_correct_partial (s : Stmt) (hs : Structured s) (hd : hasBareDeclare s = false)
    (hr : hasRepeat s = false) (σ σ' : Store) (hne : σ.stack ≠ []) (fuel : Nat)
    (h : exec Sem.mysql fuel s σ = some (.normal, σ')) :
    ∃ n, ∀ k, n ≤ k → run k (compileProgram s) ⟨-1, σ⟩ = (.ok, σ') :=
  compile_correct s hs σ σ' hne fuel (by rw [← sem_agree_partial s hd hr]; exact h)

/-- **CALL level, region-free fragment.** For a procedure whose body is structured, has no REPEAT
and no DEFAULT-less DECLARE, with IN/INOUT parameters of distinct names only, called in a fresh
session: whatever the Spec (MySQL reading) yields — outcome, user variables, trace — the Impl model
of the CALL (parameter set-up, `Parse`, the op machine, write-back) yields too. -/
theorem call_correct_partial (p : Proc) (args : List Arg) (s : Session) (fuel : Nat)
    (hs : Structured p.body) (hd : hasBareDeclare p.body = false) (hr : hasRepeat p.body = false)
    (hm : ∀ q ∈ p.params, q.mode ≠ .out) (hnd : (paramNames p.params).Nodup) (hfresh : s.sess = [])
    (o : Outcome) (s' : Session) (hspec : callSpec Sem.mysql fuel p args s = some (o, s')) :
    ∃ n, ∀ k, n ≤ k → (callImpl k p args s).1 = o ∧ (callImpl k p args s).2.uvars = s'.uvars ∧
      (callImpl k p args s).2.log = s'.log := by
  have hinit : initParamsImpl s.uvars p.params args s.sess = initParamsSpec s.uvars p.params args := by
    rw [hfresh, initParams_agree s.uvars p.params args [] hm hnd (fun _ _ => rfl)]
    simp
  have hne : ({ stack := [[]], sess := initParamsSpec s.uvars p.params args, log := s.log } : Store).stack ≠ [] := by
    simp
  unfold callSpec at hspec
  simp only at hspec
  split at hspec
  · cases hspec
  · rename_i σ hex
    simp only [Option.some.injEq, Prod.mk.injEq] at hspec
    obtain ⟨rfl, rfl⟩ := hspec
    obtain ⟨n, hn⟩ := structured_correct_partial p.body hs hd hr _ σ hne fuel hex
    refine ⟨n, fun k hk => ?_⟩
    have hrun := hn k hk
    simp [callImpl, hinit, hrun, writeBack_agree σ.sess p.params args s.uvars hm]
  · rename_i e σ hex
    simp only [Option.some.injEq, Prod.mk.injEq] at hspec
    obtain ⟨rfl, rfl⟩ := hspec
    rw [sem_agree_partial p.body hd hr] at hex
    obtain ⟨n, σm, hse, hlo, hn⟩ := compile_correct_error p.body hs _ σ hne fuel e hex
    refine ⟨n, fun k hk => ?_⟩
    have hrun := hn k hk
    simp [callImpl, hinit, hrun, hlo]
  · rename_i sg σ hnn hne' hex
    exfalso
    rw [sem_agree_partial p.body hd hr] at hex
    cases sg with
    | normal => exact hnn rfl
    | error e => exact hne' e rfl
    | leave l => exact (structured_no_escape p.body hs _ σ hne fuel l).1 hex
    | iterate l => exact (structured_no_escape p.body hs _ σ hne fuel l).2 hex

/-- For every well-labelled statement (LEAVE and ITERATE included) every `Goto` of the compiled
program carries a resolved, non-negative index. -/
theorem goto_resolved (s : Stmt) (hw : wellLabelled [] s = true) :
    ∀ t idx, Op.goto t idx ∈ compileProgram s → 0 ≤ idx := by
  intro t idx hmem
  have := compile_negOk s [] 0 [] hw _ hmem
  simp only [negOk] at this
  rcases this with h | ⟨_, l, _, hl⟩
  · exact h
  · simp at hl

/-- The scope scans of `OpCode_Goto` are stack-neutral over the code of any jump-free statement, in
both directions (this is what makes loop back-edges and IF exits keep the scope stack). -/
theorem scan_neutral (s : Stmt) (hj : jumpFree s = true) (base : Nat) (lb : Labels) (st : List Scope) :
    scanList true (compile base lb s).1 st = some st ∧ scanList false (compile base lb s).1.reverse st = some st := by
  rw [compile_eq_cjf s base lb hj]
  exact scan_cjf s base st

/-! ### Non-vacuity -/

/-- A structured program with a nested block, a WHILE with a shadowing DECLARE inside, an IF with
ELSE and a CASE-not-found arm: the guards hold and the semantics finishes. -/
def demo : Stmt :=
  .block none (.seq (.declare 3 (some 0)) (.seq (.declare 4 (some 10))
    (.seq (.while (some 0) (.lt (.var 3) (.lit 3))
        (.seq (.block none (.seq (.declare 4 (some 1)) (.set 3 (.add (.var 3) (.var 4)))))
          (.ite (.eq (.var 3) (.lit 2)) (.emit (.var 4)) (.emit (.var 3)))))
      (.set 0 (.add (.var 3) (.var 4))))))

def demoStore : Store := { stack := [[]], sess := [(0, ⟨none, false⟩)], log := [] }

example : Structured demo ∧ hasBareDeclare demo = false ∧ hasRepeat demo = false ∧
    (exec Sem.mysql 30 demo demoStore).map (fun r => (r.1, r.2.log, lookupSess 0 r.2.sess)) =
      some (.normal, [some 3, some 10, some 1], some ⟨some 13, true⟩) := by decide

/-- The hypotheses of `call_correct_partial` are satisfiable: `demo` as the body of `p(INOUT v0)`,
called with `@u0 = 4` in a fresh session, finishes with `@u0 = 13` under the Spec. -/
example : let p : Proc := { params := [⟨0, .inout⟩], body := demo }
    let s : Session := { uvars := [(0, some 4)], sess := [], log := [] }
    Structured p.body ∧ (∀ q ∈ p.params, q.mode ≠ .out) ∧ (paramNames p.params).Nodup ∧
    (callSpec Sem.mysql 30 p [.uvar 0] s).map (fun r => (r.1, getU 0 r.2.uvars)) = some (.ok, some 13) := by
  decide

example : wellLabelled [] (.loop (some 1) (.seq (.ite (.var 0) (.leave 1) .skip) (.iterate 1))) = true := by decide

/-! ### Findings on the unchanged tree (each replayed against the real engine by the harness corpus) -/

def sess0 (u0 : Val) : Session := { uvars := [(0, u0)], sess := [], log := [] }
def outR : List Param := [⟨0, .out⟩]

/-- F-C24-a. `b1: BEGIN DECLARE x DEFAULT 2; LEAVE b1; END; SET r = x` reads the inner `x`. -/
def wLeaveBlock : Proc := { params := outR, body :=
  (.block none (.seq (.declare 3 (some 1)) (.seq (.block (some 1) (.seq (.declare 3 (some 2)) (.leave 1))) (.set 0 (.var 3))))) }

theorem finding_leave_block_scope_leak :
    hasLeaveBlock [] wLeaveBlock.body = true ∧
    (callImpl 40 wLeaveBlock [.uvar 0] (sess0 none)).1 = .ok ∧
    getU 0 (callImpl 40 wLeaveBlock [.uvar 0] (sess0 none)).2.uvars = some 2 ∧
    (callSpec Sem.mysql 40 wLeaveBlock [.uvar 0] (sess0 none)).map (fun r => (r.1, getU 0 r.2.uvars)) = some (.ok, some 1) := by
  decide

/-- IF whose ELSE branch ends with a block: taking the THEN branch leaks a scope. -/
def wElseBlock : Proc := { params := outR, body :=
  (.block none (.seq (.declare 3 (some 1)) (.seq
    (.block (some 1) (.seq (.declare 3 (some 2)) (.ite (.lit 1) (.set 0 (.lit 0)) (.block none (.set 0 (.lit 5))))))
    (.set 0 (.var 3))))) }

theorem finding_else_block_scope_leak :
    hasElseBlock wElseBlock.body = true ∧ jumpFree wElseBlock.body = true ∧
    getU 0 (callImpl 40 wElseBlock [.uvar 0] (sess0 none)).2.uvars = some 2 ∧
    (callSpec Sem.mysql 40 wElseBlock [.uvar 0] (sess0 none)).map (fun r => (r.1, getU 0 r.2.uvars)) = some (.ok, some 1) := by
  decide

/-- The compiler-correctness theorem is false without the `hasElseBlock` guard. -/
theorem compile_correct_needs_guard :
    ∃ s σ σ', jumpFree s = true ∧ σ.stack ≠ [] ∧ exec Sem.gms 40 s σ = some (.normal, σ') ∧
      (run 100 (compileProgram s) ⟨-1, σ⟩).2 ≠ σ' :=
  ⟨wElseBlock.body, { stack := [[]], sess := [(0, ⟨none, false⟩)], log := [] }, _, by decide, by decide, rfl, by decide⟩

/-- ITERATE in a WHILE labelled like an earlier LOOP jumps back into the old loop. -/
def wStale : Proc := { params := outR, body :=
  (.block none (.seq (.declare 3 (some 0)) (.seq
    (.loop (some 0) (.seq (.set 3 (.add (.var 3) (.lit 1))) (.seq (.ite (.lt (.lit 3) (.var 3)) (.leave 0) .skip) (.emit (.var 3)))))
    (.seq (.while (some 0) (.lt (.var 3) (.lit 8))
      (.seq (.set 3 (.add (.var 3) (.lit 1))) (.seq (.ite (.eq (.var 3) (.lit 6)) (.iterate 0) .skip) (.emit (.mul (.var 3) (.lit 10))))))
      (.set 0 (.var 3)))))) }

theorem finding_stale_label_iterate :
    staleIterate wStale.body = true ∧
    (callImpl 200 wStale [.uvar 0] (sess0 none)).2.log.reverse = [some 1, some 2, some 3, some 50, some 80] ∧
    (callSpec Sem.mysql 60 wStale [.uvar 0] (sess0 none)).map (fun r => r.2.log.reverse)
      = some [some 1, some 2, some 3, some 50, some 70, some 80] := by
  decide

/-- Limit of the Impl model inside `stale_label_iterate` (`staleIntoClosedBlock`): the REPEAT `l0`
sits in a block that declares `v4`; the ITERATE of the later WHILE `l0` jumps back to its UNTIL test
after that block has been closed. The model stops with errno 1105 (`v4` does not resolve). The real
engine finishes the CALL with trace 11,200,400: the unresolved name evaluates to the value cached in
the AST node by the previous evaluation (replayed by the harness corpus; such cases carry the
`(norun)` flag and are compared at compile level only). The plain stale-label witness `wStale` is
not in this sub-class. -/
def wStaleClosed : Stmt :=
  .block none (.seq (.declare 3 (some 0)) (.seq
    (.block none (.seq (.declare 4 (some 10))
      (.repeat (some 0) (.seq (.set 3 (.add (.var 3) (.lit 1))) (.emit (.add (.var 4) (.var 3))))
        (.or (.le (.lit 1) (.var 3)) (.lt (.var 4) (.lit 0))))))
    (.while (some 0) (.lt (.var 3) (.lit 4))
      (.seq (.set 3 (.add (.var 3) (.lit 1))) (.seq (.ite (.eq (.var 3) (.lit 3)) (.iterate 0) .skip)
        (.emit (.mul (.var 3) (.lit 100))))))))

theorem model_limit_stale_into_closed_block :
    staleIterate wStaleClosed = true ∧ staleIntoClosedBlock wStaleClosed = true ∧
    staleIntoClosedBlock wStale.body = false ∧
    (callImpl 200 ⟨[], wStaleClosed⟩ [] (sess0 none)).1 = .err 1105 ∧
    (callImpl 200 ⟨[], wStaleClosed⟩ [] (sess0 none)).2.log.reverse = [some 11, some 200] ∧
    (callSpec Sem.mysql 60 ⟨[], wStaleClosed⟩ [] (sess0 none)).map (fun r => (r.1, r.2.log.reverse))
      = some (.ok, [some 11, some 200, some 400]) := by
  decide

/-- OUT parameter not reset: the body sees the caller's value. -/
def wOutParam : Proc := { params := outR, body := (.block none (.emit (.var 0))) }

theorem finding_out_param_not_reset :
    (callImpl 20 wOutParam [.uvar 0] (sess0 (some 5))).2.log = [some 5] ∧
    (callSpec Sem.mysql 20 wOutParam [.uvar 0] (sess0 (some 5))).map (fun r => r.2.log) = some [none] := by
  decide

/-- … and a stale `HasBeenSet` from an earlier CALL in the session makes an unassigned OUT
parameter write the caller's old value back instead of NULL. -/
def wOutStale : Proc := { params := [⟨0, .out⟩, ⟨1, .in_⟩], body :=
  (.block none (.ite (.eq (.var 1) (.lit 1)) (.set 0 (.lit 7)) .skip)) }

theorem finding_out_param_stale_has_been_set :
    let s1 := (callImpl 20 wOutStale [.uvar 0, .lit (some 1)] (sess0 (some 5))).2
    let t1 := ((callSpec Sem.mysql 20 wOutStale [.uvar 0, .lit (some 1)] (sess0 (some 5))).map (·.2)).getD default
    getU 0 s1.uvars = some 7 ∧ getU 0 t1.uvars = some 7 ∧
    getU 0 (callImpl 20 wOutStale [.uvar 0, .lit (some 0)] s1).2.uvars = some 7 ∧
    (callSpec Sem.mysql 20 wOutStale [.uvar 0, .lit (some 0)] t1).map (fun r => getU 0 r.2.uvars) = some none := by
  decide

/-- ITERATE of a REPEAT label evaluates UNTIL instead of restarting the body. -/
def wIterRepeat : Stmt :=
  .block none (.seq (.declare 3 (some 0)) (.seq
    (.repeat (some 0) (.seq (.set 3 (.add (.var 3) (.lit 1))) (.seq (.ite (.eq (.var 3) (.lit 3)) (.iterate 0) .skip) (.emit (.var 3))))
      (.le (.lit 3) (.var 3)))
    (.set 0 (.var 3))))

theorem finding_iterate_repeat_checks_until :
    hasIterateRepeat [] wIterRepeat = true ∧
    (callImpl 200 ⟨outR, wIterRepeat⟩ [.uvar 0] (sess0 none)).2.log.reverse = [some 1, some 2] ∧
    (callSpec Sem.mysql 60 ⟨outR, wIterRepeat⟩ [.uvar 0] (sess0 none)).map (fun r => r.2.log.reverse) = some [some 1, some 2, some 4] ∧
    (callSpec Sem.gms 60 ⟨outR, wIterRepeat⟩ [.uvar 0] (sess0 none)).map (fun r => r.2.log.reverse) = some [some 1, some 2] := by
  decide

/-- ITERATE of a REPEAT label from inside the BEGIN…END block that ends the REPEAT body. On the
first pass the ITERATE is a forward Goto to the UNTIL test; the block's ScopeEnd sits right in
front of that test and is skipped (`goto_fwd_skips_scopeEnd`), so the inner `x = 2` keeps
shadowing the outer `x = 1` after the loop. Both readings of ITERATE (restart / check UNTIL) give 1. -/
def wIterRepBlock : Proc := { params := outR, body :=
  (.block none (.seq (.declare 3 (some 1)) (.seq (.declare 4 (some 0)) (.seq
    (.repeat (some 0)
      (.seq (.set 4 (.add (.var 4) (.lit 1)))
        (.block none (.seq (.declare 3 (some 2)) (.ite (.eq (.var 4) (.lit 1)) (.iterate 0) .skip))))
      (.le (.lit 1) (.var 4)))
    (.set 0 (.var 3)))))) }

theorem finding_iterate_repeat_block_scope_leak :
    hasIterateRepeatEndBlock [] wIterRepBlock.body = true ∧
    hasLeaveBlock [] wIterRepBlock.body = false ∧ hasElseBlock wIterRepBlock.body = false ∧
    staleIterate wIterRepBlock.body = false ∧
    -- the ITERATE of the first body copy is a forward Goto to op 10 (the UNTIL test), op 9 is a ScopeEnd
    (compileProgram wIterRepBlock.body)[7]? = some (.goto (some 0) 10) ∧
    (compileProgram wIterRepBlock.body)[9]? = some (.scopeEnd none 10) ∧
    (callImpl 100 wIterRepBlock [.uvar 0] (sess0 none)).1 = .ok ∧
    getU 0 (callImpl 100 wIterRepBlock [.uvar 0] (sess0 none)).2.uvars = some 2 ∧
    (callSpec Sem.mysql 60 wIterRepBlock [.uvar 0] (sess0 none)).map (fun r => (r.1, getU 0 r.2.uvars)) = some (.ok, some 1) ∧
    (callSpec Sem.gms 60 wIterRepBlock [.uvar 0] (sess0 none)).map (fun r => (r.1, getU 0 r.2.uvars)) = some (.ok, some 1) := by
  decide

/-- The same region with the ITERATE *in front of* the final block: the forward Goto pushes a scope
for the block's ScopeBegin and never pops it, so the enclosing block's ScopeEnd pops that empty
scope instead of its own and the enclosing block's `x = 3` survives the block. -/
def wIterRepBlockOutside : Proc := { params := outR, body :=
  (.block none (.seq (.declare 3 (some 1)) (.seq
    (.block none (.seq (.declare 3 (some 3)) (.seq (.declare 4 (some 0))
      (.repeat (some 0)
        (.seq (.set 4 (.add (.var 4) (.lit 1))) (.seq (.ite (.eq (.var 4) (.lit 1)) (.iterate 0) .skip)
          (.block none (.set 4 (.var 4)))))
        (.le (.lit 1) (.var 4))))))
    (.set 0 (.var 3))))) }

theorem finding_iterate_repeat_block_scope_leak_outside :
    hasIterateRepeatEndBlock [] wIterRepBlockOutside.body = true ∧
    hasLeaveBlock [] wIterRepBlockOutside.body = false ∧ hasElseBlock wIterRepBlockOutside.body = false ∧
    staleIterate wIterRepBlockOutside.body = false ∧
    getU 0 (callImpl 100 wIterRepBlockOutside [.uvar 0] (sess0 none)).2.uvars = some 3 ∧
    (callSpec Sem.mysql 60 wIterRepBlockOutside [.uvar 0] (sess0 none)).map (fun r => (r.1, getU 0 r.2.uvars)) = some (.ok, some 1) ∧
    (callSpec Sem.gms 60 wIterRepBlockOutside [.uvar 0] (sess0 none)).map (fun r => (r.1, getU 0 r.2.uvars)) = some (.ok, some 1) := by
  decide

/-- Control for the region predicate: one more statement behind the block (the body no longer ends
with a ScopeEnd) and the op machine agrees with the structured semantics again. -/
def wIterRepBlockControl : Proc := { params := outR, body :=
  (.block none (.seq (.declare 3 (some 1)) (.seq (.declare 4 (some 0)) (.seq
    (.repeat (some 0)
      (.seq (.set 4 (.add (.var 4) (.lit 1))) (.seq
        (.block none (.seq (.declare 3 (some 2)) (.ite (.eq (.var 4) (.lit 1)) (.iterate 0) .skip)))
        (.set 4 (.var 4))))
      (.le (.lit 1) (.var 4)))
    (.set 0 (.var 3)))))) }

example : hasIterateRepeatEndBlock [] wIterRepBlockControl.body = false ∧
    hasIterateRepeat [] wIterRepBlockControl.body = true ∧
    getU 0 (callImpl 100 wIterRepBlockControl [.uvar 0] (sess0 none)).2.uvars = some 1 ∧
    (callSpec Sem.gms 60 wIterRepBlockControl [.uvar 0] (sess0 none)).map (fun r => (r.1, getU 0 r.2.uvars)) = some (.ok, some 1) := by
  decide

/-- REPEAT … UNTIL NULL leaves the loop. -/
def wUntilNull : Stmt :=
  .block none (.seq (.declare 3 (some 0))
    (.repeat (some 0) (.seq (.set 3 (.add (.var 3) (.lit 1))) (.emit (.var 3))) (.or (.le (.lit 3) (.var 3)) .null)))

theorem finding_repeat_until_null_exits :
    hasRepeat wUntilNull = true ∧ jumpFree wUntilNull = true ∧
    (callImpl 200 ⟨[], wUntilNull⟩ [] (sess0 none)).2.log.reverse = [some 1] ∧
    (callSpec Sem.mysql 60 ⟨[], wUntilNull⟩ [] (sess0 none)).map (fun r => r.2.log.reverse) = some [some 1, some 2, some 3] := by
  decide

/-- DECLARE without DEFAULT is 0, not NULL. -/
def wBareDeclare : Stmt := .block none (.seq (.declare 3 none) (.emit (.var 3)))

theorem finding_declare_without_default_zero :
    hasBareDeclare wBareDeclare = true ∧
    (callImpl 20 ⟨[], wBareDeclare⟩ [] (sess0 none)).2.log = [some 0] ∧
    (callSpec Sem.mysql 20 ⟨[], wBareDeclare⟩ [] (sess0 none)).map (fun r => r.2.log) = some [none] := by
  decide

/-! ## The error path: DECLARE … HANDLER -/

set_option maxRecDepth 20000 in
/-- Regenerated tie of `handleError` / `ListHandlers` / the error branch of `Call` to the model:
`matchingHandler` (only SQLEXCEPTION assigns, the `break` leaves the switch ⇒ last match),
`handleError` (first op of the handler code, run with counter -1), CONTINUE ⇒ `counter`, EXIT ⇒ the
scan of `exitScanAux` started at **`matchingHandler.Counter`**, result `newCounter-1`, and
`listHandlers` (depth 0 = top scope first). -/
theorem facts_match_handlers :
    Gms.Generated.C24.handlerSelect = ["DeclareHandlerCondition_MysqlErrorCode:", "DeclareHandlerCondition_SqlState:",
      "DeclareHandlerCondition_ConditionName:", "DeclareHandlerCondition_SqlWarning:", "DeclareHandlerCondition_NotFound:",
      "DeclareHandlerCondition_SqlException:matchingHandler=handler;break"]
    ∧ Gms.Generated.C24.handlerRun = "op=handlerOps[0];code=handlerOps;counter=-1"
    ∧ Gms.Generated.C24.handlerActions = ["DeclareHandlerAction_Continue:returncounter,nil",
      "DeclareHandlerAction_Exit:remainingEndScopes:=1",
      "DeclareHandlerAction_Exit:for:init:newCounter=matchingHandler.Counter;cond:newCounter<len(statements);post:newCounter++;if:remainingEndScopes==0⇒break;OpCode_ScopeBegin→remainingEndScopes++;OpCode_ScopeEnd→remainingEndScopes--",
      "DeclareHandlerAction_Exit:returnnewCounter-1,io.EOF",
      "DeclareHandlerAction_Undo:return-1,fmt.Errorf(\"DECLAREUNDOHANDLERisnotsupported\")"]
    ∧ Gms.Generated.C24.handlerCallBranch = "{newCounter=hCounter}else{newCounter=counter}"
    ∧ Gms.Generated.C24.listHandlersLoop = "i:=0;i<is.stack.Len();i++;range:is.stack.PeekDepth(i).handlers" := by
  decide

section Handlers
open Gms.ProcH

/-- README shape of the class: EXIT handler of the outer block, error in a nested block, observable
statements behind the failing statement, behind the nested block. -/
def hExitNested : HProc := { params := outR, body :=
  (.block (.seq (.handler true false 0 (.lit (-1))) (.seq (.set 0 (.lit 1))
    (.seq (.block (.seq (.emit (.lit 1)) (.seq .signal (.set 0 (.lit 2))))) (.seq (.set 0 (.lit 3)) (.emit (.lit 9))))))) }

/-- On it the op machine and the structured semantics agree: r = -1, trace 1 — the statements behind
the nested block do not run (non-vacuity of `exit_scan_finds_block_end`: the scan from the DECLARE at
op 1 passes the nested block's ScopeBegin/ScopeEnd and stops at op 10). -/
theorem handler_exit_nested_agree :
    nestedHandlers false hExitNested.body = false ∧ exitHandlerNested true hExitNested.body = false ∧
    handlerDynScope hExitNested.body = false ∧
    exitScan (compileProgramH hExitNested.body) 1 = 10 ∧
    (callImplH 60 hExitNested [.uvar 0] (sess0 none)) = (.ok, { uvars := [(0, some (-1))], sess := [(0, ⟨some (-1), true⟩)], log := [some 1] }) ∧
    (callSpecH 40 hExitNested [.uvar 0] (sess0 none)).map (fun r => (r.1, getU 0 r.2.uvars, r.2.log)) = some (.ok, some (-1), [some 1]) := by
  decide

/-- CONTINUE through a nested block: both give r = 112. -/
def hContinueNested : HProc := { params := outR, body :=
  (.block (.seq (.handler false false 0 (.add (.var 0) (.lit 100))) (.seq (.set 0 (.lit 1))
    (.seq (.block (.seq .signal (.set 0 (.add (.var 0) (.lit 1))))) (.set 0 (.add (.var 0) (.lit 10))))))) }

theorem handler_continue_nested_agree :
    getU 0 (callImplH 60 hContinueNested [.uvar 0] (sess0 none)).2.uvars = some 112 ∧
    (callSpecH 40 hContinueNested [.uvar 0] (sess0 none)).map (fun r => (r.1, getU 0 r.2.uvars)) = some (.ok, some 112) := by
  decide

/-- A NOT FOUND handler does not catch SQLSTATE 45000 (both: errno 1644). -/
theorem handler_notfound_does_not_match :
    (callImplH 60 ⟨outR, .block (.seq (.handler true true 0 (.lit (-1))) (.seq (.set 0 (.lit 1)) (.seq .signal (.set 0 (.lit 2)))))⟩
      [.uvar 0] (sess0 none)).1 = .err 1644 ∧
    (callSpecH 40 ⟨outR, .block (.seq (.handler true true 0 (.lit (-1))) (.seq (.set 0 (.lit 1)) (.seq .signal (.set 0 (.lit 2)))))⟩
      [.uvar 0] (sess0 none)).map (·.1) = some (.err 1644) := by
  decide

/-- The inner block has its own handler; the engine gives the condition to the outer block's. -/
def wNestedHandlers : HProc := { params := outR, body :=
  (.block (.seq (.handler true false 0 (.lit (-1))) (.seq (.set 0 (.lit 1))
    (.seq (.block (.seq (.handler true false 0 (.lit (-2))) (.seq .signal (.set 0 (.lit 2))))) (.seq (.emit (.var 0)) (.set 0 (.lit 3))))))) }

theorem finding_nested_handler_outermost_wins :
    nestedHandlers false wNestedHandlers.body = true ∧
    (callImplH 60 wNestedHandlers [.uvar 0] (sess0 none)).1 = .ok ∧
    getU 0 (callImplH 60 wNestedHandlers [.uvar 0] (sess0 none)).2.uvars = some (-1) ∧
    (callImplH 60 wNestedHandlers [.uvar 0] (sess0 none)).2.log = [] ∧
    (callSpecH 40 wNestedHandlers [.uvar 0] (sess0 none)).map (fun r => (r.1, getU 0 r.2.uvars, r.2.log)) = some (.ok, some 3, [some (-2)]) := by
  decide

/-- EXIT handler in a block that is not the outermost one: its scope stays on the stack. -/
def wExitLeak : HProc := { params := outR, body :=
  (.block (.seq (.declare 3 1) (.seq
    (.block (.seq (.declare 3 2) (.seq (.handler true false 0 (.lit (-1))) (.seq .signal (.set 0 (.lit 2))))))
    (.seq (.emit (.var 3)) (.set 0 (.var 3)))))) }

theorem finding_exit_handler_scope_leak :
    exitHandlerNested true wExitLeak.body = true ∧ nestedHandlers false wExitLeak.body = false ∧
    getU 0 (callImplH 60 wExitLeak [.uvar 0] (sess0 none)).2.uvars = some 2 ∧
    (callImplH 60 wExitLeak [.uvar 0] (sess0 none)).2.log = [some 2] ∧
    (callSpecH 40 wExitLeak [.uvar 0] (sess0 none)).map (fun r => (r.1, getU 0 r.2.uvars, r.2.log)) = some (.ok, some 1, [some 1]) := by
  decide

/-- … and the dead handler keeps catching: a later error jumps back to the dead block's end and the
failing statement runs again — the op machine does not stop (the engine: CALL never returns), the
structured semantics ends with errno 1644. -/
theorem finding_exit_handler_dead_handler_loops :
    let p : HProc := ⟨outR, .block (.seq (.block (.seq (.handler true false 0 (.lit (-1))) (.seq .signal (.set 0 (.lit 2)))))
      (.seq .signal (.set 0 (.lit 5))))⟩
    exitHandlerNested true p.body = true ∧
    (callImplH 300 p [.uvar 0] (sess0 none)).1 = .timeout ∧
    (callSpecH 40 p [.uvar 0] (sess0 none)).map (·.1) = some (.err 1644) := by
  decide

/-- The handler statement's names are resolved where the error happened. -/
def wDynScope : HProc := { params := outR, body :=
  (.block (.seq (.declare 3 1) (.seq (.handler false false 3 (.lit 7)) (.seq
    (.block (.seq (.declare 3 2) (.seq .signal (.emit (.var 3)))))
    (.seq (.emit (.var 3)) (.set 0 (.var 3))))))) }

theorem finding_handler_body_dynamic_scope :
    handlerDynScope wDynScope.body = true ∧ nestedHandlers false wDynScope.body = false ∧
    exitHandlerNested true wDynScope.body = false ∧
    getU 0 (callImplH 60 wDynScope [.uvar 0] (sess0 none)).2.uvars = some 1 ∧
    (callImplH 60 wDynScope [.uvar 0] (sess0 none)).2.log.reverse = [some 7, some 1] ∧
    (callSpecH 40 wDynScope [.uvar 0] (sess0 none)).map (fun r => (r.1, getU 0 r.2.uvars, r.2.log.reverse)) = some (.ok, some 7, [some 2, some 7]) := by
  decide

/-- Non-vacuity of `spec_exit_skips_rest_of_declaring_block` and
`spec_continue_resumes_in_nested_block`: their hypotheses hold on a concrete store. -/
example : execH 9 (.block (.seq (.handler true false 0 (.lit 5)) (.seq (.block (.seq .signal (.emit (.lit 1)))) (.emit (.lit 2)))))
    { stack := [HScope.empty], sess := [(0, ⟨none, false⟩)], log := [] }
    = some (.normal, { stack := [HScope.empty], sess := [(0, ⟨some 5, true⟩)], log := [] }) := by
  decide

example : execH 9 (.block (.seq (.handler false false 0 (.lit 5)) (.block (.seq .signal (.emit (.var 0))))))
    { stack := [HScope.empty], sess := [(0, ⟨none, false⟩)], log := [] }
    = some (.normal, { stack := [HScope.empty], sess := [(0, ⟨some 5, true⟩)], log := [some 5] }) := by
  decide

end Handlers

end Gms.C24
