/-
C24 — Stored procedures follow structured-program semantics.
-/
import Gms.Model.ProcLang
import Gms.Generated.C24

namespace Gms.C24
open Gms.ProcLang

/-- The shapes the model transliterates are the ones the extractor read from the source now. -/
theorem facts_match :
    Gms.Generated.C24.opCodes = ["Select", "Declare", "Signal", "Open", "Fetch", "Close", "Set", "Call", "If",
      "Goto", "Execute", "Exception", "Return", "ScopeBegin", "ScopeEnd"]
    ∧ Gms.Generated.C24.leaveIndex = "-2" := by
  decide

def w1 : Proc := { params := [⟨0, .out⟩], body :=
    (.block none (.seq (.declare 3 (some 1)) (.seq (.block (some 1) (.seq (.declare 3 (some 2)) (.leave 1))) (.set 0 (.var 3))))) }
def s0 : Session := { uvars := [(0, none)], sess := [], log := [] }

theorem finding_leave_block_scope_leak :
    (callImpl 40 w1 [.uvar 0] s0).1 = .ok ∧ getU 0 (callImpl 40 w1 [.uvar 0] s0).2.uvars = some 2 ∧
    (callSpec Sem.mysql 40 w1 [.uvar 0] s0).map (fun r => getU 0 r.2.uvars) = some (some 1) := by
  decide

end Gms.C24
