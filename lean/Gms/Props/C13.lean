/-
C13 — DML statements match a reference table model.

Model: Gms/Model/MemTable.lean (Impl = rowexec iterators → tableEditor → edit accumulators →
ApplyEdits; Spec = keyed map / multiset with MySQL's row counts). Helper lemmas are in
Gms/Lemmas/MemTable.lean; the audited property theorems are in `namespace Gms.C13` below.
-/
import Gms.Model.MemTable
import Gms.Lemmas.MemTable
import Gms.Lemmas.MemTableStmt
import Gms.Generated.C13

namespace Gms.MemTable

/-! ## keyless accumulator vs multiset (helper lemmas) -/

def klStep (sch : Schema) (e : Ed) : AccCall → Ed
  | .ins r => klInsert sch e r
  | .del r => klDelete sch e r

/-- Spec: a keyless table is a multiset of rows (a list up to permutation). -/
def msStep (m : List Row) : AccCall → List Row
  | .ins r => m ++ [r]
  | .del r => m.erase r

/-- every DELETE call names a row that is in the table at that point (DML deletes rows it has read). -/
def ValidCalls : List Row → List AccCall → Prop
  | _, [] => True
  | m, .ins r :: cs => ValidCalls (m ++ [r]) cs
  | m, .del r :: cs => r ∈ m ∧ ValidCalls (m.erase r) cs

def WellTyped (sch : Schema) (r : Row) : Prop := r.length = sch.cols.length

theorem rowEquals_eq (sch : Schema) (hci : NoCi sch) (a b : Row) (ha : WellTyped sch a) :
    rowEquals sch.cols a b = (a == b) := by
  rw [Bool.eq_iff_iff]
  constructor
  · intro h; simp [rowEquals_noCi sch.cols hci a b h]
  · intro h
    have : a = b := by simpa using h
    subst this
    exact rowEquals_self sch.cols a ha

theorem eraseFirst_eq_erase (p : Row → Bool) (r : Row) (l : List Row) (h : ∀ d ∈ l, p d = (d == r)) :
    eraseFirst p l = l.erase r := by
  induction l with
  | nil => rfl
  | cons a as ih =>
    have ha := h a (by simp)
    simp only [eraseFirst, List.erase_cons, ha]
    by_cases e : a = r
    · simp [e]
    · have : (a == r) = false := by simpa using e
      simp only [this, Bool.false_eq_true, if_false]
      rw [ih (fun d hd => h d (by simp [hd]))]

theorem any_eq_mem (p : Row → Bool) (r : Row) (l : List Row) (h : ∀ d ∈ l, p d = (d == r)) :
    l.any p = decide (r ∈ l) := by
  induction l with
  | nil => simp
  | cons a as ih =>
    simp only [List.any_cons, h a (by simp), ih (fun d hd => h d (by simp [hd])), List.mem_cons]
    by_cases e : a = r
    · simp [e]
    · have e' : ¬ r = a := fun x => e x.symm
      simp [e, e']

theorem count_foldl_erase (x : Row) (ds t : List Row) :
    List.count x (ds.foldl List.erase t) = List.count x t - List.count x ds := by
  induction ds generalizing t with
  | nil => simp
  | cons d ds ih =>
    simp only [List.foldl_cons]
    rw [ih, List.count_erase, List.count_cons]
    by_cases h : d = x
    · simp [h]; omega
    · have : (d == x) = false := by simpa using h
      simp [this]

/-- counting invariant between the keyless accumulator and the Spec multiset `m`. -/
def KlInv (e : Ed) (m : List Row) : Prop :=
  ∀ x, List.count x m + List.count x e.kdels = List.count x e.rows + List.count x e.kadds
    ∧ List.count x e.kdels ≤ List.count x e.rows

def AllTyped (sch : Schema) (e : Ed) : Prop :=
  (∀ r ∈ e.kadds, WellTyped sch r) ∧ (∀ r ∈ e.kdels, WellTyped sch r)

theorem klInsert_eq (sch : Schema) (hci : NoCi sch) (e : Ed) (r : Row) (hr : WellTyped sch r) :
    klInsert sch e r = if r ∈ e.kdels then { e with kdels := e.kdels.erase r }
      else { e with kadds := e.kadds ++ [r] } := by
  unfold klInsert
  have hp : ∀ d ∈ e.kdels, (fun d => rowEquals sch.cols r d) d = (d == r) := by
    intro d _
    simp only [rowEquals_eq sch hci r d hr]
    rw [Bool.eq_iff_iff, beq_iff_eq, beq_iff_eq]; exact eq_comm
  rw [any_eq_mem _ r e.kdels hp, eraseFirst_eq_erase _ r e.kdels hp]
  by_cases h : r ∈ e.kdels
  · simp only [h, decide_true, if_true]
  · simp only [h, decide_false, Bool.false_eq_true, if_false]

theorem klDelete_eq (sch : Schema) (hci : NoCi sch) (e : Ed) (r : Row) (hr : WellTyped sch r) :
    klDelete sch e r = if r ∈ e.kadds then { e with kadds := e.kadds.erase r }
      else { e with kdels := e.kdels ++ [r] } := by
  unfold klDelete
  have hp : ∀ d ∈ e.kadds, (fun d => rowEquals sch.cols r d) d = (d == r) := by
    intro d _
    simp only [rowEquals_eq sch hci r d hr]
    rw [Bool.eq_iff_iff, beq_iff_eq, beq_iff_eq]; exact eq_comm
  rw [any_eq_mem _ r e.kadds hp, eraseFirst_eq_erase _ r e.kadds hp]
  by_cases h : r ∈ e.kadds
  · simp only [h, decide_true, if_true]
  · simp only [h, decide_false, Bool.false_eq_true, if_false]

theorem count_pos_of_mem (x : Row) (l : List Row) (h : x ∈ l) : 1 ≤ List.count x l :=
  List.count_pos_iff.mpr h

theorem klStep_inv (sch : Schema) (hci : NoCi sch) (e : Ed) (m : List Row) (c : AccCall)
    (hr : WellTyped sch c.row) (hinv : KlInv e m)
    (hvalid : match c with | .ins _ => True | .del r => r ∈ m) :
    KlInv (klStep sch e c) (msStep m c) ∧ (klStep sch e c).rows = e.rows := by
  cases c with
  | ins r =>
    simp only [klStep, msStep]
    rw [klInsert_eq sch hci e r hr]
    by_cases h : r ∈ e.kdels
    · simp only [h, if_true]
      refine ⟨?_, by first | rfl | trivial⟩
      intro x
      obtain ⟨h1, h2⟩ := hinv x
      simp only [List.count_append, List.count_erase, List.count_cons, List.count_nil]
      have hpos := count_pos_of_mem r e.kdels h
      by_cases hx : r = x
      · subst hx; simp; omega
      · have : (r == x) = false := by simpa using hx
        simp [this]; omega
    · simp only [h, if_false]
      refine ⟨?_, by first | rfl | trivial⟩
      intro x
      obtain ⟨h1, h2⟩ := hinv x
      simp only [List.count_append, List.count_cons, List.count_nil]
      by_cases hx : r = x
      · subst hx; simp; omega
      · have : (r == x) = false := by simpa using hx
        simp [this]; omega
  | del r =>
    simp only [klStep, msStep]
    rw [klDelete_eq sch hci e r hr]
    have hm : r ∈ m := hvalid
    have hmpos := count_pos_of_mem r m hm
    by_cases h : r ∈ e.kadds
    · simp only [h, if_true]
      refine ⟨?_, by first | rfl | trivial⟩
      intro x
      obtain ⟨h1, h2⟩ := hinv x
      simp only [List.count_erase]
      have hpos := count_pos_of_mem r e.kadds h
      by_cases hx : r = x
      · subst hx; simp; omega
      · have : (r == x) = false := by simpa using hx
        simp [this]; omega
    · simp only [h, if_false]
      refine ⟨?_, by first | rfl | trivial⟩
      intro x
      obtain ⟨h1, h2⟩ := hinv x
      simp only [List.count_erase, List.count_append, List.count_cons, List.count_nil]
      have h0 : List.count r e.kadds = 0 := List.count_eq_zero.mpr h
      by_cases hx : r = x
      · subst hx; simp; omega
      · have : (r == x) = false := by simpa using hx
        simp [this]; omega

theorem klFold_inv (sch : Schema) (hci : NoCi sch) (calls : List AccCall) (e : Ed) (m : List Row)
    (hty : ∀ c ∈ calls, WellTyped sch c.row) (hinv : KlInv e m) (hv : ValidCalls m calls) :
    KlInv (calls.foldl (klStep sch) e) (calls.foldl msStep m)
      ∧ (calls.foldl (klStep sch) e).rows = e.rows := by
  induction calls generalizing e m with
  | nil => exact ⟨hinv, rfl⟩
  | cons c cs ih =>
    simp only [List.foldl_cons]
    have hc := hty c (by simp)
    have hcs : ∀ c ∈ cs, WellTyped sch c.row := fun c h => hty c (by simp [h])
    cases c with
    | ins r =>
      obtain ⟨s1, s2⟩ := klStep_inv sch hci e m (.ins r) hc hinv trivial
      obtain ⟨i1, i2⟩ := ih (klStep sch e (.ins r)) (msStep m (.ins r)) hcs s1 hv
      exact ⟨i1, by rw [i2, s2]⟩
    | del r =>
      obtain ⟨s1, s2⟩ := klStep_inv sch hci e m (.del r) hc hinv hv.1
      obtain ⟨i1, i2⟩ := ih (klStep sch e (.del r)) (msStep m (.del r)) hcs s1 hv.2
      exact ⟨i1, by rw [i2, s2]⟩

theorem klDeleteHelper_eq (sch : Schema) (hci : NoCi sch) (t : List Row) (d : Row)
    (hty : ∀ r ∈ t, WellTyped sch r) : klDeleteHelper sch t d = t.erase d := by
  unfold klDeleteHelper
  apply eraseFirst_eq_erase
  intro r hr
  exact rowEquals_eq sch hci r d (hty r hr)

theorem klFoldDelete_eq (sch : Schema) (hci : NoCi sch) (ds t : List Row)
    (hty : ∀ r ∈ t, WellTyped sch r) : ds.foldl (klDeleteHelper sch) t = ds.foldl List.erase t := by
  induction ds generalizing t with
  | nil => rfl
  | cons d ds ih =>
    simp only [List.foldl_cons]
    rw [klDeleteHelper_eq sch hci t d hty]
    exact ih (t.erase d) (fun r hr => hty r (List.mem_of_mem_erase hr))

end Gms.MemTable

/-! ## Property theorems -/
namespace Gms.C13
open Gms.MemTable

/-- The call orders, increments and format verbs the model was written against are the ones the
extractor read from the source on this run. `getRowKey` prints every key value with `%v` and writes
it length-prefixed (`"%d:%s,"` with `len(s), s`, no other write) — the repair of finding
`pk_print_collision`: if the prefix disappears again this obligation breaks and
`fixed_pk_print_collision` below is the replay. -/
theorem facts_match :
    Gms.Generated.C13.getRowKeyFormats = ["%v", "%d:%s,"] ∧ Gms.Generated.C13.getRowKeyWrites = 0
    ∧ Gms.Generated.C13.getRowKeyLenArgs = ["len(s)", "s"]
    ∧ Gms.Generated.C13.pkApplyEdits = ["deletes.Foreach", "deleteHelper", "adds.Foreach", "insertHelper", "tableData.sortRows"]
    ∧ Gms.Generated.C13.pkInsert = ["getRowKey", "adds.Set"]
    ∧ Gms.Generated.C13.pkDelete = ["getRowKey", "adds.Del", "deletes.Set"]
    ∧ Gms.Generated.C13.pkGet = ["getRowKey", "adds.Get", "deletes.Get", "columnsMatch"]
    ∧ Gms.Generated.C13.klApplyEdits = ["deleteHelper", "insertHelper"]
    ∧ Gms.Generated.C13.edInsert = ["ea.Get", "checkUniqueConstraints", "ea.Insert"]
    ∧ Gms.Generated.C13.edUpdate = ["ea.Delete", "pkColsDiffer", "ea.Get", "checkUniqueConstraints", "ea.Insert"]
    ∧ Gms.Generated.C13.edComplete = ["ea.ApplyEdits", "ea.Clear"]
    ∧ Gms.Generated.C13.edDiscard = ["ea.Clear", "editedTable.replaceData"]
    ∧ Gms.Generated.C13.iterClose = ["openerCloser.DiscardChanges", "openerCloser.StatementComplete"]
    ∧ Gms.Generated.C13.checkpointNext = ["editIter.StatementBegin", "inner.Next", "editIter.DiscardChanges", "editIter.StatementComplete"]
    ∧ Gms.Generated.C13.insertNext = ["replacer.Insert", "replacer.Delete", "inserter.Insert", "handleOnDuplicateKeyUpdate"]
    ∧ Gms.Generated.C13.odkuCalls = ["applyUpdates", "applyUpdates", "updater.Update"]
    ∧ Gms.Generated.C13.updateNext = ["oldRow.Equals", "updater.Update"] := by
  decide

/-- The row-count handlers add what the model adds: INSERT 1; REPLACE 1 and one more inside a loop
that breaks at the first hit (so at most 2 per row); ODKU 1 / (found-rows) 1 / 2 / (error) 1;
UPDATE matched 1, affected 1; DELETE 1. -/
theorem facts_counts :
    Gms.Generated.C13.insertIncs = [1] ∧ Gms.Generated.C13.replaceIncs = [1, 1]
    ∧ Gms.Generated.C13.replaceBreaks = 1 ∧ Gms.Generated.C13.odkuIncs = [1, 1, 2, 1]
    ∧ Gms.Generated.C13.updateAffectedIncs = [1] ∧ Gms.Generated.C13.updateMatchedIncs = [1]
    ∧ Gms.Generated.C13.deleteIncs = [1] := by
  decide

/-- **Keyed accumulator refines the keyed map** (`acc_refines_map`) — full statement since the repair
of `pk_print_collision` (it needed the guard `KeyInjOn` before). For every stored table with
distinct keys, every sequence of accumulator `Insert`/`Delete` calls on typed rows (key columns
hold values of the declared kinds, `KeyTyped`), and no case-insensitive column: the table produced
by `ApplyEdits` denotes exactly the map obtained by applying the same calls, in order, to the map
the stored table denoted; and its keys are still distinct. -/
theorem pk_acc_refines_map (sch : Schema) (t : List Row) (calls : List AccCall)
    (hci : NoCi sch) (hnd : NoDupPk sch.pk t) (hty : ∀ c ∈ calls, KeyTyped sch c.row) :
    absT sch.pk (pkApply sch (calls.foldl (accStepPk sch) (mkEd t)))
        = calls.foldl (specStepK sch.pk) (absT sch.pk t)
      ∧ NoDupPk sch.pk (pkApply sch (calls.foldl (accStepPk sch) (mkEd t))) := by
  have hinj : KeyInjOn sch.pk (calls.map AccCall.row) :=
    keyInjOn_typed sch _ (fun r hr => by
      obtain ⟨c, hc, e⟩ := List.mem_map.mp hr
      rw [← e]; exact hty c hc)
  have hwf : AccWF sch.pk (calls.map AccCall.row) (mkEd t) :=
    ⟨by simp [mkEd], by simp [mkEd], by simp [mkEd]⟩
  obtain ⟨f1, f2, f3⟩ := fold_eff sch (calls.map AccCall.row) hinj calls
    (fun c hc => List.mem_map_of_mem hc) (mkEd t) hwf (absT sch.pk t)
  have hrows : (calls.foldl (accStepPk sch) (mkEd t)).rows = t := by rw [f3]; rfl
  obtain ⟨a1, a2⟩ := pkApplyU_spec sch hci (calls.foldl (accStepPk sch) (mkEd t)) (by rw [hrows]; exact hnd)
  obtain ⟨p1, p2⟩ := absT_perm sch.pk _ _ (sortRows_perm sch (pkApplyU sch (calls.foldl (accStepPk sch) (mkEd t)))).symm a2
  refine ⟨?_, p2⟩
  unfold pkApply
  rw [← p1, a1, hrows, f1]
  simp [eff, mkEd]

/-- non-vacuity of `pk_acc_refines_map`: an insert, an update-like delete+insert and a delete on
a two-row table with a composite key — including the rows (1,23) / (12,3) of the old witness. -/
example : ∀ c ∈ [AccCall.ins [.int 1, .int 23, .int 0], .del [.int 1, .int 2, .int 9],
    .ins [.int 12, .int 3, .int 7], .del [.int 5, .int 6, .int 0]],
    KeyTyped { cols := [{}, {}, {}], pk := [0, 1], uniques := [] } c.row := by
  intro c hc k hk
  simp only [List.mem_cons, List.not_mem_nil, or_false] at hc hk
  rcases hc with rfl | rfl | rfl | rfl <;> rcases hk with rfl | rfl <;> decide

/-- **`getRowKey` is injective on key values** (`keyInj`; the full statement, FALSE before the repair
of `pk_print_collision`): for every schema — any number of key columns — and every set of typed
rows, different key values get different map keys. -/
theorem keyInj_typed (sch : Schema) (S : List Row) (h : ∀ r ∈ S, KeyTyped sch r) : KeyInjOn sch.pk S :=
  keyInjOn_typed sch S h

/-- … and for rows that merely agree on the kind of value in every key column (all integers or all
strings in a column), whatever the schema says. -/
theorem keyInj_same_kinds (pk : List Nat) (S : List Row)
    (h : ∀ r1 ∈ S, ∀ r2 ∈ S, ∀ c ∈ pk, (r1.at c).kind = (r2.at c).kind) : KeyInjOn pk S := by
  intro r1 h1 r2 h2 hk
  exact getRowKey_inj pk r1 r2 (h r1 h1 r2 h2) hk

/-- The pre-fix key (no separator) was injective only for a single column: witness (1,23) / (12,3)
under a composite key collided; under the repaired `getRowKey` the same rows are kept apart. -/
theorem fixed_keyInj_composite :
    getRowKeyPreFix [0, 1] [.int 1, .int 23, .int 0] = getRowKeyPreFix [0, 1] [.int 12, .int 3, .int 1]
    ∧ proj [0, 1] [.int 1, .int 23, .int 0] ≠ proj [0, 1] [.int 12, .int 3, .int 1]
    ∧ KeyInjOn [0, 1] [[.int 1, .int 23, .int 0], [.int 12, .int 3, .int 1]] := by
  refine ⟨by decide, by decide, ?_⟩
  apply keyInj_same_kinds
  intro r1 h1 r2 h2 c hc
  simp only [List.mem_cons, List.not_mem_nil, or_false] at h1 h2 hc
  rcases h1 with rfl | rfl <;> rcases h2 with rfl | rfl <;> rcases hc with rfl | rfl <;> decide

/-- **Keyless accumulator refines the multiset** (`keyless_acc_refines_multiset`). For every
keyless table, every sequence of accumulator calls in which each `Delete` names a row present at
that point: `ApplyEdits` yields, up to permutation, the rows obtained by appending / removing one
occurrence per call. (Adds and deletes cancel pairwise; `deleteHelper` removes exactly one equal row.) -/
theorem keyless_acc_refines_multiset (sch : Schema) (t : List Row) (calls : List AccCall)
    (hci : NoCi sch) (htt : ∀ r ∈ t, WellTyped sch r) (htc : ∀ c ∈ calls, WellTyped sch c.row)
    (hv : ValidCalls t calls) :
    (klApply sch (calls.foldl (klStep sch) (mkEd t))).Perm (calls.foldl msStep t) := by
  have h0 : KlInv (mkEd t) t := by intro x; simp [mkEd]
  obtain ⟨inv, hrows⟩ := klFold_inv sch hci calls (mkEd t) t htc h0 hv
  rw [List.perm_iff_count]
  intro x
  obtain ⟨i1, i2⟩ := inv x
  unfold klApply
  rw [hrows] at i1 i2 ⊢
  simp only [mkEd] at i1 i2 ⊢
  rw [List.count_append, klFoldDelete_eq sch hci _ t htt, count_foldl_erase]
  omega

/-- non-vacuity: the call sequence of `UPDATE` on one of two equal rows is valid. -/
example : ValidCalls [[Val.int 1], [Val.int 1], [Val.int 2]]
    [.del [.int 1], .ins [.int 5], .del [.int 1], .ins [.int 1]] := by
  simp [ValidCalls]

/-! ### Statement level -/

/-- Full statement (`stmt_sequence_refines`): `∀ sch t s, implStmt sch t s ≈ specStmt sch t s` (same
outcome, same rows up to order) — FALSE on the unchanged code, see the findings below.
Proved for the statement kinds whose unique checks never meet a pending delete:

**Plain multi-row INSERT** on a keyed table: same outcome (all rows inserted, or ERROR 1062 and
nothing changed) and same table contents as the Spec, for every table satisfying the key
invariant and every list of typed rows — guards: no case-insensitive column (¬`ci_collation_key`),
no prefix index (¬`prefix_bytes_vs_chars`), key columns not NULL. (The former guard "printed keys
of the new rows distinguishable" is gone with the repair of `pk_print_collision`.) -/
theorem insert_stmt_refines_partial (sch : Schema) (hk : sch.keyless = false) (hci : NoCi sch) (hnp : NoPrefix sch)
    (t rows : List Row) (ht : NoDupPk sch.pk t ∧ ListOK sch t) (hty : ∀ r ∈ rows, KeyTyped sch r)
    (hnn : ∀ r ∈ rows, hasNullForAnyCols r sch.pk = false) :
    (implStmt sch t (.insert false rows)).1 = (specStmt sch t (.insert false rows)).1
      ∧ ((implStmt sch t (.insert false rows)).2).Perm ((specStmt sch t (.insert false rows)).2) :=
  insert_stmt_refines sch hk hci hnp t rows ht (keyInjOn_typed sch rows hty) hnn

/-- **DELETE** (WHERE / ORDER BY / LIMIT, and the TRUNCATE rewrite) on a keyed table: the Impl model
removes exactly the selected rows and reports their number, for every table of typed rows — guard:
no case-insensitive column. (The former guard "printed keys of the stored rows distinguishable"
is gone with the repair of `pk_print_collision`.) -/
theorem delete_stmt_refines_partial (sch : Schema) (hk : sch.keyless = false) (hci : NoCi sch)
    (t : List Row) (ht : NoDupPk sch.pk t) (hty : ∀ r ∈ t, KeyTyped sch r)
    (wh : List Cond) (ord : List (Nat × Bool)) (lim : Option Nat) :
    (implStmt sch t (.delete wh ord lim)).1 = (specStmt sch t (.delete wh ord lim)).1
      ∧ ((implStmt sch t (.delete wh ord lim)).2).Perm ((specStmt sch t (.delete wh ord lim)).2) :=
  delete_stmt_refines sch hk hci t ht (keyInjOn_typed sch t hty) wh ord lim

/-- non-vacuity of the two statement theorems' hypotheses on a concrete table with a unique index. -/
example : (implStmt ⟨[{}, {}], [0], [([1], [0])]⟩ [[.int 1, .int 5], [.int 2, .int 6]]
      (.insert false [[.int 3, .int 7], [.int 4, .int 5]])).1 = .dup
    ∧ (implStmt ⟨[{}, {}], [0], [([1], [0])]⟩ [[.int 1, .int 5], [.int 2, .int 6]]
      (.delete [.cmp .ge 1 (.int 6)] [] none)) = (.ok 1 0, [[.int 1, .int 5]]) := by decide

/-! ### Statement level: the repaired finding, and the findings that remain on the unchanged tree (Impl model ≠ Spec) -/

def schComposite : Schema := { cols := [{}, {}, {}], pk := [0, 1], uniques := [] }
def schUnique : Schema := { cols := [{}, {}], pk := [0], uniques := [([1], [0])] }
def schUnique3 : Schema := { cols := [{}, {}, {}], pk := [0], uniques := [([1], [0])] }

/-- **Repaired defect `pk_print_collision`.** The statements of the old witness lie in the value
class on which the pre-fix code failed (two rows of one statement with different key values and
the same pre-fix printed key `123`: INSERT was rejected with a false duplicate, REPLACE lost the
row (1,23)); the Impl model of the repaired code gives them the outcome and the table of the Spec. -/
theorem fixed_pk_print_collision :
    regionPrintCollisionPreFix schComposite [] (.insert false [[.int 1, .int 23, .int 0], [.int 12, .int 3, .int 1]]) = true
    ∧ getRowKey schComposite.pk [.int 1, .int 23, .int 0] ≠ getRowKey schComposite.pk [.int 12, .int 3, .int 1]
    ∧ implStmt schComposite [] (.insert false [[.int 1, .int 23, .int 0], [.int 12, .int 3, .int 1]])
        = specStmt schComposite [] (.insert false [[.int 1, .int 23, .int 0], [.int 12, .int 3, .int 1]])
    ∧ implStmt schComposite [] (.replace [[.int 1, .int 23, .int 0], [.int 12, .int 3, .int 1]])
        = specStmt schComposite [] (.replace [[.int 1, .int 23, .int 0], [.int 12, .int 3, .int 1]])
    ∧ (implStmt schComposite [] (.replace [[.int 1, .int 23, .int 0], [.int 12, .int 3, .int 1]])).2
        = [[.int 1, .int 23, .int 0], [.int 12, .int 3, .int 1]] := by
  refine ⟨by decide, by decide, by decide, by decide, by decide⟩

theorem finding_unique_check_ignores_pending_edits :
    ∃ sch t s, (implStmtE sch t s).2.inexact = true ∧ implStmt sch t s ≠ specStmt sch t s
      ∧ specNoDup sch (implStmt sch t s).2 = false :=
  ⟨schUnique, [[.int 1, .int 5]], .replace [[.int 1, .int 6], [.int 2, .int 5], [.int 3, .int 5]],
    by decide, by decide, by decide⟩

theorem finding_replace_multi_delete_count :
    ∃ sch t s, regionReplaceMulti sch t s = true ∧ (implStmt sch t s).1 = .ok 2 0 ∧ (specStmt sch t s).1 = .ok 3 0 :=
  ⟨schUnique3, [[.int 1, .int 5, .int 0], [.int 2, .int 6, .int 0]], .replace [[.int 1, .int 6, .int 9]],
    by decide, by decide, by decide⟩

end Gms.C13
