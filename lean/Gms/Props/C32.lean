/-
C32 — JSON values round-trip and path functions obey their laws.
Part 1: internal/strings Quote / Unquote at byte level.
-/
import Gms.Model.JsonQuote
import Gms.Model.JsonPath
import Gms.Model.JsonNum
import Gms.Generated.C32
import Gms.Lemmas.C32Expected
import Gms.Lemmas.JsonNum

namespace Gms.JsonQuote

/-! ## decodeSize: continuation bytes are ≥ 0x80 -/

theorem isCont_ge {b : UInt8} (h : isCont b = true) : 0x80 ≤ b := by
  simp [isCont] at h; exact h.1

/-- `Skip k s`: the next `k` bytes of `s` exist and are all ≥ 0x80 (tail of a multi-byte rune). -/
def Skip (k : Nat) (s : Bytes) : Prop := k ≤ s.length ∧ ∀ c ∈ s.take k, (0x80 : UInt8) ≤ c

theorem skip_zero (s : Bytes) : Skip 0 s := ⟨Nat.zero_le _, by simp⟩

theorem skip_tail {k : Nat} {b : UInt8} {rest : Bytes} (h : Skip (k + 1) (b :: rest)) :
    (0x80 : UInt8) ≤ b ∧ Skip k rest := by
  obtain ⟨hl, hc⟩ := h
  refine ⟨hc b (by simp), ?_, ?_⟩
  · simp at hl; omega
  · intro c hm; exact hc c (by simp [hm])

theorem second3_ge {b0 b1 : UInt8} (h : second3 b0 b1 = true) : 0x80 ≤ b1 := by
  simp only [second3, Bool.and_eq_true, decide_eq_true_eq] at h
  have := h.1
  split at this
  · exact UInt8.le_trans (by decide) this
  · exact this

theorem second4_ge {b0 b1 : UInt8} (h : second4 b0 b1 = true) : 0x80 ≤ b1 := by
  simp only [second4, Bool.and_eq_true, decide_eq_true_eq] at h
  have := h.1
  split at this
  · exact UInt8.le_trans (by decide) this
  · exact this

theorem decodeSize_skip (b : UInt8) (rest : Bytes) (n : Nat)
    (h : decodeSize (b :: rest) = some n) : Skip (n - 1) rest := by
  match rest, h with
  | [], h => simp [decodeSize] at h
  | [b1], h =>
    simp only [decodeSize] at h
    by_cases h2 : lead2 b = true
    · simp only [h2, if_true] at h
      by_cases hc : isCont b1 = true
      · simp only [hc, if_true, Option.some.injEq] at h; subst h
        exact ⟨by simp, by intro c hm; simp at hm; subst hm; exact isCont_ge hc⟩
      · simp [hc] at h
    · by_cases h3 : lead3 b = true <;> by_cases h4 : lead4 b = true <;> simp [h2, h3, h4] at h
  | [b1, b2], h =>
    simp only [decodeSize] at h
    by_cases h2 : lead2 b = true
    · simp only [h2, if_true] at h
      by_cases hc : isCont b1 = true
      · simp only [hc, if_true, Option.some.injEq] at h; subst h
        exact ⟨by simp, by intro c hm; simp at hm; subst hm; exact isCont_ge hc⟩
      · simp [hc] at h
    · by_cases h3 : lead3 b = true
      · simp only [h2, h3, if_true, Bool.false_eq_true, if_false] at h
        by_cases hc : (second3 b b1 && isCont b2) = true
        · simp only [hc, if_true, Option.some.injEq] at h; subst h
          simp only [Bool.and_eq_true] at hc
          refine ⟨by simp, ?_⟩
          intro c hm; simp at hm
          rcases hm with rfl | rfl
          · exact second3_ge hc.1
          · exact isCont_ge hc.2
        · simp [hc] at h
      · by_cases h4 : lead4 b = true <;> simp [h2, h3, h4] at h
  | b1 :: b2 :: b3 :: r3, h =>
    simp only [decodeSize] at h
    by_cases h2 : lead2 b = true
    · simp only [h2, if_true] at h
      by_cases hc : isCont b1 = true
      · simp only [hc, if_true, Option.some.injEq] at h; subst h
        exact ⟨by simp, by intro c hm; simp at hm; subst hm; exact isCont_ge hc⟩
      · simp [hc] at h
    · by_cases h3 : lead3 b = true
      · simp only [h2, h3, if_true, Bool.false_eq_true, if_false] at h
        by_cases hc : (second3 b b1 && isCont b2) = true
        · simp only [hc, if_true, Option.some.injEq] at h; subst h
          simp only [Bool.and_eq_true] at hc
          refine ⟨by simp, ?_⟩
          intro c hm; simp at hm
          rcases hm with rfl | rfl
          · exact second3_ge hc.1
          · exact isCont_ge hc.2
        · simp [hc] at h
      · by_cases h4 : lead4 b = true
        · simp only [h2, h3, h4, if_true, Bool.false_eq_true, if_false] at h
          by_cases hc : (second4 b b1 && isCont b2 && isCont b3) = true
          · simp only [hc, if_true, Option.some.injEq] at h; subst h
            simp only [Bool.and_eq_true] at hc
            refine ⟨by simp, ?_⟩
            intro c hm; simp at hm
            rcases hm with rfl | rfl | rfl
            · exact second4_ge hc.1.1
            · exact isCont_ge hc.1.2
            · exact isCont_ge hc.2
          · simp [hc] at h
        · simp [h2, h3, h4] at h

/-! ## unescape on the pieces `Quote` writes -/

theorem unescape_plain (st : Bool) (b : UInt8) (rest : Bytes) (h : b ≠ 92) :
    unescape st (b :: rest) = (unescape st rest).cons b := by
  rw [unescape.eq_def]
  split <;> simp_all

theorem unescape_high (st : Bool) (b : UInt8) (rest : Bytes) (h : (0x80 : UInt8) ≤ b) :
    unescape st (b :: rest) = (unescape st rest).cons b := by
  apply unescape_plain
  intro e; subst e; exact absurd h (by decide)

theorem unescape_simple (st : Bool) (c : UInt8) (rest : Bytes) (h : c ≠ 117) :
    unescape st (92 :: c :: rest) =
      (unescape st rest).cons (if c = 98 then 8 else if c = 102 then 12 else if c = 110 then 10
        else if c = 114 then 13 else if c = 116 then 9 else c) :=
  unescape.eq_6 st c rest h

theorem unescape_u (st : Bool) (a b c d : UInt8) (rest : Bytes) (bs : Bytes)
    (h : decodeEscaped a b c d = .bytes bs) :
    unescape st (92 :: 117 :: a :: b :: c :: d :: rest) = (unescape st rest).app bs := by
  rw [unescape.eq_def]
  simp [h]

theorem decode_control : ∀ n, n < 32 →
    decodeEscaped 48 48 (hexDigitLower (n / 16)) (hexDigitLower (n % 16)) = .bytes [UInt8.ofNat n] := by
  decide

theorem decode_replacement : decodeEscaped 102 102 102 100 = .bytes [0xEF, 0xBF, 0xBD] := by decide

theorem res_app_singleton (b : UInt8) (r : Res) : r.app [b] = r.cons b := by
  cases r <;> rfl

/-- Unquote undoes each escape `Quote` writes. -/
theorem unescape_escape (st : Bool) (b : UInt8) (X : Bytes) (h : quoteEscape b ≠ []) :
    unescape st (quoteEscape b ++ X) = (unescape st X).cons b := by
  unfold quoteEscape at h ⊢
  by_cases h1 : b = 34
  · subst h1; simp [unescape_simple]
  by_cases h2 : b = 92
  · subst h2; simp [unescape_simple]
  by_cases h3 : b = 8
  · subst h3; simp [unescape_simple]
  by_cases h4 : b = 12
  · subst h4; simp [unescape_simple]
  by_cases h5 : b = 10
  · subst h5; simp [unescape_simple]
  by_cases h6 : b = 13
  · subst h6; simp [unescape_simple]
  by_cases h7 : b = 9
  · subst h7; simp [unescape_simple]
  by_cases h8 : b < 0x20
  · simp only [h1, h2, h3, h4, h5, h6, h7, h8, if_true, if_false, List.cons_append, List.nil_append]
    have hn : b.toNat < 32 := by
      have := UInt8.lt_iff_toNat_lt.mp h8
      simpa using this
    rw [unescape_u st _ _ _ _ X _ (decode_control b.toNat hn), res_app_singleton]
    simp
  · simp [h1, h2, h3, h4, h5, h6, h7, h8] at h

theorem unescape_replacement (st : Bool) (X : Bytes) :
    unescape st (replacement ++ X) = (unescape st X).app [0xEF, 0xBF, 0xBD] := by
  simp only [replacement, List.cons_append, List.nil_append]
  exact unescape_u st _ _ _ _ X _ decode_replacement

/-- Main lemma: unescaping what the loop of `Quote` wrote gives back the sanitised input. -/
theorem unescape_quoteAux (st : Bool) (s : Bytes) (k : Nat) (T : Bytes) (hk : Skip k s) :
    unescape st (quoteAux k s ++ T) = (unescape st T).app (sanitizeAux k s) := by
  induction s generalizing k with
  | nil =>
    cases k <;> (simp only [quoteAux, sanitizeAux, List.nil_append]; cases unescape st T <;> rfl)
  | cons b rest ih =>
    cases k with
    | succ k' =>
      obtain ⟨hb, hs⟩ := skip_tail hk
      simp only [quoteAux, sanitizeAux, List.cons_append]
      rw [unescape_high st b _ hb, ih k' hs]
      cases unescape st T <;> rfl
    | zero =>
      simp only [quoteAux, sanitizeAux]
      by_cases hlt : b < 0x80
      · simp only [hlt, if_true]
        by_cases he : quoteEscape b = []
        · have hne : b ≠ 92 := by
            intro e; subst e; simp [quoteEscape] at he
          simp only [he, if_true, List.cons_append, List.nil_append]
          rw [unescape_plain st b _ hne, ih 0 (skip_zero rest)]
          cases unescape st T <;> rfl
        · simp only [he, if_false, List.append_assoc]
          rw [unescape_escape st b _ he, ih 0 (skip_zero rest)]
          cases unescape st T <;> rfl
      · simp only [hlt, if_false]
        have hb : (0x80 : UInt8) ≤ b := UInt8.not_lt.mp hlt
        cases hd : decodeSize (b :: rest) with
        | none =>
          simp only [List.append_assoc]
          rw [unescape_replacement, ih 0 (skip_zero rest)]
          cases unescape st T <;> simp [Res.app]
        | some n =>
          simp only [List.cons_append]
          rw [unescape_high st b _ hb, ih (n - 1) (decodeSize_skip b rest n hd)]
          cases unescape st T <;> rfl

theorem sanitize_valid (s : Bytes) (k : Nat) (h : validAux k s = true) : sanitizeAux k s = s := by
  induction s generalizing k with
  | nil => cases k <;> rfl
  | cons b rest ih =>
    cases k with
    | succ k' => simp only [validAux] at h; simp [sanitizeAux, ih k' h]
    | zero =>
      simp only [validAux] at h
      simp only [sanitizeAux]
      by_cases hlt : b < 0x80
      · simp only [hlt, if_true] at h ⊢; rw [ih 0 h]
      · simp only [hlt, if_false] at h ⊢
        cases hd : decodeSize (b :: rest) with
        | none => rw [hd] at h; simp at h
        | some n => rw [hd] at h; simp only at h ⊢; rw [ih (n - 1) h]

theorem stripQuotes_wrap (s : Bytes) : stripQuotes (34 :: (s ++ [34])) = s := by
  unfold stripQuotes
  have h1 : (34 :: (s ++ [34])).length > 1 := by simp
  have h3 : (34 :: (s ++ [34])).getLast? = some 34 := by
    rw [show (34 : UInt8) :: (s ++ [34]) = (34 :: s) ++ [34] by simp]
    exact List.getLast?_concat
  simp only [h1, h3, List.head?_cons, and_self, if_true, List.drop_succ_cons, List.drop_zero]
  simp

/-- `unescape true` (the Spec) never reports a crash. -/
theorem unescape_strict_no_crash (s : Bytes) : unescape true s ≠ .crash := by
  fun_induction unescape true s <;> simp_all [Res.cons, Res.app]
  all_goals (first | (split <;> simp_all) | skip)

theorem res_cons_crash (b : UInt8) (r : Res) : r.cons b = .crash ↔ r = .crash := by
  cases r <;> simp [Res.cons]

theorem res_app_crash (p : Bytes) (r : Res) : r.app p = .crash ↔ r = .crash := by
  cases r <;> simp [Res.app]

theorem unescape_eq_strict (s : Bytes) (h : unescape false s ≠ .crash) :
    unescape false s = unescape true s := by
  fun_induction unescape false s
  case case1 => simp [unescape]
  case case2 => simp [unescape]
  case case3 a b c d rest' bs hd ih =>
    rw [unescape_u true a b c d rest' bs hd]
    rw [ne_eq, res_app_crash] at h
    rw [ih h]
  case case4 a b c d rest' hd =>
    rw [unescape.eq_def]; simp [hd]
  case case5 => contradiction
  case case6 => exact absurd rfl h
  case case7 => contradiction
  case case8 => exact absurd rfl h
  case case9 rest h1 h2 => rw [unescape.eq_5 true rest h1 h2]
  case case10 c rest hc o ih =>
    rw [unescape.eq_6 true c rest hc]
    rw [ne_eq, res_cons_crash] at h
    rw [ih h]
  case case11 b rest h1 h2 h3 ih =>
    rw [unescape.eq_7 true b rest h1 h2 h3]
    rw [ne_eq, res_cons_crash] at h
    rw [ih h]

end Gms.JsonQuote


/-! ## Part 2: path mutation and lookup -/
namespace Gms.JsonPath

theorem oget_oset_same (kvs : List (Bytes × Json)) (k : Bytes) (v : Json) :
    oget (oset kvs k v) k = some v := by
  induction kvs with
  | nil => simp [oset, oget]
  | cons p rest ih =>
    obtain ⟨k', w⟩ := p
    by_cases h : k' = k
    · simp [oset, oget, h]
    · simp [oset, oget, h, ih]

theorem oget_odel_same (kvs : List (Bytes × Json)) (k : Bytes) : oget (odel kvs k) k = none := by
  induction kvs with
  | nil => simp [odel, oget]
  | cons p rest ih =>
    obtain ⟨k', w⟩ := p
    by_cases h : k' = k
    · simp [odel, h, ih]
    · simp [odel, oget, h, ih]

theorem setAt_get (l : List Json) (i : Nat) (v : Json) (h : i < l.length) :
    (setAt l i v)[i]? = some v := by
  simp [setAt, h]

theorem parseIndex_n_inrange (i len : Nat) (h : i < len) : parseIndex (.n i) len = ⟨false, false, i⟩ := by
  have h1 : ¬ (len = 0 ∨ i > len - 1) := by omega
  simp [parseIndex, h1]

theorem parseIndex_n_end (len : Nat) :
    (parseIndex (.n len) len).overflow = true ∧ (parseIndex (.n len) len).underflow = false := by
  have h1 : len = 0 ∨ len > len - 1 := by omega
  simp [parseIndex, h1]

/-- The MySQL-valid domain of the law `JSON_EXTRACT(JSON_SET(d,p,v),p) = v`: every leg but the last
names an existing member / cell, indices are plain numbers, and the last leg names an existing or
new member, an existing cell, or the cell just past the end. -/
def lands : List Leg → Json → Bool
  | [], _ => true
  | .key k :: rest, .obj kvs =>
    match oget kvs k with
    | some c => lands rest c
    | none => rest.isEmpty
  | .idx (.n i) :: rest, .arr l =>
    match l[i]? with
    | some c => lands rest c
    | none => i == l.length && rest.isEmpty
  | _, _ => false

/-- Where the path lands, JSON_SET changes the document and afterwards the path resolves to the
new value — for the library walk (`walk`), for MySQL's semantics (`specWalk`), and no member access
on a non-object is met (`maon`). -/
theorem set_then_walk (v : Json) (p : List Leg) (d : Json) (h : lands p d = true) :
    ∃ d', update .set v p d = some (d', true) ∧ walk p d' = .found v ∧ specWalk p d' = .found v ∧
      maon p d' = false := by
  induction p generalizing d with
  | nil => exact ⟨v, rfl, rfl, rfl, rfl⟩
  | cons leg rest ih =>
    cases leg with
    | key k =>
      cases d with
      | obj kvs =>
        simp only [lands] at h
        cases rest with
        | nil =>
          refine ⟨.obj (oset kvs k v), by simp [update], ?_, ?_, ?_⟩ <;>
            simp [walk, specWalk, maon, oget_oset_same]
        | cons leg2 rest2 =>
          cases hc : oget kvs k with
          | none => rw [hc] at h; simp at h
          | some c =>
            rw [hc] at h
            obtain ⟨n, hu, hw, hs, hm⟩ := ih c h
            refine ⟨.obj (oset kvs k n), ?_, ?_, ?_, ?_⟩
            · simp [update, hc, hu]
            · simp [walk, oget_oset_same, hw]
            · simp [specWalk, oget_oset_same, hs]
            · simp [maon, oget_oset_same, hm]
      | null => simp [lands] at h
      | bool b => simp [lands] at h
      | num n => simp [lands] at h
      | str s => simp [lands] at h
      | arr l => simp [lands] at h
    | idx i =>
      cases i with
      | last => cases d <;> simp [lands] at h
      | lastMinus k => cases d <;> simp [lands] at h
      | n i =>
        cases d with
        | arr l =>
          simp only [lands] at h
          cases hc : l[i]? with
          | some c =>
            rw [hc] at h
            have hi : i < l.length := by
              have := List.getElem?_eq_some_iff.mp hc
              exact this.1
            have hp := parseIndex_n_inrange i l.length hi
            have hget : l.getD i .null = c := by simp [List.getD, hc]
            have hgi : l[i] = c := (List.getElem?_eq_some_iff.mp hc).2
            cases rest with
            | nil =>
              refine ⟨.arr (setAt l i v), ?_, ?_, ?_, ?_⟩
              · simp [update, hp, hi]
              · simp [walk, setAt_get l i v hi]
              · have hl : (setAt l i v).length = l.length := by simp [setAt]
                simp [specWalk, hl, hp, setAt_get l i v hi]
              · simp [maon, setAt_get l i v hi]
            | cons leg2 rest2 =>
              obtain ⟨n, hu, hw, hs, hm⟩ := ih c h
              refine ⟨.arr (setAt l i n), ?_, ?_, ?_, ?_⟩
              · simp [update, hp, hi, hgi, hu]
              · simp [walk, setAt_get l i n hi, hw]
              · have hl : (setAt l i n).length = l.length := by simp [setAt]
                simp [specWalk, hl, hp, setAt_get l i n hi, hs]
              · simp [maon, setAt_get l i n hi, hm]
          | none =>
            rw [hc] at h
            simp only [Bool.and_eq_true, beq_iff_eq, List.isEmpty_iff] at h
            obtain ⟨he, hr⟩ := h
            subst he; subst hr
            have hp := parseIndex_n_end l.length
            refine ⟨.arr (l ++ [v]), ?_, ?_, ?_, ?_⟩
            · simp [update, hp.1, hp.2]
            · simp [walk]
            · have h1 : parseIndex (.n l.length) (l.length + 1) = ⟨false, false, l.length⟩ :=
                parseIndex_n_inrange _ _ (by omega)
              simp [specWalk, h1]
            · simp [maon]
        | null => simp [lands] at h
        | bool b => simp [lands] at h
        | num n => simp [lands] at h
        | str s => simp [lands] at h
        | obj kvs => simp [lands] at h

/-- JSON_ARRAY_APPEND adds exactly one element at the end of the value the path resolves to
(wrapping a non-array into a two-element array first). -/
theorem append_then_walk (v : Json) (p : List Leg) (d d' x : Json)
    (hu : update .arrayAppend v p d = some (d', true)) (hw : walk p d = .found x) :
    walk p d' = .found (appendEnd v x) := by
  induction p generalizing d d' with
  | nil =>
    simp only [update, Option.some.injEq, Prod.mk.injEq, and_true] at hu
    simp only [walk, LRes.found.injEq] at hw
    subst hu; subst hw; rfl
  | cons leg rest ih =>
    cases leg with
    | key k =>
      cases d with
      | obj kvs =>
        simp only [walk] at hw
        cases hc : oget kvs k with
        | none => rw [hc] at hw; simp at hw
        | some c =>
          rw [hc] at hw
          cases rest with
          | nil =>
            simp only [walk, LRes.found.injEq] at hw
            subst hw
            simp [update, hc] at hu
            subst hu
            simp [walk, oget_oset_same]
          | cons leg2 rest2 =>
            simp only [update, hc, Option.getD_some] at hu
            cases hr : update .arrayAppend v (leg2 :: rest2) c with
            | none => rw [hr] at hu; simp at hu
            | some r =>
              obtain ⟨n, ch⟩ := r
              rw [hr] at hu
              simp only [Option.some.injEq, Prod.mk.injEq] at hu
              obtain ⟨hd, hch⟩ := hu
              subst hch
              simp only [if_true] at hd
              subst hd
              simp [walk, oget_oset_same, ih c n hr hw]
      | null => simp [walk] at hw
      | bool b => simp [walk] at hw
      | num n => simp [walk] at hw
      | str s => simp [walk] at hw
      | arr l => simp [walk] at hw
    | idx i =>
      cases i with
      | last => cases d <;> simp [walk] at hw
      | lastMinus k => cases d <;> simp [walk] at hw
      | n i =>
        cases d with
        | arr l =>
          simp only [walk] at hw
          cases hc : l[i]? with
          | none => rw [hc] at hw; simp at hw
          | some c =>
            rw [hc] at hw
            have hi : i < l.length := (List.getElem?_eq_some_iff.mp hc).1
            have hp := parseIndex_n_inrange i l.length hi
            have hgi : l[i] = c := (List.getElem?_eq_some_iff.mp hc).2
            simp [update, hp, hi, hgi] at hu
            cases hr : update .arrayAppend v rest c with
            | none => rw [hr] at hu; simp at hu
            | some r =>
              obtain ⟨n, ch⟩ := r
              rw [hr] at hu
              simp only [Option.some.injEq, Prod.mk.injEq] at hu
              obtain ⟨hd, hch⟩ := hu
              subst hch
              simp only [if_true] at hd
              subst hd
              simp [walk, setAt_get l i n hi, ih c n hr hw]
        | null => simp [walk] at hw
        | bool b => simp [walk] at hw
        | num n => simp [walk] at hw
        | str s => simp [walk] at hw
        | obj kvs => simp [walk] at hw

end Gms.JsonPath


/-! ### Lookup: Impl (`lookup`) against MySQL's semantics (`specWalk`) -/
namespace Gms.JsonPath

/-- Every index leg the walk reaches is a plain number applied to an array. -/
def plain : List Leg → Json → Bool
  | [], _ => true
  | .key k :: rest, .obj kvs =>
    match oget kvs k with
    | some v => plain rest v
    | none => true
  | .key _ :: _, _ => true
  | .idx (.n i) :: rest, .arr l =>
    match l[i]? with
    | some v => plain rest v
    | none => true
  | .idx _ :: _, _ => false

theorem specWalk_idx_arr (i : Nat) (rest : List Leg) (l : List Json) :
    specWalk (.idx (.n i) :: rest) (.arr l) =
      match l[i]? with
      | some v => specWalk rest v
      | none => .missing := by
  by_cases hi : i < l.length
  · have hp := parseIndex_n_inrange i l.length hi
    simp only [specWalk, hp]
    cases l[i]? <;> simp
  · have h1 : l.length = 0 ∨ i > l.length - 1 := by omega
    have hn : l[i]? = none := by simp; omega
    have hp : (parseIndex (.n i) l.length).overflow = true := by
      unfold parseIndex; simp only; rw [if_pos h1]
    simp only [specWalk, hp, hn]
    simp

theorem walk_eq_spec (p : List Leg) (d : Json) (h : plain p d = true) :
    walk p d = specWalk p d := by
  induction p generalizing d with
  | nil => rfl
  | cons leg rest ih =>
    cases leg with
    | key k =>
      cases d with
      | obj kvs =>
        simp only [plain] at h
        simp only [walk, specWalk]
        cases hc : oget kvs k with
        | none => rfl
        | some c => rw [hc] at h; exact ih c h
      | null => rfl
      | bool b => rfl
      | num n => rfl
      | str s => rfl
      | arr l => rfl
    | idx i =>
      cases i with
      | last => cases d <;> simp [plain] at h
      | lastMinus k => cases d <;> simp [plain] at h
      | n i =>
        cases d with
        | arr l =>
          simp only [plain] at h
          rw [specWalk_idx_arr]
          simp only [walk]
          cases hc : l[i]? with
          | none => rfl
          | some c => rw [hc] at h; exact ih c h
        | null => simp [plain] at h
        | bool b => simp [plain] at h
        | num n => simp [plain] at h
        | str s => simp [plain] at h
        | obj kvs => simp [plain] at h

theorem maon_spec_missing (p : List Leg) (d : Json) (h : plain p d = true)
    (hm : maon p d = true) : specWalk p d = .missing := by
  induction p generalizing d with
  | nil => simp [maon] at hm
  | cons leg rest ih =>
    cases leg with
    | key k =>
      cases d with
      | obj kvs =>
        simp only [plain] at h
        simp only [maon] at hm
        simp only [specWalk]
        cases hc : oget kvs k with
        | none => rfl
        | some c => rw [hc] at h hm; exact ih c h hm
      | null => rfl
      | bool b => rfl
      | num n => rfl
      | str s => rfl
      | arr l => rfl
    | idx i =>
      cases i with
      | last => cases d <;> simp [plain] at h
      | lastMinus k => cases d <;> simp [plain] at h
      | n i =>
        cases d with
        | arr l =>
          simp only [plain] at h
          simp only [maon] at hm
          rw [specWalk_idx_arr]
          cases hc : l[i]? with
          | none => rfl
          | some c => rw [hc] at h hm; exact ih c h hm
        | null => simp [plain] at h
        | bool b => simp [plain] at h
        | num n => simp [plain] at h
        | str s => simp [plain] at h
        | obj kvs => simp [plain] at h

theorem lookup_eq_spec (p : List Leg) (d : Json) (hl : hasLast p = false) (h : plain p d = true) :
    lookup p d = specWalk p d := by
  cases p with
  | nil => cases d <;> rfl
  | cons leg rest =>
    cases d with
    | null =>
      cases leg with
      | key k => rfl
      | idx i => cases i <;> simp [plain] at h
    | bool b =>
      cases leg with
      | key k => simp [lookup, hl, specWalk]
      | idx i => cases i <;> simp [plain] at h
    | num n =>
      cases leg with
      | key k => simp [lookup, hl, specWalk]
      | idx i => cases i <;> simp [plain] at h
    | str s =>
      cases leg with
      | key k => simp [lookup, hl, specWalk]
      | idx i => cases i <;> simp [plain] at h
    | arr l =>
      simp only [lookup, hl, Bool.false_eq_true, if_false]
      by_cases hm : maon (leg :: rest) (.arr l) = true
      · simp [hm, maon_spec_missing _ _ h hm]
      · simp [hm, walk_eq_spec _ _ h]
    | obj kvs =>
      simp only [lookup, hl, Bool.false_eq_true, if_false]
      by_cases hm : maon (leg :: rest) (.obj kvs) = true
      · simp [hm, maon_spec_missing _ _ h hm]
      · simp [hm, walk_eq_spec _ _ h]

def isCrash : LRes → Bool
  | .crash => true
  | _ => false

def isFound : LRes → Option Json
  | .found j => some j
  | _ => none

end Gms.JsonPath

/-! ## Property theorems -/
namespace Gms.C32
open Gms.JsonQuote

set_option maxRecDepth 100000 in
/-- The escape table of `Quote` is the model's `quoteEscape`, entry by entry (256 entries dumped from
the compiled package on this run). -/
theorem facts_quoteEscape :
    Gms.Generated.C32.quoteEscape =
      (List.range 256).map (fun b => (quoteEscape (UInt8.ofNat b)).map (·.toNat)) := by
  decide

set_option maxRecDepth 100000 in
/-- The escape switch and guards of `Unquote`, the loop conditions of `Quote`, the decision
structure of walkPathAndUpdate / updateObject / updateArray / updateObjectTreatAsArray / parseIndex
and the key order of `sortKeys` are the ones the models transliterate. -/
theorem facts_match :
    Gms.Generated.C32.unquoteSwitch = Expected.unquoteSwitch
    ∧ Gms.Generated.C32.unquoteConds = Expected.unquoteConds
    ∧ Gms.Generated.C32.quoteConds = Expected.quoteConds
    ∧ Gms.Generated.C32.shape_walkPathAndUpdate = Expected.shape_walkPathAndUpdate
    ∧ Gms.Generated.C32.shape_updateObject = Expected.shape_updateObject
    ∧ Gms.Generated.C32.shape_updateArray = Expected.shape_updateArray
    ∧ Gms.Generated.C32.shape_updateObjectTreatAsArray = Expected.shape_updateObjectTreatAsArray
    ∧ Gms.Generated.C32.shape_parseIndex = Expected.shape_parseIndex
    ∧ Gms.Generated.C32.sortKeysLess = Expected.sortKeysLess
    ∧ Gms.Generated.C32.shape_printNumber = Expected.shape_printNumber
    ∧ Gms.Generated.C32.shape_convertNumber = Expected.shape_convertNumber := by
  decide

/-- **Quote/Unquote round trip, for every byte string**: `Unquote(Quote(s))` succeeds and returns
`s` with every ill-formed UTF-8 byte replaced by U+FFFD (Impl model and Spec alike). -/
theorem unquote_quote_general (st : Bool) (s : Bytes) :
    unquoteWith st (quote s) = .ok (sanitize s) := by
  unfold unquoteWith quote
  have h34 : (34 : UInt8) ≠ 92 := by decide
  simp only [List.cons_append, List.nil_append]
  rw [unescape_plain st 34 _ h34, unescape_quoteAux st s 0 [34] (skip_zero s)]
  rw [unescape_plain st 34 [] h34]
  simp only [unescape, Res.cons, Res.app]
  rw [stripQuotes_wrap]
  rfl

/-- **JSON_UNQUOTE(JSON_QUOTE(s)) = s** for every well-formed UTF-8 string. -/
theorem unquote_quote (s : Bytes) (h : validUtf8 s = true) : unquote (quote s) = .ok s := by
  unfold unquote
  rw [unquote_quote_general, sanitize, sanitize_valid s 0 h]

/-- The guard is necessary: an ill-formed byte does not survive (excluded point; the real code
returns EF BF BD for the single byte FF). -/
theorem unquote_quote_illformed : unquote (quote [0xFF]) = .ok [0xEF, 0xBF, 0xBD] := by decide

example : validUtf8 [0x61, 0xC3, 0xA9, 0x22, 0x5C, 0x0A, 0xE2, 0x82, 0xAC, 0xF0, 0x9F, 0x98, 0x80] = true := by decide
example : quote [0x61, 0x22, 0x0A, 0x01] = [34, 0x61, 92, 34, 92, 110, 92, 117, 48, 48, 48, 49, 34] := by decide

/-- The Spec of `Unquote` is total: it never crashes. -/
theorem unquoteSpec_no_crash (s : Bytes) : unquoteSpec s ≠ .crash := by
  unfold unquoteSpec unquoteWith
  have := unescape_strict_no_crash s
  cases h : unescape true s <;> simp_all

/-- Full statement `∀ s, unquote s = unquoteSpec s` is FALSE for the code as it stands (see the
findings below); it holds away from the crashing inputs. -/
theorem unquote_eq_spec_partial (s : Bytes) (h : crashes s = false) : unquote s = unquoteSpec s := by
  unfold unquote unquoteSpec unquoteWith
  suffices hs : unescape false s = unescape true s by rw [hs]
  unfold crashes at h
  simp only [decide_eq_false_iff_not] at h
  exact unescape_eq_strict s h

/-- Findings: the real `Unquote` panics on a `\u` escape followed by exactly three more bytes
(`\u123`: the guard `i+4 > len(s)` is off by one) and on a surrogate code unit (`\ud800`:
`utf8.RuneLen` is -1 and `char[0:size]` panics). Both are reachable as `SELECT JSON_UNQUOTE('…')`. -/
theorem finding_unquote_bad_unicode_escape_panics :
    (∃ s, crashes s = true ∧ unquote s ≠ unquoteSpec s) ∧
    unquote [92, 117, 49, 50, 51] = .crash ∧ unquote [92, 117, 100, 56, 48, 48] = .crash :=
  ⟨⟨[92, 117, 49, 50, 51], by decide, by decide⟩, by decide, by decide⟩

/-! ### Path functions -/
open Gms.JsonPath

/-- **JSON_EXTRACT(JSON_SET(d, p, v), p) = v** wherever the path lands (existing or new member,
existing cell or the cell just past the end, plain indices): JSON_SET succeeds and reports a change,
and the path then resolves to `v` — under the implemented lookup and under MySQL's semantics. -/
theorem extract_set (v : Json) (p : List Leg) (d : Json) (h : lands p d = true) :
    ∃ d', update .set v p d = some (d', true) ∧
      isFound (lookup p d') = some v ∧ isFound (specWalk p d') = some v := by
  obtain ⟨d', hu, hw, hs, hm⟩ := set_then_walk v p d h
  refine ⟨d', hu, ?_, by rw [hs]; rfl⟩
  -- `lookup` = the library walk here: the path has no `last`, and the document is a container
  have hnl : ∀ (p : List Leg) (d : Json), lands p d = true → hasLast p = false := by
    intro p
    induction p with
    | nil => intro _ _; rfl
    | cons leg rest ih =>
      intro d hd
      cases leg with
      | key k =>
        cases d with
        | obj kvs =>
          simp only [lands] at hd
          simp only [hasLast]
          cases hc : oget kvs k with
          | none => rw [hc] at hd; simp at hd; subst hd; rfl
          | some c => rw [hc] at hd; exact ih c hd
        | null => simp [lands] at hd
        | bool b => simp [lands] at hd
        | num n => simp [lands] at hd
        | str s => simp [lands] at hd
        | arr l => simp [lands] at hd
      | idx i =>
        cases i with
        | last => cases d <;> simp [lands] at hd
        | lastMinus k => cases d <;> simp [lands] at hd
        | n i =>
          cases d with
          | arr l =>
            simp only [lands] at hd
            simp only [hasLast]
            cases hc : l[i]? with
            | none => rw [hc] at hd; simp at hd; obtain ⟨_, hr⟩ := hd; subst hr; rfl
            | some c => rw [hc] at hd; exact ih c hd
          | null => simp [lands] at hd
          | bool b => simp [lands] at hd
          | num n => simp [lands] at hd
          | str s => simp [lands] at hd
          | obj kvs => simp [lands] at hd
  have hl := hnl p d h
  cases p with
  | nil => simp only [walk, LRes.found.injEq] at hw; subst hw; cases d' <;> rfl
  | cons leg rest =>
    cases d' with
    | arr l => simp [lookup, hl, hm, hw, isFound]
    | obj kvs => simp [lookup, hl, hm, hw, isFound]
    | null => cases leg <;> simp [walk] at hw
    | bool b => cases leg <;> simp [walk] at hw
    | num n => cases leg <;> simp [walk] at hw
    | str s => cases leg <;> simp [walk] at hw

/-- Non-vacuity: `JSON_SET('{"a": [1, 2]}', '$.a[2]', 9)` and `$.b` on the same document land. -/
example : lands [.key [97], .idx (.n 2)] (.obj [([97], .arr [.num 1, .num 2])]) = true ∧
    lands [.key [98]] (.obj [([97], .arr [.num 1, .num 2])]) = true := by decide

/-- **JSON_ARRAY_APPEND adds exactly one element**: when it reports a change and the path resolved
to `x` before, it resolves afterwards to `x` with the value appended (`x` wrapped into a
two-element array when it is not an array). -/
theorem arrayAppend_adds_one (v : Json) (p : List Leg) (d d' x : Json)
    (hu : update .arrayAppend v p d = some (d', true)) (hw : walk p d = .found x) :
    walk p d' = .found (appendEnd v x) ∧
      (∀ l, x = .arr l → appendEnd v x = .arr (l ++ [v])) :=
  ⟨append_then_walk v p d d' x hu hw, by intro l hl; subst hl; rfl⟩

/-- **JSON_REMOVE of a member makes the path unresolvable** (one level; deeper paths are validated
on the real code by the oracle, not proved). -/
theorem remove_member_then_missing (v : Json) (kvs : List (JsonPath.Bytes × Json)) (k : JsonPath.Bytes) :
    ∃ d' c, update .remove v [.key k] (.obj kvs) = some (d', c) ∧
      isFound (walk [.key k] d') = none ∧ isFound (specWalk [.key k] d') = none := by
  cases hc : oget kvs k with
  | none => exact ⟨.obj kvs, false, by simp [update, hc], by simp [walk, hc, isFound], by simp [specWalk, hc, isFound]⟩
  | some c =>
    exact ⟨.obj (odel kvs k), true, by simp [update, hc], by simp [walk, oget_odel_same, isFound],
      by simp [specWalk, oget_odel_same, isFound]⟩

/-- Full statement `∀ p d, lookup p d = specWalk p d` (the implemented JSON_EXTRACT agrees with
MySQL's path semantics) is FALSE for the code as it stands; it holds on paths without `last` whose
index legs are plain numbers applied to arrays. -/
theorem lookup_eq_spec_partial (p : List Leg) (d : Json) (hl : hasLast p = false)
    (h : plain p d = true) : lookup p d = specWalk p d :=
  lookup_eq_spec p d hl h

/-- Finding: `JSON_EXTRACT('{"c": null}', '$.c[1]')` panics (nil pointer dereference in the
jsonpath library: an index applied to a JSON null inside the document). -/
theorem finding_extract_index_into_null_panics :
    isCrash (lookup [.key [99], .idx (.n 1)] (.obj [([99], .null)])) = true ∧
    isCrash (specWalk [.key [99], .idx (.n 1)] (.obj [([99], .null)])) = false := by decide

/-- Finding: `JSON_EXTRACT(JSON_SET('5', '$[0]', 7), '$[0]')` is NULL — an index applied to a
non-array is never resolved by the implemented lookup (MySQL: `[0]` / `[last]` denote the value). -/
theorem finding_extract_index_on_non_array :
    (∃ d', update .set (.num 7) [.idx (.n 0)] (.num 5) = some (d', true) ∧
      isFound (lookup [.idx (.n 0)] d') = none ∧ isFound (specWalk [.idx (.n 0)] d') = some (.num 7)) :=
  ⟨.num 7, rfl, rfl, rfl⟩

/-- Finding: `JSON_EXTRACT('[1, 2]', '$[last]')` is an error (`last` is understood by the mutation
functions but not by the lookup). -/
theorem finding_extract_last_index_unsupported :
    (match lookup [.idx .last] (.arr [.num 1, .num 2]) with | .err => true | _ => false) = true ∧
    isFound (specWalk [.idx .last] (.arr [.num 1, .num 2])) = some (.num 2) := ⟨rfl, rfl⟩

/-! ### JSON numbers: literal → held number → printed text → held number -/

open Gms.JsonNum in
/-- **Number round trip.** For every number literal with an integral value (any magnitude, plain digits
or with `.`/`e`/`E`): the number the document holds (`convertJsonNumbers`) is printed
(`writeMarshalledValue`: `FormatInt` when the double fits int64, else the shortest digits) as a text
that is held, when parsed again, as a number of exactly the same value — away from the listed
class `big_float_reparsed_as_integer`.

The full statement `∀ l, (reparse (convert l)).val = (convert l).val` is FALSE on the unchanged code:
`finding_big_float_reparsed_as_integer`. -/
theorem number_roundtrip_partial (l : Lit) (h : bigFloatReparsedAsInteger (convert l) = false) :
    (reparse (convert l)).val = (convert l).val :=
  reparse_val_partial (convert l) (convert_wf l) h

open Gms.JsonNum in
/-- Integer-typed numbers (int64 / uint64) always round trip exactly, and so does every double inside
the int64 range (`FormatInt` prints its exact value): the defect class needs a double beyond it. -/
theorem number_roundtrip_in_range (n : Num) (hw : n.wf)
    (h : ∀ neg mag, n = .f64 neg mag → fitsI64 (signed neg mag) = true) :
    (reparse n).val = n.val := by
  apply reparse_val_partial n hw
  cases n with
  | i64 v => rfl
  | u64 v => rfl
  | f64 neg mag =>
    have hf := h neg mag rfl
    unfold bigFloatReparsedAsInteger
    dsimp only
    have he : signed neg mag = toInt64 (signed neg mag) := by unfold toInt64; rw [if_pos hf]
    rw [decide_eq_false (fun hne => hne he)]
    simp only [Bool.false_and]

open Gms.JsonNum in
/-- A double beyond the int64 range is printed by the `FormatFloat` branch, with digits that parse
back to the same double (never through `FormatInt(int64(val))`, whose operand is -2^63 there). -/
theorem big_float_printed_shortest (neg : Bool) (mag : Nat) (hw : roundF64 mag = mag)
    (h : fitsI64 (signed neg mag) = false) :
    printNum (.f64 neg mag) = (neg, shortest mag) ∧ roundF64 (shortest mag) = mag := by
  refine ⟨?_, shortest_rt hw⟩
  unfold printNum
  dsimp only
  have hne : signed neg mag ≠ toInt64 (signed neg mag) := by
    intro he
    unfold toInt64 at he
    rw [h] at he
    simp only [Bool.false_eq_true, if_false] at he
    rw [he] at h; revert h; decide
  rw [if_neg hne]

open Gms.JsonNum in
/-- Finding (unchanged code): the double 2^63 (`9223372036854775808.0`) prints as `9223372036854776000`,
which is held as the uint64 9223372036854776000 — a different number. -/
theorem finding_big_float_reparsed_as_integer :
    ∃ l : Lit, (reparse (convert l)).val ≠ (convert l).val :=
  ⟨⟨false, 9223372036854775808, 0, true⟩, by decide⟩

open Gms.JsonNum in
example : convert ⟨false, 1, 19, true⟩ = .f64 false (10 ^ 19)
    ∧ bigFloatReparsedAsInteger (convert ⟨false, 1, 19, true⟩) = false
    ∧ printNum (.f64 false (10 ^ 19)) = (false, 10 ^ 19)
    ∧ reparse (.f64 false (10 ^ 19)) = .u64 (10 ^ 19) := by decide
open Gms.JsonNum in
example : bigFloatReparsedAsInteger (convert ⟨true, 602214076, 15, true⟩) = false
    ∧ fitsI64 (signed true (roundF64 (602214076 * 10 ^ 15))) = false
    ∧ convert ⟨false, 18446744073709551616, 0, false⟩ = .f64 false (2 ^ 64)
    ∧ convert ⟨false, 18446744073709551615, 0, false⟩ = .u64 (2 ^ 64 - 1)
    ∧ printNum (.f64 true 0) = (false, 0) := by decide

end Gms.C32
