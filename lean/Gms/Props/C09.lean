/-
C09 — Result values conform to the result schema.

Model: Gms/Model/ResultType.lean (over the shared query syntax Gms/Model/Sql.lean and the
reference semantics Gms/Model/Rel.lean). Facts regenerated from /repo: Gms/Generated/C09.lean.

* `valid_int_iff`, `valid_widen`, `facts_int_ranges`: the integer types accept exactly the modelled
  ranges (the ranges are re-probed on the compiled types on every run)
* `nullE_sound`: for ALL expressions of the integer fragment and all rows, a NULL value implies the
  engine's `IsNullable` (as modelled by `nullE`) — the expression-level inference is sound
* `project_filter_table_sound`: hence a one-block SELECT … FROM t WHERE … never shows NULL in a
  column flagged NOT NULL
* `nullQ_engine_eq_sound_partial`: without outer joins and SUM/MIN/MAX the engine's flags are the
  sound ones; `finding_outer_join_notnull`, `finding_aggregate_notnull`: with them they are not
* text generalisation (Gms/Model/ConvType.lean): `covers_iff` (the longest values decide),
  `generalize_covers_partial` (CASE / IF / IFNULL / set-operation columns over two CHAR/VARCHAR or two TEXT
  operands of ANY character sets and lengths are declared with a type that holds every operand value),
  `finding_generalize_char_vs_text`, `byte_width_generalisation_unsound`
* conversions: `nullConv_sound_partial` (a CAST / CONVERT / implicit set-operation conversion yields NULL only
  if `Convert.IsNullable` says so — outside the two listed classes), `cast_frag_sound` (over every expression
  of the fragment), `convAlways_needed` (no target can be dropped from the always-nullable list),
  `setopFlag_sound_partial`, `finding_convert_time_notnull`, `finding_convert_blob_numeric_notnull`,
  `finding_setop_conversion_scope_notnull`
-/
import Gms.Model.ResultType
import Gms.Model.ConvType
import Gms.Lemmas.Rel
import Gms.Generated.C09

namespace Gms.C09
open Gms.Sql Gms.Rel Gms.ResultType Gms.ConvType

/-! ## Types -/

theorem valid_int_iff (b : Nat) (u : Bool) (i : Int) :
    valid (.int b u) (.int i) = true ↔ intLo b u ≤ i ∧ i ≤ intHi b u := by
  simp [valid, inIntRange]

theorem valid_null (t : RTy) : valid t .null = true := by cases t <;> rfl

/-- A wider integer type of the same signedness accepts everything the narrower one accepts. -/
theorem valid_widen (b b' : Nat) (u : Bool) (i : Int) (hb : 1 ≤ b) (h : b ≤ b')
    (hv : valid (.int b u) (.int i) = true) : valid (.int b' u) (.int i) = true := by
  rw [valid_int_iff] at hv ⊢
  have n1 : 2 ^ b ≤ 2 ^ b' := Nat.pow_le_pow_right (by omega) h
  have n2 : 2 ^ (b - 1) ≤ 2 ^ (b' - 1) := Nat.pow_le_pow_right (by omega) (by omega)
  have h1 : (2 : Int) ^ b ≤ (2 : Int) ^ b' := by exact_mod_cast n1
  have h2 : (2 : Int) ^ (b - 1) ≤ (2 : Int) ^ (b' - 1) := by exact_mod_cast n2
  cases u <;> simp only [intLo, intHi, Bool.false_eq_true, if_false, if_true] at hv ⊢ <;> omega

example : valid (.int 8 false) (.int 127) = true ∧ valid (.int 8 false) (.int 128) = false ∧
    valid (.int 8 true) (.int (-1)) = false ∧ valid (.int 64 true) (.int 18446744073709551615) = true ∧
    valid (.decimal 3 1) (.dec 999 1) = true ∧ valid (.decimal 3 1) (.dec 1000 1) = false ∧
    valid (.decimal 3 1) (.dec 999 2) = false ∧ valid (.char 3) (.str 3 6) = true ∧
    valid (.char 3) (.str 4 4) = false := by decide

open Gms.Generated.C09 in
/-- The ranges the compiled integer types accept (probed at run time) are the modelled ones; the
text types' byte limits and the DECIMAL limits are the documented ones; BOOLEAN is TINYINT(1). -/
theorem facts_int_ranges :
    intRanges.length = 10 ∧
    (∀ r ∈ intRanges, r.2.2.1 = intLo r.1 (r.2.1 == 1) ∧ r.2.2.2 = intHi r.1 (r.2.1 == 1)) ∧
    textMaxBytes = [("tinytext", 255), ("text", 65535), ("mediumtext", 16777215), ("longtext", 4294967295)] ∧
    decimalMaxPrecision = 65 ∧ decimalMaxScale = 30 ∧ booleanType = "tinyint(1)" := by decide

/-! ## Expression-level nullability is sound -/

/-- The fragment: integer / NULL literals, columns, the operators of M1 except DIV, % (NULL on a
zero divisor although both operands are NOT NULL — they are reported nullable by `Div/Mod`
themselves, not by the operand rule modelled here) and scalar subqueries (flag always set). -/
def frag : Expr → Bool
  | .lit (.str _) => false
  | .lit _ => true
  | .col _ _ => true
  | .neg e => frag e
  | .arith op a b => (op == .add || op == .sub || op == .mul) && frag a && frag b
  | .cmp _ a b => frag a && frag b
  | .and a b => frag a && frag b
  | .or a b => frag a && frag b
  | .xor a b => frag a && frag b
  | .not e => frag e
  | .isNull _ => true
  | .isTruth _ _ => true
  | .inList _ _ => true
  | .between e lo hi => frag e && frag lo && frag hi
  | .ite _ a b => frag a && frag b
  | .coalesce a b => frag a && frag b
  | .exists _ => true
  | .inSub _ _ => true
  | .scalar _ => false

def IntVal (v : Value) : Prop := v = .null ∨ ∃ i, v = .int i

/-- The rows in scope hold integers or NULL, and NULL only where the schema flags allow it. -/
def EnvOk (sch : List Flags) (env : Env) : Prop :=
  ∀ d i, IntVal (lookup env d i) ∧ (lookup env d i = .null → colFlag sch d i = true)

theorem toValue_intVal (x : Tri) : IntVal x.toValue := by
  cases x <;> simp [Tri.toValue, IntVal]

theorem toValue_null (x : Tri) : x.toValue = .null ↔ x = .u := by
  cases x <;> simp [Tri.toValue]

theorem ofBool_ne_u (b : Bool) : Tri.ofBool b ≠ .u := by cases b <;> simp [Tri.ofBool]

theorem cmpTri_u (op : CmpOp) (a b : Value) (ha : IntVal a) (hb : IntVal b)
    (h : cmpTri op a b = .u) : op ≠ .nseq ∧ (a = .null ∨ b = .null) := by
  rcases ha with rfl | ⟨i, rfl⟩ <;> rcases hb with rfl | ⟨j, rfl⟩ <;> cases op <;>
    simp_all [cmpTri, Value.cmp?, Tri.ofBool] <;> (split at h <;> simp_all)

theorem and_u (a b : Tri) (h : Tri.and a b = .u) : a = .u ∨ b = .u := by
  cases a <;> cases b <;> simp_all [Tri.and]
theorem or_u (a b : Tri) (h : Tri.or a b = .u) : a = .u ∨ b = .u := by
  cases a <;> cases b <;> simp_all [Tri.or]
theorem xor_u (a b : Tri) (h : Tri.xor a b = .u) : a = .u ∨ b = .u := by
  cases a <;> cases b <;> simp_all [Tri.xor]
theorem not_u (a : Tri) (h : Tri.not a = .u) : a = .u := by
  cases a <;> simp_all [Tri.not]

theorem truth_u (v : Value) (hv : IntVal v) (h : v.truth = .u) : v = .null := by
  rcases hv with rfl | ⟨i, rfl⟩
  · rfl
  · simp only [Value.truth] at h; split at h <;> simp at h

/-- **Soundness of the engine's expression nullability** (as modelled): for every expression of
the fragment, every database and every stack of rows that respects the schema flags, the value
is an integer or NULL, and it is NULL only if `nullE` says the expression is nullable. -/
theorem nullE_sound (db : Db) (sch : List Flags) (env : Env) (henv : EnvOk sch env) :
    ∀ (e : Expr), frag e = true →
      IntVal (evalE db env e) ∧ (evalE db env e = .null → nullE sch e = true) := by
  intro e
  induction e using Expr.rec (motive_2 := fun _ => True) (motive_3 := fun _ => True) with
  | lit v =>
    intro hf
    cases v with
    | null => simp [evalE, IntVal, nullE, Value.isNull]
    | int i => simp [evalE, IntVal, nullE]
    | str s => simp [frag] at hf
  | col d i => intro _; simpa [evalE, nullE] using henv d i
  | neg e ih =>
    intro hf
    have ⟨hi, hn⟩ := ih (by simpa [frag] using hf)
    simp only [evalE, nullE]
    rcases hi with h | ⟨i, h⟩
    · rw [h]; exact ⟨Or.inl rfl, fun _ => hn h⟩
    · rw [h]; exact ⟨Or.inr ⟨-i, rfl⟩, by simp [negate]⟩
  | arith op a b iha ihb =>
    intro hf
    simp only [frag, Bool.and_eq_true] at hf
    have ⟨hia, hna⟩ := iha hf.1.2
    have ⟨hib, hnb⟩ := ihb hf.2
    simp only [evalE, nullE, Bool.or_eq_true]
    rcases hia with ha | ⟨i, ha⟩
    · rw [ha]; exact ⟨Or.inl (by cases evalE db env b <;> rfl), fun _ => Or.inl (hna ha)⟩
    · rcases hib with hb | ⟨j, hb⟩
      · rw [ha, hb]; exact ⟨Or.inl rfl, fun _ => Or.inr (hnb hb)⟩
      · rw [ha, hb]
        have hop := hf.1.1
        cases op <;> simp_all [arith, IntVal]
  | cmp op a b iha ihb =>
    intro hf
    simp only [frag, Bool.and_eq_true] at hf
    have ⟨hia, hna⟩ := iha hf.1
    have ⟨hib, hnb⟩ := ihb hf.2
    simp only [evalE, nullE]
    refine ⟨toValue_intVal _, fun h => ?_⟩
    have ⟨hop, hor⟩ := cmpTri_u op _ _ hia hib ((toValue_null _).1 h)
    simp only [hop, if_false, Bool.or_eq_true]
    rcases hor with h | h
    · exact Or.inl (hna h)
    · exact Or.inr (hnb h)
  | and a b iha ihb =>
    intro hf
    simp only [frag, Bool.and_eq_true] at hf
    have ⟨hia, hna⟩ := iha hf.1
    have ⟨hib, hnb⟩ := ihb hf.2
    simp only [evalE, nullE, Bool.or_eq_true]
    refine ⟨toValue_intVal _, fun h => ?_⟩
    rcases and_u _ _ ((toValue_null _).1 h) with h | h
    · exact Or.inl (hna (truth_u _ hia h))
    · exact Or.inr (hnb (truth_u _ hib h))
  | or a b iha ihb =>
    intro hf
    simp only [frag, Bool.and_eq_true] at hf
    have ⟨hia, hna⟩ := iha hf.1
    have ⟨hib, hnb⟩ := ihb hf.2
    simp only [evalE, nullE, Bool.or_eq_true]
    refine ⟨toValue_intVal _, fun h => ?_⟩
    rcases or_u _ _ ((toValue_null _).1 h) with h | h
    · exact Or.inl (hna (truth_u _ hia h))
    · exact Or.inr (hnb (truth_u _ hib h))
  | xor a b iha ihb =>
    intro hf
    simp only [frag, Bool.and_eq_true] at hf
    have ⟨hia, hna⟩ := iha hf.1
    have ⟨hib, hnb⟩ := ihb hf.2
    simp only [evalE, nullE, Bool.or_eq_true]
    refine ⟨toValue_intVal _, fun h => ?_⟩
    rcases xor_u _ _ ((toValue_null _).1 h) with h | h
    · exact Or.inl (hna (truth_u _ hia h))
    · exact Or.inr (hnb (truth_u _ hib h))
  | not e ih =>
    intro hf
    have ⟨hi, hn⟩ := ih (by simpa [frag] using hf)
    simp only [evalE, nullE]
    exact ⟨toValue_intVal _, fun h => hn (truth_u _ hi (not_u _ ((toValue_null _).1 h)))⟩
  | isNull e _ =>
    intro _
    simp only [evalE, nullE]
    exact ⟨toValue_intVal _, fun h => absurd ((toValue_null _).1 h) (ofBool_ne_u _)⟩
  | isTruth w e _ =>
    intro _
    simp only [evalE, nullE]
    exact ⟨toValue_intVal _, fun h => absurd ((toValue_null _).1 h) (ofBool_ne_u _)⟩
  | inList e es _ _ => intro _; simp only [evalE, nullE]; exact ⟨toValue_intVal _, fun _ => by first | rfl | trivial⟩
  | between e lo hi ihe ihl ihh =>
    intro hf
    simp only [frag, Bool.and_eq_true] at hf
    have ⟨hie, hne⟩ := ihe hf.1.1
    have ⟨hil, hnl⟩ := ihl hf.1.2
    have ⟨hih, hnh⟩ := ihh hf.2
    simp only [evalE, nullE, Bool.or_eq_true]
    refine ⟨toValue_intVal _, fun h => ?_⟩
    rcases and_u _ _ ((toValue_null _).1 h) with h | h
    · rcases (cmpTri_u _ _ _ hie hil h).2 with h | h
      · exact Or.inl (Or.inl (hne h))
      · exact Or.inl (Or.inr (hnl h))
    · rcases (cmpTri_u _ _ _ hie hih h).2 with h | h
      · exact Or.inl (Or.inl (hne h))
      · exact Or.inr (hnh h)
  | ite c a b _ iha ihb =>
    intro hf
    simp only [frag, Bool.and_eq_true] at hf
    have ⟨hia, hna⟩ := iha hf.1
    have ⟨hib, hnb⟩ := ihb hf.2
    simp only [evalE, nullE, Bool.or_eq_true]
    split
    · exact ⟨hia, fun h => Or.inl (hna h)⟩
    · exact ⟨hib, fun h => Or.inr (hnb h)⟩
  | coalesce a b iha ihb =>
    intro hf
    simp only [frag, Bool.and_eq_true] at hf
    have ⟨hia, hna⟩ := iha hf.1
    have ⟨hib, hnb⟩ := ihb hf.2
    simp only [evalE, nullE, Bool.and_eq_true]
    split
    · rename_i hnull
      have : evalE db env a = .null := by
        cases hv : evalE db env a <;> simp_all [Value.isNull]
      exact ⟨hib, fun h => ⟨hna this, hnb h⟩⟩
    · rename_i hnull
      refine ⟨hia, fun h => ?_⟩
      rw [h] at hnull
      simp [Value.isNull] at hnull
  | «exists» q _ =>
    intro _
    simp only [evalE, nullE]
    exact ⟨toValue_intVal _, fun h => absurd ((toValue_null _).1 h) (ofBool_ne_u _)⟩
  | inSub e q _ _ => intro _; simp only [evalE, nullE]; exact ⟨toValue_intVal _, fun _ => by first | rfl | trivial⟩
  | scalar q _ => intro hf; simp [frag] at hf
  | nil => trivial
  | cons _ _ _ _ => trivial
  | table _ => trivial
  | filter _ _ _ _ => trivial
  | project _ _ _ _ => trivial
  | join _ _ _ _ _ _ _ => trivial
  | group _ _ _ _ _ _ _ => trivial
  | distinct _ _ => trivial
  | setop _ _ _ _ _ _ => trivial
  | orderBy _ _ _ _ _ => trivial
  | limit _ _ _ _ => trivial


/-- Non-vacuity: `c0 + c1` over a row (1, NULL) with flags (NOT NULL, NULL) is NULL and flagged. -/
example : evalE [] [[.int 1, .null]] (.arith .add (.col 0 0) (.col 0 1)) = .null ∧
    nullE [[false, true]] (.arith .add (.col 0 0) (.col 0 1)) = true ∧
    nullE [[false, true]] (.coalesce (.col 0 1) (.col 0 0)) = false ∧
    evalE [] [[.int 1, .null]] (.coalesce (.col 0 1) (.col 0 0)) = .int 1 := by decide

/-! ## Query level -/

/-- No outer join and no SUM/MIN/MAX anywhere in the relational tree. -/
def Plain : Query → Bool
  | .table _ => true
  | .filter _ q => Plain q
  | .project _ q => Plain q
  | .join k _ l r => k == .inner && Plain l && Plain r
  | .group _ fns _ q => fns.all (fun f => f == .countStar || f == .count || f == .countDistinct) && Plain q
  | .distinct q => Plain q
  | .setop _ _ l r => Plain l && Plain r
  | .orderBy _ _ q => Plain q
  | .limit _ _ q => Plain q

theorem zipAggs_plain (fa fa' nk : Bool) (sch : List Flags) : ∀ (fns : List AggFn) (args : List Expr),
    fns.all (fun f => f == .countStar || f == .count || f == .countDistinct) = true →
    zipAggs fa nk sch fns args = zipAggs fa' nk sch fns args
  | [], _, _ => by simp [zipAggs]
  | _ :: _, [], _ => by simp [zipAggs]
  | f :: fs, a :: as, h => by
    simp only [List.all_cons, Bool.and_eq_true] at h
    simp only [zipAggs]
    rw [zipAggs_plain fa fa' nk sch fs as h.2]
    cases f <;> simp_all [aggNull]

/- Full statement (FALSE on the unchanged tree): the engine's flags are sound for every query —
   `finding_outer_join_notnull`, `finding_aggregate_notnull` are counterexamples. -/

/-- **Guarded**: without outer joins and SUM/MIN/MAX the flags the engine reports (`nullQ false
false`) are exactly those of the sound inference (`nullQ true true`). -/
theorem nullQ_engine_eq_sound_partial (tabs : List Flags) : ∀ (q : Query) (outer : List Flags),
    Plain q = true → nullQ false false tabs outer q = nullQ true true tabs outer q := by
  intro q
  induction q using Query.rec (motive_1 := fun _ => True) (motive_3 := fun _ => True) with
  | table n => intro _ _; rfl
  | filter p q _ ih => intro outer h; simpa [nullQ] using ih outer (by simpa [Plain] using h)
  | project es q _ ih =>
    intro outer h
    simp only [nullQ]
    rw [ih outer (by simpa [Plain] using h)]
  | join k on l r _ ihl ihr =>
    intro outer h
    simp only [Plain, Bool.and_eq_true, beq_iff_eq] at h
    simp only [nullQ, h.1.1]
    rw [ihl outer h.1.2, ihr outer h.2]
  | group ks fns args q _ _ ih =>
    intro outer h
    simp only [Plain, Bool.and_eq_true] at h
    simp only [nullQ]
    rw [ih outer h.2, zipAggs_plain false true _ _ fns args h.1]
  | distinct q ih => intro outer h; simpa [nullQ] using ih outer (by simpa [Plain] using h)
  | setop op all l r ihl ihr =>
    intro outer h
    simp only [Plain, Bool.and_eq_true] at h
    simp only [nullQ]
    rw [ihl outer h.1, ihr outer h.2]
  | orderBy ks desc q _ ih => intro outer h; simpa [nullQ] using ih outer (by simpa [Plain] using h)
  | limit n off q ih => intro outer h; simpa [nullQ] using ih outer (by simpa [Plain] using h)
  | nil => trivial
  | cons _ _ _ _ => trivial
  | lit _ => trivial
  | col _ _ => trivial
  | neg _ _ => trivial
  | arith _ _ _ _ _ => trivial
  | cmp _ _ _ _ _ => trivial
  | and _ _ _ _ => trivial
  | or _ _ _ _ => trivial
  | xor _ _ _ _ => trivial
  | not _ _ => trivial
  | isNull _ _ => trivial
  | isTruth _ _ _ => trivial
  | inList _ _ _ _ => trivial
  | between _ _ _ _ _ _ => trivial
  | ite _ _ _ _ _ _ => trivial
  | coalesce _ _ _ _ => trivial
  | «exists» _ _ => trivial
  | inSub _ _ _ _ => trivial
  | scalar _ _ => trivial

/-- A table whose rows hold integers/NULLs and respect its NOT NULL flags. -/
def TableOk (flags : Flags) (rows : List Row) : Prop :=
  ∀ r ∈ rows, ∀ i, IntVal (r.getD i .null) ∧ (r.getD i .null = .null → flags.getD i true = true)

theorem evalEs_getD (db : Db) (env : Env) : ∀ (es : List Expr) (j : Nat),
    (evalEs db env es).getD j .null = match es[j]? with
      | some e => evalE db env e
      | none => .null
  | [], j => by simp [evalEs]
  | e :: es, 0 => by simp [evalEs]
  | e :: es, j + 1 => by simpa [evalEs] using evalEs_getD db env es j

/-- **One-block statements are sound**: for `SELECT es FROM t WHERE p` over a table that respects
its flags, with every select item in the fragment, no result row holds NULL in a column the
engine flags NOT NULL — for all data, predicates and select lists. -/
theorem project_filter_table_sound (db : Db) (tabs : List Flags) (n : Nat) (p : Expr) (es : List Expr)
    (t : Table) (ht : db[n]? = some t) (hok : TableOk (tabs.getD n []) t.rows)
    (hes : ∀ e ∈ es, frag e = true) :
    ∀ row ∈ eval db (.project es (.filter p (.table n))), ∀ j,
      row.getD j .null = .null → j < es.length →
      (nullQ false false tabs [] (.project es (.filter p (.table n)))).getD j true = true := by
  intro row hrow j hnull hj
  simp only [eval, evalQ, ht, List.mem_map, List.mem_filter] at hrow
  obtain ⟨r, ⟨hr, _⟩, rfl⟩ := hrow
  have henv : EnvOk [tabs.getD n []] [r] := by
    intro d i
    cases d with
    | zero => simpa [lookup, colFlag] using hok r hr i
    | succ d => simp [lookup, colFlag, IntVal]
  rw [evalEs_getD] at hnull
  have hlt : es[j]? = some es[j] := List.getElem?_eq_getElem hj
  rw [hlt] at hnull
  have := (nullE_sound db [tabs.getD n []] [r] henv es[j] (hes _ (List.getElem_mem hj))).2 hnull
  simp only [nullQ, List.getD_eq_getElem?_getD, List.getElem?_map, hlt, Option.map_some, Option.getD_some]
  exact this

/-! ## Findings -/

def dbW : Db := [⟨1, [[.int 1]]⟩, ⟨1, [[.int 2]]⟩, ⟨1, []⟩]
def tabsW : List Flags := [[false], [false], [false]]

/-- `SELECT a.c0, b.c0 FROM t0 a LEFT JOIN t1 b ON a.c0 = b.c0`: the padded column is reported
NOT NULL (the projection copies the base column's flag). -/
theorem finding_outer_join_notnull :
    ∃ q, badCols (nullQ false false tabsW [] q) (eval dbW q) ≠ [] ∧ causeOf tabsW q 1 = .outerJoin ∧
      badCols (nullQ true true tabsW [] q) (eval dbW q) = [] :=
  ⟨.join .left (.cmp .eq (.col 0 0) (.col 0 1)) (.table 0) (.table 1), by decide⟩

/-- `SELECT MAX(c0) FROM t2` over an empty table: NULL in a column reported NOT NULL
(`Max.IsNullable` is `false`; likewise `Min`, `Sum`). -/
theorem finding_aggregate_notnull :
    ∃ q, badCols (nullQ false false tabsW [] q) (eval dbW q) ≠ [] ∧ causeOf tabsW q 0 = .aggregate ∧
      badCols (nullQ true true tabsW [] q) (eval dbW q) = [] :=
  ⟨.group [] [.max] [.col 0 0] (.table 2), by decide⟩

/-- The value classes of the declared-type findings (each produced by the engine, see
known_findings/C09.jsonl): a negative value under an unsigned type, a decimal with more integer
digits than the precision leaves, a string under DOUBLE. -/
theorem finding_value_classes :
    valid (.int 16 true) (.int (-5)) = false ∧ valueClass (.int 16 true) (.int (-5)) = "u16_negative" ∧
    valid (.decimal 10 2) (.dec 10000000099 2) = false ∧ valueClass (.decimal 10 2) (.dec 10000000099 2) = "decimal_precision" ∧
    valid .double (.str 1 1) = false ∧ valueClass .double (.str 1 1) = "kind_mismatch" := by decide

/-! ## Text generalisation (`types.GeneralizeTypes`, text branch) -/

theorem accepts_antitone (r : TextTy) (s s' : Str) (hc : s'.chars ≤ s.chars) (hb : s'.bytes ≤ s.bytes)
    (h : accepts r s = true) : accepts r s' = true := by
  unfold accepts at *
  split <;> simp_all <;> omega

theorem top_fits (t : TextTy) (w : Nat) (hw : 1 ≤ w) : Fits t w (top t w) := by
  unfold Fits top accepts
  cases ht : t.text <;> simp
  · exact Nat.le_mul_of_pos_right _ hw
  · exact Nat.le_mul_of_pos_right _ hw

theorem top_dominates (t : TextTy) (w : Nat) (s : Str) (h : Fits t w s) :
    s.chars ≤ (top t w).chars ∧ s.bytes ≤ (top t w).bytes := by
  obtain ⟨ha, hcb, hbw⟩ := h
  unfold top accepts at *
  cases ht : t.text <;> simp [ht] at ha ⊢
  · exact ⟨ha, Nat.le_trans hbw (Nat.mul_le_mul_right _ ha)⟩
  · exact ⟨Nat.le_trans hcb ha, ha⟩

/-- **The longest values decide**: `r` accepts the longest value of each operand iff it accepts
every value either operand can hold (characters of at most `wa` / `wb` bytes). -/
theorem covers_iff (r a b : TextTy) (wa wb : Nat) (ha : 1 ≤ wa) (hb : 1 ≤ wb) :
    covers r a b wa wb = true ↔ ∀ s, (Fits a wa s ∨ Fits b wb s) → accepts r s = true := by
  constructor
  · intro h s hs
    simp only [covers, Bool.and_eq_true] at h
    rcases hs with hs | hs
    · have := top_dominates a wa s hs
      exact accepts_antitone r _ s this.1 this.2 h.1
    · have := top_dominates b wb s hs
      exact accepts_antitone r _ s this.1 this.2 h.2
  · intro h
    simp only [covers, Bool.and_eq_true]
    exact ⟨h _ (Or.inl (top_fits a wa ha)), h _ (Or.inr (top_fits b wb hb))⟩

/-- Two CHAR / VARCHAR operands — any lengths, any character sets: the chosen type holds both. -/
theorem generalize_char_char_covers (a b : TextTy) (wa wb : Nat) (ha : a.text = false) (hb : b.text = false) :
    covers (generalizeText a b) a b wa wb = true := by
  unfold covers generalizeText accepts top
  split <;> simp_all <;> omega

/-- The tiers keep their order when divided by the bytes-per-character of any two character sets. -/
theorem tier_table : ∀ ta ∈ tiers, ∀ tb ∈ tiers, ∀ ma ∈ [1, 2, 3, 4], ∀ mb ∈ [1, 2, 3, 4],
    (if ta / ma > tb / mb then ta else tb) ≥ ta ∧ (if ta / ma > tb / mb then ta else tb) ≥ tb := by
  decide

theorem mb_mem (m : Nat) (h1 : 1 ≤ m) (h4 : m ≤ 4) : m ∈ [1, 2, 3, 4] := by
  simp only [List.mem_cons, List.not_mem_nil, or_false]; omega

/-- Two TEXT-family operands of any character sets: the chosen type holds both. -/
theorem generalize_text_text_covers (a b : TextTy) (wa wb : Nat) (ha : a.text = true) (hb : b.text = true)
    (wfa : a.wf = true) (wfb : b.wf = true) : covers (generalizeText a b) a b wa wb = true := by
  simp only [TextTy.wf, ha, hb, if_true, Bool.and_eq_true, decide_eq_true_eq, List.contains_iff_mem,
    beq_iff_eq] at wfa wfb
  obtain ⟨⟨a1, a4⟩, at', ac⟩ := wfa
  obtain ⟨⟨b1, b4⟩, bt, bc⟩ := wfb
  have := tier_table a.bytes at' b.bytes bt a.mb (mb_mem _ a1 a4) b.mb (mb_mem _ b1 b4)
  unfold covers generalizeText accepts top
  rw [ac, bc]
  by_cases hc : a.bytes / a.mb > b.bytes / b.mb <;> simp [hc, ha, hb] at this ⊢ <;> omega

/- Full statement (FALSE on the unchanged tree): `covers (generalizeText a b) a b wa wb` for all
   well-formed text types — `finding_generalize_char_vs_text` is a counterexample. -/

/-- **Guarded**: unless a character-limited and a byte-limited type meet, the declared type of
CASE / IF / IFNULL / a set-operation column over two text operands holds every value of both. -/
theorem generalize_covers_partial (a b : TextTy) (wa wb : Nat) (hreg : MixedFamily a b = false)
    (wfa : a.wf = true) (wfb : b.wf = true) : covers (generalizeText a b) a b wa wb = true := by
  cases ha : a.text <;> cases hb : b.text <;> simp [MixedFamily, ha, hb] at hreg
  · exact generalize_char_char_covers a b wa wb ha hb
  · exact generalize_text_text_covers a b wa wb ha hb wfa wfb

/-- Non-vacuity / the shape of the seeded class: VARCHAR(10) utf8mb4 and VARCHAR(30) latin1 → the
latin1 type (30 characters), which holds both. -/
example : generalizeText ⟨false, 10, 40, 4⟩ ⟨false, 30, 30, 1⟩ = ⟨false, 30, 30, 1⟩ ∧
    covers (generalizeText ⟨false, 10, 40, 4⟩ ⟨false, 30, 30, 1⟩) ⟨false, 10, 40, 4⟩ ⟨false, 30, 30, 1⟩ 1 1 = true ∧
    TextTy.wf ⟨false, 10, 40, 4⟩ = true ∧ TextTy.wf ⟨true, 63, 255, 4⟩ = true := by decide

/-- TINYTEXT (63 characters, 255 bytes in utf8mb4) against VARCHAR(100): `Length()` picks the
VARCHAR, a 200-byte TINYTEXT value does not fit. -/
theorem finding_generalize_char_vs_text :
    ∃ a b s, a.wf = true ∧ b.wf = true ∧ MixedFamily a b = true ∧ Fits a 1 s ∧
      accepts (generalizeText a b) s = false :=
  ⟨⟨true, 63, 255, 4⟩, ⟨false, 100, 400, 4⟩, ⟨200, 200⟩, by decide, by decide, by decide,
    ⟨by decide, by decide, by decide⟩, by decide⟩

/-- Comparing storage widths instead of lengths is unsound *within* the CHAR family as soon as the
character sets differ: VARCHAR(10) utf8mb4 (40 bytes) beats VARCHAR(30) latin1 (30 bytes) and cannot
hold a 30-character value. -/
theorem byte_width_generalisation_unsound :
    ∃ a b s, a.wf = true ∧ b.wf = true ∧ MixedFamily a b = false ∧ Fits b 1 s ∧
      accepts (generalizeBytes a b) s = false ∧ accepts (generalizeText a b) s = true :=
  ⟨⟨false, 10, 40, 4⟩, ⟨false, 30, 30, 1⟩, ⟨30, 30⟩, by decide, by decide, by decide,
    ⟨by decide, by decide, by decide⟩, by decide, by decide⟩

/-! ## Conversions (`expression.Convert`) -/

/- Full statement (FALSE on the unchanged tree): `convOut c s = .null → nullConv c child = true` for
   every target and every input whose NULL-ness the child flag covers —
   `finding_convert_time_notnull`, `finding_convert_blob_numeric_notnull` are counterexamples. -/

/-- **Guarded soundness of `Convert.IsNullable`**: for every target and every class of input value
(whose NULL-ness is covered by the child's flag) outside the two listed classes, the conversion
yields NULL only if it is reported nullable. -/
theorem nullConv_sound_partial (c : Conv) (s : Src) (child : Bool) (hchild : s = .null → child = true)
    (hreg : convRegion c s = .none) (h : convOut c s = .null) : nullConv c child = true := by
  unfold convRegion at hreg
  by_cases hs : s = .null
  · simp [nullConv, hchild hs]
  · simp only [hs, false_or, h, ne_eq, not_true_eq_false, if_false] at hreg
    cases c <;> simp_all [nullConv, convAlways, Conv.numeric]
    -- JSON never yields NULL from a non-NULL input (a value or an error)
    cases s <;> simp_all [convOut] <;> (split at h <;> simp_all)

/-- Non-vacuity: a NOT NULL VARBINARY holding `ff 41` converts to CHAR as NULL — and CHAR is reported
nullable; a valid one does not. -/
example : convOut .char (.bytes [0xff, 0x41] false .junk) = .null ∧ nullConv .char false = true ∧
    convRegion .char (.bytes [0xff, 0x41] false .junk) = .none ∧
    convOut .char (.bytes [0x41, 0xc3, 0xa9] false .junk) = .val := by decide

/-- **No target can be dropped from the always-nullable list** (the class of the seeded change):
each of them turns some non-NULL input into NULL. -/
theorem convAlways_needed : ∀ c, convAlways c = true → ∃ s, s ≠ .null ∧ convOut c s = .null := by
  intro c hc
  cases c <;> simp [convAlways] at hc
  · exact ⟨.text .unenc, by decide, by decide⟩
  · exact ⟨.bytes [0xff] false .junk, by decide, by decide⟩
  · exact ⟨.bytes [0xff] false .junk, by decide, by decide⟩
  · exact ⟨.num false, by decide, by decide⟩
  · exact ⟨.num false, by decide, by decide⟩

/-- Invalid UTF-8 is exactly what makes a conversion to CHAR / NCHAR fail. -/
theorem char_null_iff (s : Src) : convOut .char s = .null ↔
    s = .null ∨ ∃ b blob sh, s = .bytes b blob sh ∧ Utf8.validUtf8 b = false := by
  cases s <;> simp [convOut]

theorem finding_convert_time_notnull :
    ∃ s, s ≠ .null ∧ convOut .time s = .null ∧ nullConv .time false = false ∧ convRegion .time s = .time :=
  ⟨.text .junk, by decide⟩

theorem finding_convert_blob_numeric_notnull :
    ∃ c s, s ≠ .null ∧ convOut c s = .null ∧ nullConv c false = false ∧ convRegion c s = .blobNumeric :=
  ⟨.signed, .bytes [] true .empty, by decide⟩

/-- The class of a value of the integer fragment as `Convert.Eval` sees it (`big` says which
integers are no valid hhmmss). -/
def srcOfValue (big : Int → Bool) : Value → Src
  | .null => .null
  | .int i => .num (big i)
  | .str _ => .text .junk

/-- **CAST over the fragment is sound** (style of `nullE_sound`): for every expression of the
fragment, every target but TIME, all databases and rows respecting the schema flags, `CAST(e AS c)`
is NULL only if `Convert.IsNullable` over the engine's flag of `e` says so. -/
theorem cast_frag_sound (db : Db) (sch : List Flags) (env : Env) (henv : EnvOk sch env) (big : Int → Bool)
    (c : Conv) (hc : c ≠ .time) (e : Expr) (hf : frag e = true)
    (h : convOut c (srcOfValue big (evalE db env e)) = .null) : nullConv c (nullE sch e) = true := by
  have ⟨hi, hn⟩ := nullE_sound db sch env henv e hf
  rcases hi with h0 | ⟨i, hi⟩
  · simp [nullConv, hn h0]
  · rw [hi] at h
    cases c <;> simp_all [srcOfValue, convOut, nullConv, convAlways]

example : convOut .date (srcOfValue (fun _ => false) (evalE [] [[.int 1]] (.col 0 0))) = .null ∧
    nullConv .date (nullE [[false]] (.col 0 0)) = true ∧
    convOut .signed (srcOfValue (fun _ => false) (evalE [] [[.int 1]] (.col 0 0))) = .val := by decide

/-- The flag of a set-operation column is sound for the rows of either side (outside the classes). -/
theorem setopFlag_sound_partial (l r : Fam) (nl nr : Bool) (s : Src) (left : Bool)
    (hflag : s = .null → (if left then nl else nr) = true)
    (hreg : convRegion (setopTarget l r) s = .none) (h : convOut (setopTarget l r) s = .null) :
    setopFlag false l r nl nr = true := by
  have := nullConv_sound_partial (setopTarget l r) s (if left then nl else nr) hflag hreg h
  cases left <;> simp_all [setopFlag]

/-- `SELECT x FROM (SELECT b AS x … UNION SELECT n …) dt` with `b VARBINARY NOT NULL` = `ff 41`,
`n INT NOT NULL`: the set operation converts both sides to CHAR (reported nullable), the enclosing
scope keeps `left.nullable || right.nullable` = NOT NULL, the row holds NULL. -/
theorem finding_setop_conversion_scope_notnull :
    ∃ l r s, s ≠ .null ∧ convOut (setopTarget l r) s = .null ∧ setopScopeFlag false false = false ∧
      setopFlag false l r false false = true :=
  ⟨.other, .sint, .bytes [0xff, 0x41] false .junk, by decide⟩

/-! ## Regenerated facts -/

set_option maxRecDepth 100000 in
open Gms.Generated.C09 in
/-- `IsNullable` of every modelled expression kind is the modelled rule; `JoinNode.Schema` does
make the null-supplying side nullable, but `Project.Schema` derives each column from the
projection expression alone (which is why the flag is lost above an outer join). -/
theorem facts_match :
    isNullableBodies = [
      ("Literal", "{ return lit.Val == nil }"),
      ("GetField", "{ return p.nullable }"),
      ("UnaryExpressionStub", "{ return p.Child.IsNullable(ctx) }"),
      ("BinaryExpressionStub", "{ return p.LeftChild.IsNullable(ctx) || p.RightChild.IsNullable(ctx) }"),
      ("NullSafeEquals", "{ return false }"),
      ("IsNull", "{ return false }"),
      ("IsTrue", "{ return false }"),
      ("InTuple", "{ return true }"),
      ("Between", "{ return b.Val.IsNullable(ctx) || b.Lower.IsNullable(ctx) || b.Upper.IsNullable(ctx) }"),
      ("Case", "{ for _, b := range c.Branches { if b.Value.IsNullable(ctx) { return true } } return c.Else == nil || c.Else.IsNullable(ctx) }"),
      ("Coalesce", "{ for _, arg := range c.args { if arg == nil { continue } if !arg.IsNullable(ctx) { return false } } return true }"),
      ("IfNull", "{ if !f.LeftChild.IsNullable(ctx) { return false } return f.RightChild.IsNullable(ctx) }"),
      ("If", "{ return f.ifTrue.IsNullable(ctx) || f.ifFalse.IsNullable(ctx) }"),
      ("Subquery", "{ return true }"),
      ("Sum", "{ return false }"),
      ("Min", "{ return false }"),
      ("Max", "{ return false }"),
      ("Count", "{ return false }"),
      ("CountDistinct", "{ return false }")] ∧
    joinSchemaCases.take 2 = [
      "j.Op.IsLeftOuter() => return append(j.left.Schema(ctx), makeNullable(j.right.Schema(ctx))...)",
      "j.Op.IsRightOuter() => return append(makeNullable(j.left.Schema(ctx)), j.right.Schema(ctx)...)"] ∧
    projectSchemaFromExpression = true := by decide

set_option maxRecDepth 100000 in
open Gms.Generated.C09 in
/-- `Convert.IsNullable` is the modelled rule: exactly the five modelled targets return `true`, every
other one inherits the child's flag; the 14 `castToType` constants are the modelled ones;
`Convert.Eval` passes NULL through and turns a conversion error into NULL unless the target is JSON. -/
theorem facts_convert :
    (∀ c ∈ Conv.all, convAlways c = convertAlwaysNullable.contains c.goConst) ∧
    (∀ n ∈ convertAlwaysNullable, Conv.all.any (fun c => c.goConst == n) = true) ∧
    convertNullableDefault = "return c.Child.IsNullable(ctx)" ∧ convertNullableCases = 1 ∧
    (∀ c ∈ Conv.all, convertConsts.contains (c.goConst, c.name) = true) ∧ convertConsts.length = 14 ∧
    convertEvalIfs = [
      "err != nil => { return nil, err }",
      "val == nil => { return nil, nil }",
      "err != nil => { if c.castToType == ConvertToJSON { return nil, ErrConvertExpression.Wrap(err, c.String(), c.castToType) } ctx.Warn(1292, \"Incorrect %s value: %v\", c.castToType, val) return nil, nil }"] := by
  decide

set_option maxRecDepth 100000 in
open Gms.Generated.C09 in
/-- The text branch of `GeneralizeTypes` compares `Length()` (= `maxCharLength`), and the compiled
function returns what `generalizeText` returns on every pair of the regenerated table (CHAR / VARCHAR /
TINYTEXT / TEXT … × 5 character sets). -/
theorem facts_generalize :
    generalizeTextBranch = ["sta := a.(sql.StringType)", "stb := b.(sql.StringType)",
      "if sta.Length() > stb.Length() { return a }", "return b"] ∧
    stringTypeLength = "{ return t.maxCharLength }" ∧
    generalizeRuns.length ≥ 500 ∧
    (∀ r ∈ generalizeRuns,
      generalizeText (TextTy.ofTuple r.1) (TextTy.ofTuple r.2.1) = TextTy.ofTuple r.2.2) := by
  decide

set_option maxRecDepth 100000 in
open Gms.Generated.C09 in
/-- The compiled `GetConvertToType` answers as `setopTarget` on representatives of every pair of
families; the flag of a set-operation column is the OR of the sides' flags — of the converted sides in
`SetOp.Schema`, of the unconverted scope columns in `mergeSetOpScopeColumns`. -/
theorem facts_setop_conversion :
    convertToTypeRuns.length ≥ 80 ∧
    (∀ r ∈ convertToTypeRuns,
      (match Fam.ofName r.1, Fam.ofName r.2.1 with
        | some l, some r' => (setopTarget l r').name == r.2.2
        | _, _ => false) = true) ∧
    setopSchemaNullable = "ls[i].Nullable || rs[i].Nullable" ∧
    setopScopeNullable = "left[i].nullable || right[i].nullable" := by
  decide

end Gms.C09
