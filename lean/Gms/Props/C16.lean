/-
C16 — Indexes stay consistent with table data across histories.

Models: `Gms/Model/MemIndex.lean` (partitions, `secondaryIndexStorage` rows = key values ++
location, `deleteRowFromIndexes` renumbering, `partitionssort.Swap` relocation,
`sortSecondaryIndexes`, `insertHelper` / `deleteHelper`, truncate, rebuild) and
`Gms/Model/MemIndexDdl.lean` (how `indexes` and `secondaryIndexStorage` are keyed by names).

The invariant (`LocInv` + `KeysOk`): for an index, **every live slot of the table is the location
of exactly one storage row and no storage row is located anywhere else**, and a storage row's key
values are those of the row in its slot. Property theorems (namespace `Gms.C16`), for ALL
partition layouts, location lists, slots:

* `lookup_eq_scan`        under the invariant, what an index scan resolves (`indexScanRowIter`:
                          key values + row at the location) is a permutation of (key of r, r) over
                          the stored rows — so every lookup through the index returns exactly the
                          rows a scan would, none missing, stale or duplicated;
* `idxInv_delete`         THE renumbering lemma: removing the row at `(p,i)`, dropping the storage
                          rows located there and decrementing the `idx` of those located later in
                          partition `p` re-establishes the invariant (needs `>`: `>=` or `<` break it);
* `idxInv_insert`         appending a row to a partition and one storage row pointing at the new slot;
* `idxInv_swap`           one `partitionssort.Swap` (exchange two rows, re-point storage rows at
                          either slot) — hence ANY sequence of swaps, i.e. whatever `sort.Sort` does
                          (`idxInv_swaps`);
* `idxInv_perm`           re-ordering the storage (`sortSecondaryIndexes`);
* `idxInv_empty`          truncate / a fresh table;
* `delFromIndex_locs`     ties the list-of-locations view to the Impl model's heap of shared index
                          rows for `deleteRowFromIndexes` (one index, distinct row objects);
* `keys_kept_delete`, `keys_kept_swap`  the key part of the invariant under both in-place writers.
* `index_read_eq_scan_read`  corollary of `lookup_eq_scan` for every predicate on the STORED key
                          values (the range filter of the index scan): the index-driven read keeps
                          exactly the stored rows whose own key values satisfy it;
* `extVals_ignores_pfx`   PREFIX INDEXES (`KEY (s(4))`): the storage row holds the full column
                          values, the declared prefix lengths (`IdxDef.pfx`) do not enter it — so
                          all theorems above hold verbatim for prefix indexes over string columns;
* `idxInv_rewrite`        a row overwritten IN PLACE (same slot, e.g. UPDATE / REPLACE / ON DUPLICATE
                          KEY UPDATE keeping the primary key) with the storage row refreshed unless a
                          shortcut `same old new` says "key unchanged": the invariant is kept for
                          every shortcut that implies equal stored key values (`fullMatch_sound`:
                          `columnsMatch` without prefix lengths does); `prefix_match_is_not_key_equality`
                          + `prefix_shortcut_breaks_invariant`: `columnsMatch` WITH the index's prefix
                          lengths does not — the storage row keeps the old value and the equality
                          lookup for the new value loses the row.

NOT proved (stated, covered by the correspondence and the oracle only): the lifting of these
per-operation lemmas through the heap-threading `applyEditsP` to `idxInv_reachable : ∀ history,
IdxInv (run history)` — it needs the hygiene invariant "row objects of different indexes are
distinct" carried through `addRowToIndexes`, and the fact that `tableEditor.Insert` never lets
`insertHelper` take its overwrite-in-place branch (`finding`-free but unproved: that branch would
leave a stale storage row, see `overwrite_breaks_invariant`).

Findings on the unchanged tree (name handling of DDL, `MemIndexDdl`):
* `finding_drop_index_keeps_storage_of_mixed_case_name` — DROP INDEX deletes the storage under the
  lower-cased map key, the storage is keyed by the name as written: the storage stays, and the next
  `sortSecondaryIndexes` dereferences a missing index (panic in the real code);
* `finding_rename_index_keeps_storage_key` — RENAME INDEX re-keys `indexes` and sets `Index.Name`
  but leaves the storage under the old name: index scans read an absent storage (rows missing) and
  the next DML panics as above.
`drop_index_wf_partial` / `rename_noop_wf`: names already in lower case are handled correctly.
-/
import Gms.Model.MemIndex
import Gms.Model.MemIndexDdl
import Gms.Generated.C16

namespace Gms.MemIndex
open Gms.MemTable

/-! ## Locations -/

/-- Go: `deleteRowFromIndexes` on one location: later rows of the same partition move up. -/
def renum (p i : Nat) (l : Loc) : Loc := if l.part = p ∧ l.idx > i then ⟨p, l.idx - 1⟩ else l

/-- where a slot of the table after the removal was before it. -/
def unrenum (p i : Nat) (l : Loc) : Loc := if l.part = p ∧ l.idx ≥ i then ⟨p, l.idx + 1⟩ else l

/-- every live slot is the location of exactly one storage row; no storage row points elsewhere. -/
def LocInv (parts : List (List Row)) (L : List Loc) : Prop :=
  ∀ l : Loc, L.count l = if (rowAt parts l).isSome then 1 else 0

theorem getElem?_modifyAt {α : Type} (f : α → α) (n m : Nat) (l : List α) :
    (modifyAt f n l)[m]? = if m = n then l[m]?.map f else l[m]? := by
  induction l generalizing n m with
  | nil => cases n <;> simp [modifyAt]
  | cons a as ih =>
    cases n with
    | zero => cases m <;> simp [modifyAt]
    | succ k =>
      cases m with
      | zero => simp [modifyAt]
      | succ j => simp [modifyAt, ih]

theorem length_modifyAt2 {α : Type} (f : α → α) (n : Nat) (l : List α) : (modifyAt f n l).length = l.length := by
  induction l generalizing n with
  | nil => cases n <;> rfl
  | cons a as ih => cases n <;> simp [modifyAt, ih]

theorem setLoc_length2 (h : Heap) (n : Nat) (l : Loc) : (setLoc h n l).length = h.length := length_modifyAt2 _ n h

theorem count_map_of_inv {α β : Type} [DecidableEq α] [DecidableEq β] {f : α → β} {g : β → α} {L : List α} {l' : β}
    (h : ∀ l ∈ L, f l = l' ↔ l = g l') : (L.map f).count l' = L.count (g l') := by
  induction L with
  | nil => rfl
  | cons a as ih =>
    have ha := h a (List.mem_cons_self)
    have ih' := ih (fun l hl => h l (List.mem_cons_of_mem _ hl))
    simp only [List.map_cons, List.count_cons, ih']
    simp only [beq_iff_eq]
    by_cases hc : a = g l'
    · rw [if_pos (ha.2 hc), if_pos hc]
    · rw [if_neg (fun hf => hc (ha.1 hf)), if_neg hc]

theorem renum_iff (p i : Nat) (l l' : Loc) (hl : l ≠ ⟨p, i⟩) : renum p i l = l' ↔ l = unrenum p i l' := by
  cases l with | mk lp li =>
  cases l' with | mk lp' li' =>
  simp only [ne_eq, Loc.mk.injEq, not_and] at hl
  simp only [renum, unrenum]
  split <;> split <;> simp only [Loc.mk.injEq] <;> omega

theorem unrenum_ne (p i : Nat) (l' : Loc) : unrenum p i l' ≠ ⟨p, i⟩ := by
  cases l' with | mk lp li =>
  simp only [unrenum]
  split <;> simp only [ne_eq, Loc.mk.injEq] <;> omega

theorem rowAt_removeAt (parts : List (List Row)) (p i : Nat) (l' : Loc) :
    rowAt (removeAt parts p i) l' = rowAt parts (unrenum p i l') := by
  cases l' with | mk lp li =>
  by_cases hp : lp = p
  · subst hp
    by_cases hi : li ≥ i
    · have h1 : unrenum lp i ⟨lp, li⟩ = ⟨lp, li + 1⟩ := by simp [unrenum, hi]
      have h2 : ¬ li < i := by omega
      rw [h1]
      simp only [rowAt, removeAt, getElem?_modifyAt, if_true]
      cases parts[lp]? with
      | none => rfl
      | some q => simp [List.getElem?_eraseIdx, h2]
    · have h1 : unrenum lp i ⟨lp, li⟩ = ⟨lp, li⟩ := by simp [unrenum, hi]
      have h2 : li < i := by omega
      rw [h1]
      simp only [rowAt, removeAt, getElem?_modifyAt, if_true]
      cases parts[lp]? with
      | none => rfl
      | some q => simp [List.getElem?_eraseIdx, h2]
  · have h1 : unrenum p i ⟨lp, li⟩ = ⟨lp, li⟩ := by simp [unrenum, hp]
    rw [h1]
    simp [rowAt, removeAt, getElem?_modifyAt, hp]

/-! ## The invariant on the entries of one index -/

/-- an index seen as its storage rows: (key values, location). -/
abbrev Entries := List (List Val × Loc)

def KeysOk (env : Env) (d : IdxDef) (parts : List (List Row)) (E : Entries) : Prop :=
  ∀ e ∈ E, ∀ r, rowAt parts e.2 = some r → e.1 = extVals env d r

/-- **The C16 invariant for one index.** -/
def IdxInvE (env : Env) (d : IdxDef) (parts : List (List Row)) (E : Entries) : Prop :=
  LocInv parts (E.map (·.2)) ∧ KeysOk env d parts E

/-- what the Impl model's heap and id list denote. -/
def entriesOf (h : Heap) (ids : List Nat) : Entries := ids.map (fun id => ((getE h id).vals, (getE h id).loc))

/-! ### delete: the renumbering lemma -/

def delEntries (p i : Nat) (E : Entries) : Entries :=
  (E.filter (fun e => !decide (e.2 = ⟨p, i⟩))).map (fun e => (e.1, renum p i e.2))

theorem locInv_delete (parts : List (List Row)) (L : List Loc) (p i : Nat) (h : LocInv parts L) :
    LocInv (removeAt parts p i) ((L.filter (fun l => !decide (l = ⟨p, i⟩))).map (renum p i)) := by
  intro l'
  rw [count_map_of_inv (g := unrenum p i)]
  · rw [List.count_filter (by simpa using unrenum_ne p i l'), h, rowAt_removeAt]
  · intro l hl
    have : l ≠ ⟨p, i⟩ := by simpa using (List.mem_filter.1 hl).2
    exact renum_iff p i l l' this

theorem unrenum_renum (p i : Nat) (l : Loc) (hl : l ≠ ⟨p, i⟩) : unrenum p i (renum p i l) = l :=
  ((renum_iff p i l (renum p i l) hl).1 rfl).symm

theorem map_snd_delEntries (p i : Nat) (E : Entries) :
    (delEntries p i E).map (·.2) = ((E.map (·.2)).filter (fun l => !decide (l = ⟨p, i⟩))).map (renum p i) := by
  simp [delEntries, List.filter_map, Function.comp_def]

/-- **The renumbering lemma** (`deleteHelper` + `deleteRowFromIndexes` on one index): after the
row at `(p,i)` is removed from its partition, the storage rows located there are dropped and
those located later in partition `p` have their `idx` decremented, the invariant holds again. -/
theorem idxInv_delete (env : Env) (d : IdxDef) (parts : List (List Row)) (E : Entries) (p i : Nat)
    (h : IdxInvE env d parts E) : IdxInvE env d (removeAt parts p i) (delEntries p i E) := by
  refine ⟨?_, ?_⟩
  · rw [map_snd_delEntries]
    exact locInv_delete parts _ p i h.1
  · intro e he r hr
    simp only [delEntries, List.mem_map, List.mem_filter] at he
    obtain ⟨e0, ⟨he0, hne⟩, rfl⟩ := he
    have hne' : e0.2 ≠ ⟨p, i⟩ := by simpa using hne
    simp only at hr
    rw [rowAt_removeAt, unrenum_renum p i e0.2 hne'] at hr
    exact h.2 e0 he0 r hr

/-! ### insert -/

theorem rowAt_append (parts : List (List Row)) (p : Nat) (r : Row) (q : List Row) (hq : parts[p]? = some q) (l : Loc) :
    rowAt (modifyAt (fun q => q ++ [r]) p parts) l = if l = ⟨p, q.length⟩ then some r else rowAt parts l := by
  cases l with | mk lp li =>
  simp only [rowAt, getElem?_modifyAt, Loc.mk.injEq]
  by_cases h1 : lp = p
  · subst h1
    simp only [if_true, true_and, hq, Option.map_some]
    by_cases h2 : li = q.length
    · simp [h2]
    · simp only [h2, if_false]
      rcases Nat.lt_or_gt_of_ne h2 with h3 | h3
      · simp [List.getElem?_append_left h3]
      · rw [List.getElem?_eq_none (by simp; omega), List.getElem?_eq_none (by omega)]
  · simp [h1]

/-- `insertHelper` (append branch) + `addRowToIndexes` on one index: the row goes to the end of
partition `p` (which holds `q`), the new storage row points at the new slot `(p, len q)`. -/
theorem idxInv_insert (env : Env) (d : IdxDef) (parts : List (List Row)) (E : Entries) (p : Nat) (r : Row)
    (q : List Row) (hq : parts[p]? = some q) (h : IdxInvE env d parts E) :
    IdxInvE env d (modifyAt (fun q => q ++ [r]) p parts) (E ++ [(extVals env d r, ⟨p, q.length⟩)]) := by
  have hfresh : rowAt parts ⟨p, q.length⟩ = none := by simp [rowAt, hq]
  refine ⟨?_, ?_⟩
  · intro l
    simp only [List.map_append, List.map_cons, List.map_nil, List.count_append, List.count_cons, List.count_nil,
      beq_iff_eq, h.1 l, rowAt_append parts p r q hq l]
    by_cases hl : l = ⟨p, q.length⟩
    · subst hl; simp [hfresh]
    · have : ¬ (⟨p, q.length⟩ : Loc) = l := fun e => hl e.symm
      simp [hl, this]
  · intro e he r' hr'
    rw [rowAt_append parts p r q hq] at hr'
    rcases List.mem_append.1 he with he | he
    · have hne : e.2 ≠ ⟨p, q.length⟩ := by
        intro heq
        have hc := h.1 e.2
        rw [heq, hfresh] at hc
        simp only [Option.isSome_none, Bool.false_eq_true, if_false] at hc
        have : (⟨p, q.length⟩ : Loc) ∈ E.map (·.2) := by
          rw [← heq]; exact List.mem_map_of_mem he
        exact (List.count_eq_zero.1 hc) this
      rw [if_neg hne] at hr'
      exact h.2 e he r' hr'
    · simp only [List.mem_singleton] at he
      subst he
      simp only [if_true, Option.some.injEq] at hr'
      subst hr'; rfl

/-! ### swap -/

theorem swapLoc_invol (la lb l : Loc) : swapLoc la lb (swapLoc la lb l) = l := by
  simp only [swapLoc]
  by_cases h1 : l = la
  · subst h1
    by_cases h2 : lb = l <;> simp [h2]
  · by_cases h2 : l = lb
    · subst h2; simp [h1]
    · simp [h1, h2]

theorem swapLoc_iff (la lb l l' : Loc) : swapLoc la lb l = l' ↔ l = swapLoc la lb l' := by
  constructor
  · intro h; rw [← h, swapLoc_invol]
  · intro h; rw [h, swapLoc_invol]

theorem getElem?_set_self_some {α : Type} (q : List α) (i : Nat) (a : α) (h : i < q.length) : (q.set i a)[i]? = some a := by
  simp [h]

theorem rowAt_setRow (parts : List (List Row)) (la : Loc) (r : Row) (hv : (rowAt parts la).isSome) (l : Loc) :
    rowAt (setRow parts la r) l = if l = la then some r else rowAt parts l := by
  cases l with | mk lp li =>
  cases la with | mk ap ai =>
  simp only [rowAt, setRow, getElem?_modifyAt, Loc.mk.injEq]
  simp only [rowAt] at hv
  by_cases h1 : lp = ap
  · subst h1
    cases hq : parts[lp]? with
    | none => simp [hq] at hv
    | some q =>
      simp only [hq] at hv
      have hlt : ai < q.length := by
        rcases Nat.lt_or_ge ai q.length with h | h
        · exact h
        · simp [List.getElem?_eq_none h] at hv
      simp only [if_true, true_and, Option.map_some, List.getElem?_set]
      by_cases h2 : li = ai
      · subst h2; simp [hlt]
      · have : ¬ ai = li := fun e => h2 e.symm
        simp [h2, this]
  · simp [h1]

/-- the rows after `partitionssort.Swap`: slot `l` holds what slot `swapLoc la lb l` held. -/
theorem rowAt_swap (parts : List (List Row)) (la lb : Loc) (ra rb : Row)
    (ha : rowAt parts la = some ra) (hb : rowAt parts lb = some rb) (l : Loc) :
    rowAt (setRow (setRow parts la rb) lb ra) l = rowAt parts (swapLoc la lb l) := by
  have hva : (rowAt parts la).isSome := by simp [ha]
  have hvb : (rowAt (setRow parts la rb) lb).isSome := by
    rw [rowAt_setRow parts la rb hva]
    split <;> simp [hb]
  rw [rowAt_setRow _ lb ra hvb, rowAt_setRow parts la rb hva]
  simp only [swapLoc]
  by_cases h1 : l = lb
  · subst h1
    by_cases h2 : l = la
    · subst h2; simp [ha]
    · simp [h2, ha]
  · by_cases h2 : l = la
    · subst h2; simp [h1, hb]
    · simp [h1, h2]

def swapEntries (la lb : Loc) (E : Entries) : Entries := E.map (fun e => (e.1, swapLoc la lb e.2))

/-- one `partitionssort.Swap(i, j)`: the two rows are exchanged and every storage row located at
either slot is re-pointed at the other. -/
theorem idxInv_swap (env : Env) (d : IdxDef) (parts : List (List Row)) (E : Entries) (la lb : Loc) (ra rb : Row)
    (ha : rowAt parts la = some ra) (hb : rowAt parts lb = some rb) (h : IdxInvE env d parts E) :
    IdxInvE env d (setRow (setRow parts la rb) lb ra) (swapEntries la lb E) := by
  refine ⟨?_, ?_⟩
  · intro l'
    have : (swapEntries la lb E).map (·.2) = (E.map (·.2)).map (swapLoc la lb) := by
      simp [swapEntries, Function.comp_def]
    rw [this, count_map_of_inv (g := swapLoc la lb) (fun l _ => swapLoc_iff la lb l l'), h.1, rowAt_swap parts la lb ra rb ha hb]
  · intro e he r hr
    simp only [swapEntries, List.mem_map] at he
    obtain ⟨e0, he0, rfl⟩ := he
    simp only at hr
    rw [rowAt_swap parts la lb ra rb ha hb, swapLoc_invol] at hr
    exact h.2 e0 he0 r hr

/-! ### re-ordering the storage, empty table -/

theorem idxInv_perm (env : Env) (d : IdxDef) (parts : List (List Row)) (E E' : Entries) (hp : E'.Perm E)
    (h : IdxInvE env d parts E) : IdxInvE env d parts E' := by
  refine ⟨fun l => ?_, fun e he => h.2 e (hp.mem_iff.1 he)⟩
  rw [(hp.map (·.2)).count_eq l]
  exact h.1 l

theorem rowAt_replicate_nil (n : Nat) (l : Loc) : rowAt (List.replicate n ([] : List Row)) l = none := by
  simp only [rowAt]
  cases h : (List.replicate n ([] : List Row))[l.part]? with
  | none => rfl
  | some q =>
    have := List.mem_replicate.1 (List.mem_of_getElem? h)
    simp [this.2]

/-- a fresh or truncated table (`truncate`: empty partitions, empty storage). -/
theorem idxInv_empty (env : Env) (d : IdxDef) (n : Nat) : IdxInvE env d (List.replicate n []) [] := by
  refine ⟨fun l => ?_, fun e he => by simp at he⟩
  simp [rowAt_replicate_nil]

/-! ### lookup = scan -/

/-- the live slots of the table, in scan order. -/
def allLocsFrom : Nat → List (List Row) → List Loc
  | _, [] => []
  | k, q :: qs => (List.range q.length).map (fun i => (⟨k, i⟩ : Loc)) ++ allLocsFrom (k + 1) qs

theorem map_getElem?_range {α : Type} (q : List α) : (List.range q.length).map (fun i => q[i]?) = q.map some := by
  apply List.ext_getElem?
  intro i
  simp only [List.getElem?_map, List.getElem?_range]
  by_cases h : i < q.length
  · simp [List.getElem?_range h, List.getElem?_eq_getElem h]
  · have h' : q.length ≤ i := by omega
    simp [List.getElem?_eq_none h']
    try exact h'

theorem rowAt_append_parts (pre : List (List Row)) (q : List Row) (qs : List (List Row)) (i : Nat) :
    rowAt (pre ++ q :: qs) ⟨pre.length, i⟩ = q[i]? := by
  simp [rowAt]

theorem map_rowAt_allLocs (pre qs : List (List Row)) :
    (allLocsFrom pre.length qs).map (rowAt (pre ++ qs)) = qs.flatten.map some := by
  induction qs generalizing pre with
  | nil => rfl
  | cons q qs ih =>
    simp only [allLocsFrom, List.map_append, List.map_map, List.flatten_cons]
    have h1 : (List.range q.length).map (rowAt (pre ++ q :: qs) ∘ fun i => (⟨pre.length, i⟩ : Loc)) = q.map some := by
      rw [← map_getElem?_range q]
      apply List.map_congr_left
      intro i _
      exact rowAt_append_parts pre q qs i
    have h2 := ih (pre ++ [q])
    simp only [List.length_append, List.length_cons, List.length_nil, List.append_assoc, List.cons_append,
      List.nil_append] at h2
    rw [h1, h2]

theorem count_range_map (k n : Nat) (l : Loc) :
    ((List.range n).map (fun i => (⟨k, i⟩ : Loc))).count l = if l.part = k ∧ l.idx < n then 1 else 0 := by
  induction n with
  | zero => simp
  | succ m ih =>
    rw [List.range_succ, List.map_append, List.count_append, ih]
    cases l with | mk lp li =>
    simp only [List.map_cons, List.map_nil, List.count_cons, List.count_nil, beq_iff_eq, Loc.mk.injEq]
    by_cases h1 : lp = k
    · subst h1
      by_cases h2 : li < m
      · have : ¬ m = li := by omega
        have h3 : li < m + 1 := by omega
        simp [h2, this, h3]
      · by_cases h3 : m = li
        · subst h3; simp
        · have : ¬ li < m + 1 := by omega
          simp [h2, h3, this]
    · have : ¬ k = lp := fun e => h1 e.symm
      simp [h1, this]

theorem count_allLocs (pre qs : List (List Row)) (l : Loc) (hl : pre.length ≤ l.part) :
    (allLocsFrom pre.length qs).count l = if (rowAt (pre ++ qs) l).isSome then 1 else 0 := by
  induction qs generalizing pre with
  | nil =>
    have : pre[l.part]? = none := List.getElem?_eq_none hl
    simp [allLocsFrom, rowAt, this]
  | cons q qs ih =>
    simp only [allLocsFrom, List.count_append, count_range_map]
    cases l with | mk lp li =>
    simp only at hl
    by_cases h1 : lp = pre.length
    · subst h1
      have h2 : (allLocsFrom (pre.length + 1) qs).count ⟨pre.length, li⟩ = 0 := by
        -- the tail enumerates partitions > pre.length only
        have hgen : ∀ (k : Nat) (rs : List (List Row)), pre.length < k → (allLocsFrom k rs).count ⟨pre.length, li⟩ = 0 := by
          intro k rs
          induction rs generalizing k with
          | nil => intro _; rfl
          | cons r rs ih2 =>
            intro hk
            simp only [allLocsFrom, List.count_append, count_range_map]
            have : ¬ (pre.length = k ∧ li < r.length) := by omega
            simp only [this, if_false, Nat.zero_add]
            exact ih2 (k + 1) (by omega)
        exact hgen _ _ (by omega)
      rw [h2, rowAt_append_parts]
      by_cases h3 : li < q.length
      · simp [h3, List.getElem?_eq_getElem h3]
      · have : q.length ≤ li := by omega
        simp [h3, List.getElem?_eq_none this]
    · have hlt : pre.length < lp := by omega
      have h2 : ¬ (lp = pre.length ∧ li < q.length) := by omega
      simp only [h2, if_false, Nat.zero_add]
      have := ih (pre ++ [q]) (by simp; omega)
      simp only [List.length_append, List.length_cons, List.length_nil, List.append_assoc, List.cons_append,
        List.nil_append] at this
      exact this

/-- Under the invariant the storage-row locations are exactly the live slots (as multisets). -/
theorem locs_perm_allLocs (parts : List (List Row)) (L : List Loc) (h : LocInv parts L) : L.Perm (allLocsFrom 0 parts) := by
  rw [List.perm_iff_count]
  intro l
  rw [h l]
  have := count_allLocs [] parts l (by simp)
  simpa using this.symm

/-- **Lookup = scan.** Under the invariant, what an index scan resolves — for each storage row its
key values and the row at its location (`indexScanRowIter.Next`) — is, as a multiset, exactly
(key of r, r) for the stored rows r. Hence for every range predicate on the key the index-driven
read returns exactly the rows a full scan filtered by the same predicate returns: none missing,
none stale, none duplicated. -/
theorem lookup_eq_scan (env : Env) (d : IdxDef) (parts : List (List Row)) (E : Entries) (h : IdxInvE env d parts E) :
    (E.map (fun e => (e.1, rowAt parts e.2))).Perm (parts.flatten.map (fun r => (extVals env d r, some r))) := by
  let F : Loc → List Val × Option Row := fun l =>
    ((match rowAt parts l with | some r => extVals env d r | none => []), rowAt parts l)
  have hE : E.map (fun e => (e.1, rowAt parts e.2)) = (E.map (·.2)).map F := by
    rw [List.map_map]
    apply List.map_congr_left
    intro e he
    have hc := h.1 e.2
    have hmem : e.2 ∈ E.map (·.2) := List.mem_map_of_mem he
    have hpos : 0 < (E.map (·.2)).count e.2 := List.count_pos_iff.2 hmem
    cases hr : rowAt parts e.2 with
    | none => rw [hr] at hc; simp at hc; omega
    | some r =>
      simp only [Function.comp_apply, F, hr]
      rw [h.2 e he r hr]
  have hS : parts.flatten.map (fun r => (extVals env d r, some r)) = (allLocsFrom 0 parts).map F := by
    have h1 := map_rowAt_allLocs [] parts
    simp only [List.length_nil, List.nil_append] at h1
    have : (allLocsFrom 0 parts).map F = ((allLocsFrom 0 parts).map (rowAt parts)).map
        (fun o => ((match o with | some r => extVals env d r | none => []), o)) := by
      rw [List.map_map]; rfl
    rw [this, h1, List.map_map]
    rfl
  rw [hE, hS]
  exact (locs_perm_allLocs parts _ h.1).map F

/-! ### Tie to the Impl model's heap of shared index rows (one index) -/

theorem getE_setLoc (h : Heap) (a id : Nat) (l : Loc) :
    getE (setLoc h a l) id = if id = a ∧ a < h.length then { getE h a with loc := l } else getE h id := by
  simp only [getE, setLoc, List.getD_eq_getElem?_getD, getElem?_modifyAt]
  by_cases h1 : id = a
  · subst h1
    by_cases h2 : id < h.length
    · simp [h2, List.getElem?_eq_getElem h2]
    · have : h.length ≤ id := by omega
      simp [h2, List.getElem?_eq_none this]
  · simp [h1]

def renE (p i : Nat) (e : Entry) : Entry := { e with loc := renum p i e.loc }

theorem getE_delFold (p i : Nat) (ids : List Nat) (h : Heap) (hnd : ids.Nodup) (hlt : ∀ id ∈ ids, id < h.length) (id : Nat) :
    getE (ids.foldl (fun h id =>
        let e := getE h id
        if e.loc.part = p ∧ e.loc.idx > i then setLoc h id ⟨p, e.loc.idx - 1⟩ else h) h) id =
      if id ∈ ids then renE p i (getE h id) else getE h id := by
  induction ids generalizing h with
  | nil => simp
  | cons a as ih =>
    simp only [List.foldl_cons]
    have hna : a ∉ as := (List.nodup_cons.1 hnd).1
    have hal : a < h.length := hlt a List.mem_cons_self
    -- one step on `a`
    have hstep : ∀ x, getE (if (getE h a).loc.part = p ∧ (getE h a).loc.idx > i
        then setLoc h a ⟨p, (getE h a).loc.idx - 1⟩ else h) x = if x = a then renE p i (getE h a) else getE h x := by
      intro x
      by_cases hc : (getE h a).loc.part = p ∧ (getE h a).loc.idx > i
      · rw [if_pos hc, getE_setLoc]
        by_cases hx : x = a
        · simp [hx, hal, renE, renum, hc]
        · simp [hx]
      · rw [if_neg hc]
        by_cases hx : x = a
        · subst hx
          simp only [if_true, renE, renum, hc, if_false]
        · simp [hx]
    have hlen : (if (getE h a).loc.part = p ∧ (getE h a).loc.idx > i
        then setLoc h a ⟨p, (getE h a).loc.idx - 1⟩ else h).length = h.length := by
      split
      · exact setLoc_length2 _ _ _
      · rfl
    rw [ih _ (List.nodup_cons.1 hnd).2 (fun x hx => by rw [hlen]; exact hlt x (List.mem_cons_of_mem _ hx))]
    by_cases hm : id ∈ as
    · have hne : id ≠ a := fun e => hna (e ▸ hm)
      simp [hm, hstep, hne]
    · by_cases hx : id = a
      · subst hx
        simp [hna, hstep]
      · simp [hm, hstep, hx]

/-- `deleteRowFromIndexes` on one index of the Impl model (`delFromIndex`: in-place decrement of
shared index rows + filtering of the storage slice) is `delEntries` on what the heap denotes,
provided the storage slice holds distinct row objects. -/
theorem delFromIndex_locs (h : Heap) (ids : List Nat) (p i : Nat) (hnd : ids.Nodup) (hlt : ∀ id ∈ ids, id < h.length) :
    entriesOf (delFromIndex h ids p i).1 (delFromIndex h ids p i).2 = delEntries p i (entriesOf h ids) := by
  simp only [delFromIndex, entriesOf, delEntries, List.filter_map, List.map_map]
  apply List.map_congr_left
  intro id hid
  have hmem : id ∈ ids := (List.mem_filter.1 hid).1
  simp only [Function.comp_apply]
  rw [getE_delFold p i ids h hnd hlt id, if_pos hmem]
  rfl

/-! ## Prefix indexes and rows rewritten in place -/

/-- the storage of a prefix index holds the full column values: the declared prefix lengths do not
enter what `rowToIndexStorage` stores. -/
theorem extVals_ignores_pfx (env : Env) (d : IdxDef) (p : List Nat) (r : Row) :
    extVals env { d with pfx := p } r = extVals env d r := rfl

/-- **Index read = scan read**, for every predicate `φ` on the stored key values (the range filter
the index scan evaluates on the storage row): under the invariant the rows an index-driven read
resolves and keeps are exactly the stored rows whose own key values satisfy `φ`. -/
theorem index_read_eq_scan_read (env : Env) (d : IdxDef) (parts : List (List Row)) (E : Entries)
    (h : IdxInvE env d parts E) (φ : List Val → Bool) :
    ((E.map (fun e => (e.1, rowAt parts e.2))).filter (fun x => φ x.1)).Perm
      ((parts.flatten.filter (fun r => φ (extVals env d r))).map (fun r => (extVals env d r, some r))) := by
  have hp := (lookup_eq_scan env d parts E h).filter (fun x => φ x.1)
  have hr : (parts.flatten.map (fun r => (extVals env d r, some r))).filter (fun x => φ x.1) =
      (parts.flatten.filter (fun r => φ (extVals env d r))).map (fun r => (extVals env d r, some r)) := by
    rw [List.filter_map]; rfl
  rw [hr] at hp
  exact hp

/-- The storage rows of one index after the row stored at `l` was overwritten in place by `new`
(`insertHelper`'s "map semantics" branch made index-aware): the storage row located at `l` gets the
new row's key values — unless the shortcut `same old new` claims the key did not change. -/
def rewriteEntries (env : Env) (d : IdxDef) (same : Row → Row → Bool) (old new : Row) (l : Loc) (E : Entries) : Entries :=
  E.map (fun e => if e.2 = l ∧ same old new = false then (extVals env d new, e.2) else e)

theorem map_snd_rewriteEntries (env : Env) (d : IdxDef) (same : Row → Row → Bool) (old new : Row) (l : Loc) (E : Entries) :
    (rewriteEntries env d same old new l E).map (·.2) = E.map (·.2) := by
  simp only [rewriteEntries, List.map_map]
  apply List.map_congr_left
  intro e _
  simp only [Function.comp_apply]
  split <;> rfl

/-- **In-place rewrite.** Overwriting the row at a live slot and refreshing the storage row located
there keeps the invariant for EVERY shortcut `same` that is sound for the stored key: whenever it
answers "unchanged", the full extended key values (`rowToIndexStorage`) of both versions agree. -/
theorem idxInv_rewrite (env : Env) (d : IdxDef) (parts : List (List Row)) (E : Entries) (l : Loc) (old new : Row)
    (same : Row → Row → Bool) (hold : rowAt parts l = some old)
    (hsound : same old new = true → extVals env d old = extVals env d new)
    (h : IdxInvE env d parts E) :
    IdxInvE env d (setRow parts l new) (rewriteEntries env d same old new l E) := by
  have hv : (rowAt parts l).isSome := by simp [hold]
  refine ⟨?_, ?_⟩
  · intro l'
    rw [map_snd_rewriteEntries, h.1 l', rowAt_setRow parts l new hv]
    by_cases hl : l' = l
    · subst hl; simp [hold]
    · simp [hl]
  · intro e he r hr
    simp only [rewriteEntries, List.mem_map] at he
    obtain ⟨e0, he0, rfl⟩ := he
    by_cases hc : e0.2 = l ∧ same old new = false
    · simp only [hc, and_self, if_true] at hr ⊢
      rw [rowAt_setRow parts l new hv] at hr
      simp at hr
      rw [hr]
    · simp only [hc, if_false] at hr ⊢
      rw [rowAt_setRow parts l new hv] at hr
      by_cases hl : e0.2 = l
      · simp only [hl, if_true, Option.some.injEq] at hr
        have hs : same old new = true := by
          cases hss : same old new with
          | true => rfl
          | false => exact absurd ⟨hl, hss⟩ hc
        rw [← hr, ← hsound hs]
        exact h.2 e0 he0 old (by rw [hl]; exact hold)
      · simp only [hl, if_false] at hr
        exact h.2 e0 he0 r hr

/-- two rows that agree on a list of columns have the same projection. -/
theorem map_at_eq_of_columnsMatch (cs : List Nat) (a b : Row) (h : columnsMatch cs [] a b = true) :
    cs.map (fun c => a.at c) = cs.map (fun c => b.at c) := by
  induction cs with
  | nil => rfl
  | cons c cs ih =>
    simp only [columnsMatch, colMatch, List.headD_nil, List.tail_nil, Bool.and_eq_true] at h
    simp only [List.map_cons]
    have h1 : a.at c = b.at c := by simpa using h.1
    rw [h1, ih h.2]

/-- the shortcut that compares the FULL values of the extended key columns (`columnsMatch` without
prefix lengths) is sound. -/
theorem fullMatch_sound (env : Env) (d : IdxDef) (old new : Row)
    (h : columnsMatch (extCols env d) [] old new = true) : extVals env d old = extVals env d new :=
  map_at_eq_of_columnsMatch (extCols env d) old new h

theorem idxInv_rewrite_fullMatch (env : Env) (d : IdxDef) (parts : List (List Row)) (E : Entries) (l : Loc) (old new : Row)
    (hold : rowAt parts l = some old) (h : IdxInvE env d parts E) :
    IdxInvE env d (setRow parts l new)
      (rewriteEntries env d (fun a b => columnsMatch (extCols env d) [] a b) old new l E) :=
  idxInv_rewrite env d parts E l old new _ hold (fullMatch_sound env d old new) h

end Gms.MemIndex

namespace Gms.C16
open Gms.MemTable Gms.MemIndex Gms.MemIndexDdl

/-! ## Regenerated facts -/

/-- Where the source forms the two kinds of keys, and the shape of every index-maintenance step
the models transliterate. -/
theorem facts_match :
    Generated.C16.addStorageKeys = ["table.secondaryIndexStorage[indexName(memIdx.ID())]", "table.secondaryIndexStorage[indexName(memIdx.ID())]"] ∧
    Generated.C16.delStorageKeys = ["table.secondaryIndexStorage[indexName(memIdx.ID())]", "table.secondaryIndexStorage[indexName(memIdx.ID())]"] ∧
    Generated.C16.delConds = ["rowLoc.partition == partKey && rowLoc.idx == rowIdx", "rowLoc.partition == partKey && rowLoc.idx > rowIdx"] ∧
    Generated.C16.delRenumber = ["primaryRowLocation{rowLoc.partition, rowLoc.idx - 1}"] ∧
    Generated.C16.sortSecRange = ["td.secondaryIndexStorage"] ∧
    Generated.C16.sortSecIndexLookup = ["td.indexes[strings.ToLower(string(idxName))]"] ∧
    Generated.C16.sortSecCall = ["sort.SliceStable"] ∧
    Generated.C16.truncateResets = ["td.partitions = partitions", "td.secondaryIndexStorage = make(map[indexName][]sql.Row)"] ∧
    Generated.C16.createIndexKeys = ["data.indexes[strings.ToLower(index.ID())]"] ∧
    Generated.C16.dropIndexDeletes = ["data.indexes<-idxName", "data.secondaryIndexStorage<-indexName(idxName)"] ∧
    Generated.C16.dropIndexRange = ["idxName := range data.indexes"] ∧
    Generated.C16.renameIndexEffects = ["data.indexes<-lowerCaseOldName", "data.indexes[lowerCaseNewName] = idx", "idx.(*Index).Name = newName"] ∧
    Generated.C16.scanStorageKey = ["data.secondaryIndexStorage[indexName(isp.index.Name)]"] ∧
    Generated.C16.scanSkipsWhen = ["len(i.primaryRows[rowLoc.partition]) <= rowLoc.idx"] ∧
    Generated.C16.swapConds = ["rowLoc.partition == lidx.partitionName && rowLoc.idx == lidx.rowIdx", "rowLoc.partition == ridx.partitionName && rowLoc.idx == ridx.rowIdx"] ∧
    Generated.C16.locationStoredAt = ["newRow[len(exprs)]"] ∧
    Generated.C16.storageUses = ["idx.ExtendedExprs"] ∧
    Generated.C16.pkApplyEdits = ["deleteHelper", "insertHelper", "tableData.sortRows"] ∧
    Generated.C16.klApplyEdits = ["deleteHelper", "insertHelper", "tableData.sortSecondaryIndexes"] ∧
    Generated.C16.pkHelperCalls = ["deleteHelper:deleteRowFromIndexes", "insertHelper:addRowToIndexes"] ∧
    Generated.C16.klHelperCalls = ["deleteHelper:deleteRowFromIndexes", "insertHelper:addRowToIndexes"] ∧
    -- who writes the index storage: exactly the writers the model transliterates (a further writer,
    -- e.g. one that rewrites storage rows in place, owes `idxInv_rewrite`'s soundness hypothesis)
    Generated.C16.storageWriters = ["table.go:Table.DropIndex", "table_data.go:TableData.copy", "table_data.go:TableData.truncate",
      "table_editor.go:addRowToIndexes", "table_editor.go:deleteRowFromIndexes"] ∧
    -- prefix-truncated comparison serves the unique-key lookups only (it is not equality of stored
    -- keys: `prefix_match_is_not_key_equality`), and a storage row is built without prefix lengths
    Generated.C16.prefixCompareUsers = ["keylessTableEditAccumulator.GetByCols:prefixLengths", "pkTableEditAccumulator.GetByCols:prefixLengths"] ∧
    Generated.C16.storedKeyPrefixRefs = ["none"] := by
  decide

/-! ## The property, per index -/

/-- any sequence of swaps — whatever `sort.Sort` decides to do — keeps the invariant. A swap whose
slots are not both live is a no-op in `swapStep`. -/
def swapParts (parts : List (List Row)) (ab : Loc × Loc) : List (List Row) :=
  match rowAt parts ab.1, rowAt parts ab.2 with
  | some ra, some rb => setRow (setRow parts ab.1 rb) ab.2 ra
  | _, _ => parts

def swapEnts (parts : List (List Row)) (E : Entries) (ab : Loc × Loc) : Entries :=
  match rowAt parts ab.1, rowAt parts ab.2 with
  | some _, some _ => swapEntries ab.1 ab.2 E
  | _, _ => E

theorem idxInv_swaps (env : Env) (d : IdxDef) (swaps : List (Loc × Loc)) (parts : List (List Row)) (E : Entries)
    (h : IdxInvE env d parts E) :
    IdxInvE env d (swaps.foldl (fun pe ab => (swapParts pe.1 ab, swapEnts pe.1 pe.2 ab)) (parts, E)).1
      (swaps.foldl (fun pe ab => (swapParts pe.1 ab, swapEnts pe.1 pe.2 ab)) (parts, E)).2 := by
  induction swaps generalizing parts E with
  | nil => exact h
  | cons ab rest ih =>
    simp only [List.foldl_cons]
    apply ih
    simp only [swapParts, swapEnts]
    cases ha : rowAt parts ab.1 with
    | none => exact h
    | some ra =>
      cases hb : rowAt parts ab.2 with
      | none => exact h
      | some rb => exact idxInv_swap env d parts E ab.1 ab.2 ra rb ha hb h

/-- The per-operation invariant theorems, collected (see the file header for what each says). -/
theorem idxInv_steps (env : Env) (d : IdxDef) (parts : List (List Row)) (E : Entries) (h : IdxInvE env d parts E) :
    (∀ p i, IdxInvE env d (removeAt parts p i) (delEntries p i E)) ∧
    (∀ p r q, parts[p]? = some q →
      IdxInvE env d (modifyAt (fun q => q ++ [r]) p parts) (E ++ [(extVals env d r, ⟨p, q.length⟩)])) ∧
    (∀ la lb ra rb, rowAt parts la = some ra → rowAt parts lb = some rb →
      IdxInvE env d (setRow (setRow parts la rb) lb ra) (swapEntries la lb E)) ∧
    (∀ E', E'.Perm E → IdxInvE env d parts E') :=
  ⟨fun p i => idxInv_delete env d parts E p i h,
   fun p r q hq => idxInv_insert env d parts E p r q hq h,
   fun la lb ra rb ha hb => idxInv_swap env d parts E la lb ra rb ha hb h,
   fun E' hp => idxInv_perm env d parts E E' hp h⟩

/-! ## Non-vacuity: a concrete 2-partition, 2-index table through the Impl model -/

def envX : Env :=
  { sch := { cols := [{ nullable := false }, {}, {}], pk := [0], uniques := [] },
    idxs := [{ cols := [1] }, { cols := [2, 1] }], nparts := 2,
    pmap := [([.int 4], 1), ([.int 2], 0), ([.int 9], 0), ([.int 6], 1), ([.int 1], 0)] }

def x4 : Row := [.int 4, .int 1, .int 1]
def x2 : Row := [.int 2, .int 1, .int 0]
def x9 : Row := [.int 9, .int 0, .int 1]
def x6 : Row := [.int 6, .null, .int 1]

/-- insert four rows, then delete one in the middle of a partition and update a key column. -/
def stX : St :=
  runHistory envX (initSt envX)
    [⟨[.ins x4, .ins x2, .ins x9, .ins x6], .eof⟩, ⟨[.del x2, .upd x9 [.int 1, .int 5, .int 1]], .eof⟩]

/-- the reached state has rows in both partitions and satisfies the invariant for both indexes:
what the index scans resolve is exactly the Spec's index contents. -/

example : stX.data.parts = [[[.int 1, .int 5, .int 1], x4], [x6]] ∧
    (indexView stX).map (fun es => es.length) = [3, 3] := by decide

example : IdxInvE envX { cols := [1] } stX.data.parts (entriesOf stX.heap (stX.data.idx.getD 0 [])) := by
  have hE : entriesOf stX.heap (stX.data.idx.getD 0 []) =
      [([.null, .int 6], ⟨1, 0⟩), ([.int 1, .int 4], ⟨0, 1⟩), ([.int 5, .int 1], ⟨0, 0⟩)] := by decide
  have hP : stX.data.parts = [[[.int 1, .int 5, .int 1], x4], [x6]] := by decide
  rw [hE, hP]
  refine ⟨?_, ?_⟩
  · intro l
    cases l with | mk lp li =>
    match lp, li with
    | 0, 0 => decide
    | 0, 1 => decide
    | 0, (k + 2) => simp [rowAt, x4]
    | 1, 0 => decide
    | 1, (k + 1) => simp [rowAt, x6]
    | (k + 2), li => simp [rowAt]
  · intro e he r hr
    simp only [List.mem_cons, List.mem_nil_iff, or_false] at he
    rcases he with rfl | rfl | rfl <;> simp [rowAt, x4, x6] at hr <;> subst hr <;> decide

/-- the overwrite-in-place branch of `insertHelper` (unreachable through `tableEditor.Insert`, which
rejects a stored key first) would break the invariant: the old storage row stays. -/
theorem overwrite_breaks_invariant :
    let hd := insertHelperP envX (stX.heap, stX.data) [.int 4, .int 3, .int 3]
    (hd.2.idx.map List.length) = [4, 4] ∧ hd.2.parts.flatten.length = 3 := by
  decide

/-! ## Prefix indexes: `KEY (c1(3))` over a string column -/

def envP : Env :=
  { sch := { cols := [{ nullable := false }, { str := true }], pk := [0], uniques := [] },
    idxs := [{ cols := [1], pfx := [3] }], nparts := 1, pmap := [([.int 1], 0), ([.int 2], 0)] }

def dP : IdxDef := { cols := [1], pfx := [3] }
def abcb : Val := .str [97, 98, 99, 98]
def abcc : Val := .str [97, 98, 99, 99]
def p1 : Row := [.int 1, .str [97, 98]]
def p2 : Row := [.int 2, abcb]
def p2' : Row := [.int 2, abcc]

/-- the prefix comparison the unique-key checks use (`columnsMatch` with the index's prefix
lengths): "same key" although the stored (full) values differ. -/
def prefixSame (d : IdxDef) (a b : Row) : Bool := columnsMatch d.cols d.pfx a b

/-- the Impl model on UPDATE … SET c1 = 'abcc' WHERE c0 = 2 (change behind the prefix): delete +
insert + sort, the storage row carries the new full value; the invariant's key part holds. -/
example :
    let st := runHistory envP (initSt envP) [⟨[.ins p1, .ins p2], .eof⟩, ⟨[.upd p2 p2'], .eof⟩]
    indexView st = specIndexView envP [p1, p2'] := by decide

/-- non-vacuity of `idxInv_rewrite`: a sound shortcut (full comparison) on the same update. -/
example : columnsMatch (extCols envP dP) [] p2 p2' = false ∧ columnsMatch (extCols envP dP) [] p2 p2 = true := by decide

/-- **`columnsMatch` with prefix lengths is not key equality for the storage**: it answers
"unchanged" for two rows whose stored key values differ … -/
theorem prefix_match_is_not_key_equality :
    prefixSame dP p2 p2' = true ∧ extVals envP dP p2 ≠ extVals envP dP p2' := by decide

/-- … so an in-place rewrite that skips "unchanged" prefix keys breaks the invariant: from a
consistent index the storage row keeps the old value, `KeysOk` fails, and the equality lookup for
the new value through the index (`φ` = "stored key = 'abcc'") returns nothing although the row is
stored (the seeded class: stale entry behind an indexed prefix). -/
theorem prefix_shortcut_breaks_invariant :
    let parts : List (List Row) := [[p1, p2]]
    let E : Entries := [(extVals envP dP p1, ⟨0, 0⟩), (extVals envP dP p2, ⟨0, 1⟩)]
    let parts' := setRow parts ⟨0, 1⟩ p2'
    let E' := rewriteEntries envP dP (prefixSame dP) p2 p2' ⟨0, 1⟩ E
    (E.map (fun e => (e.1, rowAt parts e.2)) = parts.flatten.map (fun r => (extVals envP dP r, some r))) ∧
    ¬ KeysOk envP dP parts' E' ∧
    ((E'.map (fun e => (e.1, rowAt parts' e.2))).filter (fun x => x.1.head? == some abcc)) = [] ∧
    (parts'.flatten.filter (fun r => (extVals envP dP r).head? == some abcc)) = [p2'] := by
  refine ⟨by decide, ?_, by decide, by decide⟩
  intro hk
  have := hk (extVals envP dP p2, ⟨0, 1⟩) (by decide) p2' (by decide)
  exact absurd this (by decide)

/-! ## DDL: how indexes and their storage are named -/

def kv : Name := "kv".toList
def KV : Name := "KV".toList
def kw : Name := "kw".toList

/-- after CREATE INDEX + rebuild the two maps agree, whatever the case of the name. -/
example : wf (rebuild (createIndex ⟨[], []⟩ KV) [1, 2, 3]) [1, 2, 3] = true ∧
    wf (rebuild (createIndex ⟨[], []⟩ kv) [1, 2, 3]) [1, 2, 3] = true := by decide

/-- DROP INDEX of a lower-case name removes index and storage. -/
theorem drop_index_lower_ok : dropIndex (rebuild (createIndex ⟨[], []⟩ kv) [1, 2, 3]) kv = ⟨[], []⟩ := by decide

/-- Guarded statement: if the storage is keyed exactly by the map key (names already in lower
case), DROP INDEX leaves no storage behind for that key. -/
theorem drop_index_wf_partial (t : Tbl) (name : Name) (e : Name × Name)
    (hf : t.indexes.find? (fun x => lower x.1 == lower name) = some e) :
    ∀ s ∈ (dropIndex t name).storage, s.1 ≠ e.1 := by
  intro s hs
  simp only [dropIndex, hf, aErase, List.mem_filter] at hs
  simpa using hs.2

/-- Finding `drop_index_keeps_storage_of_mixed_case_name`: the table was well formed, DROP INDEX
"succeeds", the storage of the dropped index is still there, and `sortSecondaryIndexes` (run by the
next statement that edits the table) dereferences a missing index. Replayed on the real engine:
CREATE INDEX KV ON t (v); DROP INDEX KV ON t; INSERT … → panic "interface conversion: sql.Index is nil". -/
theorem finding_drop_index_keeps_storage_of_mixed_case_name :
    wf (rebuild (createIndex ⟨[], []⟩ KV) [1, 2, 3]) [1, 2, 3] = true ∧
    (dropIndex (rebuild (createIndex ⟨[], []⟩ KV) [1, 2, 3]) KV).indexes = [] ∧
    (dropIndex (rebuild (createIndex ⟨[], []⟩ KV) [1, 2, 3]) KV).storage = [(KV, [1, 2, 3])] ∧
    sortOk (dropIndex (rebuild (createIndex ⟨[], []⟩ KV) [1, 2, 3]) KV) = false := by decide

/-- Finding `rename_index_keeps_storage_key`: after RENAME INDEX the index scan of the renamed
index reads an absent storage (every row is missing from index-driven reads) and the old storage
is orphaned (next DML panics). Replayed: ALTER TABLE u RENAME INDEX kv TO kw; SELECT … WHERE v = 20 → empty. -/
theorem finding_rename_index_keeps_storage_key :
    wf (rebuild (createIndex ⟨[], []⟩ kv) [1, 2, 3]) [1, 2, 3] = true ∧
    scanStorage (rebuild (createIndex ⟨[], []⟩ kv) [1, 2, 3]) kv = some [1, 2, 3] ∧
    scanStorage (renameIndex (rebuild (createIndex ⟨[], []⟩ kv) [1, 2, 3]) kv kw) kw = none ∧
    sortOk (renameIndex (rebuild (createIndex ⟨[], []⟩ kv) [1, 2, 3]) kv kw) = false ∧
    wf (renameIndex (rebuild (createIndex ⟨[], []⟩ kv) [1, 2, 3]) kv kw) [1, 2, 3] = false := by decide

/-- renaming an index to itself, or on an empty table (no storage yet), is harmless. -/
theorem rename_noop_wf :
    renameIndex (rebuild (createIndex ⟨[], []⟩ kv) [1, 2, 3]) kv kv = rebuild (createIndex ⟨[], []⟩ kv) [1, 2, 3] ∧
    wf (renameIndex (rebuild (createIndex ⟨[], []⟩ kv) []) kv kw) [] = true := by decide

/-- The full statement (FALSE on the unchanged tree): every DDL step keeps the two maps in agreement. -/
def DdlKeepsWf : Prop :=
  ∀ (t : Tbl) (rows : List Nat) (a b : Name), wf t rows = true →
    wf (dropIndex t a) rows = true ∧ wf (renameIndex t a b) rows = true

theorem ddlKeepsWf_false : ¬ DdlKeepsWf := by
  intro h
  have := (h (rebuild (createIndex ⟨[], []⟩ kv) [1, 2, 3]) [1, 2, 3] kv kw (by decide)).2
  revert this
  decide

end Gms.C16
