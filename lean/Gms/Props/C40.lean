/-
C40 — Authentication accepts exactly the valid credentials.

Model: Gms/Model/Auth.lean. SHA-1 is an uninterpreted function `H` in every theorem (hypothesis used where
needed: `H` returns 20 bytes). Property theorems are in `namespace Gms.C40`.

  scramble check   `native_complete`, `native_sound`, `native_impl_eq_spec` (full statement, holds since the
                   `fix:` commit that added `if len(authResponse) != len(scramble) { return false }`),
                   `native_no_crash`; the two repaired defects are kept as witnesses about the pre-fix
                   model: `fixed_native_short_response_oob` (the old code panicked on a 1–19-byte response),
                   `fixed_native_long_response_accepted` (bytes after the 20th were never read)
  login decision   `authNative_accept_iff` and its corollaries `locked_rejected`, `unknown_rejected`,
                   `empty_password_iff_empty_response`, `runs_as_matched_account`; `authNative_no_crash`,
                   `authNative_eq_spec_of_same_account`
  account choice   `chooseImpl_eq_find` (GetUser as a cascade), `unique_match_agree`
                   (false in general: `finding_match_order_by_insertion`), order-independence for
                   unambiguous logins is `Gms.C41.account_lookup_order_independent`
  negotiation      `handleUser_iff`, `sha2Fast_accept_iff`
-/
import Gms.Model.Auth
import Gms.Lemmas.PrivSerial
import Gms.Generated.C40

namespace Gms.Auth
open Gms.Priv

/-! ## Lemmas: XOR -/

theorem xorPrefix_eq_xor (s r : Bytes) (h : s.length ≤ r.length) : xorPrefix s r = some (xor s r) := by
  induction s generalizing r with
  | nil => cases r <;> simp [xorPrefix, xor]
  | cons a s ih =>
    cases r with
    | nil => simp at h
    | cons b r =>
      simp only [List.length_cons, Nat.add_le_add_iff_right] at h
      simp [xorPrefix, xor, ih r h]

theorem xorPrefix_none (s r : Bytes) (h : r.length < s.length) : xorPrefix s r = none := by
  induction s generalizing r with
  | nil => simp at h
  | cons a s ih =>
    cases r with
    | nil => simp [xorPrefix]
    | cons b r =>
      simp only [List.length_cons, Nat.add_lt_add_iff_right] at h
      simp [xorPrefix, ih r h]

theorem xor_length (a b : Bytes) (h : a.length = b.length) : (xor a b).length = a.length := by
  induction a generalizing b with
  | nil => simp [xor]
  | cons x a ih =>
    cases b with
    | nil => simp at h
    | cons y b => simp only [List.length_cons, Nat.add_right_cancel_iff] at h; simp [xor, ih b h]

/-- `b ⊕ (a ⊕ b) = a` for byte strings of equal length. -/
theorem xor_cancel (a b : Bytes) (h : a.length = b.length) : xor b (xor a b) = a := by
  induction a generalizing b with
  | nil => cases b <;> simp [xor] at h ⊢
  | cons x a ih =>
    cases b with
    | nil => simp at h
    | cons y b =>
      simp only [List.length_cons, Nat.add_right_cancel_iff] at h
      simp only [xor, ih b h, List.cons.injEq, and_true]
      rw [UInt8.xor_comm x y, ← UInt8.xor_assoc, UInt8.xor_self, UInt8.zero_xor]

/-- Bytes after `len(scramble)` are never read. -/
theorem xor_append_right (s r extra : Bytes) (h : s.length ≤ r.length) : xor s (r ++ extra) = xor s r := by
  induction s generalizing r with
  | nil => cases r <;> cases extra <;> simp [xor]
  | cons a s ih =>
    cases r with
    | nil => simp at h
    | cons b r =>
      simp only [List.length_cons, Nat.add_le_add_iff_right] at h
      simp [xor, ih r h]

/-! ## Lemmas: `GetUser` on a list of accounts -/

theorem findIdx_map_some (P : String × String → Bool) (l : List Acct) (i : Nat)
    (h : findIdx P (keysOfAccts l) = some i) :
    ∃ a, l[i]? = some a ∧ l.find? (fun a => P (a.name, a.host)) = some a := by
  induction l generalizing i with
  | nil => simp [keysOfAccts, findIdx] at h
  | cons a l ih =>
    simp only [keysOfAccts, List.map_cons, findIdx] at h
    by_cases hp : P (a.name, a.host) = true
    · simp only [hp, if_true, Option.some.injEq] at h
      subst h
      exact ⟨a, by simp, by simp [List.find?, hp]⟩
    · simp only [hp, Bool.false_eq_true, if_false, Option.map_eq_some_iff] at h
      obtain ⟨j, hj, rfl⟩ := h
      obtain ⟨k, hk1, hk2⟩ := ih j hj
      exact ⟨k, by simpa using hk1, by simp [List.find?, hp, hk2]⟩

theorem findIdx_map_none (P : String × String → Bool) (l : List Acct)
    (h : findIdx P (keysOfAccts l) = none) : l.find? (fun a => P (a.name, a.host)) = none := by
  induction l with
  | nil => rfl
  | cons a l ih =>
    simp only [keysOfAccts, List.map_cons, findIdx] at h
    by_cases hp : P (a.name, a.host) = true
    · simp [hp] at h
    · simp only [hp, Bool.false_eq_true, if_false, Option.map_eq_none_iff] at h
      simp [List.find?, hp, ih h]

end Gms.Auth

namespace Gms.C40
open Gms.Priv Gms.Auth

/-! ## Regenerated facts -/

set_option maxRecDepth 20000 in
/-- The default (decoy) method, the guards of `validateMysqlNativePassword` before its XOR loop — the last
one is the response-length check `len(authResponse) != len(scramble)`, the repair of findings F-C40-a/b —
the loop itself, the sequence of hash steps with the final whole-hash comparison, the order of all of these
(`nativeSkeleton`: the length check sits between `scramble := crypt.Sum(nil)` and the loop and returns
`false`), and the decision skeletons of the four entry points are the ones the model is written for;
`ValidateHash` has the same skeleton as `UserEntryWithHash` minus the connection-security check. If the
length check disappears again this obligation breaks and `fixed_native_short_response_oob` below is the
replay. -/
theorem facts_match :
    Generated.C40.defaultAuthMethod = defaultAuthMethod ∧
    Generated.C40.defaultAuthMethodExpr = "mysql.MysqlNativePassword" ∧
    Generated.C40.nativeGuards = ["len(authResponse) == 0 || len(mysqlNativePassword) == 0", "mysqlNativePassword[0] == '*'", "err != nil",
      "len(authResponse) != len(scramble)"] ∧
    Generated.C40.nativeXorLoop = "scramble:{ scramble[i] ^= authResponse[i] }" ∧
    Generated.C40.nativeSkeleton = ["if len(authResponse) == 0 || len(mysqlNativePassword) == 0 { return false }",
      "if mysqlNativePassword[0] == '*' { mysqlNativePassword = mysqlNativePassword[1:] }",
      "hash, err := hex.DecodeString(mysqlNativePassword)", "if err != nil { return false }",
      "crypt := sha1.New()", "crypt.Write(salt)", "crypt.Write(hash)", "scramble := crypt.Sum(nil)",
      "if len(authResponse) != len(scramble) { return false }",
      "for i := range scramble { scramble[i] ^= authResponse[i] }",
      "stage1Hash := scramble", "crypt.Reset()", "crypt.Write(stage1Hash)", "candidateHash2 := crypt.Sum(nil)",
      "return bytes.Equal(candidateHash2, hash)"] ∧
    Generated.C40.nativeSteps = ["hash, err := hex.DecodeString(mysqlNativePassword)", "crypt := sha1.New()", "crypt.Write(salt)",
      "crypt.Write(hash)", "scramble := crypt.Sum(nil)", "stage1Hash := scramble", "crypt.Reset()", "crypt.Write(stage1Hash)",
      "candidateHash2 := crypt.Sum(nil)", "return bytes.Equal(candidateHash2, hash)"] ∧
    Generated.C40.userEntryWithHashConds = ["err != nil", "!db.Enabled()", "userEntry == nil || userEntry.Locked", "err != nil",
      "len(userEntry.AuthString) > 0", "!validateMysqlNativePassword(authResponse, salt, userEntry.AuthString)", "len(authResponse) > 0"] ∧
    Generated.C40.validateHashConds = ["err != nil", "!db.Enabled()", "userEntry == nil || userEntry.Locked",
      "len(userEntry.AuthString) > 0", "!validateMysqlNativePassword(authResponse, salt, userEntry.AuthString)", "len(authResponse) > 0"] ∧
    Generated.C40.handleUserConds = ["!uv.db.Enabled()", "err != nil", "userEntry == nil"] ∧
    Generated.C40.sha2FastConds = ["!db.Enabled()", "emptyClientAuthResponse", "err != nil", "userEntry == nil || userEntry.Locked",
      "err != nil", "userEntry.AuthString == \"\""] ∧
    Generated.C40.getUserConds = ["\"127.0.0.1\" == host || \"::1\" == host", "ok",
      "host == user.Host || (host == \"localhost\" && user.Host == \"::1\") || (host == \"localhost\" && user.Host == \"127.0.0.1\") || (user.Host == \"%\" && (!roleSearch || host == \"\")) || matchesHostPattern(host, user.Host) || (originalHost != host && matchesHostPattern(originalHost, user.Host))"] := by
  refine ⟨by decide, by decide, by decide, by decide, by decide, by decide, by decide, by decide, by decide, by decide, by decide⟩

/-! ## The scramble check -/

/-- A toy 20-byte "hash" (constant) and a stored value decoding to its output, for concrete instances of the
theorems below (`decide` cannot run the real SHA-1; the theorems hold for every `H`). -/
def toyH : Bytes → Bytes := fun _ => List.replicate 20 0
def toyStored : List Char := '*' :: List.replicate 40 '0'

/-- **Completeness.** A client that knows `h1 = H(password)` is accepted for an account whose stored value
decodes to `H h1`, for every salt. -/
theorem native_complete (H : Bytes → Bytes) (hH : ∀ x, (H x).length = 20) (salt h1 : Bytes) (stored : List Char)
    (hs : decodeStored stored = some (H h1)) (hne : stored ≠ []) (hl : h1.length = 20) :
    validateNative H (clientToken H salt h1) salt stored = some true ∧
    validateNativeSpec H (clientToken H salt h1) salt stored = true := by
  have hlen : (clientToken H salt h1).length = 20 := by
    simp only [clientToken]; rw [xor_length _ _ (by rw [hl, hH])]; exact hl
  have hcancel : xor (H (salt ++ H h1)) (clientToken H salt h1) = h1 :=
    xor_cancel h1 (H (salt ++ H h1)) (by rw [hl, hH])
  have hne' : stored.isEmpty = false := by cases stored <;> simp_all
  have hre : (clientToken H salt h1).isEmpty = false := by
    cases hc : clientToken H salt h1 with
    | nil => rw [hc] at hlen; simp at hlen
    | cons _ _ => rfl
  have hguard : ((clientToken H salt h1).length != (H (salt ++ H h1)).length) = false := by
    rw [hlen, hH]; rfl
  constructor
  · simp only [validateNative, hre, hne', Bool.or_self, Bool.false_eq_true, if_false, hs, hguard]
    rw [xorPrefix_eq_xor _ _ (by simp [hH, hlen]), hcancel]
    simp
  · simp only [validateNativeSpec, hs, hne', hlen, hcancel]
    simp

/-- **Soundness.** An accepted response has the length of the scramble and exhibits a preimage of the stored
hash under `H`: the strongest statement available with `H` uninterpreted (knowledge of `H(password)`). -/
theorem native_sound (H : Bytes → Bytes) (resp salt : Bytes) (stored : List Char)
    (h : validateNative H resp salt stored = some true) :
    ∃ hash stage1, decodeStored stored = some hash ∧ resp.length = (H (salt ++ hash)).length ∧
      xorPrefix (H (salt ++ hash)) resp = some stage1 ∧ H stage1 = hash := by
  simp only [validateNative] at h
  split at h
  · simp at h
  · cases hd : decodeStored stored with
    | none => simp [hd] at h
    | some hash =>
      simp only [hd] at h
      split at h
      · simp at h
      · rename_i hg
        have hlen : resp.length = (H (salt ++ hash)).length := by simpa using hg
        cases hx : xorPrefix (H (salt ++ hash)) resp with
        | none => simp [hx] at h
        | some stage1 =>
          simp only [hx, Option.some.injEq, beq_iff_eq] at h
          exact ⟨hash, stage1, rfl, hlen, hx, h⟩

theorem native_sound_spec (H : Bytes → Bytes) (resp salt : Bytes) (stored : List Char)
    (h : validateNativeSpec H resp salt stored = true) :
    ∃ hash, decodeStored stored = some hash ∧ resp.length = 20 ∧ H (xor (H (salt ++ hash)) resp) = hash := by
  simp only [validateNativeSpec] at h
  cases hd : decodeStored stored with
  | none => simp [hd] at h
  | some hash =>
    simp only [hd, Bool.and_eq_true, beq_iff_eq] at h
    exact ⟨hash, rfl, h.1.2, h.2⟩

/-- **The scramble check is the Spec's — full statement (holds since the `fix:` commit).** For every
20-byte hash function, every response, salt and stored value, `validateMysqlNativePassword` returns exactly
what the Spec demands: `true` for a 20-byte token `t` with `H (t ⊕ H (salt ++ stored)) = stored`, `false` for
everything else (empty, short, long response; empty or undecodable stored hash) — and it returns, i.e. does
not panic. (Before the repair this held only outside the regions `shortResponse` / `longResponse`.) -/
theorem native_impl_eq_spec (H : Bytes → Bytes) (hH : ∀ x, (H x).length = 20) (resp salt : Bytes) (stored : List Char) :
    validateNative H resp salt stored = some (validateNativeSpec H resp salt stored) := by
  simp only [validateNative, validateNativeSpec]
  by_cases hr : resp.isEmpty = true
  · have : resp.length = 0 := by cases resp <;> simp_all
    cases hd : decodeStored stored <;> simp [hr, this]
  · by_cases hst : stored.isEmpty = true
    · cases hd : decodeStored stored <;> simp [hst]
    · simp only [hr, hst, Bool.or_self, Bool.false_eq_true, if_false]
      cases hd : decodeStored stored with
      | none => rfl
      | some hash =>
        simp only [hH]
        by_cases h20 : resp.length = 20
        · have hg : (resp.length != 20) = false := by rw [h20]; rfl
          simp only [hg, Bool.false_eq_true, if_false]
          rw [xorPrefix_eq_xor _ _ (by simp [hH, h20])]
          simp [h20]
        · have hg : (resp.length != 20) = true := by simp [h20]
          simp [hg, h20]

/-- Non-vacuity of `native_impl_eq_spec`'s hypothesis, and both verdicts on concrete inputs (a toy 20-byte
"hash"): a 20-byte response is checked, a 19-byte and a 21-byte one are rejected without a panic. -/
example : (∀ x, (toyH x).length = 20)
    ∧ validateNative toyH (List.replicate 20 0) [1, 2] toyStored = some true
    ∧ validateNative toyH (List.replicate 19 0) [1, 2] toyStored = some false
    ∧ validateNative toyH (List.replicate 21 0) [1, 2] toyStored = some false := by
  refine ⟨fun _ => by simp [toyH], by decide, by decide, by decide⟩

/-- **No panic — for every function `H`**, even one that does not return 20 bytes: the XOR loop is only
reached with a response exactly as long as the scramble. -/
theorem native_no_crash (H : Bytes → Bytes) (resp salt : Bytes) (stored : List Char) :
    validateNative H resp salt stored ≠ none := by
  simp only [validateNative]
  split
  · simp
  · cases hd : decodeStored stored with
    | none => simp
    | some hash =>
      simp only []
      split
      · simp
      · rename_i hg
        have hlen : resp.length = (H (salt ++ hash)).length := by simpa using hg
        rw [xorPrefix_eq_xor _ _ (by omega)]
        simp

/-- A response whose length is not 20 is rejected, whatever else is the case. -/
theorem native_wrong_length_rejected (H : Bytes → Bytes) (hH : ∀ x, (H x).length = 20) (resp salt : Bytes)
    (stored : List Char) (h : resp.length ≠ 20) :
    validateNative H resp salt stored = some false := by
  rw [native_impl_eq_spec H hH]
  simp only [validateNativeSpec]
  cases decodeStored stored with
  | none => rfl
  | some hash =>
    have : (resp.length == 20) = false := by simp [h]
    simp [this]

/-- **Repaired defect F-C40-a (`native_short_response_oob`).** Before the `fix:` commit, for every 20-byte
hash function, every salt and every account with a decodable stored hash, a response of 1–19 bytes made
`validateMysqlNativePassword` index past the response (run-time panic: `none` in the pre-fix model) instead
of rejecting it; the repaired function rejects it, as the Spec demands. -/
theorem fixed_native_short_response_oob (H : Bytes → Bytes) (hH : ∀ x, (H x).length = 20) (resp salt : Bytes)
    (stored : List Char) (h : shortResponse resp stored = true) :
    validateNativePreFix H resp salt stored = none ∧ validateNative H resp salt stored = some false ∧
      validateNativeSpec H resp salt stored = false := by
  simp only [shortResponse, Bool.and_eq_true, decide_eq_true_eq, Bool.not_eq_true', Option.isSome_iff_exists] at h
  obtain ⟨⟨⟨hpos, hlt⟩, hst⟩, hash, hd⟩ := h
  have hr : resp.isEmpty = false := by cases resp <;> simp_all
  have hspec : validateNativeSpec H resp salt stored = false := by
    simp only [validateNativeSpec, hd]
    have : (resp.length == 20) = false := by simp; omega
    simp [this]
  refine ⟨?_, ?_, hspec⟩
  · simp only [validateNativePreFix, hr, hst, Bool.or_self, Bool.false_eq_true, if_false, hd]
    rw [xorPrefix_none _ _ (by rw [hH]; exact hlt)]
  · rw [native_impl_eq_spec H hH, hspec]

/-- The region is inhabited (the witness replayed on the real code: 19 zero bytes against the hash of "pw";
it stays in the harness corpus and must now be rejected without a panic), and the defect on a concrete
input with a toy 20-byte "hash": the pre-fix model panics, the repaired one rejects. -/
example : shortResponse (List.replicate 19 0) "*D821809F681A40A6E379B50D0463EFAE20BDD122".toList = true := by decide

example :
    validateNativePreFix toyH (List.replicate 19 0) [] "*D821809F681A40A6E379B50D0463EFAE20BDD122".toList = none
    ∧ validateNative toyH (List.replicate 19 0) [] "*D821809F681A40A6E379B50D0463EFAE20BDD122".toList = some false := by
  constructor <;> decide

/-- **Repaired defect F-C40-b (`native_long_response_accepted`).** Before the `fix:` commit the bytes of the
response after the 20th were never read: a valid token followed by arbitrary extra bytes was accepted,
although it is not a well-formed response; the repaired function rejects it (the same length guard). -/
theorem fixed_native_long_response_accepted (H : Bytes → Bytes) (hH : ∀ x, (H x).length = 20) (salt h1 extra : Bytes)
    (stored : List Char) (hs : decodeStored stored = some (H h1)) (hne : stored ≠ []) (hl : h1.length = 20)
    (hex : extra ≠ []) :
    validateNativePreFix H (clientToken H salt h1 ++ extra) salt stored = some true ∧
    validateNative H (clientToken H salt h1 ++ extra) salt stored = some false ∧
    validateNativeSpec H (clientToken H salt h1 ++ extra) salt stored = false := by
  have hlen : (clientToken H salt h1).length = 20 := by
    simp only [clientToken]; rw [xor_length _ _ (by rw [hl, hH])]; exact hl
  have hcancel : xor (H (salt ++ H h1)) (clientToken H salt h1) = h1 :=
    xor_cancel h1 (H (salt ++ H h1)) (by rw [hl, hH])
  have hne' : stored.isEmpty = false := by cases stored <;> simp_all
  have hre : (clientToken H salt h1 ++ extra).isEmpty = false := by
    cases extra with
    | nil => exact absurd rfl hex
    | cons e es => simp
  have hspec : validateNativeSpec H (clientToken H salt h1 ++ extra) salt stored = false := by
    have : ((clientToken H salt h1 ++ extra).length == 20) = false := by
      have : 0 < extra.length := by cases extra <;> simp_all
      simp [List.length_append, hlen]; omega
    simp only [validateNativeSpec, hs, this, Bool.and_false, Bool.false_and]
  refine ⟨?_, ?_, hspec⟩
  · simp only [validateNativePreFix, hre, hne', Bool.or_self, Bool.false_eq_true, if_false, hs]
    rw [xorPrefix_eq_xor _ _ (by rw [hH, List.length_append, hlen]; omega),
      xor_append_right _ _ _ (by simp [hH, hlen]), hcancel]
    simp
  · rw [native_impl_eq_spec H hH, hspec]

/-- The hypotheses of `fixed_native_long_response_accepted` are satisfiable (toy 20-byte "hash"), and the
defect on that concrete input: 20 zero bytes are the token, a 21st byte was ignored before the repair. -/
example :
    decodeStored toyStored = some (toyH [])
    ∧ validateNativePreFix toyH (List.replicate 20 0 ++ [7]) [1, 2] toyStored = some true
    ∧ validateNative toyH (List.replicate 20 0 ++ [7]) [1, 2] toyStored = some false := by
  refine ⟨by decide, by decide, by decide⟩

/-! ## The login decision -/

/-- **Accept iff.** With the accounts database enabled, the native login is accepted exactly when `GetUser`
finds an account, that account is not locked, and either it has a password and the scramble check succeeds
or it has none and the response is empty; the connection then runs as that account. -/
theorem authNative_accept_iff (H : Bytes → Bytes) (accts : List Acct) (user host u h : String) (salt resp : Bytes) :
    authNative H true accts user host salt resp = .accept u h ↔
      ∃ a, chooseImpl accts user host = some a ∧ a.locked = false ∧ u = a.name ∧ h = a.host ∧
        ((a.auth ≠ [] ∧ validateNative H resp salt a.auth = some true) ∨ (a.auth = [] ∧ resp = [])) := by
  simp only [authNative, Bool.not_true, Bool.false_eq_true, if_false]
  cases hc : chooseImpl accts user host with
  | none => simp
  | some a =>
    simp only [checkAcct, Option.some.injEq, exists_eq_left']
    cases hl : a.locked
    · simp only [Bool.false_eq_true, if_false, true_and]
      cases ha : a.auth with
      | nil =>
        cases resp with
        | nil => simp [eq_comm]
        | cons r rs => simp
      | cons c cs =>
        simp only [List.isEmpty_cons, Bool.not_false, if_true]
        cases hv : validateNative H resp salt (c :: cs) with
        | none => simp
        | some b => cases b <;> simp [eq_comm]
    · simp

theorem locked_rejected (H : Bytes → Bytes) (accts : List Acct) (user host : String) (salt resp : Bytes) (a : Acct)
    (hc : chooseImpl accts user host = some a) (hl : a.locked = true) :
    authNative H true accts user host salt resp = .deny := by
  simp [authNative, hc, checkAcct, hl]

theorem unknown_rejected (H : Bytes → Bytes) (accts : List Acct) (user host : String) (salt resp : Bytes)
    (hc : chooseImpl accts user host = none) :
    authNative H true accts user host salt resp = .deny := by
  simp [authNative, hc]

/-- An account without a password accepts exactly the empty response. -/
theorem empty_password_iff_empty_response (H : Bytes → Bytes) (accts : List Acct) (user host : String) (salt resp : Bytes)
    (a : Acct) (hc : chooseImpl accts user host = some a) (hl : a.locked = false) (ha : a.auth = []) :
    authNative H true accts user host salt resp = .accept a.name a.host ↔ resp = [] := by
  rw [authNative_accept_iff]
  constructor
  · rintro ⟨b, hb, _, _, _, h⟩
    rw [hc] at hb; cases hb
    rcases h with ⟨h1, _⟩ | ⟨_, h2⟩
    · exact absurd ha h1
    · exact h2
  · intro hr; exact ⟨a, hc, hl, rfl, rfl, Or.inr ⟨ha, hr⟩⟩

/-- An accepted connection runs as the account `GetUser` matched (its name and its host *pattern*). -/
theorem runs_as_matched_account (H : Bytes → Bytes) (accts : List Acct) (user host u h : String) (salt resp : Bytes)
    (hacc : authNative H true accts user host salt resp = .accept u h) :
    ∃ a, chooseImpl accts user host = some a ∧ (u, h) = (a.name, a.host) := by
  obtain ⟨a, hc, _, hu, hh, _⟩ := (authNative_accept_iff H accts user host u h salt resp).1 hacc
  exact ⟨a, hc, by rw [hu, hh]⟩

/-- **The login never panics — full statement (holds since the `fix:` commit)**: for every function `H`,
every account list, login and response (before the repair: only outside the short-response region). -/
theorem authNative_no_crash (H : Bytes → Bytes) (enabled : Bool) (accts : List Acct)
    (user host : String) (salt resp : Bytes) :
    authNative H enabled accts user host salt resp ≠ .crash := by
  simp only [authNative]
  split
  · simp
  · cases hc : chooseImpl accts user host with
    | none => simp
    | some a =>
      simp only [checkAcct]
      split
      · simp
      · split
        · cases hv : validateNative H resp salt a.auth with
          | some b => cases b <;> simp
          | none => exact absurd hv (native_no_crash H resp salt a.auth)
        · split <;> simp

/-- With the repaired scramble check the credential check against an account is the Spec's. -/
theorem checkAcct_impl_eq_spec (H : Bytes → Bytes) (hH : ∀ x, (H x).length = 20) (a : Acct) (salt resp : Bytes) :
    checkAcct (validateNative H) a salt resp =
      checkAcct (fun r s st => some (validateNativeSpec H r s st)) a salt resp := by
  simp only [checkAcct, native_impl_eq_spec H hH]

/-- **The login decision is the Spec's whenever `GetUser` picks the account the Spec picks** (the only
remaining difference between code and Spec is the choice of the account, finding
`match_order_by_insertion`); in particular a short or over-long response is denied, not a panic and not an
acceptance. -/
theorem authNative_eq_spec_of_same_account (H : Bytes → Bytes) (hH : ∀ x, (H x).length = 20) (accts : List Acct)
    (user host : String) (salt resp : Bytes) (a : Acct)
    (hi : chooseImpl accts user host = some a) (hsp : chooseSpec accts user host = some (some a)) :
    authNativeSpec H accts user host salt resp = some (authNative H true accts user host salt resp) := by
  simp only [authNativeSpec, authNative, hi, hsp, Bool.not_true, Bool.false_eq_true, if_false,
    checkAcct_impl_eq_spec H hH]

/-- Non-vacuity: a single account, the login it matches. -/
example : chooseImpl [{ name := "u", host := "%", plugin := "mysql_native_password", auth := "*AA".toList, locked := false }] "u" "10.0.0.5"
      = some { name := "u", host := "%", plugin := "mysql_native_password", auth := "*AA".toList, locked := false }
    ∧ chooseSpec [{ name := "u", host := "%", plugin := "mysql_native_password", auth := "*AA".toList, locked := false }] "u" "10.0.0.5"
      = some (some { name := "u", host := "%", plugin := "mysql_native_password", auth := "*AA".toList, locked := false }) := by
  decide

/-! ## Which account a login is checked against -/

/-- `GetUser` on a list of accounts: exact (name, normalised host) first, then the first account of the name
whose host accepts the client, then the first such anonymous account — in list (= insertion) order. -/
theorem chooseImpl_eq_find (accts : List Acct) (user host : String) :
    chooseImpl accts user host =
      ((accts.find? (fun a => decide (a.host = normHost host ∧ a.name = user))).or
        ((accts.find? (fun a => a.name = user && hostMatches (normHost host) host a.host false)).or
          (accts.find? (fun a => a.name = "" && hostMatches (normHost host) host a.host false)))) := by
  simp only [chooseImpl, getUserIdx]
  cases h1 : findIdx (fun k => decide (k.2 = normHost host ∧ k.1 = user)) (keysOfAccts accts) with
  | some i =>
    obtain ⟨k, hk1, hk2⟩ := findIdx_map_some _ _ _ h1
    rw [hk2]; simp [hk1]
  | none =>
    rw [findIdx_map_none _ _ h1]
    cases h2 : findIdx (fun k => k.1 = user && hostMatches (normHost host) host k.2 false) (keysOfAccts accts) with
    | some i =>
      obtain ⟨k, hk1, hk2⟩ := findIdx_map_some _ _ _ h2
      rw [hk2]; simp [hk1]
    | none =>
      rw [findIdx_map_none _ _ h2]
      cases h3 : findIdx (fun k => k.1 = "" && hostMatches (normHost host) host k.2 false) (keysOfAccts accts) with
      | some i =>
        obtain ⟨k, hk1, hk2⟩ := findIdx_map_some _ _ _ h3
        rw [hk2]; simp [hk1]
      | none =>
        rw [findIdx_map_none _ _ h3]
        simp

/-- The chosen account is one of the accounts, carries the login's name or is anonymous, and accepts the
client host. -/
theorem chooseImpl_matches (accts : List Acct) (user host : String) (a : Acct) (h : chooseImpl accts user host = some a) :
    a ∈ accts ∧ (acctMatches user host a = true ∨ acctMatches "" host a = true) := by
  rw [chooseImpl_eq_find] at h
  simp only [Option.or_eq_some_iff] at h
  rcases h with h | ⟨_, h | ⟨_, h⟩⟩
  · have := List.find?_some h
    simp only [decide_eq_true_eq] at this
    exact ⟨List.mem_of_find?_eq_some h, Or.inl (by simp [acctMatches, this.1, this.2])⟩
  · have := List.find?_some h
    simp only [Bool.and_eq_true, decide_eq_true_eq] at this
    exact ⟨List.mem_of_find?_eq_some h, Or.inl (by simp [acctMatches, this.1, this.2])⟩
  · have := List.find?_some h
    simp only [Bool.and_eq_true, decide_eq_true_eq] at this
    exact ⟨List.mem_of_find?_eq_some h, Or.inr (by simp [acctMatches, this.1, this.2])⟩

/-- **Finding F-C40-c (`match_order_by_insertion`).** When two accounts of one name accept the client the
code checks the login against the one inserted first, not against the most specific host: with `u@%`
created before `u@127.0.0.1`, a client on the loopback address is checked against `u@%` — the owner of the
`u@127.0.0.1` password is rejected (and the holder of the `u@%` password is let in as `u@%`). -/
def wAccts : List Acct :=
  [{ name := "u", host := "%", plugin := "mysql_native_password", auth := "*AA".toList, locked := false },
   { name := "u", host := "127.0.0.1", plugin := "mysql_native_password", auth := "*BB".toList, locked := false }]

theorem finding_match_order_by_insertion :
    chooseImpl wAccts "u" "127.0.0.1" = wAccts[0]? ∧
    chooseSpec wAccts "u" "127.0.0.1" = some (wAccts[1]?) ∧
    matchOrderDiffers wAccts "u" "127.0.0.1" = true ∧
    chooseImpl wAccts.reverse "u" "127.0.0.1" = wAccts[1]? := by
  decide

/-! ## Method negotiation and the caching_sha2 fast path -/

/-- `HandleUser`: a known account is offered exactly its own plugin; an unknown login exactly the default
method (decoy), so that it fails inside the plugin like a wrong password. -/
theorem handleUser_iff (accts : List Acct) (method user host : String) :
    handleUser true accts method user host = true ↔
      (∃ a, chooseImpl accts user host = some a ∧ a.plugin = method) ∨
      (chooseImpl accts user host = none ∧ method = defaultAuthMethod) := by
  simp only [handleUser, Bool.not_true, Bool.false_eq_true, if_false]
  cases chooseImpl accts user host <;> simp

/-- The fast path accepts only an empty (or single zero byte) response for an unlocked account without a
password, and never accepts anything else. -/
theorem sha2Fast_accept_iff (accts : List Acct) (user host u h : String) (resp : Bytes) :
    sha2Fast true accts user host resp = .accept u h ↔
      (resp = [] ∨ resp = [0]) ∧ u = user ∧ h = host ∧
        ∃ a, chooseImpl accts user host = some a ∧ a.locked = false ∧ a.auth = [] := by
  simp only [sha2Fast, Bool.not_true, Bool.false_eq_true, if_false]
  by_cases hr : (resp.isEmpty || resp == [0]) = true
  · have hr' : resp = [] ∨ resp = [0] := by
      simp only [Bool.or_eq_true, beq_iff_eq] at hr
      rcases hr with h | h
      · left; cases resp <;> simp_all
      · right; exact h
    simp only [hr, if_true, hr', true_and]
    cases chooseImpl accts user host with
    | none => simp
    | some a =>
      simp only [Option.some.injEq, exists_eq_left']
      cases hl : a.locked
      · cases ha : a.auth with
        | nil =>
          simp only [Bool.false_eq_true, if_false, List.isEmpty_nil, if_true, Out.accept.injEq, and_true]
          exact ⟨fun ⟨h1, h2⟩ => ⟨h1.symm, h2.symm⟩, fun ⟨h1, h2⟩ => ⟨h1.symm, h2.symm⟩⟩
        | cons c cs => simp
      · simp
  · have hr' : ¬(resp = [] ∨ resp = [0]) := by
      intro h
      apply hr
      rcases h with rfl | rfl <;> simp
    simp [hr, hr']

end Gms.C40
