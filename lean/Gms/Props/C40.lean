/-
C40 — Authentication accepts exactly the valid credentials.

Model: Gms/Model/Auth.lean. SHA-1 is an uninterpreted function `H` in every theorem (hypothesis used where
needed: `H` returns 20 bytes). Property theorems are in `namespace Gms.C40`.

  scramble check   `native_complete`, `native_sound`, `native_impl_eq_spec` (full statement, holds since the
                   `fix:` commit that added `if len(authResponse) != len(scramble) { return false }`),
                   `native_no_crash`; the two repaired defects are kept as witnesses about the pre-fix
                   model: `fixed_native_short_response_oob` (the old code panicked on a 1–19-byte response),
                   `fixed_native_long_response_accepted` (bytes after the 20th were never read)
  login decision   `authNative_accept_iff` and its corollaries `locked_rejected`, `unknown_rejected`,
                   `empty_password_iff_empty_response`, `runs_as_matched_account`; `authNative_no_crash`,
                   `authNative_eq_spec_of_same_account`
  account choice   `chooseImpl_eq_find` (GetUser as a cascade), `unique_match_agree`
                   (false in general: `finding_match_order_by_insertion`), order-independence for
                   unambiguous logins is `Gms.C41.account_lookup_order_independent`
  negotiation      `handleUser_iff`, `sha2Fast_accept_iff`
  host patterns    `facts_host_pattern_table` (the compiled matcher on a complete small domain),
                   `glob_iff_matches` (the matcher decides the language of the code's regular expression),
                   `matchesHostPattern_eq` (C39's model is that matcher), `match_is_interleave` (a match is the
                   pattern's segments, in order and DISJOINT, interleaved with gaps), `single_wildcard_iff`,
                   `match_needs_room` / `short_host_rejected` (a host shorter than the pattern's literals never
                   matches), `overlap_matcher_unsound` (the defect class: pieces looked up independently),
                   `glob_eq_like_of_no_underscore` / `underscore_is_literal` (MySQL's LIKE rule, `_`)
  histories        `login_reads_current_table`, `stepI_eq_stepS_of_ok`, `stateI_eq_stateS_of_ok`,
                   `loginI_eq_loginS_of_same_account`,
                   `finding_create_user_account_lock_ignored`,
                   `finding_dml_update_keeps_old_row_of_scoped_account`, `cache_coherent`,
                   `stale_cache_diverges`
-/
import Gms.Model.Auth
import Gms.Model.AuthHist
import Gms.Lemmas.HostPattern
import Gms.Lemmas.PrivSerial
import Gms.Generated.C40

namespace Gms.Auth
open Gms.Priv

/-! ## Lemmas: XOR -/

theorem xorPrefix_eq_xor (s r : Bytes) (h : s.length ≤ r.length) : xorPrefix s r = some (xor s r) := by
  induction s generalizing r with
  | nil => cases r <;> simp [xorPrefix, xor]
  | cons a s ih =>
    cases r with
    | nil => simp at h
    | cons b r =>
      simp only [List.length_cons, Nat.add_le_add_iff_right] at h
      simp [xorPrefix, xor, ih r h]

theorem xorPrefix_none (s r : Bytes) (h : r.length < s.length) : xorPrefix s r = none := by
  induction s generalizing r with
  | nil => simp at h
  | cons a s ih =>
    cases r with
    | nil => simp [xorPrefix]
    | cons b r =>
      simp only [List.length_cons, Nat.add_lt_add_iff_right] at h
      simp [xorPrefix, ih r h]

theorem xor_length (a b : Bytes) (h : a.length = b.length) : (xor a b).length = a.length := by
  induction a generalizing b with
  | nil => simp [xor]
  | cons x a ih =>
    cases b with
    | nil => simp at h
    | cons y b => simp only [List.length_cons, Nat.add_right_cancel_iff] at h; simp [xor, ih b h]

/-- `b ⊕ (a ⊕ b) = a` for byte strings of equal length. -/
theorem xor_cancel (a b : Bytes) (h : a.length = b.length) : xor b (xor a b) = a := by
  induction a generalizing b with
  | nil => cases b <;> simp [xor] at h ⊢
  | cons x a ih =>
    cases b with
    | nil => simp at h
    | cons y b =>
      simp only [List.length_cons, Nat.add_right_cancel_iff] at h
      simp only [xor, ih b h, List.cons.injEq, and_true]
      rw [UInt8.xor_comm x y, ← UInt8.xor_assoc, UInt8.xor_self, UInt8.zero_xor]

/-- Bytes after `len(scramble)` are never read. -/
theorem xor_append_right (s r extra : Bytes) (h : s.length ≤ r.length) : xor s (r ++ extra) = xor s r := by
  induction s generalizing r with
  | nil => cases r <;> cases extra <;> simp [xor]
  | cons a s ih =>
    cases r with
    | nil => simp at h
    | cons b r =>
      simp only [List.length_cons, Nat.add_le_add_iff_right] at h
      simp [xor, ih r h]

/-! ## Lemmas: `GetUser` on a list of accounts -/

theorem findIdx_map_some (P : String × String → Bool) (l : List Acct) (i : Nat)
    (h : findIdx P (keysOfAccts l) = some i) :
    ∃ a, l[i]? = some a ∧ l.find? (fun a => P (a.name, a.host)) = some a := by
  induction l generalizing i with
  | nil => simp [keysOfAccts, findIdx] at h
  | cons a l ih =>
    simp only [keysOfAccts, List.map_cons, findIdx] at h
    by_cases hp : P (a.name, a.host) = true
    · simp only [hp, if_true, Option.some.injEq] at h
      subst h
      exact ⟨a, by simp, by simp [List.find?, hp]⟩
    · simp only [hp, Bool.false_eq_true, if_false, Option.map_eq_some_iff] at h
      obtain ⟨j, hj, rfl⟩ := h
      obtain ⟨k, hk1, hk2⟩ := ih j hj
      exact ⟨k, by simpa using hk1, by simp [List.find?, hp, hk2]⟩

theorem findIdx_map_none (P : String × String → Bool) (l : List Acct)
    (h : findIdx P (keysOfAccts l) = none) : l.find? (fun a => P (a.name, a.host)) = none := by
  induction l with
  | nil => rfl
  | cons a l ih =>
    simp only [keysOfAccts, List.map_cons, findIdx] at h
    by_cases hp : P (a.name, a.host) = true
    · simp [hp] at h
    · simp only [hp, Bool.false_eq_true, if_false, Option.map_eq_none_iff] at h
      simp [List.find?, hp, ih h]

end Gms.Auth

namespace Gms.C40
open Gms.Priv Gms.Auth

/-! ## Regenerated facts -/

set_option maxRecDepth 20000 in
/-- The default (decoy) method, the guards of `validateMysqlNativePassword` before its XOR loop — the last
one is the response-length check `len(authResponse) != len(scramble)`, the repair of findings F-C40-a/b —
the loop itself, the sequence of hash steps with the final whole-hash comparison, the order of all of these
(`nativeSkeleton`: the length check sits between `scramble := crypt.Sum(nil)` and the loop and returns
`false`), and the decision skeletons of the four entry points are the ones the model is written for;
`ValidateHash` has the same skeleton as `UserEntryWithHash` minus the connection-security check. If the
length check disappears again this obligation breaks and `fixed_native_short_response_oob` below is the
replay. -/
theorem facts_match :
    Generated.C40.defaultAuthMethod = defaultAuthMethod ∧
    Generated.C40.defaultAuthMethodExpr = "mysql.MysqlNativePassword" ∧
    Generated.C40.nativeGuards = ["len(authResponse) == 0 || len(mysqlNativePassword) == 0", "mysqlNativePassword[0] == '*'", "err != nil",
      "len(authResponse) != len(scramble)"] ∧
    Generated.C40.nativeXorLoop = "scramble:{ scramble[i] ^= authResponse[i] }" ∧
    Generated.C40.nativeSkeleton = ["if len(authResponse) == 0 || len(mysqlNativePassword) == 0 { return false }",
      "if mysqlNativePassword[0] == '*' { mysqlNativePassword = mysqlNativePassword[1:] }",
      "hash, err := hex.DecodeString(mysqlNativePassword)", "if err != nil { return false }",
      "crypt := sha1.New()", "crypt.Write(salt)", "crypt.Write(hash)", "scramble := crypt.Sum(nil)",
      "if len(authResponse) != len(scramble) { return false }",
      "for i := range scramble { scramble[i] ^= authResponse[i] }",
      "stage1Hash := scramble", "crypt.Reset()", "crypt.Write(stage1Hash)", "candidateHash2 := crypt.Sum(nil)",
      "return bytes.Equal(candidateHash2, hash)"] ∧
    Generated.C40.nativeSteps = ["hash, err := hex.DecodeString(mysqlNativePassword)", "crypt := sha1.New()", "crypt.Write(salt)",
      "crypt.Write(hash)", "scramble := crypt.Sum(nil)", "stage1Hash := scramble", "crypt.Reset()", "crypt.Write(stage1Hash)",
      "candidateHash2 := crypt.Sum(nil)", "return bytes.Equal(candidateHash2, hash)"] ∧
    Generated.C40.userEntryWithHashConds = ["err != nil", "!db.Enabled()", "userEntry == nil || userEntry.Locked", "err != nil",
      "len(userEntry.AuthString) > 0", "!validateMysqlNativePassword(authResponse, salt, userEntry.AuthString)", "len(authResponse) > 0"] ∧
    Generated.C40.validateHashConds = ["err != nil", "!db.Enabled()", "userEntry == nil || userEntry.Locked",
      "len(userEntry.AuthString) > 0", "!validateMysqlNativePassword(authResponse, salt, userEntry.AuthString)", "len(authResponse) > 0"] ∧
    Generated.C40.handleUserConds = ["!uv.db.Enabled()", "err != nil", "userEntry == nil"] ∧
    Generated.C40.sha2FastConds = ["!db.Enabled()", "emptyClientAuthResponse", "err != nil", "userEntry == nil || userEntry.Locked",
      "err != nil", "userEntry.AuthString == \"\""] ∧
    Generated.C40.getUserConds = ["\"127.0.0.1\" == host || \"::1\" == host", "ok",
      "host == user.Host || (host == \"localhost\" && user.Host == \"::1\") || (host == \"localhost\" && user.Host == \"127.0.0.1\") || (user.Host == \"%\" && (!roleSearch || host == \"\")) || matchesHostPattern(host, user.Host) || (originalHost != host && matchesHostPattern(originalHost, user.Host))"] := by
  refine ⟨by decide, by decide, by decide, by decide, by decide, by decide, by decide, by decide, by decide, by decide, by decide⟩

set_option maxRecDepth 20000 in
/-- The host-pattern matcher is the anchored regular expression `Gms.HostPattern.Matches` is the language of
(`%` ↦ `.*`, everything else quoted); every place of `auth.go` that resolves the connecting (user, host) to an
account is a direct `GetUser` on the reader opened for that attempt, and neither the auth server nor its
storage / validator objects nor a package variable can remember anything between attempts (a login reads the
current table: `login_reads_current_table`); `Reader.GetUser` panics on two entries under one key
(`AuthHist.dupKey`); the two listed defects of the statement paths: `buildCreateUser` stores `Locked: false`,
`in_mem_table.Update` removes the old entry by equality with the entry rebuilt from the old row, whose
privilege set `UserFromRow` derives from the row alone. -/
theorem facts_match_lookup :
    Generated.C40.hostPatternSkeleton = ["if !strings.Contains(pattern, \"%\") { return false }",
      "regexPattern := regexp.QuoteMeta(pattern)", "regexPattern = strings.ReplaceAll(regexPattern, \"%\", \".*\")",
      "regexPattern = \"^\" + regexPattern + \"$\"", "matched, err := regexp.MatchString(regexPattern, host)",
      "return err == nil && matched"] ∧
    Generated.C40.readerGetUserConds = ["len(users) > 1 { panic(\"too many matching users\") }",
      "len(users) > 0 { res = users[0] ok = true }"] ∧
    Generated.C40.authAccountLookups = [
      "noopCachingStorage.UserEntryWithCacheHash: userEntry := db.GetUser(rd, user, host, false)",
      "sha2PlainTextStorage.UserEntryWithPassword: userEntry := db.GetUser(rd, user, host, false)",
      "extendedAuthPlainTextStorage.UserEntryWithPassword: userEntry := db.GetUser(rd, user, host, false)",
      "extendedAuthUserValidator.HandleUser: userEntry := db.GetUser(rd, user, host, false)",
      "nativePasswordHashStorage.UserEntryWithHash: userEntry := db.GetUser(rd, user, host, false)",
      "userValidator.HandleUser: userEntry := uv.db.GetUser(rd, user, host, false)"] ∧
    Generated.C40.authStructFields = ["authServer{authMethods []mysql.AuthMethod}", "decoyAuthSubject{}",
      "extendedAuthPlainTextStorage{db *MySQLDb}", "extendedAuthUserValidator{db *MySQLDb}",
      "nativePasswordHashStorage{db *MySQLDb}", "noopCachingStorage{db *MySQLDb}", "sha2PlainTextStorage{db *MySQLDb}",
      "userValidator{db *MySQLDb; authMethod mysql.AuthMethodDescription}"] ∧
    Generated.C40.authPackageVars = [] ∧
    Generated.C40.createUserLocked = ["false"] ∧
    Generated.C40.imtUpdateSkeleton = ["e, err := ops.FromRow(ctx, old)", "if err != nil", "ek := is.Keyers[0].GetKey(e)",
      "es := is.GetMany(is.Keyers[0], ek)", "if len(es) == 1", "old := e", "e := es[0]",
      "e, err = ops.UpdateWithRow(ctx, new, e)", "if err != nil", "is.Remove(old)", "is.Put(e)",
      "e, err = ops.FromRow(ctx, new)", "if err != nil", "for range es", "is.Remove(old)", "is.Put(e)"] ∧
    Generated.C40.userFromRowPrivs = ["UserRowToPrivSet(ctx, row)"] := by
  refine ⟨by decide, by decide, by decide, by decide, by decide, by decide, by decide, by decide⟩

set_option maxRecDepth 100000 in
/-- The compiled matcher, run by the extractor on every pattern of length ≤ 3 over {a,b,%} against every host
of length ≤ 3 over {a,b}, agrees with the model on all 600 entries (literals on both sides of a wildcard with
hosts too short for them — `a%a` against `a` — included). -/
theorem facts_host_pattern_table :
    Generated.C40.hostPatternTable.all
      (fun e => (e.1.contains '%' && Gms.HostPattern.glob e.1 e.2.1) == e.2.2) = true ∧
    Generated.C40.hostPatternTable.length = 600 := by decide

/-! ## The scramble check -/

/-- A toy 20-byte "hash" (constant) and a stored value decoding to its output, for concrete instances of the
theorems below (`decide` cannot run the real SHA-1; the theorems hold for every `H`). -/
def toyH : Bytes → Bytes := fun _ => List.replicate 20 0
def toyStored : List Char := '*' :: List.replicate 40 '0'

/-- **Completeness.** A client that knows `h1 = H(password)` is accepted for an account whose stored value
decodes to `H h1`, for every salt. -/
theorem native_complete (H : Bytes → Bytes) (hH : ∀ x, (H x).length = 20) (salt h1 : Bytes) (stored : List Char)
    (hs : decodeStored stored = some (H h1)) (hne : stored ≠ []) (hl : h1.length = 20) :
    validateNative H (clientToken H salt h1) salt stored = some true ∧
    validateNativeSpec H (clientToken H salt h1) salt stored = true := by
  have hlen : (clientToken H salt h1).length = 20 := by
    simp only [clientToken]; rw [xor_length _ _ (by rw [hl, hH])]; exact hl
  have hcancel : xor (H (salt ++ H h1)) (clientToken H salt h1) = h1 :=
    xor_cancel h1 (H (salt ++ H h1)) (by rw [hl, hH])
  have hne' : stored.isEmpty = false := by cases stored <;> simp_all
  have hre : (clientToken H salt h1).isEmpty = false := by
    cases hc : clientToken H salt h1 with
    | nil => rw [hc] at hlen; simp at hlen
    | cons _ _ => rfl
  have hguard : ((clientToken H salt h1).length != (H (salt ++ H h1)).length) = false := by
    rw [hlen, hH]; rfl
  constructor
  · simp only [validateNative, hre, hne', Bool.or_self, Bool.false_eq_true, if_false, hs, hguard]
    rw [xorPrefix_eq_xor _ _ (by simp [hH, hlen]), hcancel]
    simp
  · simp only [validateNativeSpec, hs, hne', hlen, hcancel]
    simp

/-- **Soundness.** An accepted response has the length of the scramble and exhibits a preimage of the stored
hash under `H`: the strongest statement available with `H` uninterpreted (knowledge of `H(password)`). -/
theorem native_sound (H : Bytes → Bytes) (resp salt : Bytes) (stored : List Char)
    (h : validateNative H resp salt stored = some true) :
    ∃ hash stage1, decodeStored stored = some hash ∧ resp.length = (H (salt ++ hash)).length ∧
      xorPrefix (H (salt ++ hash)) resp = some stage1 ∧ H stage1 = hash := by
  simp only [validateNative] at h
  split at h
  · simp at h
  · cases hd : decodeStored stored with
    | none => simp [hd] at h
    | some hash =>
      simp only [hd] at h
      split at h
      · simp at h
      · rename_i hg
        have hlen : resp.length = (H (salt ++ hash)).length := by simpa using hg
        cases hx : xorPrefix (H (salt ++ hash)) resp with
        | none => simp [hx] at h
        | some stage1 =>
          simp only [hx, Option.some.injEq, beq_iff_eq] at h
          exact ⟨hash, stage1, rfl, hlen, hx, h⟩

theorem native_sound_spec (H : Bytes → Bytes) (resp salt : Bytes) (stored : List Char)
    (h : validateNativeSpec H resp salt stored = true) :
    ∃ hash, decodeStored stored = some hash ∧ resp.length = 20 ∧ H (xor (H (salt ++ hash)) resp) = hash := by
  simp only [validateNativeSpec] at h
  cases hd : decodeStored stored with
  | none => simp [hd] at h
  | some hash =>
    simp only [hd, Bool.and_eq_true, beq_iff_eq] at h
    exact ⟨hash, rfl, h.1.2, h.2⟩

/-- **The scramble check is the Spec's — full statement (holds since the `fix:` commit).** For every
20-byte hash function, every response, salt and stored value, `validateMysqlNativePassword` returns exactly
what the Spec demands: `true` for a 20-byte token `t` with `H (t ⊕ H (salt ++ stored)) = stored`, `false` for
everything else (empty, short, long response; empty or undecodable stored hash) — and it returns, i.e. does
not panic. (Before the repair this held only outside the regions `shortResponse` / `longResponse`.) -/
theorem native_impl_eq_spec (H : Bytes → Bytes) (hH : ∀ x, (H x).length = 20) (resp salt : Bytes) (stored : List Char) :
    validateNative H resp salt stored = some (validateNativeSpec H resp salt stored) := by
  simp only [validateNative, validateNativeSpec]
  by_cases hr : resp.isEmpty = true
  · have : resp.length = 0 := by cases resp <;> simp_all
    cases hd : decodeStored stored <;> simp [hr, this]
  · by_cases hst : stored.isEmpty = true
    · cases hd : decodeStored stored <;> simp [hst]
    · simp only [hr, hst, Bool.or_self, Bool.false_eq_true, if_false]
      cases hd : decodeStored stored with
      | none => rfl
      | some hash =>
        simp only [hH]
        by_cases h20 : resp.length = 20
        · have hg : (resp.length != 20) = false := by rw [h20]; rfl
          simp only [hg, Bool.false_eq_true, if_false]
          rw [xorPrefix_eq_xor _ _ (by simp [hH, h20])]
          simp [h20]
        · have hg : (resp.length != 20) = true := by simp [h20]
          simp [hg, h20]

/-- Non-vacuity of `native_impl_eq_spec`'s hypothesis, and both verdicts on concrete inputs (a toy 20-byte
"hash"): a 20-byte response is checked, a 19-byte and a 21-byte one are rejected without a panic. -/
example : (∀ x, (toyH x).length = 20)
    ∧ validateNative toyH (List.replicate 20 0) [1, 2] toyStored = some true
    ∧ validateNative toyH (List.replicate 19 0) [1, 2] toyStored = some false
    ∧ validateNative toyH (List.replicate 21 0) [1, 2] toyStored = some false := by
  refine ⟨fun _ => by simp [toyH], by decide, by decide, by decide⟩

/-- **No panic — for every function `H`**, even one that does not return 20 bytes: the XOR loop is only
reached with a response exactly as long as the scramble. -/
theorem native_no_crash (H : Bytes → Bytes) (resp salt : Bytes) (stored : List Char) :
    validateNative H resp salt stored ≠ none := by
  simp only [validateNative]
  split
  · simp
  · cases hd : decodeStored stored with
    | none => simp
    | some hash =>
      simp only []
      split
      · simp
      · rename_i hg
        have hlen : resp.length = (H (salt ++ hash)).length := by simpa using hg
        rw [xorPrefix_eq_xor _ _ (by omega)]
        simp

/-- A response whose length is not 20 is rejected, whatever else is the case. -/
theorem native_wrong_length_rejected (H : Bytes → Bytes) (hH : ∀ x, (H x).length = 20) (resp salt : Bytes)
    (stored : List Char) (h : resp.length ≠ 20) :
    validateNative H resp salt stored = some false := by
  rw [native_impl_eq_spec H hH]
  simp only [validateNativeSpec]
  cases decodeStored stored with
  | none => rfl
  | some hash =>
    have : (resp.length == 20) = false := by simp [h]
    simp [this]

/-- **Repaired defect F-C40-a (`native_short_response_oob`).** Before the `fix:` commit, for every 20-byte
hash function, every salt and every account with a decodable stored hash, a response of 1–19 bytes made
`validateMysqlNativePassword` index past the response (run-time panic: `none` in the pre-fix model) instead
of rejecting it; the repaired function rejects it, as the Spec demands. -/
theorem fixed_native_short_response_oob (H : Bytes → Bytes) (hH : ∀ x, (H x).length = 20) (resp salt : Bytes)
    (stored : List Char) (h : shortResponse resp stored = true) :
    validateNativePreFix H resp salt stored = none ∧ validateNative H resp salt stored = some false ∧
      validateNativeSpec H resp salt stored = false := by
  simp only [shortResponse, Bool.and_eq_true, decide_eq_true_eq, Bool.not_eq_true', Option.isSome_iff_exists] at h
  obtain ⟨⟨⟨hpos, hlt⟩, hst⟩, hash, hd⟩ := h
  have hr : resp.isEmpty = false := by cases resp <;> simp_all
  have hspec : validateNativeSpec H resp salt stored = false := by
    simp only [validateNativeSpec, hd]
    have : (resp.length == 20) = false := by simp; omega
    simp [this]
  refine ⟨?_, ?_, hspec⟩
  · simp only [validateNativePreFix, hr, hst, Bool.or_self, Bool.false_eq_true, if_false, hd]
    rw [xorPrefix_none _ _ (by rw [hH]; exact hlt)]
  · rw [native_impl_eq_spec H hH, hspec]

/-- The region is inhabited (the witness replayed on the real code: 19 zero bytes against the hash of "pw";
it stays in the harness corpus and must now be rejected without a panic), and the defect on a concrete
input with a toy 20-byte "hash": the pre-fix model panics, the repaired one rejects. -/
example : shortResponse (List.replicate 19 0) "*D821809F681A40A6E379B50D0463EFAE20BDD122".toList = true := by decide

example :
    validateNativePreFix toyH (List.replicate 19 0) [] "*D821809F681A40A6E379B50D0463EFAE20BDD122".toList = none
    ∧ validateNative toyH (List.replicate 19 0) [] "*D821809F681A40A6E379B50D0463EFAE20BDD122".toList = some false := by
  constructor <;> decide

/-- **Repaired defect F-C40-b (`native_long_response_accepted`).** Before the `fix:` commit the bytes of the
response after the 20th were never read: a valid token followed by arbitrary extra bytes was accepted,
although it is not a well-formed response; the repaired function rejects it (the same length guard). -/
theorem fixed_native_long_response_accepted (H : Bytes → Bytes) (hH : ∀ x, (H x).length = 20) (salt h1 extra : Bytes)
    (stored : List Char) (hs : decodeStored stored = some (H h1)) (hne : stored ≠ []) (hl : h1.length = 20)
    (hex : extra ≠ []) :
    validateNativePreFix H (clientToken H salt h1 ++ extra) salt stored = some true ∧
    validateNative H (clientToken H salt h1 ++ extra) salt stored = some false ∧
    validateNativeSpec H (clientToken H salt h1 ++ extra) salt stored = false := by
  have hlen : (clientToken H salt h1).length = 20 := by
    simp only [clientToken]; rw [xor_length _ _ (by rw [hl, hH])]; exact hl
  have hcancel : xor (H (salt ++ H h1)) (clientToken H salt h1) = h1 :=
    xor_cancel h1 (H (salt ++ H h1)) (by rw [hl, hH])
  have hne' : stored.isEmpty = false := by cases stored <;> simp_all
  have hre : (clientToken H salt h1 ++ extra).isEmpty = false := by
    cases extra with
    | nil => exact absurd rfl hex
    | cons e es => simp
  have hspec : validateNativeSpec H (clientToken H salt h1 ++ extra) salt stored = false := by
    have : ((clientToken H salt h1 ++ extra).length == 20) = false := by
      have : 0 < extra.length := by cases extra <;> simp_all
      simp [List.length_append, hlen]; omega
    simp only [validateNativeSpec, hs, this, Bool.and_false, Bool.false_and]
  refine ⟨?_, ?_, hspec⟩
  · simp only [validateNativePreFix, hre, hne', Bool.or_self, Bool.false_eq_true, if_false, hs]
    rw [xorPrefix_eq_xor _ _ (by rw [hH, List.length_append, hlen]; omega),
      xor_append_right _ _ _ (by simp [hH, hlen]), hcancel]
    simp
  · rw [native_impl_eq_spec H hH, hspec]

/-- The hypotheses of `fixed_native_long_response_accepted` are satisfiable (toy 20-byte "hash"), and the
defect on that concrete input: 20 zero bytes are the token, a 21st byte was ignored before the repair. -/
example :
    decodeStored toyStored = some (toyH [])
    ∧ validateNativePreFix toyH (List.replicate 20 0 ++ [7]) [1, 2] toyStored = some true
    ∧ validateNative toyH (List.replicate 20 0 ++ [7]) [1, 2] toyStored = some false := by
  refine ⟨by decide, by decide, by decide⟩

/-! ## The login decision -/

/-- **Accept iff.** With the accounts database enabled, the native login is accepted exactly when `GetUser`
finds an account, that account is not locked, and either it has a password and the scramble check succeeds
or it has none and the response is empty; the connection then runs as that account. -/
theorem authNative_accept_iff (H : Bytes → Bytes) (accts : List Acct) (user host u h : String) (salt resp : Bytes) :
    authNative H true accts user host salt resp = .accept u h ↔
      ∃ a, chooseImpl accts user host = some a ∧ a.locked = false ∧ u = a.name ∧ h = a.host ∧
        ((a.auth ≠ [] ∧ validateNative H resp salt a.auth = some true) ∨ (a.auth = [] ∧ resp = [])) := by
  simp only [authNative, Bool.not_true, Bool.false_eq_true, if_false]
  cases hc : chooseImpl accts user host with
  | none => simp
  | some a =>
    simp only [checkAcct, Option.some.injEq, exists_eq_left']
    cases hl : a.locked
    · simp only [Bool.false_eq_true, if_false, true_and]
      cases ha : a.auth with
      | nil =>
        cases resp with
        | nil => simp [eq_comm]
        | cons r rs => simp
      | cons c cs =>
        simp only [List.isEmpty_cons, Bool.not_false, if_true]
        cases hv : validateNative H resp salt (c :: cs) with
        | none => simp
        | some b => cases b <;> simp [eq_comm]
    · simp

theorem locked_rejected (H : Bytes → Bytes) (accts : List Acct) (user host : String) (salt resp : Bytes) (a : Acct)
    (hc : chooseImpl accts user host = some a) (hl : a.locked = true) :
    authNative H true accts user host salt resp = .deny := by
  simp [authNative, hc, checkAcct, hl]

theorem unknown_rejected (H : Bytes → Bytes) (accts : List Acct) (user host : String) (salt resp : Bytes)
    (hc : chooseImpl accts user host = none) :
    authNative H true accts user host salt resp = .deny := by
  simp [authNative, hc]

/-- An account without a password accepts exactly the empty response. -/
theorem empty_password_iff_empty_response (H : Bytes → Bytes) (accts : List Acct) (user host : String) (salt resp : Bytes)
    (a : Acct) (hc : chooseImpl accts user host = some a) (hl : a.locked = false) (ha : a.auth = []) :
    authNative H true accts user host salt resp = .accept a.name a.host ↔ resp = [] := by
  rw [authNative_accept_iff]
  constructor
  · rintro ⟨b, hb, _, _, _, h⟩
    rw [hc] at hb; cases hb
    rcases h with ⟨h1, _⟩ | ⟨_, h2⟩
    · exact absurd ha h1
    · exact h2
  · intro hr; exact ⟨a, hc, hl, rfl, rfl, Or.inr ⟨ha, hr⟩⟩

/-- An accepted connection runs as the account `GetUser` matched (its name and its host *pattern*). -/
theorem runs_as_matched_account (H : Bytes → Bytes) (accts : List Acct) (user host u h : String) (salt resp : Bytes)
    (hacc : authNative H true accts user host salt resp = .accept u h) :
    ∃ a, chooseImpl accts user host = some a ∧ (u, h) = (a.name, a.host) := by
  obtain ⟨a, hc, _, hu, hh, _⟩ := (authNative_accept_iff H accts user host u h salt resp).1 hacc
  exact ⟨a, hc, by rw [hu, hh]⟩

/-- **The login never panics — full statement (holds since the `fix:` commit)**: for every function `H`,
every account list, login and response (before the repair: only outside the short-response region). -/
theorem authNative_no_crash (H : Bytes → Bytes) (enabled : Bool) (accts : List Acct)
    (user host : String) (salt resp : Bytes) :
    authNative H enabled accts user host salt resp ≠ .crash := by
  simp only [authNative]
  split
  · simp
  · cases hc : chooseImpl accts user host with
    | none => simp
    | some a =>
      simp only [checkAcct]
      split
      · simp
      · split
        · cases hv : validateNative H resp salt a.auth with
          | some b => cases b <;> simp
          | none => exact absurd hv (native_no_crash H resp salt a.auth)
        · split <;> simp

/-- With the repaired scramble check the credential check against an account is the Spec's. -/
theorem checkAcct_impl_eq_spec (H : Bytes → Bytes) (hH : ∀ x, (H x).length = 20) (a : Acct) (salt resp : Bytes) :
    checkAcct (validateNative H) a salt resp =
      checkAcct (fun r s st => some (validateNativeSpec H r s st)) a salt resp := by
  simp only [checkAcct, native_impl_eq_spec H hH]

/-- **The login decision is the Spec's whenever `GetUser` picks the account the Spec picks** (the only
remaining difference between code and Spec is the choice of the account, finding
`match_order_by_insertion`); in particular a short or over-long response is denied, not a panic and not an
acceptance. -/
theorem authNative_eq_spec_of_same_account (H : Bytes → Bytes) (hH : ∀ x, (H x).length = 20) (accts : List Acct)
    (user host : String) (salt resp : Bytes) (a : Acct)
    (hi : chooseImpl accts user host = some a) (hsp : chooseSpec accts user host = some (some a)) :
    authNativeSpec H accts user host salt resp = some (authNative H true accts user host salt resp) := by
  simp only [authNativeSpec, authNative, hi, hsp, Bool.not_true, Bool.false_eq_true, if_false,
    checkAcct_impl_eq_spec H hH]

/-- Non-vacuity: a single account, the login it matches. -/
example : chooseImpl [{ name := "u", host := "%", plugin := "mysql_native_password", auth := "*AA".toList, locked := false }] "u" "10.0.0.5"
      = some { name := "u", host := "%", plugin := "mysql_native_password", auth := "*AA".toList, locked := false }
    ∧ chooseSpec [{ name := "u", host := "%", plugin := "mysql_native_password", auth := "*AA".toList, locked := false }] "u" "10.0.0.5"
      = some (some { name := "u", host := "%", plugin := "mysql_native_password", auth := "*AA".toList, locked := false }) := by
  decide

/-! ## Which account a login is checked against -/

/-- `GetUser` on a list of accounts: exact (name, normalised host) first, then the first account of the name
whose host accepts the client, then the first such anonymous account — in list (= insertion) order. -/
theorem chooseImpl_eq_find (accts : List Acct) (user host : String) :
    chooseImpl accts user host =
      ((accts.find? (fun a => decide (a.host = normHost host ∧ a.name = user))).or
        ((accts.find? (fun a => a.name = user && hostMatches (normHost host) host a.host false)).or
          (accts.find? (fun a => a.name = "" && hostMatches (normHost host) host a.host false)))) := by
  simp only [chooseImpl, getUserIdx]
  cases h1 : findIdx (fun k => decide (k.2 = normHost host ∧ k.1 = user)) (keysOfAccts accts) with
  | some i =>
    obtain ⟨k, hk1, hk2⟩ := findIdx_map_some _ _ _ h1
    rw [hk2]; simp [hk1]
  | none =>
    rw [findIdx_map_none _ _ h1]
    cases h2 : findIdx (fun k => k.1 = user && hostMatches (normHost host) host k.2 false) (keysOfAccts accts) with
    | some i =>
      obtain ⟨k, hk1, hk2⟩ := findIdx_map_some _ _ _ h2
      rw [hk2]; simp [hk1]
    | none =>
      rw [findIdx_map_none _ _ h2]
      cases h3 : findIdx (fun k => k.1 = "" && hostMatches (normHost host) host k.2 false) (keysOfAccts accts) with
      | some i =>
        obtain ⟨k, hk1, hk2⟩ := findIdx_map_some _ _ _ h3
        rw [hk2]; simp [hk1]
      | none =>
        rw [findIdx_map_none _ _ h3]
        simp

/-- The chosen account is one of the accounts, carries the login's name or is anonymous, and accepts the
client host. -/
theorem chooseImpl_matches (accts : List Acct) (user host : String) (a : Acct) (h : chooseImpl accts user host = some a) :
    a ∈ accts ∧ (acctMatches user host a = true ∨ acctMatches "" host a = true) := by
  rw [chooseImpl_eq_find] at h
  simp only [Option.or_eq_some_iff] at h
  rcases h with h | ⟨_, h | ⟨_, h⟩⟩
  · have := List.find?_some h
    simp only [decide_eq_true_eq] at this
    exact ⟨List.mem_of_find?_eq_some h, Or.inl (by simp [acctMatches, this.1, this.2])⟩
  · have := List.find?_some h
    simp only [Bool.and_eq_true, decide_eq_true_eq] at this
    exact ⟨List.mem_of_find?_eq_some h, Or.inl (by simp [acctMatches, this.1, this.2])⟩
  · have := List.find?_some h
    simp only [Bool.and_eq_true, decide_eq_true_eq] at this
    exact ⟨List.mem_of_find?_eq_some h, Or.inr (by simp [acctMatches, this.1, this.2])⟩

/-- **Finding F-C40-c (`match_order_by_insertion`).** When two accounts of one name accept the client the
code checks the login against the one inserted first, not against the most specific host: with `u@%`
created before `u@127.0.0.1`, a client on the loopback address is checked against `u@%` — the owner of the
`u@127.0.0.1` password is rejected (and the holder of the `u@%` password is let in as `u@%`). -/
def wAccts : List Acct :=
  [{ name := "u", host := "%", plugin := "mysql_native_password", auth := "*AA".toList, locked := false },
   { name := "u", host := "127.0.0.1", plugin := "mysql_native_password", auth := "*BB".toList, locked := false }]

theorem finding_match_order_by_insertion :
    chooseImpl wAccts "u" "127.0.0.1" = wAccts[0]? ∧
    chooseSpec wAccts "u" "127.0.0.1" = some (wAccts[1]?) ∧
    matchOrderDiffers wAccts "u" "127.0.0.1" = true ∧
    chooseImpl wAccts.reverse "u" "127.0.0.1" = wAccts[1]? := by
  decide

/-! ## Method negotiation and the caching_sha2 fast path -/

/-- `HandleUser`: a known account is offered exactly its own plugin; an unknown login exactly the default
method (decoy), so that it fails inside the plugin like a wrong password. -/
theorem handleUser_iff (accts : List Acct) (method user host : String) :
    handleUser true accts method user host = true ↔
      (∃ a, chooseImpl accts user host = some a ∧ a.plugin = method) ∨
      (chooseImpl accts user host = none ∧ method = defaultAuthMethod) := by
  simp only [handleUser, Bool.not_true, Bool.false_eq_true, if_false]
  cases chooseImpl accts user host <;> simp

/-- The fast path accepts only an empty (or single zero byte) response for an unlocked account without a
password, and never accepts anything else. -/
theorem sha2Fast_accept_iff (accts : List Acct) (user host u h : String) (resp : Bytes) :
    sha2Fast true accts user host resp = .accept u h ↔
      (resp = [] ∨ resp = [0]) ∧ u = user ∧ h = host ∧
        ∃ a, chooseImpl accts user host = some a ∧ a.locked = false ∧ a.auth = [] := by
  simp only [sha2Fast, Bool.not_true, Bool.false_eq_true, if_false]
  by_cases hr : (resp.isEmpty || resp == [0]) = true
  · have hr' : resp = [] ∨ resp = [0] := by
      simp only [Bool.or_eq_true, beq_iff_eq] at hr
      rcases hr with h | h
      · left; cases resp <;> simp_all
      · right; exact h
    simp only [hr, if_true, hr', true_and]
    cases chooseImpl accts user host with
    | none => simp
    | some a =>
      simp only [Option.some.injEq, exists_eq_left']
      cases hl : a.locked
      · cases ha : a.auth with
        | nil =>
          simp only [Bool.false_eq_true, if_false, List.isEmpty_nil, if_true, Out.accept.injEq, and_true]
          exact ⟨fun ⟨h1, h2⟩ => ⟨h1.symm, h2.symm⟩, fun ⟨h1, h2⟩ => ⟨h1.symm, h2.symm⟩⟩
        | cons c cs => simp
      · simp
  · have hr' : ¬(resp = [] ∨ resp = [0]) := by
      intro h
      apply hr
      rcases h with rfl | rfl <;> simp
    simp [hr, hr']

/-! ## The host-pattern matcher -/
section HostPatterns
open Gms.HostPattern

/-- **The matcher decides the language of the code's regular expression**: `matchesHostPattern`'s anchored
expression (`%` ↦ `.*`, every other character quoted) accepts a host exactly when the host is the pattern's
literal characters, in order, with one newline-free gap per `%`. -/
theorem glob_iff_matches (p h : List Char) : glob p h = true ↔ Matches p h :=
  ⟨glob_sound p h, glob_complete⟩

/-- The model of `matchesHostPattern` inside `getUserIdx` (C39's `Gms.Priv`, well-founded recursion) is the
structural matcher of `Gms.HostPattern`, hence everything below is about the function the login model uses. -/
theorem matchesHostPattern_eq (host pattern : String) :
    Gms.Priv.matchesHostPattern host pattern = Gms.HostPattern.matchesHostPattern host pattern := by
  simp only [Gms.Priv.matchesHostPattern, Gms.HostPattern.matchesHostPattern, globMatch_eq_glob]

/-- **A match is the pattern's segments interleaved with gaps**: `host = s₀ ++ g₁ ++ s₁ ++ … ++ gₙ ++ sₙ` where
`s₀ … sₙ = strings.Split(pattern, "%")`. The segments occupy *disjoint* stretches of the host, in order — the
text before the first `%` is a prefix, the text after the last `%` a suffix, and they do not share characters. -/
theorem match_is_interleave (p h : List Char) :
    glob p h = true ↔
      ∃ gs : List (List Char), gs.length + 1 = (segs p).length ∧ (∀ g ∈ gs, gapOk g) ∧ h = interleave (segs p) gs := by
  rw [glob_iff_matches]
  exact ⟨matches_interleave, fun ⟨gs, hl, hg, hh⟩ => interleave_matches p h gs hl hg hh⟩

theorem segs_nowild (a : List Char) (ha : '%' ∉ a) : segs a = [a] := by
  induction a with
  | nil => rfl
  | cons c a ih =>
    have hc : c ≠ '%' := fun e => ha (by rw [e]; exact List.mem_cons_self ..)
    have ih' := ih (fun hm => ha (List.mem_cons_of_mem _ hm))
    simp [segs, hc, ih']

theorem segs_append_wild (a p : List Char) (ha : '%' ∉ a) : segs (a ++ '%' :: p) = a :: segs p := by
  induction a with
  | nil => simp [segs]
  | cons c a ih =>
    have hc : c ≠ '%' := fun e => ha (by rw [e]; exact List.mem_cons_self ..)
    have ih' := ih (fun hm => ha (List.mem_cons_of_mem _ hm))
    simp [segs, hc, ih']

/-- One wildcard between two literal pieces: `a%b` accepts exactly `a ++ gap ++ b` — in particular the host
has at least `|a| + |b|` characters: prefix and suffix never overlap. -/
theorem single_wildcard_iff (a b h : List Char) (ha : '%' ∉ a) (hb : '%' ∉ b) :
    glob (a ++ '%' :: b) h = true ↔ ∃ g, gapOk g ∧ h = a ++ g ++ b := by
  rw [match_is_interleave, segs_append_wild a b ha, segs_nowild b hb]
  constructor
  · rintro ⟨gs, hl, hg, hh⟩
    match gs, hl with
    | [g], _ => exact ⟨g, hg g (List.mem_cons_self ..), by simpa [interleave] using hh⟩
  · rintro ⟨g, hg, hh⟩
    refine ⟨[g], rfl, ?_, by simpa [interleave] using hh⟩
    intro x hx
    have : x = g := by simpa using hx
    rw [this]; exact hg

/-- **A host shorter than the pattern's literal text never matches.** -/
theorem match_needs_room (p h : List Char) (hm : glob p h = true) : litLen p ≤ h.length :=
  matches_litLen ((glob_iff_matches p h).1 hm)

theorem short_host_rejected (host pattern : String) (hs : host.toList.length < litLen pattern.toList) :
    Gms.Priv.matchesHostPattern host pattern = false := by
  rw [matchesHostPattern_eq]
  simp only [Gms.HostPattern.matchesHostPattern]
  cases hg : glob pattern.toList host.toList with
  | false => simp
  | true => exact absurd (match_needs_room _ _ hg) (by omega)

/-- Non-vacuity: the README's shapes. Each host contains every literal piece of the pattern, in order, but
not disjointly; the matcher rejects them (they are shorter than the literal text, `short_host_rejected`). -/
example : glob "%.10.%.10".toList "1.2.10.10".toList = false ∧ glob "%.10.%.10".toList "1.2.10.9.10".toList = true
    ∧ glob "10.1%1.0.5".toList "10.1.0.5".toList = false ∧ glob "10.1%1.0.5".toList "10.11.0.5".toList = true
    ∧ glob "10.0.%.0.1".toList "10.0.0.1".toList = false ∧ litLen "10.0.%.0.1".toList = 9 := by decide

/-- **The defect class.** A matcher that anchors the first segment as a prefix and the last as a suffix of
the whole host and searches the middle segments behind the prefix — without keeping the pieces disjoint —
accepts hosts outside the pattern's language: it is not the code's matcher. -/
theorem overlap_matcher_unsound :
    ∃ p h : List Char, overlapMatch p h = true ∧ glob p h = false ∧ h.length < litLen p :=
  ⟨"a%ab".toList, "ab".toList, by decide⟩

example : overlapMatch "%.10.%.10".toList "1.2.10.10".toList = true
    ∧ overlapMatch "10.1%1.0.5".toList "10.1.0.5".toList = true
    ∧ overlapMatch "10.0.%.0.1".toList "10.0.0.1".toList = true
    ∧ overlapMatch "10.0.%".toList "10.0.0.5".toList = true ∧ overlapMatch "10.0.%".toList "10.1.0.5".toList = false := by decide

/-- Without `_` in the pattern (and no newline in the host) the code's rule is MySQL's rule for account hosts
(LIKE: `%` any run of characters, `_` any single character). -/
theorem glob_eq_like_of_no_underscore (p h : List Char) (hp : '_' ∉ p) (hh : ∀ x ∈ h, x ≠ '\n') :
    glob p h = likeMatch p h := glob_eq_like p h hp hh

/-- …and with `_` it is not: the code takes `_` literally where MySQL accepts any one character (a deviation
from MySQL in the direction of rejecting; the Spec of this property is the code's documented `%`-only rule). -/
theorem underscore_is_literal :
    glob "10.0.0._%".toList "10.0.0.5".toList = false ∧ likeMatch "10.0.0._%".toList "10.0.0.5".toList = true
    ∧ glob "10.0.0._%".toList "10.0.0._".toList = true := by decide

end HostPatterns

/-! ## Histories: a login is decided against the current account table -/
section Histories
open Gms.AuthHist

/-- **A login reads the current table.** The observation of a login at the end of a history is `loginI` on
the state produced by the statements before it — no other state exists in the model, and `facts_match_lookup`
pins that none exists in the code path (every lookup is a `GetUser` on a fresh reader). -/
theorem login_reads_current_table (H : Bytes → Bytes) (es : List Entry) (evs : List Ev) (u h : String) (s p : Bytes) :
    runI H es (evs ++ [.login u h s p]) = runI H es evs ++ [loginI H (stateI es evs) u h s p] := by
  induction evs generalizing es with
  | nil => simp [runI, stateI]
  | cons e r ih =>
    cases e with
    | op o => simp [runI, stateI, ih]
    | login u' h' s' p' => simp [runI, stateI, ih]

theorem findIdx_key_some (P : String × String → Bool) (l : List Entry) (i : Nat)
    (h : findIdx P (l.map (·.key)) = some i) : ∃ e, l[i]? = some e ∧ P e.key = true := by
  induction l generalizing i with
  | nil => simp [findIdx] at h
  | cons a l ih =>
    simp only [List.map_cons, findIdx] at h
    by_cases hp : P a.key = true
    · simp only [hp, if_true, Option.some.injEq] at h
      subst h
      exact ⟨a, by simp, hp⟩
    · simp only [hp, Bool.false_eq_true, if_false, Option.map_eq_some_iff] at h
      obtain ⟨j, hj, rfl⟩ := h
      obtain ⟨e, he1, he2⟩ := ih j hj
      exact ⟨e, by simpa using he1, he2⟩

theorem findIdx_key_isSome (P : String × String → Bool) (l : List Entry) (e : Entry) (he : e ∈ l) (hp : P e.key = true) :
    ∃ i, findIdx P (l.map (·.key)) = some i := by
  induction l with
  | nil => cases he
  | cons a l ih =>
    simp only [List.map_cons, findIdx]
    by_cases hpa : P a.key = true
    · exact ⟨0, by simp [hpa]⟩
    · rcases List.mem_cons.1 he with rfl | hm
      · exact absurd hp hpa
      · obtain ⟨i, hi⟩ := ih hm
        exact ⟨i + 1, by simp [hpa, hi]⟩

/-- `DROP USER` of an account that exists (and is not spelled with a loopback address) drops exactly it. -/
theorem chooseEntry_of_hasKey (es : List Entry) (k : Key) (hk : hasKey es k = true)
    (h1 : k.2 ≠ "127.0.0.1") (h2 : k.2 ≠ "::1") : ∃ e, chooseEntry es k.1 k.2 = some e ∧ e.key = k := by
  have hn : normHost k.2 = k.2 := by simp [normHost, h1, h2]
  simp only [hasKey, List.any_eq_true, beq_iff_eq] at hk
  obtain ⟨e0, he0, hke0⟩ := hk
  obtain ⟨i, hi⟩ := findIdx_key_isSome (fun key => decide (key.2 = k.2 ∧ key.1 = k.1)) es e0 he0 (by simp [hke0])
  obtain ⟨e, he1, he2⟩ := findIdx_key_some _ es i hi
  refine ⟨e, ?_, ?_⟩
  · simp only [chooseEntry, getUserIdx, hn, hi]
    simpa using he1
  · simp only [decide_eq_true_eq] at he2
    exact Prod.ext he2.2 he2.1

/-- **Inside the envelope the code's statement paths do what the statements say**: no `ACCOUNT LOCK` option on
CREATE USER, DROP USER of an existing account, no UPDATE that changes the row of an account holding
database-level privileges (and no account whose row is already duplicated). The full statement
`∀ es op, stepI es op = stepS es op` is false: `finding_create_user_account_lock_ignored`,
`finding_dml_update_keeps_old_row_of_scoped_account`. -/
theorem stepI_eq_stepS_of_ok (es : List Entry) (op : AuthHist.Op) (hok : okOp es op = true) : stepI es op = stepS es op := by
  cases op with
  | createUser k pl au lock =>
    have : lock = false := by simpa [okOp] using hok
    subst this; rfl
  | dropUser k =>
    simp only [okOp, Bool.and_eq_true, bne_iff_ne, ne_eq] at hok
    obtain ⟨e, he, hk⟩ := chooseEntry_of_hasKey es k hok.1.1 hok.1.2 hok.2
    simp [stepI, stepS, he, hk]
  | dmlUpdate k u =>
    simp only [stepI, stepS]
    cases hw : withKey es k with
    | nil => rfl
    | cons e r =>
      cases r with
      | nil =>
        simp only [okOp, hw, Bool.or_eq_true, Bool.not_eq_true', beq_iff_eq] at hok
        by_cases hu : u.apply e.a = e.a
        · simp [hu]
        · rcases hok with hs | hs
          · simp [hu, hs]
          · exact absurd hs hu
      | cons e2 r2 => simp [okOp, hw] at hok
  | createRole n => rfl
  | alterUser k pl au => rfl
  | grantGlobal k => rfl
  | grantScoped k => rfl
  | flush => rfl
  | dmlDelete k => rfl
  | dmlInsert k pl au lock => rfl

theorem stateI_eq_stateS_of_ok (es : List Entry) (evs : List Ev) (hok : okHist es evs = true) :
    stateI es evs = stateS es evs := by
  induction evs generalizing es with
  | nil => rfl
  | cons e r ih =>
    cases e with
    | op o =>
      simp only [okHist, Bool.and_eq_true] at hok
      simp only [stateI, stateS]
      rw [stepI_eq_stepS_of_ok es o hok.1]
      exact ih _ hok.2
    | login u h s p => exact ih es hok

/-- Non-vacuity of the envelope: a history through both paths (CREATE USER, GRANT, UPDATE, ALTER USER, DELETE,
INSERT) with logins in between. -/
example : okHist [] [.op (.createUser ("u", "10.1.%") "mysql_native_password" [] false), .login "u" "10.1.2.3" [] [],
    .op (.grantGlobal ("u", "10.1.%")), .op (.dmlUpdate ("u", "10.1.%") (.lock true)), .login "u" "10.1.2.3" [] [],
    .op (.alterUser ("u", "10.1.%") "mysql_native_password" ['*']), .op (.dmlDelete ("u", "10.1.%")),
    .op (.dmlInsert ("u", "%") "mysql_native_password" [] false), .op (.dropUser ("u", "%"))] = true := by decide

/-- **On a table without a duplicated key the history login is the login decision of `authNative`, and it is
the Spec's whenever `GetUser` picks the account the Spec picks.** -/
theorem loginI_eq_loginS_of_same_account (H : Bytes → Bytes) (hH : ∀ x, (H x).length = 20) (es : List Entry)
    (user host : String) (salt resp : Bytes) (a : Acct) (hd : dupKey es user host = false)
    (hi : chooseImpl (acctsOf es) user host = some a) (hsp : chooseSpec (acctsOf es) user host = some (some a)) :
    loginS H es user host salt resp = some (loginI H es user host salt resp) := by
  simp only [loginS, loginI, hd, hsp, Bool.false_eq_true, if_false, handleUser, hi, Bool.not_true]
  by_cases hp : a.plugin = defaultAuthMethod
  · simp [hp, authNative_eq_spec_of_same_account H hH (acctsOf es) user host salt resp a hi hsp]
  · simp [hp]

/-- **Finding `create_user_account_lock_ignored`.** `CREATE USER 'u'@'%' ACCOUNT LOCK` stores an unlocked
account: the login the statement forbids is accepted. -/
theorem finding_create_user_account_lock_ignored :
    let evs : List Ev := [.op (.createUser ("u", "%") "mysql_native_password" [] true), .login "u" "10.0.0.5" [] []]
    runI toyH [] evs = [.out (.accept "u" "%")] ∧ runS toyH [] evs = [some (.out .deny)] ∧
      taintOf (taintStep [] [] (.createUser ("u", "%") "mysql_native_password" [] true)) ("u", "%") = some regionLock := by
  decide

/-- **Finding `dml_update_keeps_old_row_of_scoped_account`.** After `GRANT … ON d.*`, `UPDATE mysql.user SET
account_locked = 'Y'` leaves the old (unlocked) row in front of the new one: a client matched through the
host pattern is still accepted; a client whose (user, host) is the key itself makes `Reader.GetUser` panic. -/
theorem finding_dml_update_keeps_old_row_of_scoped_account :
    let evs (h : String) : List Ev := [.op (.createUser ("u", h) "mysql_native_password" [] false), .op (.grantScoped ("u", h)),
      .op (.dmlUpdate ("u", h) (.lock true)), .login "u" "localhost" [] []]
    runI toyH [] (evs "%") = [.out (.accept "u" "%")] ∧ runS toyH [] (evs "%") = [some (.out .deny)] ∧
    runI toyH [] (evs "localhost") = [.out .crash] ∧ runS toyH [] (evs "localhost") = [some (.out .deny)] ∧
    (stateI [] (evs "%")).length = 2 ∧ (stateS [] (evs "%")).length = 1 := by
  decide

/-! ### a cache in front of the account lookup -/

/-- Invariant of the read-through cache: an entry of the current generation holds the current answer. -/
def CInv {σ κ ν : Type} (look : σ → κ → Option ν) (c : Cached σ κ ν) : Prop :=
  ∀ e ∈ c.cache, e.2.2 ≤ c.gen ∧ (e.2.2 = c.gen → look c.st e.1 = some e.2.1)

theorem cacheGet_some {κ ν : Type} [DecidableEq κ] (cache : List (κ × ν × Nat)) (k : κ) (gen : Nat) (v : ν)
    (h : cacheGet cache k gen = some v) : ∃ e ∈ cache, e.1 = k ∧ e.2.1 = v ∧ e.2.2 = gen := by
  simp only [cacheGet] at h
  cases hf : cache.find? (fun e => decide (e.1 = k)) with
  | none => simp [hf] at h
  | some e =>
    obtain ⟨k', v', g⟩ := e
    simp only [hf] at h
    split at h
    · rename_i hg
      have hk := List.find?_some hf
      simp only [decide_eq_true_eq] at hk
      simp only [Option.some.injEq] at h
      exact ⟨(k', v', g), List.mem_of_find?_eq_some hf, hk, h, hg⟩
    · simp at h

/-- **A generation-keyed cache is transparent iff every state change bumps the generation.** If every
operation of the history that does not advance the generation leaves the state unchanged, the cached answers
are the uncached ones. (The account lookup of a login may be cached on `MySQLDb.updateCounter` only if every
path that edits accounts advances it.) -/
theorem cache_coherent {σ ο κ ν : Type} [DecidableEq κ] (step : σ → ο → σ) (look : σ → κ → Option ν) (bumps : ο → Bool)
    (evs : List (CEv ο κ)) (hb : ∀ o, CEv.op o ∈ evs → bumps o = false → ∀ s, step s o = s)
    (c : Cached σ κ ν) (hc : CInv look c) :
    runC step look bumps c evs = runU step look c.st evs := by
  induction evs generalizing c with
  | nil => rfl
  | cons e r ih =>
    have hb' : ∀ o, CEv.op o ∈ r → bumps o = false → ∀ s, step s o = s :=
      fun o ho => hb o (List.mem_cons_of_mem _ ho)
    cases e with
    | op o =>
      simp only [runC, runU]
      apply ih hb'
      intro e he
      by_cases hbo : bumps o = true
      · simp only [hbo, if_true]
        have := (hc e he).1
        exact ⟨by omega, fun h => by omega⟩
      · have hbo' : bumps o = false := by simpa using hbo
        simp only [hbo', Bool.false_eq_true, if_false, hb o (List.mem_cons_self ..) hbo' c.st]
        exact hc e he
    | ask k =>
      simp only [runC, runU]
      cases hg : cacheGet c.cache k c.gen with
      | some v =>
        obtain ⟨e, he, hk, hv, hgen⟩ := cacheGet_some _ _ _ _ hg
        have := (hc e he).2 hgen
        rw [hk, hv] at this
        simp only [this, ih hb' c hc]
      | none =>
        cases hl : look c.st k with
        | none => simp only [ih hb' c hc]
        | some v =>
          simp only
          rw [ih hb']
          intro e he
          rcases List.mem_cons.1 he with rfl | hm
          · exact ⟨Nat.le_refl _, fun _ => hl⟩
          · exact hc e hm

/-- The account lookup of a login, as a function of the table. -/
def lookAcct (es : List Entry) (k : String × String) : Option Acct := chooseImpl (acctsOf es) k.1 k.2

/-- With a counter that *every* statement advances the cache is invisible … -/
theorem cache_coherent_all_bump (evs : List (CEv AuthHist.Op (String × String))) (es : List Entry) :
    runC stepI lookAcct (fun _ => true) { st := es, gen := 1, cache := [] } evs = runU stepI lookAcct es evs :=
  cache_coherent stepI lookAcct (fun _ => true) evs (fun _ _ h => by simp at h) _ (by intro e he; cases he)

/-- **… but `MySQLDb.updateCounter` is advanced by `Editor.Close` only**: DML on `mysql.user` changes the
table without advancing it, and a lookup cached on that counter keeps answering with the old account — the
login after `UPDATE mysql.user SET account_locked = 'Y'` is still checked against the unlocked row. -/
theorem stale_cache_diverges :
    let es : List Entry := [mkEntry ("u", "%") "mysql_native_password" [] false]
    let evs : List (CEv AuthHist.Op (String × String)) :=
      [.ask ("u", "10.0.0.5"), .op (.dmlUpdate ("u", "%") (.lock true)), .ask ("u", "10.0.0.5")]
    (runC stepI lookAcct bumpsEditor { st := es, gen := 1, cache := [] } evs).map (·.map (·.locked)) = [some false, some false] ∧
    (runU stepI lookAcct es evs).map (·.map (·.locked)) = [some false, some true] ∧
    bumpsEditor (.dmlUpdate ("u", "%") (.lock true)) = false ∧
    stepI es (.dmlUpdate ("u", "%") (.lock true)) ≠ es := by
  decide

end Histories

end Gms.C40
