/-
C52 — Geometry values round-trip through WKT/WKB and predicates agree.

Model: Gms/Model/Wkb.lean (WKB / EWKB codec of sql/types, ST_AsWKB / ST_GeomFromWKB, axis swap,
bounding boxes and the spatial-index filter). Helper lemmas first (namespace Gms.Wkb), property
theorems at the end (namespace Gms.C52). WKT and the exact spatial predicates are outside the model
(model-free oracles in harness/cmd/c52).
-/
import Gms.Model.Wkb
import Gms.Model.WkbTyped
import Gms.Generated.C52

namespace Gms.Wkb

theorem e32_length (big : Bool) (n : Nat) : (e32 big n).length = 4 := by
  cases big <;> simp [e32]

theorem u32_e32 (big : Bool) (n : Nat) (rest : List Byte) :
    u32 big (e32 big n ++ rest) = n % 4294967296 := by
  cases big <;> simp [u32, e32] <;> omega

theorem rdPt_wPt (big : Bool) (p : Pt) : rdPt big (wPt big p) = some p := by
  cases big <;> rfl

theorem wPt_length (big : Bool) (p : Pt) : (wPt big p).length = 16 := by
  cases big <;> rfl

theorem dPointAt_wPt (big : Bool) (p : Pt) (rest : List Byte) :
    dPointAt big (wPt big p ++ rest) = .ok (p, rest) := by
  have hl := wPt_length big p
  have h1 : ¬ (wPt big p ++ rest).length < 16 := by simp [hl]
  have h2 : (wPt big p ++ rest).take 16 = wPt big p := by
    rw [List.take_append_of_le_length (by omega)]; rw [← hl]; exact List.take_length
  have h3 : (wPt big p ++ rest).drop 16 = rest := by
    rw [← hl]; exact List.drop_left
  simp only [dPointAt, h1, if_false, h2, dPoint, rdPt_wPt, h3]

/-- The loop lemma: if every item decodes back from its own encoding (whatever follows), the
counted loop decodes the concatenation. -/
theorem rep_flatMap {α : Type} (item : List Byte → Res (α × List Byte)) (enc : α → List Byte) (as : List α)
    (h : ∀ a ∈ as, ∀ rest, item (enc a ++ rest) = .ok (a, rest)) (rest : List Byte) :
    rep item as.length (as.flatMap enc ++ rest) = .ok (as, rest) := by
  induction as with
  | nil => rfl
  | cons a as ih =>
    have ha := h a (by simp) (as.flatMap enc ++ rest)
    have ih' := ih (fun x hx => h x (by simp [hx]))
    simp only [List.flatMap_cons, List.length_cons, List.append_assoc, rep, ha, ih']

theorem drop4_e32 (big : Bool) (n : Nat) (l : List Byte) : (e32 big n ++ l).drop 4 = l := by
  have := e32_length big n
  rw [← this]; exact List.drop_left

theorem flatMap_wPt_length (big : Bool) (ps : List Pt) : (ps.flatMap (wPt big)).length = 16 * ps.length := by
  induction ps with
  | nil => rfl
  | cons p ps ih => simp [List.flatMap_cons, wPt_length, ih]; omega

theorem wLine_length (big : Bool) (ps : List Pt) : (wLine big ps).length = 4 + 16 * ps.length := by
  rw [wLine, List.length_append, e32_length, flatMap_wPt_length]

theorem dLine_wLine (big : Bool) (ps : List Pt) (h : lineOK ps = true) (rest : List Byte) :
    dLine big (wLine big ps ++ rest) = .ok (ps, rest) := by
  simp only [lineOK, Bool.and_eq_true, decide_eq_true_eq] at h
  have hl : ¬ (wLine big ps ++ rest).length < 4 + 16 + 16 := by
    simp [wLine_length]; omega
  simp only [dLine, hl, if_false]
  simp only [wLine, List.append_assoc, u32_e32, drop4_e32]
  rw [Nat.mod_eq_of_lt h.2]
  exact rep_flatMap _ _ ps (fun p _ r => dPointAt_wPt big p r) rest

theorem flatMap_wLine_length (big : Bool) (ls : List (List Pt)) :
    (ls.flatMap (wLine big)).length = 4 * ls.length + 16 * sumLen ls := by
  induction ls with
  | nil => rfl
  | cons l ls ih => simp [List.flatMap_cons, wLine_length, ih, sumLen]; omega

theorem wPoly_length (big : Bool) (ls : List (List Pt)) :
    (wPoly big ls).length = 4 + 4 * ls.length + 16 * sumLen ls := by
  rw [wPoly, List.length_append, e32_length, flatMap_wLine_length]; omega

theorem polyOK_sum (ls : List (List Pt)) (h : polyOK ls = true) : 4 ≤ sumLen ls := by
  simp only [polyOK, Bool.and_eq_true, decide_eq_true_eq, List.all_eq_true] at h
  obtain ⟨⟨h1, _⟩, h3⟩ := h
  cases ls with
  | nil => simp at h1
  | cons l ls =>
    have := (h3 l (by simp)).1
    simp [sumLen]; omega

theorem polyOK_lines (ls : List (List Pt)) (h : polyOK ls = true) : ∀ l ∈ ls, lineOK l = true := by
  simp only [polyOK, Bool.and_eq_true, decide_eq_true_eq, List.all_eq_true] at h
  intro l hl
  have := h.2 l hl
  simp [lineOK]; omega

theorem dPoly_wPoly (big : Bool) (ls : List (List Pt)) (h : polyOK ls = true) (rest : List Byte) :
    dPoly big (wPoly big ls ++ rest) = .ok (ls, rest) := by
  have hs := polyOK_sum ls h
  have hlines := polyOK_lines ls h
  simp only [polyOK, Bool.and_eq_true, decide_eq_true_eq] at h
  have hl : ¬ (wPoly big ls ++ rest).length < 4 + 4 + 4 * 16 := by
    simp [wPoly_length]; omega
  simp only [dPoly, hl, if_false]
  simp only [wPoly, List.append_assoc, u32_e32, drop4_e32]
  rw [Nat.mod_eq_of_lt h.1.2]
  exact rep_flatMap _ _ ls (fun l hl r => dLine_wLine big l (hlines l hl) r) rest

theorem hdr_wHdr (big : Bool) (t : Nat) (ht : t < 4294967296) (rest : List Byte) :
    hdr (wHdr big t ++ rest) = .ok (big, t, rest) := by
  have hl : ¬ (wHdr big t ++ rest).length < 5 := by simp [wHdr, e32_length]
  have h5 : (wHdr big t ++ rest).drop 5 = rest := by
    have : (wHdr big t).length = 5 := by simp [wHdr, e32_length]
    rw [← this]; exact List.drop_left
  simp only [hdr, hl, if_false, h5]
  cases big <;> simp [wHdr, u32_e32, Nat.mod_eq_of_lt ht]

theorem dMember_ok {α : Type} (want : Nat) (hw : want < 4294967296) (data : Bool → List Byte → Res (α × List Byte))
    (big : Bool) (enc : List Byte) (a : α) (rest : List Byte) (h : data big (enc ++ rest) = .ok (a, rest)) :
    dMember want data ((wHdr big want ++ enc) ++ rest) = .ok (a, rest) := by
  simp [dMember, List.append_assoc, hdr_wHdr big want hw, h]



theorem dMPoint_w (big : Bool) (ps : List Pt) (h1 : 1 ≤ ps.length) (h2 : ps.length < 4294967296) (rest : List Byte) :
    dMPoint big (wMPoint big ps ++ rest) = .ok (ps, rest) := by
  have hl : ¬ (wMPoint big ps ++ rest).length < 4 + 5 + 16 := by
    cases ps with
    | nil => simp at h1
    | cons p ps => simp [wMPoint, e32_length, wHdr, wPt_length]; omega
  simp only [dMPoint, hl, if_false]
  simp only [wMPoint, List.append_assoc, u32_e32, drop4_e32]
  rw [Nat.mod_eq_of_lt h2]
  exact rep_flatMap _ _ ps (fun p _ r => dMember_ok 1 (by decide) dPointAt big _ p r (dPointAt_wPt big p r)) rest

theorem dMLine_w (big : Bool) (ls : List (List Pt)) (h1 : 1 ≤ ls.length) (h2 : ls.length < 4294967296)
    (h3 : ls.all lineOK = true) (rest : List Byte) :
    dMLine big (wMLine big ls ++ rest) = .ok (ls, rest) := by
  rw [List.all_eq_true] at h3
  have hl : ¬ (wMLine big ls ++ rest).length < 4 + 5 + 4 + 2 * 16 := by
    cases ls with
    | nil => simp at h1
    | cons l ls =>
      have := h3 l (by simp)
      simp only [lineOK, Bool.and_eq_true, decide_eq_true_eq] at this
      simp [wMLine, e32_length, wHdr, wLine_length]; omega
  simp only [dMLine, hl, if_false]
  simp only [wMLine, List.append_assoc, u32_e32, drop4_e32]
  rw [Nat.mod_eq_of_lt h2]
  exact rep_flatMap _ _ ls (fun l hl r => dMember_ok 2 (by decide) dLine big _ l r (dLine_wLine big l (h3 l hl) r)) rest

theorem dMPoly_w (big : Bool) (ps : List (List (List Pt))) (h1 : 1 ≤ ps.length) (h2 : ps.length < 4294967296)
    (h3 : ps.all polyOK = true) (rest : List Byte) :
    dMPoly big (wMPoly big ps ++ rest) = .ok (ps, rest) := by
  rw [List.all_eq_true] at h3
  have hl : ¬ (wMPoly big ps ++ rest).length < 4 + 5 + 2 * 4 + 4 * 16 := by
    cases ps with
    | nil => simp at h1
    | cons p ps =>
      have hp := h3 p (by simp)
      have hs := polyOK_sum p hp
      simp only [polyOK, Bool.and_eq_true, decide_eq_true_eq] at hp
      simp [wMPoly, e32_length, wHdr, wPoly_length]; omega
  simp only [dMPoly, hl, if_false]
  simp only [wMPoly, List.append_assoc, u32_e32, drop4_e32]
  rw [Nat.mod_eq_of_lt h2]
  exact rep_flatMap _ _ ps (fun p hp r => dMember_ok 3 (by decide) dPoly big _ p r (dPoly_wPoly big p (h3 p hp) r)) rest

mutual
theorem rt_item (big : Bool) : ∀ (g : Geom) (fuel : Nat) (rest : List Byte), wf g = true → depth g ≤ fuel →
    dItem (dColl fuel) ((wHdr big (typeId g) ++ wData big g) ++ rest) = .ok (g, rest)
  | .point p, fuel, rest, _, _ => by
    simp [dItem, typeId, wData, List.append_assoc, hdr_wHdr, dPointAt_wPt, Res.map, first]
  | .line ps, fuel, rest, hw, _ => by
    simp only [wf] at hw
    simp [dItem, typeId, wData, List.append_assoc, hdr_wHdr, dLine_wLine big ps hw, Res.map, first]
  | .poly ls, fuel, rest, hw, _ => by
    simp only [wf] at hw
    simp [dItem, typeId, wData, List.append_assoc, hdr_wHdr, dPoly_wPoly big ls hw, Res.map, first]
  | .mpoint ps, fuel, rest, hw, _ => by
    simp only [wf, Bool.and_eq_true, decide_eq_true_eq] at hw
    simp [dItem, typeId, wData, List.append_assoc, hdr_wHdr, dMPoint_w big ps hw.1 hw.2, Res.map, first]
  | .mline ls, fuel, rest, hw, _ => by
    simp only [wf, Bool.and_eq_true, decide_eq_true_eq] at hw
    simp [dItem, typeId, wData, List.append_assoc, hdr_wHdr, dMLine_w big ls hw.1.1 hw.1.2 hw.2, Res.map, first]
  | .mpoly ps, fuel, rest, hw, _ => by
    simp only [wf, Bool.and_eq_true, decide_eq_true_eq] at hw
    simp [dItem, typeId, wData, List.append_assoc, hdr_wHdr, dMPoly_w big ps hw.1.1 hw.1.2 hw.2, Res.map, first]
  | .coll gs, fuel, rest, hw, hd => by
    simp only [wf, Bool.and_eq_true, decide_eq_true_eq] at hw
    cases fuel with
    | zero => simp [depth] at hd
    | succ f =>
      have hd' : depthL gs ≤ f := by simp [depth] at hd; omega
      have ih := rt_items big gs f rest hw.2 hd'
      have hl : ¬ (4 + ((wItems big gs).length + rest.length) < 4) := by omega
      simp [dItem, typeId, wData, List.append_assoc, hdr_wHdr, dColl, e32_length, u32_e32,
        Nat.mod_eq_of_lt hw.1, ih, Res.map, first, hl]
theorem rt_items (big : Bool) : ∀ (gs : List Geom) (fuel : Nat) (rest : List Byte), wfL gs = true → depthL gs ≤ fuel →
    rep (dItem (dColl fuel)) gs.length (wItems big gs ++ rest) = .ok (gs, rest)
  | [], _, _, _, _ => rfl
  | g :: gs, fuel, rest, hw, hd => by
    simp only [wfL, Bool.and_eq_true] at hw
    simp only [depthL] at hd
    have h1 := rt_item big g fuel (wItems big gs ++ rest) hw.1 (by omega)
    have h2 := rt_items big gs fuel rest hw.2 (by omega)
    simp only [wItems, List.length_cons, rep, List.append_assoc] at h1 ⊢
    simp [h1, h2]
end



/-! ### Buffer sizes -/

theorem wMPoint_length (big : Bool) (ps : List Pt) : (wMPoint big ps).length = 4 + 21 * ps.length := by
  rw [wMPoint, List.length_append, e32_length]
  induction ps with
  | nil => rfl
  | cons p ps ih => simp only [List.flatMap_cons, List.length_append, List.length_cons, wHdr, e32_length, wPt_length] at ih ⊢; omega

theorem wMLine_length (big : Bool) (ls : List (List Pt)) :
    (wMLine big ls).length = 4 + 9 * ls.length + 16 * sumLen ls := by
  rw [wMLine, List.length_append, e32_length]
  induction ls with
  | nil => rfl
  | cons l ls ih =>
    simp only [List.flatMap_cons, List.length_append, List.length_cons, wHdr, e32_length, wLine_length, sumLen,
      List.map_cons, List.sum_cons] at ih ⊢
    omega

theorem wMPoly_length (big : Bool) (ps : List (List (List Pt))) :
    (wMPoly big ps).length = 4 + 9 * ps.length + 4 * (ps.map List.length).sum + 16 * (ps.map sumLen).sum := by
  rw [wMPoly, List.length_append, e32_length]
  induction ps with
  | nil => rfl
  | cons p ps ih =>
    simp only [List.flatMap_cons, List.length_append, List.length_cons, wHdr, e32_length, wPoly_length,
      List.map_cons, List.sum_cons] at ih ⊢
    omega

mutual
theorem item_len (big : Bool) : ∀ g : Geom, (wData big g).length + 5 = (calcItem g).bytes
  | .point p => by simp [wData, calcItem, Sz.bytes, wPt_length]
  | .line ps => by simp [wData, calcItem, Sz.bytes, wLine_length]; omega
  | .poly ls => by simp [wData, calcItem, Sz.bytes, wPoly_length]; omega
  | .mpoint ps => by simp [wData, calcItem, Sz.bytes, wMPoint_length]; omega
  | .mline ls => by simp [wData, calcItem, Sz.bytes, wMLine_length]; omega
  | .mpoly ps => by simp [wData, calcItem, Sz.bytes, wMPoly_length]; omega
  | .coll gs => by
    have := items_len big gs
    simp only [wData, calcItem, Sz.bytes, List.length_append, e32_length, this]; omega
theorem items_len (big : Bool) : ∀ gs : List Geom, (wItems big gs).length = (calcSize gs).bytes
  | [] => rfl
  | g :: gs => by
    have h1 := item_len big g
    have h2 := items_len big gs
    simp only [wItems, calcSize, Sz.bytes, Sz.add, List.length_append, wHdr, List.length_cons, e32_length] at h1 h2 ⊢
    omega
end

/-- Every `Serialize` allocates exactly the number of bytes its `WriteData` writes. -/
theorem alloc_exact_any (big : Bool) (g : Geom) : (wData big g).length = (allocSz g).bytes := by
  cases g with
  | point p => simp [wData, allocSz, Sz.bytes, wPt_length]
  | line ps => simp [wData, allocSz, Sz.bytes, wLine_length]; omega
  | poly ls => simp [wData, allocSz, Sz.bytes, wPoly_length]; omega
  | mpoint ps => simp [wData, allocSz, Sz.bytes, wMPoint_length]; omega
  | mline ls => simp [wData, allocSz, Sz.bytes, wMLine_length]; omega
  | mpoly ps => simp [wData, allocSz, Sz.bytes, wMPoly_length]; omega
  | coll gs =>
    have := items_len big gs
    simp only [wData, allocSz, Sz.bytes, List.length_append, e32_length, this]; omega

theorem serialize_eq (srid : Nat) (g : Geom) :
    serialize srid g = .ok (e32 false srid ++ wHdr false (typeId g) ++ wData false g) := by
  have := alloc_exact_any false g
  simp [serialize, this]

/-! ### Depth is bounded by the encoded length -/

mutual
theorem depth_le (big : Bool) : ∀ g : Geom, depth g ≤ (wData big g).length
  | .point _ => by simp [depth]
  | .line _ => by simp [depth]
  | .poly _ => by simp [depth]
  | .mpoint _ => by simp [depth]
  | .mline _ => by simp [depth]
  | .mpoly _ => by simp [depth]
  | .coll gs => by
    have := depthL_le big gs
    simp only [depth, wData, List.length_append, e32_length]; omega
theorem depthL_le (big : Bool) : ∀ gs : List Geom, depthL gs ≤ (wItems big gs).length
  | [] => by simp [depthL]
  | g :: gs => by
    have h1 := depth_le big g
    have h2 := depthL_le big gs
    simp only [depthL, wItems, List.length_append]; omega
end

theorem dTop_wData (big : Bool) (g : Geom) (fuel : Nat) (hw : wf g = true) (hd : depth g ≤ fuel) :
    dTop fuel big (typeId g) (wData big g) = .ok g := by
  cases g with
  | point p => simp [dTop, typeId, wData, dPoint, rdPt_wPt, Res.map]
  | line ps =>
    simp only [wf] at hw
    have := dLine_wLine big ps hw []
    simp only [List.append_nil] at this
    simp [dTop, typeId, wData, this, Res.map]
  | poly ls =>
    simp only [wf] at hw
    have := dPoly_wPoly big ls hw []
    simp only [List.append_nil] at this
    simp [dTop, typeId, wData, this, Res.map]
  | mpoint ps =>
    simp only [wf, Bool.and_eq_true, decide_eq_true_eq] at hw
    have := dMPoint_w big ps hw.1 hw.2 []
    simp only [List.append_nil] at this
    simp [dTop, typeId, wData, this, Res.map]
  | mline ls =>
    simp only [wf, Bool.and_eq_true, decide_eq_true_eq] at hw
    have := dMLine_w big ls hw.1.1 hw.1.2 hw.2 []
    simp only [List.append_nil] at this
    simp [dTop, typeId, wData, this, Res.map]
  | mpoly ps =>
    simp only [wf, Bool.and_eq_true, decide_eq_true_eq] at hw
    have := dMPoly_w big ps hw.1.1 hw.1.2 hw.2 []
    simp only [List.append_nil] at this
    simp [dTop, typeId, wData, this, Res.map]
  | coll gs =>
    simp only [wf, Bool.and_eq_true, decide_eq_true_eq] at hw
    cases fuel with
    | zero => simp [depth] at hd
    | succ f =>
      have hd' : depthL gs ≤ f := by simp [depth] at hd; omega
      have ih := rt_items big gs f [] hw.2 hd'
      simp only [List.append_nil] at ih
      have hl : ¬ (4 + (wItems big gs).length < 4) := by omega
      simp [dTop, typeId, wData, dColl, e32_length, u32_e32, drop4_e32, Nat.mod_eq_of_lt hw.1, ih, Res.map, hl]



/-! ### Swap -/

theorem swapPt_swapPt (p : Pt) : swapPt (swapPt p) = p := rfl

theorem swapPt_comp : swapPt ∘ swapPt = id := by funext p; rfl

theorem map_swapPt2 (ps : List Pt) : (ps.map swapPt).map swapPt = ps := by
  simp [List.map_map, swapPt_comp]

mutual
theorem swap_swap : ∀ g : Geom, swap (swap g) = g
  | .point p => by simp [swap, swapPt_swapPt]
  | .line ps => by simp [swap, swapPt_comp]
  | .poly ls => by simp [swap, List.map_map, Function.comp_def, swapPt_swapPt, swapPt_comp]
  | .mpoint ps => by simp [swap, swapPt_comp]
  | .mline ls => by simp [swap, List.map_map, Function.comp_def, swapPt_swapPt, swapPt_comp]
  | .mpoly ps => by simp [swap, List.map_map, Function.comp_def, swapPt_swapPt, swapPt_comp]
  | .coll gs => by simp [swap, swapL_swapL gs]
theorem swapL_swapL : ∀ gs : List Geom, swapL (swapL gs) = gs
  | [] => rfl
  | g :: gs => by simp [swapL, swap_swap g, swapL_swapL gs]
end

theorem swapL_length : ∀ gs : List Geom, (swapL gs).length = gs.length
  | [] => rfl
  | g :: gs => by simp [swapL, swapL_length gs]

theorem lineOK_map (f : Pt → Pt) (ps : List Pt) : lineOK (ps.map f) = lineOK ps := by simp [lineOK]

theorem polyOK_map (f : Pt → Pt) (ls : List (List Pt)) : polyOK (ls.map (·.map f)) = polyOK ls := by
  simp [polyOK, List.all_map, Function.comp_def]

mutual
theorem wf_swap : ∀ g : Geom, wf (swap g) = wf g
  | .point _ => rfl
  | .line ps => by simp [swap, wf, lineOK_map]
  | .poly ls => by simp [swap, wf, polyOK_map]
  | .mpoint ps => by simp [swap, wf]
  | .mline ls => by simp [swap, wf, List.all_map, Function.comp_def, lineOK_map]
  | .mpoly ps => by simp [swap, wf, List.all_map, Function.comp_def, polyOK_map]
  | .coll gs => by simp [swap, wf, swapL_length, wfL_swap gs]
theorem wfL_swap : ∀ gs : List Geom, wfL (swapL gs) = wfL gs
  | [] => rfl
  | g :: gs => by simp [swapL, wfL, wf_swap g, wfL_swap gs]
end

theorem typeId_swap (g : Geom) : typeId (swap g) = typeId g := by cases g <;> rfl



/-! ### Bounding boxes -/

theorem ivOverlap_iff (gMin gMax iMin iMax : Int) (hg : gMin ≤ gMax) (hi : iMin ≤ iMax) :
    ivOverlapImpl gMin gMax iMin iMax = true ↔ (iMin ≤ gMax ∧ gMin ≤ iMax) := by
  simp only [ivOverlapImpl, Bool.or_eq_true, Bool.and_eq_true, decide_eq_true_eq]
  omega

theorem ivOverlap_of_common (gMin gMax iMin iMax t : Int) (h1 : gMin ≤ t) (h2 : t ≤ gMax) (h3 : iMin ≤ t) (h4 : t ≤ iMax) :
    ivOverlapImpl gMin gMax iMin iMax = true := by
  simp only [ivOverlapImpl, Bool.or_eq_true, Bool.and_eq_true, decide_eq_true_eq]
  omega

def bstep (b : Box) (v : Int × Int) : Box := ⟨min b.minX v.1, min b.minY v.2, max b.maxX v.1, max b.maxY v.2⟩

theorem foldl_bstep_mono (vs : List (Int × Int)) (b : Box) :
    (vs.foldl bstep b).minX ≤ b.minX ∧ (vs.foldl bstep b).minY ≤ b.minY ∧
    b.maxX ≤ (vs.foldl bstep b).maxX ∧ b.maxY ≤ (vs.foldl bstep b).maxY := by
  induction vs generalizing b with
  | nil => simp
  | cons v vs ih =>
    have := ih (bstep b v)
    simp only [List.foldl_cons]
    simp only [bstep] at this ⊢
    omega

theorem foldl_bstep_contains (vs : List (Int × Int)) (b : Box) (v : Int × Int) (hv : v ∈ vs) :
    (vs.foldl bstep b).minX ≤ v.1 ∧ v.1 ≤ (vs.foldl bstep b).maxX ∧
    (vs.foldl bstep b).minY ≤ v.2 ∧ v.2 ≤ (vs.foldl bstep b).maxY := by
  induction vs generalizing b with
  | nil => simp at hv
  | cons w vs ih =>
    simp only [List.foldl_cons]
    rcases List.mem_cons.mp hv with rfl | h
    · have := foldl_bstep_mono vs (bstep b v)
      simp only [bstep] at this ⊢
      omega
    · exact ih (bstep b w) h

theorem bboxOf_eq (big : Int) (vs : List (Int × Int)) : bboxOf big vs = vs.foldl bstep ⟨big, big, -big, -big⟩ := rfl


end Gms.Wkb

/-! ## Property theorems -/
namespace Gms.C52
open Gms.Wkb

set_option maxRecDepth 1000000 in
/-- Facts regenerated from the source on this run: field sizes, type ids, the SRID that swaps the
axes, the SRIDs of the build, the length guard of every `Deserialize*` function, the type → decoder
switches (collection members, `GeometryType.Convert`, `EvalGeomFromWKB`; note `buf[:PointSize]` for
a member point and the whole buffer for a top-level point), the writers (SRID and counts always
little-endian, byte-order flag 1), the readers' byte-order test (`== 0` ⇒ big-endian), the buffer
size formula, the swap rule of `AsWKB.Eval` / `EvalGeomFromWKB`, the `expectedGeomType` every typed `…FromWKB.Eval`
passes and the struct every `New…FromWKB` builds (`typedExpectedImpl`: `MPolyFromWKB` passes
`WKBPolyID`, `NewGeomCollFromWKB` builds an `MPolyFromWKB`), and the bounding-box test of the memory
spatial index. -/
theorem facts_match :
    Generated.C52.sizes = [4, 1, 4, 9, 5, 16, 4] ∧
    Generated.C52.typeIds = [0, 1, 2, 3, 4, 5, 6, 7] ∧
    Generated.C52.geoSpatialSRID = geoSRID ∧ Generated.C52.cartesianSRID = 0 ∧
    Generated.C52.supportedSRIDs = [0, 3857, 4326] ∧
    Generated.C52.lenGuards = ["DeserializeEWKBHeader < 9", "DeserializeWKBHeader < 5", "DeserializePoint != 16",
      "DeserializeLine < 36", "DeserializePoly < 72", "DeserializeMPoint < 25", "DeserializeMLine < 45",
      "DeserializeMPoly < 81", "DeserializeGeomColl < 4"] ∧
    Generated.C52.collSwitch = ["WKBPointID→DeserializePoint(buf[:PointSize])", "WKBLineID→DeserializeLine(buf)",
      "WKBPolyID→DeserializePoly(buf)", "WKBMultiPointID→DeserializeMPoint(buf)", "WKBMultiLineID→DeserializeMLine(buf)",
      "WKBMultiPolyID→DeserializeMPoly(buf)", "WKBGeomCollID→DeserializeGeomColl(buf)",
      "default→sql.ErrInvalidGISData.New(\"GeometryType.Convert\")"] ∧
    Generated.C52.convertSwitch = ["WKBPointID→DeserializePoint(val)", "WKBLineID→DeserializeLine(val)",
      "WKBPolyID→DeserializePoly(val)", "WKBMultiPointID→DeserializeMPoint(val)", "WKBMultiLineID→DeserializeMLine(val)",
      "WKBMultiPolyID→DeserializeMPoly(val)", "WKBGeomCollID→DeserializeGeomColl(val)",
      "default→sql.ErrInvalidGISData.New(\"GeometryType.Convert\")"] ∧
    Generated.C52.fromWkbSwitch = ["WKBPointID→DeserializePoint(buf)", "WKBLineID→DeserializeLine(buf)",
      "WKBPolyID→DeserializePoly(buf)", "WKBMultiPointID→DeserializeMPoint(buf)", "WKBMultiLineID→DeserializeMLine(buf)",
      "WKBMultiPolyID→DeserializeMPoly(buf)", "WKBGeomCollID→DeserializeGeomColl(buf)",
      "default→sql.ErrInvalidGISData.New"] ∧
    Generated.C52.body_WriteEWKBHeader = ["binary.LittleEndian.PutUint32(buf, srid)", "buf = buf[SRIDSize:]", "buf[0] = 1",
      "buf = buf[EndianSize:]", "binary.LittleEndian.PutUint32(buf, typ)"] ∧
    Generated.C52.body_WriteWKBHeader = ["buf[0] = 1", "buf = buf[EndianSize:]", "binary.LittleEndian.PutUint32(buf, typ)"] ∧
    Generated.C52.body_WriteCount = ["binary.LittleEndian.PutUint32(buf, count)"] ∧
    Generated.C52.body_AllocateGeoTypeBuffer =
      ["return make([]byte, EWKBHeaderSize+PointSize*numPoints+CountSize*numCounts+numWKBHeaders*WKBHeaderSize)"] ∧
    Generated.C52.body_readCount = ["if isBig { return binary.BigEndian.Uint32(buf) }", "return binary.LittleEndian.Uint32(buf)"] ∧
    Generated.C52.hdr_DeserializeEWKBHeader = ["srid = binary.LittleEndian.Uint32(buf)", "bigEndian = buf[0] == 0"] ∧
    Generated.C52.hdr_DeserializeWKBHeader = ["bigEndian = buf[0] == 0"] ∧
    Generated.C52.asWkbEval = ["if v.GetSRID() == types.GeoSpatialSRID { v = v.Swap() }", "return v.Serialize()[types.SRIDSize:]"] ∧
    Generated.C52.fromWkbOrder = ["order := srid == types.GeoSpatialSRID", "order = !order", "if order { geom = geom.Swap() }"] ∧
    Generated.C52.typedEval = ["GeomFromWKB→WKBUnknown", "PointFromWKB→WKBPointID", "LineFromWKB→WKBLineID",
      "PolyFromWKB→WKBPolyID", "MPointFromWKB→WKBMultiPointID", "MLineFromWKB→WKBMultiLineID", "MPolyFromWKB→WKBPolyID",
      "GeomCollFromWKB→WKBGeomCollID"] ∧
    Generated.C52.typedCtor = ["NewGeomFromWKB→GeomFromWKB", "NewPointFromWKB→PointFromWKB", "NewLineFromWKB→LineFromWKB",
      "NewPolyFromWKB→PolyFromWKB", "NewMPointFromWKB→MPointFromWKB", "NewMLineFromWKB→MLineFromWKB",
      "NewMPolyFromWKB→MPolyFromWKB", "NewGeomCollFromWKB→MPolyFromWKB"] ∧
    Generated.C52.bboxTest =
      ["xInt := (gMinX <= i.minX && i.minX <= gMaxX) || (gMinX <= i.maxX && i.maxX <= gMaxX) || (i.minX <= gMinX && gMinX <= i.maxX) || (i.minX <= gMaxX && gMaxX <= i.maxX)",
       "yInt := (gMinY <= i.minY && i.minY <= gMaxY) || (gMinY <= i.maxY && i.maxY <= gMaxY) || (i.minY <= gMinY && gMinY <= i.maxY) || (i.minY <= gMaxY && gMaxY <= i.maxY)",
       "if !(xInt && yInt)"] := by
  decide

/-- Every `Serialize` allocates exactly as many bytes as its `WriteData` writes — for all values,
any nesting (`GeomColl.CalculateSize` included): no write past the buffer, no padding. -/
theorem alloc_exact (g : Geom) : (wData false g).length = (allocSz g).bytes := alloc_exact_any false g

/-- `Serialize()` never panics and produces SRID ‖ flag 1 ‖ type ‖ data, for every value. -/
theorem serialize_total (srid : Nat) (g : Geom) :
    serialize srid g = .ok (e32 false srid ++ wHdr false (typeId g) ++ wData false g) := serialize_eq srid g

/-- **Binary round trip** (the stored form): `GeometryType.Convert(g.Serialize()) = g` with its
SRID, for every well-formed value of any nesting depth and any coordinates (64-bit patterns). -/
theorem wkb_roundtrip (srid : Nat) (g : Geom) (hs : srid < 4294967296) (hw : wf g = true) :
    ∃ b, serialize srid g = .ok b ∧ convert b = .ok (srid, g) := by
  refine ⟨e32 false srid ++ (wHdr false (typeId g) ++ wData false g), by rw [serialize_eq, List.append_assoc], ?_⟩
  have hlen : ¬ (e32 false srid ++ (wHdr false (typeId g) ++ wData false g)).length < 9 := by
    simp [e32_length, wHdr]; omega
  have h4 : (e32 false srid ++ (wHdr false (typeId g) ++ wData false g)).drop 4 = wHdr false (typeId g) ++ wData false g :=
    drop4_e32 false srid _
  have h5 : (e32 false srid ++ (wHdr false (typeId g) ++ wData false g)).drop 5 = e32 false (typeId g) ++ wData false g := by
    have : (e32 false srid ++ (wHdr false (typeId g) ++ wData false g)).drop 5
        = ((e32 false srid ++ (wHdr false (typeId g) ++ wData false g)).drop 4).drop 1 := by simp
    rw [this, h4]; simp [wHdr]
  have h9 : (e32 false srid ++ (wHdr false (typeId g) ++ wData false g)).drop 9 = wData false g := by
    have : (e32 false srid ++ (wHdr false (typeId g) ++ wData false g)).drop 9
        = ((e32 false srid ++ (wHdr false (typeId g) ++ wData false g)).drop 5).drop 4 := by simp
    rw [this, h5]; exact drop4_e32 false _ _
  have ht : typeId g < 4294967296 := by cases g <;> simp [typeId]
  have hd : depth g ≤ (e32 false srid ++ (wHdr false (typeId g) ++ wData false g)).length := by
    have := depth_le false g
    simp only [List.length_append]; omega
  simp only [convert, hlen, if_false, h4, h5, h9]
  have hb : ((wHdr false (typeId g) ++ wData false g).head? == some 0) = false := by simp [wHdr]
  rw [hb, u32_e32, u32_e32, Nat.mod_eq_of_lt hs, Nat.mod_eq_of_lt ht, dTop_wData false g _ hw hd]
  rfl

/-- The readers accept both byte orders: the big-endian (or little-endian) encoding of a
well-formed value decodes to the value. -/
theorem wkb_decode_any_order (big : Bool) (g : Geom) (fuel : Nat) (hw : wf g = true) (hd : depth g ≤ fuel) :
    dTop fuel big (typeId g) (wData big g) = .ok g := dTop_wData big g fuel hw hd

/-- A collection member decodes from its own encoding whatever follows it (the induction step of
the round trip, for both byte orders). -/
theorem member_roundtrip (big : Bool) (g : Geom) (fuel : Nat) (rest : List Byte) (hw : wf g = true) (hd : depth g ≤ fuel) :
    dItem (dColl fuel) ((wHdr big (typeId g) ++ wData big g) ++ rest) = .ok (g, rest) := rt_item big g fuel rest hw hd

theorem swap_involutive (g : Geom) : swap (swap g) = g := swap_swap g

/-- **SQL round trip**: `ST_GeomFromWKB(ST_AsWKB(g), srid(g)) = g` for every well-formed value,
including SRID 4326 where both functions swap the axes. -/
theorem sql_wkb_roundtrip (srid : Nat) (g : Geom) (hw : wf g = true) :
    ∃ w, asWKB srid g = .ok w ∧ fromWKB w srid = .ok g := by
  let g' := if srid = geoSRID then swap g else g
  have hw' : wf g' = true := by
    simp only [g']; split
    · rw [wf_swap]; exact hw
    · exact hw
  have hback : (if srid = geoSRID then swap g' else g') = g := by
    simp only [g']; split
    · exact swap_swap g
    · rfl
  refine ⟨wHdr false (typeId g') ++ wData false g', ?_, ?_⟩
  · simp only [asWKB, g', serialize_eq, Res.map]
    rw [List.append_assoc]; rw [drop4_e32]
  · have ht : typeId g' < 4294967296 := by cases g' <;> simp [typeId]
    have hd : depth g' ≤ (wHdr false (typeId g') ++ wData false g').length := by
      have := depth_le false g'
      simp only [List.length_append]; omega
    have h := hdr_wHdr false (typeId g') ht (wData false g')
    simp only [fromWKB, h, dTop_wData false g' _ hw' hd, Res.map, hback]

/-- Non-vacuity: a nested collection (point, empty collection, line) with SRID 4326. -/
example :
    let p : Pt := ⟨⟨0, 0, 0, 0, 0, 0, 240, 63⟩, ⟨0, 0, 0, 0, 0, 0, 0, 64⟩⟩
    let g := Geom.coll [.point p, .coll [], .line [p, swapPt p]]
    wf g = true ∧ (match convert (e32 false 4326 ++ wHdr false 7 ++ wData false g) with
      | .ok (s, .coll [.point q, .coll [], .line [q1, q2]]) => s == 4326 && q == p && q1 == p && q2 == swapPt p
      | _ => false) = true := by
  decide

/-! ### Typed constructors ST_PointFromWKB … ST_GeomCollFromWKB -/

theorem fromWKBTyped_any (buf : List Byte) (srid : Nat) : fromWKBTyped 0 buf srid = fromWKB buf srid := by
  unfold fromWKBTyped fromWKB
  cases hdr buf with
  | ok r => obtain ⟨big, typ, val⟩ := r; simp
  | err => rfl
  | crash => rfl

/-- The bytes `ST_AsWKB` produces for `g` decode back to `g` under every `expectedGeomType` that is
`WKBUnknown` or `g`'s own type. -/
theorem typed_roundtrip_of (t srid : Nat) (g : Geom) (hw : wf g = true) (ht : t = 0 ∨ t = typeId g) :
    ∃ w, asWKB srid g = .ok w ∧ fromWKBTyped t w srid = .ok g := by
  let g' := if srid = geoSRID then swap g else g
  have hw' : wf g' = true := by
    simp only [g']; split
    · rw [wf_swap]; exact hw
    · exact hw
  have hback : (if srid = geoSRID then swap g' else g') = g := by
    simp only [g']; split
    · exact swap_swap g
    · rfl
  have hty : typeId g' = typeId g := by
    simp only [g']; split
    · exact typeId_swap g
    · rfl
  refine ⟨wHdr false (typeId g') ++ wData false g', ?_, ?_⟩
  · simp only [asWKB, g', serialize_eq, Res.map]
    rw [List.append_assoc]; rw [drop4_e32]
  · have htl : typeId g' < 4294967296 := by cases g' <;> simp [typeId]
    have hd : depth g' ≤ (wHdr false (typeId g') ++ wData false g').length := by
      have := depth_le false g'
      simp only [List.length_append]; omega
    have h := hdr_wHdr false (typeId g') htl (wData false g')
    have hne : (t != 0 && typeId g' != t) = false := by
      rcases ht with h0 | h1
      · simp [h0]
      · simp [h1, hty]
    simp only [fromWKBTyped, h, hne, dTop_wData false g' _ hw' hd, Res.map, hback]
    rfl

/-- Typed round trip as specified: `ST_<T>FromWKB(ST_AsWKB(g), srid) = g` for a well-formed `g` of type `T`. -/
theorem typed_spec_roundtrip (srid : Nat) (g : Geom) (hw : wf g = true) :
    ∃ w, asWKB srid g = .ok w ∧ typedFromWKBSpec (typeId g) w srid = .ok g :=
  typed_roundtrip_of (typeId g) srid g hw (Or.inr rfl)

/-
Full statement — FALSE for the code as it is (`finding_typed_fromwkb_expects_wrong_type`):
  ∀ srid g, wf g → ∃ w, asWKB srid g = .ok w ∧ typedFromWKB (typeId g) w srid = .ok g
-/

/-- Region: the SQL functions for MULTIPOLYGON and GEOMETRYCOLLECTION. -/
def rTypedWrong (t : Nat) : Bool := t == 6 || t == 7

/-- Typed round trip as implemented — guarded: not `ST_MPolyFromWKB` / `ST_GeomCollFromWKB`. -/
theorem typed_roundtrip_partial (srid : Nat) (g : Geom) (hw : wf g = true) (hr : rTypedWrong (typeId g) = false) :
    ∃ w, asWKB srid g = .ok w ∧ typedFromWKB (typeId g) w srid = .ok g := by
  have : typedExpectedImpl (typeId g) = typeId g := by
    cases g <;> simp_all [typeId, typedExpectedImpl, rTypedWrong]
  unfold typedFromWKB
  rw [this]
  exact typed_roundtrip_of (typeId g) srid g hw (Or.inr rfl)

def isOk {α : Type} : Res α → Bool
  | .ok _ => true
  | _ => false

/-- Finding: `ST_MPolyFromWKB` rejects every multipolygon (it tests for `WKBPolyID`) and
`ST_GeomCollFromWKB` — which is built as an `MPolyFromWKB` — every collection; both accept polygons. -/
theorem finding_typed_fromwkb_expects_wrong_type :
    let p : Pt := ⟨⟨0, 0, 0, 0, 0, 0, 0, 0⟩, ⟨0, 0, 0, 0, 0, 0, 240, 63⟩⟩
    let ring : List Pt := [p, swapPt p, p, p]
    let mp := Geom.mpoly [[ring]]
    wf mp = true ∧ rTypedWrong (typeId mp) = true ∧
    (match asWKB 0 mp with
      | .ok w => isOk (typedFromWKBSpec 6 w 0) && !isOk (typedFromWKB 6 w 0)
      | _ => false) = true ∧
    (match asWKB 0 (Geom.coll []) with
      | .ok w => isOk (typedFromWKBSpec 7 w 0) && !isOk (typedFromWKB 7 w 0)
      | _ => false) = true ∧
    (match asWKB 0 (Geom.poly [ring]) with
      | .ok w => isOk (typedFromWKB 6 w 0) && isOk (typedFromWKB 7 w 0)
      | _ => false) = true := by
  decide

/-! ### Decoder safety — FALSE for the code as it is

Full statement (DESIGN `wkb_parse_total_safe`): `∀ b, convert b ≠ .crash` and `∀ b s, fromWKB b s ≠ .crash`.
The counted loops slice `buf[:PointSize]` / read the next member without checking what is left. -/

def isCrash {α : Type} : Res α → Bool
  | .crash => true
  | _ => false

/-- Region: the decoder runs out of bytes inside a counted loop. -/
def rPanics (b : List Byte) : Bool := isCrash (convert b)

/-- Spec: undecodable input is an error. -/
def specConvert (b : List Byte) : Res (Nat × Geom) :=
  match convert b with
  | .crash => .err
  | r => r

/-- Finding: `LINESTRING` that announces 3 points and carries 2 (EWKB, SRID 0). -/
theorem finding_decoder_panics_on_short_buffer :
    ∃ b, rPanics b = true ∧ isCrash (specConvert b) = false ∧ isCrash (fromWKB (b.drop 4) 0) = true :=
  ⟨[0, 0, 0, 0, 1, 2, 0, 0, 0, 3, 0, 0, 0] ++ List.replicate 32 0, by decide⟩

theorem convert_safe_partial (b : List Byte) (h : rPanics b = false) : isCrash (convert b) = false ∧ specConvert b = convert b := by
  unfold rPanics at h
  refine ⟨h, ?_⟩
  unfold specConvert
  cases hc : convert b <;> simp_all [isCrash]

/-- Every serialization of a well-formed value is outside the panic region. -/
theorem serialized_never_panics (srid : Nat) (g : Geom) (hs : srid < 4294967296) (hw : wf g = true) :
    ∃ b, serialize srid g = .ok b ∧ rPanics b = false := by
  obtain ⟨b, h1, h2⟩ := wkb_roundtrip srid g hs hw
  exact ⟨b, h1, by simp [rPanics, h2, isCrash]⟩

/-! ### Spatial index lookup = scan (bounding-box part) -/

/-- The four-disjunct interval test of `spatialTableIter.Next` is exactly "the intervals share a
point", for proper intervals. -/
theorem interval_test_iff (gMin gMax iMin iMax : Int) (hg : gMin ≤ gMax) (hi : iMin ≤ iMax) :
    ivOverlapImpl gMin gMax iMin iMax = true ↔ ∃ t, gMin ≤ t ∧ t ≤ gMax ∧ iMin ≤ t ∧ t ≤ iMax := by
  rw [ivOverlap_iff gMin gMax iMin iMax hg hi]
  constructor
  · intro ⟨h1, h2⟩
    exact ⟨max gMin iMin, by omega, by omega, by omega, by omega⟩
  · intro ⟨t, h1, h2, h3, h4⟩
    exact ⟨by omega, by omega⟩

/-- `BBox()` contains every vertex. -/
theorem bbox_contains (big : Int) (vs : List (Int × Int)) (v : Int × Int) (hv : v ∈ vs) :
    (bboxOf big vs).minX ≤ v.1 ∧ v.1 ≤ (bboxOf big vs).maxX ∧ (bboxOf big vs).minY ≤ v.2 ∧ v.2 ≤ (bboxOf big vs).maxY :=
  foldl_bstep_contains vs _ v hv

/-- Two geometries that share a vertex pass the index filter. -/
theorem shared_vertex_passes_filter (big : Int) (vs ws : List (Int × Int)) (v : Int × Int) (h1 : v ∈ vs) (h2 : v ∈ ws) :
    boxOverlapImpl (bboxOf big vs) (bboxOf big ws) = true := by
  have a := bbox_contains big vs v h1
  have b := bbox_contains big ws v h2
  simp only [boxOverlapImpl, Bool.and_eq_true]
  exact ⟨ivOverlap_of_common _ _ _ _ v.1 a.1 a.2.1 b.1 b.2.1, ivOverlap_of_common _ _ _ _ v.2 a.2.2.1 a.2.2.2 b.2.2.1 b.2.2.2⟩

/-- Index lookup (bounding-box filter, then the predicate as left-over filter) returns exactly the
rows of the scan whenever the predicate implies bounding-box overlap — and only then. -/
theorem lookup_eq_scan_iff {ρ : Type} (box : ρ → Box) (pred : ρ → Bool) (q : Box) (rows : List ρ) :
    lookup box pred q rows = rows.filter pred ↔ ∀ r ∈ rows, pred r = true → boxOverlapImpl (box r) q = true := by
  constructor
  · intro h r hr hp
    have hm : r ∈ rows.filter pred := List.mem_filter.mpr ⟨hr, hp⟩
    rw [← h] at hm
    simp only [lookup, List.mem_filter] at hm
    exact hm.1.2
  · intro h
    simp only [lookup, List.filter_filter]
    apply List.filter_congr
    intro r hr
    cases hp : pred r with
    | false => simp
    | true => simp [h r hr hp]

/-- An empty geometry collection has the inverted box (Max, Max, -Max, -Max): as a query it passes
the filter for no row whose coordinates are below Max. -/
theorem empty_query_filters_everything (big : Int) (g : Box)
    (h2 : g.maxX < big) (h3 : -big < g.minX) :
    boxOverlapImpl g (bboxOf big []) = false := by
  have hx : ivOverlapImpl g.minX g.maxX big (-big) = false := by
    rw [Bool.eq_false_iff]
    intro h
    simp only [ivOverlapImpl, Bool.or_eq_true, Bool.and_eq_true, decide_eq_true_eq] at h
    omega
  simp [boxOverlapImpl, bboxOf, hx]

end Gms.C52
