/-
C47 — In-memory indexed sets behave like sets.

Refinement: for every operation sequence the concrete `IndexedSet` (a list of multimaps, one per
keyer) agrees with an insertion-ordered bag `S`: every bucket of every index holds exactly the
elements of `S` with that key, in insertion order.
-/
import Gms.Model.ISet
import Gms.Generated.C47

namespace Gms.ISet
variable {K V : Type} [DecidableEq K]

/-! ## Lemmas about one multimap -/

def MMap.keys (m : MMap K V) : List K := m.map (fun p => p.1)

theorem getMany_of_not_mem (m : MMap K V) (k : K) (h : k ∉ MMap.keys m) : m.getMany k = [] := by
  induction m with
  | nil => rfl
  | cons p rest ih =>
    obtain ⟨k', vs⟩ := p
    simp only [MMap.keys, List.map_cons, List.mem_cons, not_or] at h
    have hne : ¬ k' = k := fun e => h.1 e.symm
    simp only [MMap.getMany, hne, if_false]
    exact ih h.2

theorem getMany_put (m : MMap K V) (k k' : K) (v : V) :
    (m.put k v).getMany k' = if k' = k then m.getMany k' ++ [v] else m.getMany k' := by
  induction m with
  | nil =>
    by_cases h : k' = k
    · simp [MMap.put, MMap.getMany, h]
    · have h' : ¬ k = k' := fun e => h e.symm
      simp [MMap.put, MMap.getMany, h, h']
  | cons p rest ih =>
    obtain ⟨a, vs⟩ := p
    by_cases ha : a = k
    · subst ha
      by_cases h : k' = a
      · simp [MMap.put, MMap.getMany, h]
      · have h' : ¬ a = k' := fun e => h e.symm
        simp [MMap.put, MMap.getMany, h, h']
    · by_cases h : a = k'
      · subst h
        simp [MMap.put, MMap.getMany, ha]
      · simp [MMap.put, MMap.getMany, ha, h, ih]

theorem keys_put (m : MMap K V) (k : K) (v : V) :
    MMap.keys (m.put k v) = if k ∈ MMap.keys m then MMap.keys m else MMap.keys m ++ [k] := by
  induction m with
  | nil => simp [MMap.put, MMap.keys]
  | cons p rest ih =>
    obtain ⟨a, vs⟩ := p
    by_cases ha : a = k
    · subst ha; simp [MMap.put, MMap.keys]
    · have ha' : ¬ k = a := fun e => ha e.symm
      simp only [MMap.keys] at ih
      simp only [MMap.put, ha, if_false, MMap.keys, List.map_cons, List.mem_cons, ha', false_or]
      rw [ih]
      by_cases hc : k ∈ List.map (fun p => p.fst) rest <;> simp [hc]

theorem nodup_put (m : MMap K V) (k : K) (v : V) (h : (MMap.keys m).Nodup) :
    (MMap.keys (m.put k v)).Nodup := by
  rw [keys_put]
  split
  · exact h
  · rename_i hk
    rw [List.nodup_append]
    refine ⟨h, by simp, ?_⟩
    intro a ha b hb
    simp only [List.mem_singleton] at hb
    subst hb
    intro e; subst e; exact hk ha

theorem keys_remove_sublist (eq : V → V → Bool) (m : MMap K V) (k : K) (v : V) :
    List.Sublist (MMap.keys (m.remove eq k v).1) (MMap.keys m) := by
  induction m with
  | nil => simp [MMap.remove, MMap.keys]
  | cons p rest ih =>
    obtain ⟨a, vs⟩ := p
    by_cases ha : a = k
    · subst ha
      simp only [MMap.remove, if_true, MMap.keys]
      split
      · simp
      · simp
    · simp only [MMap.remove, ha, if_false, MMap.keys, List.map_cons]
      exact List.Sublist.cons₂ _ ih

theorem nodup_remove (eq : V → V → Bool) (m : MMap K V) (k : K) (v : V) (h : (MMap.keys m).Nodup) :
    (MMap.keys (m.remove eq k v).1).Nodup :=
  List.Sublist.nodup (keys_remove_sublist eq m k v) h

theorem getMany_remove (eq : V → V → Bool) (m : MMap K V) (k k' : K) (v : V)
    (h : (MMap.keys m).Nodup) :
    (m.remove eq k v).1.getMany k' =
      if k' = k then (m.getMany k').filter (fun vp => !eq v vp) else m.getMany k' := by
  induction m with
  | nil => simp [MMap.remove, MMap.getMany]
  | cons p rest ih =>
    obtain ⟨a, vs⟩ := p
    simp only [MMap.keys, List.map_cons, List.nodup_cons] at h
    by_cases ha : a = k
    · subst ha
      simp only [MMap.remove, if_true]
      by_cases hk : k' = a
      · subst hk
        simp only [if_true, MMap.getMany]
        split
        · rename_i hemp
          rw [getMany_of_not_mem rest k' h.1]
          simpa [List.isEmpty_iff] using hemp.symm
        · simp [MMap.getMany]
      · have hk' : ¬ a = k' := fun e => hk e.symm
        simp only [hk, if_false]
        split <;> simp [MMap.getMany, hk']
    · simp only [MMap.remove, ha, if_false]
      by_cases hk : a = k'
      · subst hk
        have : ¬ a = k := ha
        simp [MMap.getMany, this]
      · simp only [MMap.getMany, hk, if_false]
        exact ih h.2

theorem remove_found (eq : V → V → Bool) (m : MMap K V) (k : K) (v : V) :
    (m.remove eq k v).2 = (m.getMany k).any (fun vp => eq v vp) := by
  induction m with
  | nil => simp [MMap.remove, MMap.getMany]
  | cons p rest ih =>
    obtain ⟨a, vs⟩ := p
    by_cases ha : a = k
    · simp [MMap.remove, MMap.getMany, ha]
    · simp [MMap.remove, MMap.getMany, ha, ih]

theorem getMany_of_mem (m : MMap K V) (k : K) (vs : List V) (h : (MMap.keys m).Nodup)
    (hm : (k, vs) ∈ m) : m.getMany k = vs := by
  induction m with
  | nil => simp at hm
  | cons p rest ih =>
    obtain ⟨a, ws⟩ := p
    simp only [MMap.keys, List.map_cons, List.nodup_cons] at h
    rcases List.mem_cons.mp hm with e | hr
    · cases e; simp [MMap.getMany]
    · have hk : k ∈ MMap.keys rest := by
        simp only [MMap.keys, List.mem_map]; exact ⟨(k, vs), hr, rfl⟩
      have hne : ¬ a = k := fun e => by subst e; exact h.1 hk
      simp only [MMap.getMany, hne, if_false]
      exact ih h.2 hr

theorem length_filter_add (p : V → Bool) (l : List V) :
    (l.filter p).length + (l.filter (fun a => !p a)).length = l.length := by
  induction l with
  | nil => rfl
  | cons a l ih =>
    by_cases h : p a = true
    · simp [List.filter_cons, h]; omega
    · simp [List.filter_cons, h]; omega

/-- Counting lemma: distinct keys that cover `S` partition it. -/
theorem sum_buckets (f : V → K) (ks : List K) (S : List V) (hnd : ks.Nodup)
    (hcov : ∀ v ∈ S, f v ∈ ks) :
    (ks.map (fun k => (S.filter (fun w => decide (f w = k))).length)).sum = S.length := by
  induction ks generalizing S with
  | nil =>
    cases S with
    | nil => rfl
    | cons v S => exact absurd (hcov v (by simp)) (by simp)
  | cons k ks ih =>
    simp only [List.nodup_cons] at hnd
    simp only [List.map_cons, List.sum_cons]
    have hS' : ∀ v ∈ S.filter (fun w => !decide (f w = k)), f v ∈ ks := by
      intro v hv
      simp only [List.mem_filter, Bool.not_eq_eq_eq_not, Bool.not_true, decide_eq_false_iff_not] at hv
      rcases List.mem_cons.mp (hcov v hv.1) with e | h
      · exact absurd e hv.2
      · exact h
    have ih' := ih (S.filter (fun w => !decide (f w = k))) hnd.2 hS'
    have hrew : ks.map (fun k' => ((S.filter (fun w => !decide (f w = k))).filter (fun w => decide (f w = k'))).length)
        = ks.map (fun k' => (S.filter (fun w => decide (f w = k'))).length) := by
      apply List.map_congr_left
      intro k' hk'
      congr 1
      rw [List.filter_filter]
      apply List.filter_congr
      intro w _
      by_cases e : f w = k'
      · have : ¬ f w = k := fun e2 => hnd.1 (by rw [← e2, e]; exact hk')
        subst e
        simp [this]
      · simp [e]
    rw [hrew] at ih'
    rw [ih']
    have := length_filter_add (fun w => decide (f w = k)) S
    omega

/-! ## The refinement invariant -/

/-- `EqCompat`: `Equals`-equal elements have the same key under every keyer (the API's implicit
precondition: `Remove` looks an element up under *its own* keys). -/
def EqCompat (eq : V → V → Bool) (keys : List (V → K)) : Prop :=
  ∀ f ∈ keys, ∀ v w, eq v w = true → f w = f v

structure IxInv (S : List V) (ix : Ix K V) : Prop where
  nodup : (MMap.keys ix.m).Nodup
  buckets : ∀ k, ix.m.getMany k = S.filter (fun w => decide (ix.key w = k))

/-- The concrete set `s` (with keyers `keys`) represents the bag `S`. -/
structure Agree (keys : List (V → K)) (s : ISet K V) (S : List V) : Prop where
  keyers : s.map (fun ix => ix.key) = keys
  inv : ∀ ix ∈ s, IxInv S ix

theorem agree_empty (keys : List (V → K)) : Agree keys (empty keys) ([] : List V) := by
  constructor
  · simp [empty, Function.comp_def]
  · intro ix hix
    simp only [empty, List.mem_map] at hix
    obtain ⟨f, _, rfl⟩ := hix
    exact ⟨by simp [MMap.keys], by intro k; simp [MMap.getMany]⟩

theorem agree_put (keys : List (V → K)) (s : ISet K V) (S : List V) (v : V)
    (h : Agree keys s S) : Agree keys (put s v) (S ++ [v]) := by
  constructor
  · rw [← h.keyers]; simp [put, Function.comp_def]
  · intro ix hix
    simp only [put, List.mem_map] at hix
    obtain ⟨ix0, h0, rfl⟩ := hix
    have i0 := h.inv ix0 h0
    refine ⟨nodup_put _ _ _ i0.nodup, ?_⟩
    intro k
    simp only [getMany_put, i0.buckets, List.filter_append]
    by_cases e : k = ix0.key v
    · subst e; simp
    · have e' : ¬ ix0.key v = k := fun x => e x.symm
      simp [e, e']

theorem agree_remove (eq : V → V → Bool) (keys : List (V → K)) (s : ISet K V) (S : List V) (v : V)
    (hc : EqCompat eq keys) (h : Agree keys s S) :
    Agree keys (remove eq s v).1 (S.filter (fun w => !eq v w)) := by
  constructor
  · rw [← h.keyers]; simp [remove, Function.comp_def]
  · intro ix hix
    simp only [remove, List.mem_map] at hix
    obtain ⟨ix0, h0, rfl⟩ := hix
    have i0 := h.inv ix0 h0
    have hf : ix0.key ∈ keys := by rw [← h.keyers]; exact List.mem_map.mpr ⟨ix0, h0, rfl⟩
    refine ⟨nodup_remove _ _ _ _ i0.nodup, ?_⟩
    intro k
    simp only [getMany_remove eq ix0.m _ k v i0.nodup, i0.buckets]
    by_cases e : k = ix0.key v
    · subst e
      simp only [if_true, List.filter_filter]
      apply List.filter_congr
      intro w _
      simp [Bool.and_comm]
    · simp only [e, if_false, List.filter_filter]
      apply List.filter_congr
      intro w _
      by_cases hk : ix0.key w = k
      · have : eq v w = false := by
          cases hq : eq v w with
          | false => rfl
          | true => exact absurd ((hc _ hf v w hq).symm.trans hk).symm e
        simp [hk, this]
      · simp [hk]

theorem agree_remove_fold (eq : V → V → Bool) (keys : List (V → K)) (vs : List V) (s : ISet K V)
    (S : List V) (hc : EqCompat eq keys) (h : Agree keys s S) :
    Agree keys (vs.foldl (fun s v => (remove eq s v).1) s)
      (vs.foldl (fun S v => S.filter (fun w => !eq v w)) S) := by
  induction vs generalizing s S with
  | nil => simpa using h
  | cons v vs ih =>
    simp only [List.foldl_cons]
    exact ih _ _ (agree_remove eq keys s S v hc h)

theorem getMany_agree (keys : List (V → K)) (s : ISet K V) (S : List V) (i : Nat) (k : K)
    (h : Agree keys s S) :
    getMany s i k = match keys[i]? with
      | some f => S.filter (fun w => decide (f w = k))
      | none => [] := by
  unfold getMany
  have hk : keys[i]? = (s[i]?).map (fun ix => ix.key) := by
    rw [← h.keyers]; simp
  rw [hk]
  cases hs : s[i]? with
  | none => simp
  | some ix =>
    have hm : ix ∈ s := List.mem_of_getElem? hs
    simp [(h.inv ix hm).buckets k]

theorem agree_step (eq : V → V → Bool) (keys : List (V → K)) (s : ISet K V) (S : List V)
    (op : Op K V) (hc : EqCompat eq keys) (h : Agree keys s S) :
    Agree keys (step eq s op) (specStep eq keys S op) := by
  cases op with
  | put v => exact agree_put keys s S v h
  | remove v => exact agree_remove eq keys s S v hc h
  | removeMany i k =>
    simp only [step, specStep, removeMany]
    rw [getMany_agree keys s S i k h]
    cases keys[i]? with
    | none => simpa using h
    | some f => exact agree_remove_fold eq keys _ s S hc h
  | clear =>
    constructor
    · rw [← h.keyers]; simp [step, clear, Function.comp_def]
    · intro ix hix
      simp only [step, clear, List.mem_map] at hix
      obtain ⟨ix0, _, rfl⟩ := hix
      exact ⟨by simp [MMap.keys], by intro k; simp [specStep, MMap.getMany]⟩

end Gms.ISet

/-! ## Property theorems -/
namespace Gms.C47
open Gms.ISet
variable {K V : Type} [DecidableEq K]

/-- Shape facts read from the source on this run: `IndexedSet.Put/Remove` loop over *all*
keyers, `Get`/`Count` use the first index, `RemoveMany` iterates a *copy* of the bucket. -/
theorem facts_match :
    Gms.Generated.C47.putLoopsOverKeyers = true ∧ Gms.Generated.C47.removeLoopsOverKeyers = true ∧
    Gms.Generated.C47.getManyCopies = true ∧ Gms.Generated.C47.removeManyUsesGetMany = true ∧
    Gms.Generated.C47.insertChecksFirstKeyer = true := by decide

/-- Refinement, for every operation sequence: starting from the empty set, the concrete
indexed set agrees with the bag obtained by running the same operations on the Spec. -/
theorem agree_reachable (eq : V → V → Bool) (keys : List (V → K)) (hc : EqCompat eq keys)
    (ops : List (Op K V)) :
    Agree keys (ops.foldl (step eq) (empty keys)) (ops.foldl (specStep eq keys) []) := by
  suffices H : ∀ (s : ISet K V) (S : List V), Agree keys s S →
      Agree keys (ops.foldl (step eq) s) (ops.foldl (specStep eq keys) S) from
    H _ _ (agree_empty keys)
  induction ops with
  | nil => intro s S h; simpa using h
  | cons op ops ih =>
    intro s S h
    simp only [List.foldl_cons]
    exact ih _ _ (agree_step eq keys s S op hc h)

/-- For every key of every index, `GetMany` returns exactly the elements currently stored under
that key (in insertion order). -/
theorem getMany_spec (keys : List (V → K)) (s : ISet K V) (S : List V) (i : Nat) (k : K)
    (f : V → K) (h : Agree keys s S) (hi : keys[i]? = some f) :
    getMany s i k = S.filter (fun w => decide (f w = k)) := by
  rw [getMany_agree keys s S i k h, hi]

/-- `Count` is the number of stored elements (when there is at least one index). -/
theorem count_spec (keys : List (V → K)) (s : ISet K V) (S : List V) (h : Agree keys s S)
    (hne : keys ≠ []) : count s = S.length := by
  cases s with
  | nil => have := h.keyers; simp at this; exact absurd this hne
  | cons ix rest =>
    have i0 := h.inv ix (by simp)
    simp only [count, MMap.count]
    have e : ix.m.map (fun p => p.2.length)
        = (MMap.keys ix.m).map (fun k => (S.filter (fun w => decide (ix.key w = k))).length) := by
      simp only [MMap.keys, List.map_map]
      apply List.map_congr_left
      intro p hp
      obtain ⟨k, vs⟩ := p
      simp only [Function.comp]
      rw [← i0.buckets k, getMany_of_mem ix.m k vs i0.nodup hp]
    rw [e]
    apply sum_buckets _ _ _ i0.nodup
    intro v hv
    apply Classical.byContradiction
    intro hnot
    have h1 := getMany_of_not_mem ix.m (ix.key v) hnot
    rw [i0.buckets] at h1
    have : v ∈ S.filter (fun w => decide (ix.key w = ix.key v)) := by simp [List.mem_filter, hv]
    rw [h1] at this
    simp at this

theorem find_filter_key (eq : V → V → Bool) (key : V → K) (v : V) (S : List V)
    (hc : ∀ w, eq v w = true → key w = key v) :
    (S.filter (fun w => decide (key w = key v))).find? (fun w => eq v w) = S.find? (fun w => eq v w) := by
  induction S with
  | nil => rfl
  | cons w S ih =>
    by_cases hk : key w = key v
    · by_cases he : eq v w = true
      · simp [List.filter_cons, hk, he]
      · simp only [List.filter_cons, hk, decide_true, if_true, List.find?_cons, he]
        exact ih
    · have he : eq v w = false := by
        cases hq : eq v w with
        | false => rfl
        | true => exact absurd (hc w hq) hk
      simp only [List.filter_cons, hk, decide_false, List.find?_cons, he]
      simpa using ih

/-- `Get` returns the first stored element `Equals`-equal to the argument, if any. -/
theorem get_spec (eq : V → V → Bool) (keys : List (V → K)) (s : ISet K V) (S : List V) (v : V)
    (hc : EqCompat eq keys) (h : Agree keys s S) (hne : keys ≠ []) :
    get eq s v = S.find? (fun w => eq v w) := by
  cases s with
  | nil => have := h.keyers; simp at this; exact absurd this hne
  | cons ix rest =>
    have i0 := h.inv ix (by simp)
    have hf : ix.key ∈ keys := by rw [← h.keyers]; simp
    simp only [ISet.get, MMap.get, i0.buckets]
    exact find_filter_key eq ix.key v S (fun w hq => hc _ hf v w hq)

/-- `Remove` reports "found" iff some stored element is `Equals`-equal to the argument. -/
theorem remove_found_spec (eq : V → V → Bool) (keys : List (V → K)) (s : ISet K V) (S : List V)
    (v : V) (hc : EqCompat eq keys) (h : Agree keys s S) (hne : keys ≠ []) :
    (remove eq s v).2 = S.any (fun w => eq v w) := by
  simp only [remove]
  apply Bool.eq_iff_iff.mpr
  simp only [List.any_eq_true]
  constructor
  · rintro ⟨ix, hix, hr⟩
    rw [remove_found, (h.inv ix hix).buckets] at hr
    simp only [List.any_eq_true, List.mem_filter] at hr
    obtain ⟨w, ⟨hw, _⟩, he⟩ := hr
    exact ⟨w, hw, he⟩
  · rintro ⟨w, hw, he⟩
    cases s with
    | nil => have := h.keyers; simp at this; exact absurd this hne
    | cons ix rest =>
      refine ⟨ix, by simp, ?_⟩
      have hf : ix.key ∈ keys := by rw [← h.keyers]; simp
      rw [remove_found, (h.inv ix (by simp)).buckets]
      simp only [List.any_eq_true, List.mem_filter, decide_eq_true_eq]
      exact ⟨w, ⟨hw, hc _ hf v w he⟩, he⟩

/-- Editor layer: `Insert` keeps first-key buckets at size ≤ 1 (primary-key behaviour). -/
theorem edInsert_firstKey_unique (keys : List (V → K)) (s s' : ISet K V) (S : List V) (e : V)
    (f : V → K) (h : Agree keys s S) (h0 : keys[0]? = some f)
    (huniq : ∀ k, (S.filter (fun w => decide (f w = k))).length ≤ 1)
    (hins : edInsert s e = .ok s') :
    Agree keys s' (S ++ [e]) ∧ ∀ k, ((S ++ [e]).filter (fun w => decide (f w = k))).length ≤ 1 := by
  cases s with
  | nil => have := h.keyers; rw [← this] at h0; simp at h0
  | cons ix rest =>
    have hkey : ix.key = f := by
      have := h.keyers; rw [← this] at h0; simpa using h0
    simp only [edInsert] at hins
    split at hins
    · rename_i hemp
      simp only [Except.ok.injEq] at hins
      subst hins
      refine ⟨agree_put keys _ S e h, ?_⟩
      intro k
      rw [getMany_spec keys _ S 0 (ix.key e) f h h0, hkey] at hemp
      simp only [List.isEmpty_iff] at hemp
      rw [List.filter_append]
      by_cases hk : f e = k
      · subst hk; simp [hemp]
      · have := huniq k; simp [hk]; exact this
    · simp at hins

/-- Non-vacuity: two keyers on pairs, `Equals` = equality of pairs, a concrete history. -/
example :
    let keys : List (Nat × Nat → Nat) := [Prod.fst, Prod.snd]
    let ops : List (Op Nat (Nat × Nat)) := [.put (1, 2), .put (1, 3), .put (2, 2), .remove (1, 3), .removeMany 1 2]
    let s := ops.foldl (step (fun a b => decide (a = b))) (empty keys)
    getMany s 0 1 = [] ∧ count s = 0 ∧ ops.foldl (specStep (fun a b => decide (a = b)) keys) [] = [] := by
  decide

example : EqCompat (fun (a b : Nat × Nat) => decide (a = b)) [Prod.fst, Prod.snd] := by
  intro f _ v w h
  simp only [decide_eq_true_eq] at h
  rw [h]

end Gms.C47
