/-
C28 — Values round-trip through their wire representation.

Model: Gms/Model/Wire.lean (Impl model of `Type.SQL` / `MaxTextResponseByteLength` / the field packet,
Spec readers). The inverse for integers and BIT is the Impl model of `Type.Convert` of
Gms/Model/NumConv.lean (C26/C27). Character-set dependent half (ENUM, SET, CHAR/VARCHAR, TEXT: length
fixed at type construction vs. bytes transcoded into `character_set_results` at encode time):
Gms/Model/WireCs.lean, lemmas in Gms/Lemmas/WireCs.lean, theorems in section `CharacterSets` below.
Regenerated facts: Gms/Generated/C28.lean.
-/
import Gms.Model.Wire
import Gms.Lemmas.WireCs
import Gms.Generated.C28

namespace Gms.Wire
open Gms.Num Gms.Conv

/-! ## Decimal ASCII: digits, value, length -/

theorem digit_toNat (d : Nat) (h : d < 10) : (UInt8.ofNat (48 + d)).toNat = 48 + d := by
  simp only [UInt8.toNat_ofNat']
  omega

theorem isDigit_ofNat (d : Nat) (h : d < 10) : isDigit (UInt8.ofNat (48 + d)) = true := by
  have := digit_toNat d h
  simp only [isDigit, Bool.and_eq_true, decide_eq_true_eq, UInt8.le_iff_toNat_le, this]
  constructor
  · show (48 : UInt8).toNat ≤ 48 + d
    simp
  · show 48 + d ≤ (57 : UInt8).toNat
    simp; omega

/-- value of a least-significant-first digit string -/
def valRev : Bytes → Nat
  | [] => 0
  | d :: ds => (d.toNat - 48) + 10 * valRev ds

theorem digitsRev_spec : ∀ (f n : Nat), n < f →
    valRev (digitsRev f n) = n ∧ (∀ b ∈ digitsRev f n, isDigit b = true) ∧ digitsRev f n ≠ [] := by
  intro f
  induction f with
  | zero => intro n h; omega
  | succ f ih =>
    intro n h
    unfold digitsRev
    by_cases h10 : n < 10
    · simp only [h10, if_true]
      refine ⟨?_, ?_, by simp⟩
      · simp only [valRev, digit_toNat n h10]
        omega
      · intro b hb
        simp only [List.mem_singleton] at hb
        rw [hb]; exact isDigit_ofNat n h10
    · simp only [h10, if_false]
      have hm : n % 10 < 10 := Nat.mod_lt _ (by omega)
      obtain ⟨h1, h2, _⟩ := ih (n / 10) (by omega)
      refine ⟨?_, ?_, by simp⟩
      · simp only [valRev, digit_toNat _ hm, h1]
        omega
      · intro b hb
        rcases List.mem_cons.1 hb with hb | hb
        · rw [hb]; exact isDigit_ofNat _ hm
        · exact h2 b hb

theorem digitsVal_append (l : Bytes) (d : UInt8) (acc : Nat) :
    digitsVal (l ++ [d]) acc = digitsVal l acc * 10 + (d.toNat - 48) := by
  induction l generalizing acc with
  | nil => simp [digitsVal]
  | cons x xs ih => simp [digitsVal, ih]

theorem digitsVal_reverse : ∀ (r : Bytes), digitsVal r.reverse 0 = valRev r
  | [] => rfl
  | d :: ds => by
    rw [List.reverse_cons, digitsVal_append, digitsVal_reverse ds, valRev]
    omega

/-- `strconv`'s digits denote the number. -/
theorem digitsVal_natText (n : Nat) : digitsVal (natText n) 0 = n := by
  unfold natText
  rw [digitsVal_reverse]
  exact (digitsRev_spec (n + 1) n (by omega)).1

theorem natText_all_digits (n : Nat) : ∀ b ∈ natText n, isDigit b = true := by
  intro b hb
  unfold natText at hb
  exact (digitsRev_spec (n + 1) n (by omega)).2.1 b (List.mem_reverse.1 hb)

theorem natText_ne_nil (n : Nat) : natText n ≠ [] := by
  unfold natText
  have := (digitsRev_spec (n + 1) n (by omega)).2.2
  simpa using this

theorem digitsRev_length : ∀ (f n k : Nat), n < 10 ^ (k + 1) → (digitsRev f n).length ≤ k + 1 := by
  intro f
  induction f with
  | zero => intro n k _; simp [digitsRev]
  | succ f ih =>
    intro n k h
    unfold digitsRev
    by_cases h10 : n < 10
    · simp [h10]
    · simp only [h10, if_false, List.length_cons]
      cases k with
      | zero => simp at h; omega
      | succ k =>
        have : n / 10 < 10 ^ (k + 1) := by
          rw [Nat.div_lt_iff_lt_mul (by omega)]
          rw [Nat.pow_succ] at h
          exact h
        have := ih (n / 10) k this
        omega

/-- A number below `10^k` (`k ≥ 1`) has at most `k` digits. -/
theorem natText_length_le (n k : Nat) (hk : 1 ≤ k) (h : n < 10 ^ k) : (natText n).length ≤ k := by
  unfold natText
  rw [List.length_reverse]
  obtain ⟨k', rfl⟩ : ∃ k', k = k' + 1 := ⟨k - 1, by omega⟩
  exact digitsRev_length _ n k' h

theorem natText_length_pos (n : Nat) : 1 ≤ (natText n).length := by
  have := natText_ne_nil n
  cases h : natText n with
  | nil => exact absurd h this
  | cons _ _ => simp

theorem intText_length_le (v : Int) (k : Nat) (hk : 1 ≤ k) (h : v.natAbs < 10 ^ k) :
    (intText v).length ≤ k + (if v < 0 then 1 else 0) := by
  unfold intText
  have := natText_length_le v.natAbs k hk h
  split <;> simp <;> omega

theorem padNat_length (w n : Nat) (hw : 1 ≤ w) (h : n < 10 ^ w) : (padNat w n).length = w := by
  unfold padNat
  have := natText_length_le n w hw h
  simp only [List.length_append, List.length_replicate]
  omega

theorem natText_zero_length : (natText 0).length = 1 := by decide

theorem two_length (x : Nat) : (two x).length = 2 := rfl

/-! ## `TruncateStringToInt` / `ParseInt` read `strconv`'s digits back -/

theorem not_cut_of_digit (b : UInt8) (h : isDigit b = true) : isIntCut b = false := by
  simp only [isDigit, Bool.and_eq_true, decide_eq_true_eq, UInt8.le_iff_toNat_le] at h
  simp only [isIntCut, Bool.or_eq_false_iff, beq_eq_false_iff_ne, ne_eq]
  constructor
  · intro hb; subst hb; simp at h
  · intro hb; subst hb; simp at h

theorem trimLeft_head (p : UInt8 → Bool) (b : UInt8) (t : Bytes) (h : p b = false) :
    trimLeft p (b :: t) = b :: t := by simp [trimLeft, h]

/-- a non-empty string that neither starts nor ends with a cut character is not trimmed -/
theorem trim_id (l : Bytes) (hne : l ≠ []) (hfirst : ∀ a, l.head? = some a → isIntCut a = false)
    (hlast : ∀ z, l.reverse.head? = some z → isIntCut z = false) : trim isIntCut l = l := by
  unfold trim
  cases hl : l with
  | nil => exact absurd hl hne
  | cons a m =>
    have ha := hfirst a (by simp [hl])
    rw [trimLeft_head _ _ _ ha]
    cases hr : (a :: m).reverse with
    | nil => simp at hr
    | cons z r =>
      have hz := hlast z (by simp [hl, hr])
      rw [trimLeft_head _ _ _ hz, ← hr, List.reverse_reverse]

theorem scanInt_digits : ∀ (l : Bytes) (i : Nat) (seen : Bool), (∀ b ∈ l, isDigit b = true) →
    scanInt l i seen = (i + l.length, seen || !l.isEmpty)
  | [], i, seen, _ => by simp [scanInt]
  | c :: rest, i, seen, h => by
    have hc := h c (by simp)
    rw [scanInt, if_pos hc, scanInt_digits rest (i + 1) true (fun b hb => h b (by simp [hb]))]
    simp; omega

theorem last_natText_digit (n : Nat) : ∀ z, (natText n).reverse.head? = some z → isDigit z = true := by
  intro z hz
  apply natText_all_digits n z
  have : z ∈ (natText n).reverse := List.mem_of_mem_head? hz
  exact List.mem_reverse.1 this

theorem first_natText_digit (n : Nat) : ∀ a, (natText n).head? = some a → isDigit a = true := by
  intro a ha
  exact natText_all_digits n a (List.mem_of_mem_head? ha)

/-- `TruncateStringToInt` keeps the whole text of an integer. -/
theorem truncate_intText (v : Int) : truncateStringToInt (intText v) = (intText v, false) := by
  have hdig := natText_all_digits v.natAbs
  have hne := natText_ne_nil v.natAbs
  unfold truncateStringToInt
  have htrim : trim isIntCut (intText v) = intText v := by
    unfold intText
    split
    · apply trim_id _ (by simp)
      · intro a ha
        simp at ha; subst ha; decide
      · intro z hz
        rw [List.reverse_cons] at hz
        cases hr : (natText v.natAbs).reverse with
        | nil => simp at hr; exact absurd hr hne
        | cons z' r =>
          rw [hr] at hz
          simp at hz
          subst hz
          exact not_cut_of_digit _ (last_natText_digit v.natAbs z' (by simp [hr]))
    · apply trim_id _ hne
      · intro a ha; exact not_cut_of_digit _ (first_natText_digit _ a ha)
      · intro z hz; exact not_cut_of_digit _ (last_natText_digit _ z hz)
  rw [htrim]
  have hscan : scanInt (intText v) 0 false = ((intText v).length, true) := by
    unfold intText
    split
    · rw [scanInt]
      have h45 : isDigit 45 = false := by decide
      simp only [h45, Bool.false_eq_true, if_false, true_and, true_or, if_true]
      rw [scanInt_digits _ _ _ hdig]
      cases hn : natText v.natAbs with
      | nil => exact absurd hn hne
      | cons _ _ => simp; omega
    · rw [scanInt_digits _ _ _ hdig]
      cases hn : natText v.natAbs with
      | nil => exact absurd hn hne
      | cons _ _ => simp
  simp [hscan]

/-- `ParseInt` reads the text of an integer back. -/
theorem signedVal_intText (v : Int) : signedVal (intText v) = v := by
  unfold intText
  split
  · simp only [signedVal, digitsVal_natText]
    omega
  · cases hn : natText v.natAbs with
    | nil => exact absurd hn (natText_ne_nil _)
    | cons d rest =>
      have hd : isDigit d = true := natText_all_digits v.natAbs d (by simp [hn])
      have h45 : d ≠ 45 := by intro h; subst h; simp [isDigit] at hd
      have h43 : d ≠ 43 := by intro h; subst h; simp [isDigit] at hd
      have : signedVal (d :: rest) = (digitsVal (d :: rest) 0 : Int) := by
        unfold signedVal
        split
        · rename_i heq; simp at heq; exact absurd heq.1 h45
        · rename_i heq; simp at heq; exact absurd heq.1 h43
        · rfl
      rw [this, ← hn, digitsVal_natText]
      omega

theorem splitSign_natText (n : Nat) : splitSign (natText n) = (false, natText n) := by
  cases hn : natText n with
  | nil => exact absurd hn (natText_ne_nil _)
  | cons d rest =>
    have hd : isDigit d = true := natText_all_digits n d (by simp [hn])
    have h45 : d ≠ 45 := by intro h; subst h; simp [isDigit] at hd
    have h43 : d ≠ 43 := by intro h; subst h; simp [isDigit] at hd
    unfold splitSign
    split
    · rename_i heq; simp at heq; exact absurd heq.1 h43
    · rename_i heq; simp at heq; exact absurd heq.1 h45
    · rfl

/-! ## Integers -/

end Gms.Wire

namespace Gms.C28
open Gms.Wire Gms.Num Gms.Conv

/-- The clamp of `SQLIntN` is the identity on storable values. -/
theorem sqlInt_of_inRange (t : ITy) (v : Int) (h : t.InRange v) : sqlInt t v = intText v := by
  unfold sqlInt
  have hv : ¬ (v > maxI64) ∨ t.unsigned = true := by
    cases t <;> simp [ITy.InRange, ITy.lo, ITy.hi, ITy.unsigned, ITy.bits, maxI64] at h ⊢ <;> omega
  have h1 : (if !t.unsigned && decide (v > maxI64) then maxI64 else v) = v := by
    rcases hv with hv | hv
    · simp [hv]
    · simp [hv]
  rw [h1]
  congr 1
  cases t <;> simp [clampInt, ITy.InRange, ITy.lo, ITy.hi, ITy.unsigned, ITy.bits] at h ⊢ <;> omega

/-- **Announced length, integers**: the text of every storable value of every integer type fits
`MaxTextResponseByteLength`. -/
theorem int_text_len_le_announced (t : ITy) (v : Int) (h : t.InRange v) :
    (sqlInt t v).length ≤ maxTextLen (.int t) := by
  rw [sqlInt_of_inRange t v h]
  cases t <;> simp only [ITy.InRange, ITy.lo, ITy.hi, ITy.unsigned, ITy.bits, if_true, if_false,
    Bool.false_eq_true] at h
  · have := intText_length_le v 3 (by omega) (by omega); simp only [maxTextLen]; split at this <;> omega
  · have := intText_length_le v 3 (by omega) (by omega); simp only [maxTextLen]; split at this <;> omega
  · have := intText_length_le v 5 (by omega) (by omega); simp only [maxTextLen]; split at this <;> omega
  · have := intText_length_le v 5 (by omega) (by omega); simp only [maxTextLen]; split at this <;> omega
  · have := intText_length_le v 7 (by omega) (by omega); simp only [maxTextLen]; split at this <;> omega
  · have := intText_length_le v 8 (by omega) (by omega); simp only [maxTextLen]; split at this <;> omega
  · have := intText_length_le v 10 (by omega) (by omega); simp only [maxTextLen]; split at this <;> omega
  · have := intText_length_le v 10 (by omega) (by omega); simp only [maxTextLen]; split at this <;> omega
  · have := intText_length_le v 19 (by omega) (by omega); simp only [maxTextLen]; split at this <;> omega
  · have := intText_length_le v 20 (by omega) (by omega); simp only [maxTextLen]; split at this <;> omega

/-- **Round trip, integers** — through the Impl model of `NumberTypeImpl_.Convert` (NumConv, C26/C27):
converting the text of a storable value back with the column type yields the value, in range,
without error or truncation warning. All ten integer types. -/
theorem int_text_roundtrip (t : ITy) (v : Int) (h : t.InRange v) :
    convertInt t (.s (sqlInt t v)) = ⟨.int v, .inRange, .none⟩ := by
  rw [sqlInt_of_inRange t v h]
  have h64 : t ≠ .u64 → (minI64 ≤ v ∧ v ≤ maxI64) := by
    intro hne
    cases t <;> simp [ITy.InRange, ITy.lo, ITy.hi, ITy.unsigned, ITy.bits, minI64, maxI64] at h hne ⊢ <;> omega
  have hconv : t ≠ .u64 → convertToInt64 (.s (intText v)) = ⟨v, .inRange, .none⟩ := by
    intro hne
    obtain ⟨h1, h2⟩ := h64 hne
    simp only [convertToInt64, truncate_intText, signedVal_intText]
    have : ¬ (v < minI64 ∨ v > maxI64) := by omega
    simp [this]
  cases t
  case u64 =>
    simp only [ITy.InRange, ITy.lo, ITy.hi, ITy.unsigned, ITy.bits, if_true] at h
    have hnn : ¬ v < 0 := by omega
    have hnat : (v.natAbs : Int) = v := by omega
    simp only [convertInt, convertToUint64, truncate_intText]
    simp only [intText, hnn, if_false, splitSign_natText, digitsVal_natText, hnat]
    have : ¬ (v > maxU64) := by simp only [maxU64]; omega
    simp [this]
  case i64 => simp only [convertInt, hconv (by decide)]
  all_goals
    simp only [convertInt, hconv (by decide)]
    obtain ⟨hlo, hhi⟩ := h
    rw [if_neg (by decide), if_neg (by omega), if_neg (by omega)]

example : convertInt .i8 (.s (sqlInt .i8 (-128))) = ⟨.int (-128), .inRange, .none⟩ ∧
    sqlInt .i8 (-128) = [45, 49, 50, 56] := by decide

example : (sqlInt .i64 (-9223372036854775808)).length = 20 ∧ maxTextLen (.int .i64) = 20 ∧
    (sqlInt .i24 (-8388608)).length = 8 := by decide

/-! ## DECIMAL

Full statement (FALSE on the unchanged tree — `finding_decimal_full_scale_negative`):
`Valid (.dec p s) (.dec c) → (decText s c).length ≤ maxTextLen (.dec p s)`. -/

theorem decText_length (p s : Nat) (c : Int) (hs : s ≤ p) (hp : 1 ≤ p) (hc : c.natAbs < 10 ^ p) :
    (decText s c).length ≤ (if c < 0 then 1 else 0) + (if p = s then 1 else p - s) + (if s = 0 then 0 else 1 + s) := by
  have hip : (natText (c.natAbs / 10 ^ s)).length ≤ (if p = s then 1 else p - s) := by
    split
    · rename_i h
      subst h
      have : c.natAbs / 10 ^ p = 0 := Nat.div_eq_of_lt hc
      rw [this, natText_zero_length]
      exact Nat.le_refl 1
    · apply natText_length_le _ _ (by omega)
      rw [Nat.div_lt_iff_lt_mul (Nat.pow_pos (by omega)), ← Nat.pow_add]
      have : p - s + s = p := by omega
      rw [this]; exact hc
  unfold decText
  by_cases h0 : s = 0
  · subst h0
    have hp0 : ¬ p = 0 := by omega
    simp only [Nat.pow_zero, Nat.div_one, Nat.sub_zero, hp0, if_false] at hip
    simp only [if_true, Nat.pow_zero, Nat.div_one, Nat.sub_zero, hp0, if_false]
    split <;> simp <;> omega
  · have hfr := padNat_length s (c.natAbs % 10 ^ s) (by omega) (Nat.mod_lt _ (Nat.pow_pos (by omega)))
    simp only [h0, if_false]
    split <;> simp [hfr] <;> omega

/-- **Announced length the property needs** (`specLen`: DECIMAL(p,p) must count the leading `0`). -/
theorem dec_text_len_le_spec (p s : Nat) (c : Int) (h : Valid (.dec p s) (.dec c)) :
    (decText s c).length ≤ specLen (.dec p s) := by
  obtain ⟨hs, hp, hc⟩ := h
  have := decText_length p s c hs hp hc
  simp only [specLen]
  by_cases h0 : s = 0
  · subst h0
    simp only [if_true] at this ⊢
    split at this <;> split at this <;> omega
  · simp only [h0, if_false] at this ⊢
    split at this <;> split at this <;> split <;> omega

/-- **Announced length, DECIMAL (partial)**: outside the region the text fits what the code announces. -/
theorem dec_text_len_le_announced_partial (p s : Nat) (c : Int) (h : Valid (.dec p s) (.dec c))
    (hr : ¬ DecimalFullScaleNegative (.dec p s) (.dec c)) :
    (decText s c).length ≤ maxTextLen (.dec p s) := by
  obtain ⟨hs, hp, hc⟩ := h
  have := decText_length p s c hs hp hc
  simp only [DecimalFullScaleNegative, not_and] at hr
  simp only [maxTextLen]
  by_cases h0 : s = 0
  · subst h0
    simp only [if_true] at this ⊢
    split at this <;> split at this <;> omega
  · simp only [h0, if_false] at this ⊢
    by_cases hps : p = s
    · have hneg := hr hps
      simp only [hps, if_true, hneg, if_false] at this ⊢
      omega
    · simp only [hps, if_false] at this
      split at this <;> omega

/-- Witness: DECIMAL(3,3) holding -0.123 — 6 bytes, 5 announced. Replayed on the real code
(`types.MustCreateColumnDecimalType(3,3)`, and over the wire: corpus case `(wire (dec 3 3) (dec -123))`). -/
theorem finding_decimal_full_scale_negative : ∃ (p s : Nat) (c : Int), Valid (.dec p s) (.dec c) ∧
    DecimalFullScaleNegative (.dec p s) (.dec c) ∧ (decText s c).length > maxTextLen (.dec p s) :=
  ⟨3, 3, -123, by decide⟩

example : Valid (.dec 65 30) (.dec (-(10 ^ 65 - 1))) ∧ (decText 30 (-(10 ^ 65 - 1))).length = 67 ∧
    maxTextLen (.dec 65 30) = 67 := by decide

/-! ## YEAR, DATE, DATETIME, TIME: lengths -/

theorem year_text_len_le_announced (y : Nat) (h : Valid .year (.year y)) : (yearText y).length ≤ maxTextLen .year := by
  have hy : y < 10 ^ 4 := by
    rcases h with h | h <;> omega
  exact natText_length_le y 4 (by omega) hy

theorem dateText_length_le (y m d : Nat) (hy : y ≤ 9999) : (dateText y m d).length ≤ 10 := by
  unfold dateText
  split
  · simp
  · have := natText_length_le y 4 (by omega) (by omega)
    split <;> simp [two_length] <;> omega

theorem date_text_len_le_announced (y m d : Nat) (h : Valid .date (.date y m d)) :
    (dateText y m d).length ≤ maxTextLen .date := by
  have hy : y ≤ 9999 := by
    rcases h with ⟨h, _, _⟩ | ⟨_, h, _⟩ <;> omega
  exact dateText_length_le y m d hy

theorem fracText_length_le (p us : Nat) (hp : p ≤ 6) (hus : us < 1000000) : (fracText p us).length ≤ 1 + p := by
  unfold fracText
  split
  · simp
  · have hlt : us / 10 ^ (6 - p) < 10 ^ p := by
      rw [Nat.div_lt_iff_lt_mul (Nat.pow_pos (by omega)), ← Nat.pow_add]
      have : p + (6 - p) = 6 := by omega
      rw [this]; omega
    have := padNat_length p (us / 10 ^ (6 - p)) (by omega) hlt
    simp [this]
    omega

theorem timeOfDayText_length_le (h mi s us p k : Nat) (hk : 2 ≤ k) (hh : h < 10 ^ k) (hp : p ≤ 6) (hus : us < 1000000) :
    (timeOfDayText h mi s us p).length ≤ k + 6 + (1 + p) := by
  unfold timeOfDayText
  have h1 := natText_length_le h k (by omega) hh
  have h2 := fracText_length_le p us hp hus
  have h3 : h < 10 → (natText h).length ≤ 1 := fun hlt => natText_length_le h 1 (by omega) (by omega)
  split
  · rename_i hlt
    have := h3 hlt
    simp [two_length]; omega
  · simp [two_length]; omega

theorem datetime_text_len_le_announced (p y m d h mi s us : Nat) (hv : Valid (.datetime p) (.datetime y m d h mi s us)) :
    (datetimeText p y m d h mi s us).length ≤ maxTextLen (.datetime p) := by
  obtain ⟨hp, hd, hh, _, _, hus, _, _⟩ := hv
  have hy : y ≤ 9999 := by
    rcases hd with ⟨h, _, _⟩ | ⟨_, h, _⟩ <;> omega
  unfold datetimeText
  split
  · simp only [zeroDatetimeText, maxTextLen]
    split <;> simp <;> omega
  · have h1 := dateText_length_le y m d hy
    have h2 := timeOfDayText_length_le h mi s us p 2 (by omega) (by omega) hp hus
    simp only [List.length_append, List.length_cons, maxTextLen]
    omega

theorem time_text_len_le_announced (neg : Bool) (h mi s us : Nat) (hv : Valid .time (.time neg h mi s us)) :
    (timeText neg h mi s us).length ≤ maxTextLen .time := by
  obtain ⟨hh, _, _, hus, _⟩ := hv
  have h2 := timeOfDayText_length_le h mi s us 6 3 (by omega) (by omega) (by omega) hus
  unfold timeText
  simp only [List.length_append, maxTextLen]
  split <;> simp <;> omega

example : (timeText true 838 59 59 0).length = 17 ∧ (datetimeText 6 9999 12 31 23 59 59 999999).length = 26 := by decide

/-! ## BIT -/

theorem leBytes_length : ∀ (k v : Nat), (leBytes k v).length = k
  | 0, _ => rfl
  | k + 1, v => by simp [leBytes, leBytes_length k]

theorem bit_text_len_le_announced (n v : Nat) (h : Valid (.bit n) (.bit v)) :
    (bitText n v).length ≤ maxTextLen (.bit n) := by
  obtain ⟨h1, _, _⟩ := h
  simp only [bitText, List.length_reverse, leBytes_length, maxTextLen]
  omega

theorem foldl_leBytes_reverse : ∀ (k v : Nat),
    (leBytes k v).reverse.foldl (fun acc b => acc * 256 + b.toNat) 0 = v % 256 ^ k
  | 0, v => by simp [leBytes, Nat.mod_one]
  | k + 1, v => by
    have hb : (UInt8.ofNat (v % 256)).toNat = v % 256 := by
      simp only [UInt8.toNat_ofNat']
      exact Nat.mod_eq_of_lt (Nat.mod_lt _ (by omega))
    simp only [leBytes, List.reverse_cons, List.foldl_append, List.foldl_cons, List.foldl_nil,
      foldl_leBytes_reverse k (v / 256), hb]
    rw [Nat.pow_succ', Nat.mod_mul]
    omega

theorem foldl_int_cast : ∀ (l : Bytes) (a : Nat),
    List.foldl (fun (acc : Int) (b : UInt8) => acc * 256 + (b.toNat : Int)) (a : Int) l =
      ((List.foldl (fun acc b => acc * 256 + b.toNat) a l : Nat) : Int)
  | [], a => rfl
  | b :: t, a => by
    simp only [List.foldl_cons]
    have : (a : Int) * 256 + (b.toNat : Int) = ((a * 256 + b.toNat : Nat) : Int) := by omega
    rw [this, foldl_int_cast t]

/-- **Round trip, BIT(n)** — through the Impl model of `BitType_.Convert` on the received bytes. -/
theorem bit_text_roundtrip (n v : Nat) (h : Valid (.bit n) (.bit v)) :
    convertBit n (.s (bitText n v)) = ⟨.int v, .inRange, .none⟩ := by
  obtain ⟨h1, h64, hv⟩ := h
  have hk : (n + 7) / 8 ≤ 8 := by omega
  have hpow : v < 256 ^ ((n + 7) / 8) := by
    have : (256 : Nat) ^ ((n + 7) / 8) = 2 ^ (8 * ((n + 7) / 8)) := by
      rw [Nat.pow_mul]
    rw [this]
    exact Nat.lt_of_lt_of_le hv (Nat.pow_le_pow_right (by omega) (by omega))
  have hlen : (bitText n v).length ≤ 8 := by
    simp only [bitText, List.length_reverse, leBytes_length]; omega
  have hnat : List.foldl (fun acc (b : UInt8) => acc * 256 + b.toNat) 0 (bitText n v) = v := by
    unfold bitText
    rw [foldl_leBytes_reverse, Nat.mod_eq_of_lt hpow]
  have hf := foldl_int_cast (bitText n v) 0
  rw [hnat] at hf
  generalize bitText n v = bs at hlen hf
  have hnot : ¬ ((v : Int) > 2 ^ n - 1) := by
    have : (v : Int) < 2 ^ n := by exact_mod_cast hv
    omega
  simp only [convertBit]
  rw [if_neg (by omega), hf, if_neg hnot]

example : bitText 9 257 = [1, 1] ∧ convertBit 9 (.s [1, 1]) = ⟨.int 257, .inRange, .none⟩ := by decide

/-! ## The announced length fits every storable value of every modelled type (outside the region) -/

/-- **`text_len_le_announced` (partial)**: for every modelled column type and storable value
outside `DecimalFullScaleNegative`, the text form is no longer than `MaxTextResponseByteLength`.
Full statement (without the guard) is FALSE: `finding_decimal_full_scale_negative`. -/
theorem text_len_le_announced_partial (t : Wire.Ty) (v : Wire.Val) (hv : Valid t v)
    (hr : ¬ DecimalFullScaleNegative t v) :
    ∃ text, sqlText t v = some text ∧ text.length ≤ maxTextLen t := by
  cases t <;> cases v <;> simp only [Valid] at hv
  case int.int t v => exact ⟨_, rfl, int_text_len_le_announced t v hv⟩
  case dec.dec p s c => exact ⟨_, rfl, dec_text_len_le_announced_partial p s c hv hr⟩
  case bit.bit n v => exact ⟨_, rfl, bit_text_len_le_announced n v hv⟩
  case year.year y => exact ⟨_, rfl, year_text_len_le_announced y hv⟩
  case date.date y m d => exact ⟨_, rfl, date_text_len_le_announced y m d hv⟩
  case datetime.datetime p y m d h mi s us => exact ⟨_, rfl, datetime_text_len_le_announced p y m d h mi s us hv⟩
  case time.time neg h mi s us => exact ⟨_, rfl, time_text_len_le_announced neg h mi s us hv⟩

/-! ## Findings about what the text denotes -/

/-- Witness: YEAR 0000 is sent as `0`, which denotes 2000. -/
theorem finding_year_zero_text : ∃ y, Valid .year (.year y) ∧ YearZero .year (.year y) ∧
    denotes .year (yearText y) ≠ some (.year y) := ⟨0, by decide⟩

/-- Witness: DATE 0099-01-02 is sent as `99-01-02`, which no layout of the type reads back. -/
theorem finding_date_year_below_1000 : ∃ y m d, Valid .date (.date y m d) ∧ DateYearBelow1000 .date (.date y m d) ∧
    denotes .date (dateText y m d) = none ∧ binDenoted (.plain .date) (.date y m d) = none :=
  ⟨99, 1, 2, by decide⟩

/-- Witness: TIMESTAMP(3) and TIME(6) lose their fraction in the binary protocol (0 decimals announced). -/
theorem finding_fraction_decimals_not_announced :
    (∃ v, Valid (.datetime 3) v ∧ FractionNotAnnounced (.timestamp 3) v ∧ binDenoted (.timestamp 3) v ≠ some v) ∧
    (∃ v, Valid .time v ∧ FractionNotAnnounced (.plain .time) v ∧ binDenoted (.plain .time) v ≠ some v) :=
  ⟨⟨.datetime 2037 10 4 3 31 36 198000, by decide⟩, ⟨.time false 0 0 0 1, by decide⟩⟩

/-- **Binary protocol (partial)**: outside the two regions the binary-protocol client ends up
with the stored value. -/
theorem binDenoted_partial (wt : WTy) (v : Wire.Val) (h1 : ¬ DateYearBelow1000 wt.ty v)
    (h2 : ¬ FractionNotAnnounced wt v) (hz : normTime v = v) : binDenoted wt v = some v := by
  unfold binDenoted
  simp only [h1, if_false]
  cases v with
  | datetime y m d h mi s us =>
    have : truncUs (fieldDecimals wt) us = us := Decidable.of_not_not (by simpa [FractionNotAnnounced] using h2)
    simp [this]
  | time neg h mi s us =>
    have : truncUs (fieldDecimals wt) us = us := Decidable.of_not_not (by simpa [FractionNotAnnounced] using h2)
    simp [this, hz]
  | _ => rfl

/-- What the field packet needs: DATETIME(p) announces its fraction digits (the only temporal type that does). -/
theorem fieldDecimals_datetime (p : Nat) : fieldDecimals (.plain (.datetime p)) = fieldDecimalsSpec (.plain (.datetime p)) := rfl

/-! ## YEAR, DATE: what the text denotes -/

theorem year_text_roundtrip_b : (List.range' 1901 255).all (fun y => parseYear (yearText y) == some y) = true := by
  decide +kernel

/-- **Round trip, YEAR (partial)**: every year 1901 … 2155 is sent as four digits that denote it.
Full statement FALSE for the year 0000: `finding_year_zero_text`. -/
theorem year_text_roundtrip_partial (y : Nat) (h : Valid .year (.year y)) (hr : ¬ YearZero .year (.year y)) :
    denotes .year (yearText y) = some (.year y) := by
  have hy : 1901 ≤ y ∧ y ≤ 2155 := by
    rcases h with h | h
    · exact absurd h hr
    · exact h
  have := List.all_eq_true.1 year_text_roundtrip_b y (by simp only [List.mem_range'_1]; omega)
  simp only [beq_iff_eq] at this
  simp [denotes, this]

theorem two_parse_b : (List.range 100).all (fun m =>
    parse2 (UInt8.ofNat (48 + m / 10)) (UInt8.ofNat (48 + m % 10)) == some m) = true := by decide +kernel

theorem two_parse (m : Nat) (h : m < 100) :
    parse2 (UInt8.ofNat (48 + m / 10)) (UInt8.ofNat (48 + m % 10)) = some m := by
  have := List.all_eq_true.1 two_parse_b m (List.mem_range.2 h)
  simpa using this

theorem digitsRev_length_ge : ∀ (f n k : Nat), n < f → 10 ^ k ≤ n → k + 1 ≤ (digitsRev f n).length := by
  intro f
  induction f with
  | zero => intro n k h; omega
  | succ f ih =>
    intro n k hf hk
    unfold digitsRev
    by_cases h10 : n < 10
    · simp only [h10, if_true, List.length_singleton]
      cases k with
      | zero => omega
      | succ k =>
        have : 10 ^ (k + 1) ≥ 10 := by
          rw [Nat.pow_succ]; have := Nat.pow_pos (n := k) (show 0 < 10 by omega); omega
        omega
    · simp only [h10, if_false, List.length_cons]
      cases k with
      | zero => omega
      | succ k =>
        have : 10 ^ k ≤ n / 10 := by
          rw [Nat.le_div_iff_mul_le (by omega)]
          rw [Nat.pow_succ] at hk; exact hk
        have := ih (n / 10) k (by omega) this
        omega

theorem parseNat_natText (n : Nat) : parseNat? (natText n) = some n := by
  unfold parseNat?
  have h1 : (natText n).isEmpty = false := by
    cases h : natText n with
    | nil => exact absurd h (natText_ne_nil n)
    | cons _ _ => rfl
  have h2 : (natText n).all isDigit = true := List.all_eq_true.2 (natText_all_digits n)
  simp [h1, h2, digitsVal_natText]

/-- every year 1000 … 9999 is written with exactly four digits that read back -/
theorem year4 (y : Nat) (h1 : 1000 ≤ y) (h2 : y ≤ 9999) :
    ∃ a b c d, natText y = [a, b, c, d] ∧ parseNat? [a, b, c, d] = some y := by
  have hle := natText_length_le y 4 (by omega) (by omega)
  have hge : 4 ≤ (natText y).length := by
    unfold natText
    rw [List.length_reverse]
    exact digitsRev_length_ge (y + 1) y 3 (by omega) (by omega)
  have hp := parseNat_natText y
  match hn : natText y, hle, hge, hp with
  | [a, b, c, d], _, _, hp => exact ⟨a, b, c, d, rfl, hp⟩
  | [], _, hge, _ => simp at hge
  | [_], _, hge, _ => simp at hge
  | [_, _], _, hge, _ => simp at hge
  | [_, _, _], _, hge, _ => simp at hge
  | _ :: _ :: _ :: _ :: _ :: _, hle, _, _ => simp at hle

/-- **Round trip, DATE (partial)**: outside the region (years 1 … 999) the text denotes the date.
Full statement FALSE: `finding_date_year_below_1000`. -/
theorem date_text_roundtrip_partial (y m d : Nat) (h : Valid .date (.date y m d))
    (hr : ¬ DateYearBelow1000 .date (.date y m d)) :
    denotes .date (dateText y m d) = some (.date y m d) := by
  rcases h with ⟨rfl, rfl, rfl⟩ | ⟨hy1, hy2, hm1, hm2, hd1, hd2⟩
  · decide
  · have hy : 1000 ≤ y := by
      simp only [DateYearBelow1000, not_and, Nat.not_lt] at hr
      exact hr hy1
    obtain ⟨a, b, c, e, hnt, hparse⟩ := year4 y hy hy2
    have hdim : d < 100 := by
      have : dim y m ≤ 31 := by unfold dim; split <;> (try split) <;> omega
      omega
    have hne : ¬ (y = 0 ∧ m = 0 ∧ d = 0) := by omega
    have hy0 : ¬ y = 0 := by omega
    have hdt : dateText y m d = [a, b, c, e, 45, UInt8.ofNat (48 + m / 10), UInt8.ofNat (48 + m % 10), 45,
        UInt8.ofNat (48 + d / 10), UInt8.ofNat (48 + d % 10)] := by
      unfold dateText
      rw [if_neg hne, if_neg hy0, hnt]; rfl
    simp only [denotes, hdt, parseDate, hparse, two_parse m (by omega), two_parse d hdim, Option.map_some]

example : denotes .date (dateText 2024 2 29) = some (.date 2024 2 29) := by decide

/-! ## DATETIME / TIMESTAMP: what the text denotes -/

theorem hour_two_b : (List.range 24).all (fun h =>
    ((if h < 10 then [48] else []) ++ natText h : Bytes) == two h) = true := by decide +kernel

theorem hour_two (h : Nat) (hh : h < 24) : ((if h < 10 then [48] else []) ++ natText h : Bytes) = two h := by
  have := List.all_eq_true.1 hour_two_b h (List.mem_range.2 hh)
  simpa using this

theorem digitsVal_zeros (k : Nat) (l : Bytes) : digitsVal (List.replicate k 48 ++ l) 0 = digitsVal l 0 := by
  induction k with
  | zero => simp
  | succ k ih => simp [List.replicate_succ, digitsVal, ih]

theorem parseNat_padNat (w n : Nat) : parseNat? (padNat w n) = some n := by
  unfold parseNat? padNat
  have h1 : (List.replicate (w - (natText n).length) 48 ++ natText n).isEmpty = false := by
    cases h : natText n with
    | nil => exact absurd h (natText_ne_nil n)
    | cons _ _ => simp
  have h2 : (List.replicate (w - (natText n).length) 48 ++ natText n).all isDigit = true := by
    rw [List.all_append, Bool.and_eq_true]
    constructor
    · rw [List.all_eq_true]
      intro b hb
      rw [List.eq_of_mem_replicate hb]; decide
    · exact List.all_eq_true.2 (natText_all_digits n)
  simp [h1, h2, digitsVal_zeros, digitsVal_natText]

theorem parseFrac_fracText (p us : Nat) (hp : p ≤ 6) (hus : us < 1000000) (hmod : us % 10 ^ (6 - p) = 0) :
    parseFrac (fracText p us) = some us := by
  unfold fracText
  by_cases h0 : p = 0
  · subst h0
    have : us = 0 := by
      have : us % 1000000 = us := Nat.mod_eq_of_lt hus
      simp at hmod; omega
    simp [parseFrac, this]
  · have hlt : us / 10 ^ (6 - p) < 10 ^ p := by
      rw [Nat.div_lt_iff_lt_mul (Nat.pow_pos (by omega)), ← Nat.pow_add]
      have : p + (6 - p) = 6 := by omega
      rw [this]; omega
    have hlen := padNat_length p (us / 10 ^ (6 - p)) (by omega) hlt
    simp only [h0, if_false, parseFrac, hlen, parseNat_padNat, Option.map_some]
    rw [if_pos (by omega)]
    congr 1
    exact Nat.div_mul_cancel (Nat.dvd_of_mod_eq_zero hmod)

theorem zero_datetime_b : (List.range 7).all (fun p =>
    parseDatetime (zeroDatetimeText p) == some (0, 0, 0, 0, 0, 0, 0)) = true := by decide +kernel

/-- **Round trip, DATETIME(p)/TIMESTAMP(p) (partial)**: outside the region (years 1 … 999) the text
denotes the stored value, fraction digits included. -/
theorem datetime_text_roundtrip_partial (p y m d h mi s us : Nat)
    (hv : Valid (.datetime p) (.datetime y m d h mi s us))
    (hr : ¬ DateYearBelow1000 (.datetime p) (.datetime y m d h mi s us)) :
    denotes (.datetime p) (datetimeText p y m d h mi s us) = some (.datetime y m d h mi s us) := by
  obtain ⟨hp, hd, hh, hmi, hs, hus, hmod, hzero⟩ := hv
  rcases hd with ⟨rfl, rfl, rfl⟩ | ⟨hy1, hy2, hm1, hm2, hd1, hd2⟩
  · obtain ⟨rfl, rfl, rfl, rfl⟩ := hzero rfl
    have := List.all_eq_true.1 zero_datetime_b p (List.mem_range.2 (by omega))
    simp only [beq_iff_eq] at this
    simp [denotes, datetimeText, this]
  · have hy : 1000 ≤ y := by
      simp only [DateYearBelow1000, not_and, Nat.not_lt] at hr
      exact hr hy1
    obtain ⟨a, b, c, e, hnt, hparse⟩ := year4 y hy hy2
    have hdim : d < 100 := by
      have : dim y m ≤ 31 := by unfold dim; split <;> (try split) <;> omega
      omega
    have hne : ¬ (y = 0 ∧ m = 0 ∧ d = 0) := by omega
    have hy0 : ¬ y = 0 := by omega
    have hdt : dateText y m d = [a, b, c, e, 45, UInt8.ofNat (48 + m / 10), UInt8.ofNat (48 + m % 10), 45,
        UInt8.ofNat (48 + d / 10), UInt8.ofNat (48 + d % 10)] := by
      unfold dateText
      rw [if_neg hne, if_neg hy0, hnt]; rfl
    have htod : timeOfDayText h mi s us p = UInt8.ofNat (48 + h / 10) :: UInt8.ofNat (48 + h % 10) :: 58 ::
        UInt8.ofNat (48 + mi / 10) :: UInt8.ofNat (48 + mi % 10) :: 58 ::
        UInt8.ofNat (48 + s / 10) :: UInt8.ofNat (48 + s % 10) :: fracText p us := by
      unfold timeOfDayText
      rw [hour_two h hh]; rfl
    have hfrac := parseFrac_fracText p us hp hus hmod
    simp only [denotes, datetimeText, hne, if_false, hdt, htod, parseDatetime, List.cons_append, List.nil_append,
      List.take_succ_cons, List.take_zero, List.drop_succ_cons, List.drop_zero, parseDate, hparse,
      two_parse m (by omega), two_parse d hdim, parseClock, two_parse h (by omega), two_parse mi (by omega),
      two_parse s (by omega), hfrac, Option.map_some]

example : denotes (.datetime 3) (datetimeText 3 2024 2 29 23 59 59 100000) = some (.datetime 2024 2 29 23 59 59 100000) := by
  decide

/-! ## The headline statement for the types whose reader is modelled -/

/-- **`text_roundtrip` (partial)**: for the integer types, BIT, YEAR, DATE, DATETIME/TIMESTAMP and every
storable value outside the listed regions, the text `Type.SQL` produces denotes the stored value
(`denotes`: `Type.Convert` for integers and BIT, the Spec readers otherwise) **and** fits the announced
length. (DECIMAL and TIME: the length half is `text_len_le_announced_partial`; their round trip is
checked on every run by the correspondence stream and the real-code oracle, not proved.) -/
theorem text_roundtrip_partial (t : Wire.Ty) (v : Wire.Val) (hv : Valid t v)
    (hkind : match t with | .dec _ _ => False | .time => False | _ => True)
    (h1 : ¬ DateYearBelow1000 t v) (h2 : ¬ YearZero t v) :
    ∃ text, sqlText t v = some text ∧ denotes t text = some v ∧ text.length ≤ maxTextLen t := by
  obtain ⟨text, ht, hlen⟩ := text_len_le_announced_partial t v hv (by
    cases t <;> cases v <;> simp [DecimalFullScaleNegative] at hkind ⊢)
  refine ⟨text, ht, ?_, hlen⟩
  cases t <;> cases v <;> simp only [Valid] at hv <;> simp only [sqlText, Option.some.injEq] at ht <;> subst ht
  case int.int t v => simp [denotes, int_text_roundtrip t v hv]
  case dec.dec => exact absurd hkind (by simp)
  case bit.bit n v =>
    have := bit_text_roundtrip n v hv
    simp [denotes, this]
  case year.year y => exact year_text_roundtrip_partial y hv h2
  case date.date y m d => exact date_text_roundtrip_partial y m d hv h1
  case datetime.datetime p y m d h mi s us => exact datetime_text_roundtrip_partial p y m d h mi s us hv h1
  case time.time => exact absurd hkind (by simp)



/-! ## Character sets: the length announced at type construction bounds the text transcoded at
encode time (ENUM, SET, CHAR/VARCHAR, TEXT under every `character_set_results`)

Full statement (FALSE on the unchanged tree — `finding_result_charset_wider_than_announced`):
`WireCs.Valid t v → sentText res t v = some bs → bs.length ≤ announced res t`. -/

section CharacterSets
open Gms.WireCs

theorem effective_ne_binary (res : WireCs.Res) (col : Cs) (h : col ≠ .binary) : res.effective col ≠ .binary := by
  cases res with
  | null => exact h
  | cs c => cases c <;> simp [Res.effective] <;> exact h

/-- the transcoded form of a string of `k` characters fits `k × w` when the effective result
character set is not wider than `w` -/
theorem encoded_le (res : WireCs.Res) (col : Cs) (hcol : col ≠ .binary) (w : Nat) (hw : (res.effective col).maxLen ≤ w)
    (s : Str) (k : Nat) (hk : s.length ≤ k) (bs : Utf8.Bytes) (h : encode (res.effective col) s = some bs) :
    bs.length ≤ k * w := by
  have h1 := encode_length_le _ (effective_ne_binary res col hcol) s bs h
  have h2 : s.length * (res.effective col).maxLen ≤ k * w := Nat.mul_le_mul hk hw
  omega

/-- **ENUM**: every member, transcoded, fits the maximum over the members. -/
theorem enum_text_len_le_announced (res : WireCs.Res) (col : Cs) (ms : List Str) (i : Nat)
    (hv : WireCs.Valid (.enum col ms) (.idx i)) (hr : ¬ ResultCharsetWider res (.enum col ms))
    (bs : Utf8.Bytes) (h : sentText res (.enum col ms) (.idx i) = some bs) :
    bs.length ≤ announced res (.enum col ms) := by
  obtain ⟨hcol, hi1, _⟩ := hv
  simp only [ResultCharsetWider, lenWidth, WireCs.Ty.col, Nat.not_lt] at hr
  simp only [sentText, plainText, WireCs.Ty.col] at h
  rw [if_neg (by omega)] at h
  cases hm : ms[i - 1]? with
  | none => simp [hm] at h
  | some m =>
    simp only [hm] at h
    have h1 := encoded_le res col hcol col.maxLen hr m m.length (Nat.le_refl _) bs h
    have h2 := enumLen_ge col.maxLen ms (i - 1) m hm
    simp only [announced]
    omega

/-- **SET**: every comma-joined selection of members, transcoded, fits the sum over the members plus
one separator *of a full character width* per member after the first. -/
theorem set_text_len_le_announced (res : WireCs.Res) (col : Cs) (ms : List Str) (b : Nat)
    (hv : WireCs.Valid (.set col ms) (.bits b)) (hr : ¬ ResultCharsetWider res (.set col ms))
    (bs : Utf8.Bytes) (h : sentText res (.set col ms) (.bits b) = some bs) :
    bs.length ≤ announced res (.set col ms) := by
  obtain ⟨hcol, _, _, _⟩ := hv
  simp only [ResultCharsetWider, lenWidth, WireCs.Ty.col, Nat.not_lt] at hr
  simp only [sentText, plainText, WireCs.Ty.col] at h
  have h1 := encoded_le res col hcol col.maxLen hr (setText ms b) _ (setText_length_le ms b) bs h
  simp only [announced, setLen_eq]
  rw [Nat.add_mul] at h1
  exact h1

/-- **CHAR(n) / VARCHAR(n)**: a storable string has at most `n` characters. -/
theorem char_text_len_le_announced (res : WireCs.Res) (col : Cs) (n : Nat) (s : Str)
    (hv : WireCs.Valid (.char col n) (.str s)) (hr : ¬ ResultCharsetWider res (.char col n))
    (bs : Utf8.Bytes) (h : sentText res (.char col n) (.str s) = some bs) :
    bs.length ≤ announced res (.char col n) := by
  obtain ⟨hcol, _, hlen⟩ := hv
  simp only [ResultCharsetWider, lenWidth, WireCs.Ty.col, Nat.not_lt] at hr
  simp only [sentText, plainText, WireCs.Ty.col] at h
  have hu := length_le_utf8Len s
  have hk : s.length ≤ n := by
    split at hlen
    · omega
    · rcases hlen with hlen | hlen <;> omega
  exact encoded_le res col hcol col.maxLen hr s n hk bs h

/-- **TEXT**: a storable string has at most `maxByteLength` characters; the announced length is
computed per session with the width of `character_set_results`. -/
theorem text_text_len_le_announced (res : WireCs.Res) (col : Cs) (mb : Nat) (s : Str)
    (hv : WireCs.Valid (.text col mb) (.str s)) (hr : ¬ ResultCharsetWider res (.text col mb))
    (bs : Utf8.Bytes) (h : sentText res (.text col mb) (.str s) = some bs) :
    bs.length ≤ announced res (.text col mb) := by
  obtain ⟨hcol, _, hlen⟩ := hv
  simp only [ResultCharsetWider, lenWidth, WireCs.Ty.col, Nat.not_lt] at hr
  simp only [sentText, plainText, WireCs.Ty.col] at h
  have hu := length_le_utf8Len s
  exact encoded_le res col hcol res.rawMaxLen hr s mb (by omega) bs h

/-- **`cs_text_len_le_announced` (partial)**: for ENUM, SET, CHAR/VARCHAR and TEXT columns of every
column character set, every `character_set_results` (NULL and binary included) and every storable
value: outside `ResultCharsetWider` the transcoded text is no longer than the announced length.
The two sides are computed at different sites of the code (type construction vs. `Type.SQL`). -/
theorem cs_text_len_le_announced_partial (res : WireCs.Res) (t : WireCs.Ty) (v : WireCs.Val) (hv : WireCs.Valid t v)
    (hr : ¬ ResultCharsetWider res t) (bs : Utf8.Bytes) (h : sentText res t v = some bs) :
    bs.length ≤ announced res t := by
  cases t <;> cases v <;> (first | exact False.elim hv | skip)
  case enum.idx col ms i => exact enum_text_len_le_announced res col ms i hv hr bs h
  case set.bits col ms b => exact set_text_len_le_announced res col ms b hv hr bs h
  case char.str col n s => exact char_text_len_le_announced res col n s hv hr bs h
  case text.str col mb s => exact text_text_len_le_announced res col mb s hv hr bs h

/-- non-vacuity: the hypotheses hold on a value that fills the announced length exactly —
`SET('r','w','x')` (utf8mb4) read with `character_set_results = utf32`: 20 bytes, 20 announced. -/
example : WireCs.Valid (.set .utf8mb4 [[114], [119], [120]]) (.bits 7) ∧
    ¬ ResultCharsetWider (.cs .utf32) (.set .utf8mb4 [[114], [119], [120]]) ∧
    (sentText (.cs .utf32) (.set .utf8mb4 [[114], [119], [120]]) (.bits 7)).map List.length = some 20 ∧
    announced (.cs .utf32) (.set .utf8mb4 [[114], [119], [120]]) = 20 := by decide

/-- Witnesses: a latin1 `ENUM('é')` read with `character_set_results = utf8mb4` is sent as 2 bytes,
1 announced; a latin1 `SET('r','w','x')` holding `r,w,x` read with utf32 is sent as 20 bytes, 5
announced; a utf16 TINYTEXT holding `ab` … read with `character_set_results = binary` announces 255
for up to 510 bytes. Replayed on the real code (corpus cases of the `cs` stream). -/
theorem finding_result_charset_wider_than_announced :
    (∃ res t v bs, WireCs.Valid t v ∧ ResultCharsetWider res t ∧ sentText res t v = some bs ∧
      bs.length > announced res t) ∧
    (∃ bs, sentText (.cs .utf32) (.set .latin1 [[114], [119], [120]]) (.bits 7) = some bs ∧
      bs.length = 20 ∧ announced (.cs .utf32) (.set .latin1 [[114], [119], [120]]) = 5) :=
  ⟨⟨.cs .utf8mb4, .enum .latin1 [[0xE9]], .idx 1, [0xC3, 0xA9], by decide⟩, ⟨_, rfl, by decide⟩⟩

/-! ### The separator term of the SET length is needed at full character width -/

theorem encode_utf32_length : ∀ (s : Str), (∀ r ∈ s, Utf8.isScalar r = true) →
    ∃ bs, encode .utf32 s = some bs ∧ bs.length = s.length * 4
  | [], _ => ⟨[], rfl, rfl⟩
  | r :: rs, h => by
    obtain ⟨b, hb, hl⟩ := encode_utf32_length rs (fun x hx => h x (List.mem_cons_of_mem _ hx))
    have hr : Utf8.isScalar r = true := h r (by simp)
    refine ⟨[0, r / 65536, r / 256 % 256, r % 256] ++ b, ?_, ?_⟩
    · simp [encode, encodeCp, hr, hb]
    · simp only [List.length_append, List.length_cons, List.length_nil, hl]
      omega

theorem joinComma_scalar : ∀ (l : List Str), (∀ m ∈ l, ∀ r ∈ m, Utf8.isScalar r = true) →
    ∀ r ∈ joinComma l, Utf8.isScalar r = true
  | [], _, r, hr => by simp [joinComma] at hr
  | [m], h, r, hr => by
    simp only [joinComma] at hr
    exact h m (by simp) r hr
  | m :: x :: rest, h, r, hr => by
    simp only [joinComma, List.mem_append, List.mem_cons] at hr
    rcases hr with hr | hr | hr
    · exact h m (by simp) r hr
    · subst hr; decide
    · exact joinComma_scalar (x :: rest) (fun m' hm' => h m' (List.mem_cons_of_mem _ hm')) r hr

/-- **The announced SET length is attained**: for a column character set of width 4 read with
`character_set_results = utf32`, the value holding *all* members is sent in exactly
`MaxTextResponseByteLength` bytes. Consequently no term of the `CreateSetType` loop — in particular
the separator's `maxCharLength` — can be made smaller without under-announcing. -/
theorem set_announced_attained (col : Cs) (hw : col.maxLen = 4) (ms : List Str)
    (hs : ∀ m ∈ ms, ∀ r ∈ m, Utf8.isScalar r = true) :
    ∃ bs, sentText (.cs .utf32) (.set col ms) (.bits (2 ^ ms.length - 1)) = some bs ∧
      bs.length = announced (.cs .utf32) (.set col ms) := by
  have hsel : setText ms (2 ^ ms.length - 1) = joinComma ms := by rw [setText, selected_all]
  obtain ⟨bs, hb, hl⟩ := encode_utf32_length (joinComma ms) (joinComma_scalar ms hs)
  refine ⟨bs, ?_, ?_⟩
  · simp only [sentText, plainText, hsel, Res.effective]
    exact hb
  · rw [hl, joinComma_length]
    simp only [announced, setLen_eq, hw, Nat.add_mul]

example : ∃ bs, sentText (.cs .utf32) (.set .utf8mb4 [[109, 111, 110], [116, 117, 101]]) (.bits 3) = some bs ∧
    bs.length = 28 ∧ announced (.cs .utf32) (.set .utf8mb4 [[109, 111, 110], [116, 117, 101]]) = 28 := ⟨_, rfl, by decide⟩

/-! ### Round trip under every result character set -/

/-- **`cs_text_roundtrip`**: whenever a value of an ENUM / SET / CHAR / VARCHAR / TEXT column can be sent
at all under `character_set_results = res`, decoding the bytes in the effective result character set
(utf8mb4, utf8mb3, latin1/cp1252, ascii, utf16 with surrogate pairs, utf32, or the column's own
character set for NULL/binary) yields exactly the characters of the stored value. No region. -/
theorem cs_text_roundtrip (res : WireCs.Res) (t : WireCs.Ty) (v : WireCs.Val) (bs : Utf8.Bytes)
    (h : sentText res t v = some bs) :
    ∃ s, plainText t v = some s ∧ decodeCs (res.effective t.col) (bs.length + 1) bs = some s := by
  unfold sentText at h
  cases hp : plainText t v with
  | none => simp [hp] at h
  | some s =>
    simp only [hp] at h
    exact ⟨s, rfl, decode_encode_cs _ s bs _ h (by have := encode_length_ge _ s bs h; omega)⟩

example : sentText (.cs .utf16) (.char .utf8mb4 3) (.str [0xE9, 0x61, 0x1F600]) =
      some [0x00, 0xE9, 0x00, 0x61, 0xD8, 0x3D, 0xDE, 0x00] ∧
    roundTrip (.cs .utf16) (.char .utf8mb4 3) (.str [0xE9, 0x61, 0x1F600]) = true ∧
    roundTrip (.cs .latin1) (.enum .utf8mb4 [[0x20AC, 0x35]]) (.idx 1) = true := by decide

end CharacterSets

/-! ## Regenerated facts -/

section Facts
open Gms.Generated.C28

/-- `maxTextLen` is `MaxTextResponseByteLength` of the compiled types: all ten integer types, every
DECIMAL(p,s) with p ≤ 65, s ≤ min(p,30), BIT(1..64), DATETIME/TIMESTAMP(0..6), YEAR, DATE, TIME. -/
theorem facts_lens :
    intLens.all (fun e => (ITy.ofName? e.1).any fun t => maxTextLen (.int t) == e.2) = true ∧
    intLens.length = 10 ∧
    decLens.all (fun e => maxTextLen (.dec e.1 e.2.1) == e.2.2) = true ∧
    decLens.length = 1580 ∧
    bitLens.all (fun e => maxTextLen (.bit e.1) == e.2) = true ∧ bitLens.length = 64 ∧
    datetimeLens.all (fun e => maxTextLen (.datetime e.1) == e.2.1 && maxTextLen (.datetime e.1) == e.2.2) = true ∧
    datetimeLens.length = 7 ∧
    yearLen = maxTextLen .year ∧ dateLen = maxTextLen .date ∧ timeLen = maxTextLen .time ∧
    floatLen = 12 ∧ doubleLen = 22 := by decide +kernel

/-- Shape of the code the model transliterates: the clamp tests of `SQLInt8 … SQLUint64` (note
`SQLUint24: num > (1 << 24)`), the two year tests of `appendDateFormat` (zero time, `year == 0` —
no padding otherwise), and what `schemaToFields` announces as `ColumnLength`. -/
theorem facts_match :
    intClampTests = ["SQLInt8: num > math.MaxInt8; num < math.MinInt8", "SQLInt16: num > math.MaxInt16; num < math.MinInt16",
      "SQLInt24: num > (1<<23 - 1); num < (-1 << 23)", "SQLInt32: num > math.MaxInt32; num < math.MinInt32", "SQLInt64: ",
      "SQLUint8: num > math.MaxUint8", "SQLUint16: num > math.MaxUint16", "SQLUint24: num > (1 << 24)",
      "SQLUint32: num > math.MaxUint32", "SQLUint64: num > math.MaxUint64"] ∧
    dateFormatTests = ["t.Equal(ZeroTime)", "year == 0"] ∧
    columnLengthExpr = "c.Type.MaxTextResponseByteLength(ctx)" := by decide

/-- Character sets: `Cs.maxLen` is `MaxLength()` of the compiled table (Unspecified carries utf8mb4's 4), the
model's cp1252 table is `encodings.Latin1` on all 256 bytes, `encodeCp` is `Encoder().Encode` at the
boundaries of every encoding form of the seven encoders, `announced` is `MaxTextResponseByteLength` of
132 compiled ENUM / SET / CHAR / VARCHAR types over the six column character sets (the SET lengths
include the separators at full character width) and of TINYTEXT / TEXT under all eight settings of
`character_set_results`; the six encode functions choose the column's character set exactly when
`character_set_results` is unspecified or binary. -/
theorem facts_cs :
    csMaxLens = ("", WireCs.Res.null.rawMaxLen) :: WireCs.Cs.all.map (fun c => (c.name, c.maxLen)) ∧
    latin1Table = (List.range 256).map WireCs.latin1Cp ∧
    encSamples.all (fun e => (WireCs.Cs.ofName? e.1).any fun c =>
      (match WireCs.encodeCp c e.2.1 with | some bs => bs | none => [256]) == e.2.2) = true ∧
    encSamples.length = 154 ∧
    csTypeLens.all (fun e => (WireCs.Cs.ofName? e.2.1).any fun c =>
      WireCs.announced .null (if e.1 == "enum" then .enum c e.2.2.1 else if e.1 == "set" then .set c e.2.2.1
        else .char c e.2.2.2.1) == e.2.2.2.2) = true ∧
    csTypeLens.length = 132 ∧
    csTextLens.all (fun e => match WireCs.Res.ofName? e.1, WireCs.Cs.ofName? e.2.1 with
      | some r, some c => WireCs.announced r (.text c e.2.2.1) == e.2.2.2
      | _, _ => false) = true ∧
    csTextLens.length = 96 ∧
    resultCharsetTests = [
      "EnumType.SQL: cs == sql.CharacterSet_Unspecified || cs == sql.CharacterSet_binary",
      "EnumType.SQLValue: cs == sql.CharacterSet_Unspecified || cs == sql.CharacterSet_binary",
      "SetType.SQL: cs == sql.CharacterSet_Unspecified || cs == sql.CharacterSet_binary",
      "SetType.SQLValue: cs == sql.CharacterSet_Unspecified || cs == sql.CharacterSet_binary",
      "StringType.SQL: cs == sql.CharacterSet_Unspecified || cs == sql.CharacterSet_binary",
      "StringType.SQLValue: cs == sql.CharacterSet_Unspecified || cs == sql.CharacterSet_binary"] := by
  decide +kernel

end Facts

end Gms.C28
