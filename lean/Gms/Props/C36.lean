/-
C36 — Concurrent read-only sessions are isolated; shared registries stay consistent.
(Data-race freedom itself is a property of the Go memory model: it is validated by race-detector
runs of the harness, not proved — see DESIGN.md §6 C36.)
-/
import Gms.Model.NonInterf
import Gms.Generated.C36

namespace Gms.NonInterf
variable {Db R : Type}

theorem cnt_upd (p : Phase → Bool) (f : Nat → Phase) (i : Nat) (v : Phase) (n : Nat) :
    cnt p (upd f i v) n + (if i < n ∧ p (f i) then 1 else 0)
      = cnt p f n + (if i < n ∧ p v then 1 else 0) := by
  induction n with
  | zero => simp [cnt]
  | succ n ih =>
    simp only [cnt]
    by_cases h : n = i
    · subst h
      have e1 : cnt p (upd f n v) n = cnt p f n := by
        have := ih
        simp at this
        exact this
      simp [upd, e1]
      cases p (f n) <;> cases p v <;> simp <;> omega
    · have hlt : (i < n + 1) = (i < n) := by
        apply propext; constructor <;> intro hh <;> omega
      simp only [upd, h, if_false, hlt]
      omega

structure Inv (n : Nat) (q : Nat → Db → R) (db : Db) (s : St Db R) : Prop where
  db_eq : s.db = db
  res : ∀ i r, s.result i = some r → r = q i db
  resPhase : ∀ i, (s.phase i = .evaluated ∨ s.phase i = .done) → s.result i = some (q i db)
  questions : s.questions = cnt (fun ph => ph != .idle) s.phase n
  running : s.running = cnt (fun ph => ph == .began || ph == .evaluated) s.phase n
  comSelect : s.comSelect = cnt (fun ph => ph == .evaluated || ph == .done) s.phase n

theorem cnt_const_false (p : Phase → Bool) (f : Nat → Phase) (n : Nat) (h : ∀ i, p (f i) = false) :
    cnt p f n = 0 := by
  induction n with
  | zero => rfl
  | succ n ih => simp [cnt, ih, h]

theorem inv_init (n : Nat) (q : Nat → Db → R) (db : Db) : Inv n q db (init db) := by
  constructor
  · rfl
  · intro i r h; simp [init] at h
  · intro i h; simp [init] at h
  · simp [init]; rw [cnt_const_false]; intro i; rfl
  · simp [init]; rw [cnt_const_false]; intro i; rfl
  · simp [init]; rw [cnt_const_false]; intro i; rfl

theorem inv_step (n : Nat) (q : Nat → Db → R) (db : Db) (s : St Db R) (e : Ev)
    (h : Inv n q db s) : Inv n q db (step n q s e) := by
  obtain ⟨hdb, hres, hrp, hq, hr, hc⟩ := h
  cases e with
  | begin i =>
    simp only [step]
    split
    · rename_i hg
      obtain ⟨hi, hph⟩ := hg
      have k1 := cnt_upd (fun ph => ph != .idle) s.phase i .began n
      have k2 := cnt_upd (fun ph => ph == .began || ph == .evaluated) s.phase i .began n
      have k3 := cnt_upd (fun ph => ph == .evaluated || ph == .done) s.phase i .began n
      simp [hi, hph] at k1 k2 k3
      refine ⟨hdb, hres, ?_, ?_, ?_, ?_⟩
      · intro j hj
        simp only [upd] at hj
        by_cases hji : j = i
        · simp [hji] at hj
        · simp only [hji, if_false] at hj; exact hrp j hj
      · simp only; omega
      · simp only; omega
      · simp only; omega
    · exact ⟨hdb, hres, hrp, hq, hr, hc⟩
  | eval i =>
    simp only [step]
    split
    · rename_i hg
      obtain ⟨hi, hph⟩ := hg
      have k1 := cnt_upd (fun ph => ph != .idle) s.phase i .evaluated n
      have k2 := cnt_upd (fun ph => ph == .began || ph == .evaluated) s.phase i .evaluated n
      have k3 := cnt_upd (fun ph => ph == .evaluated || ph == .done) s.phase i .evaluated n
      simp [hi, hph] at k1 k2 k3
      refine ⟨hdb, ?_, ?_, ?_, ?_, ?_⟩
      · intro j r hj
        simp only [upd] at hj
        by_cases hji : j = i
        · simp only [hji, if_true, Option.some.injEq] at hj
          rw [← hj, hdb, hji]
        · simp only [hji, if_false] at hj; exact hres j r hj
      · intro j hj
        simp only [upd] at hj ⊢
        by_cases hji : j = i
        · simp [hji, hdb]
        · simp only [hji, if_false] at hj ⊢; exact hrp j hj
      · simp only; omega
      · simp only; omega
      · simp only; omega
    · exact ⟨hdb, hres, hrp, hq, hr, hc⟩
  | finish i =>
    simp only [step]
    split
    · rename_i hg
      obtain ⟨hi, hph⟩ := hg
      have k1 := cnt_upd (fun ph => ph != .idle) s.phase i .done n
      have k2 := cnt_upd (fun ph => ph == .began || ph == .evaluated) s.phase i .done n
      have k3 := cnt_upd (fun ph => ph == .evaluated || ph == .done) s.phase i .done n
      simp [hi, hph] at k1 k2 k3
      refine ⟨hdb, hres, ?_, ?_, ?_, ?_⟩
      · intro j hj
        simp only [upd] at hj
        by_cases hji : j = i
        · subst hji; exact hrp j (Or.inl hph)
        · simp only [hji, if_false] at hj; exact hrp j hj
      · simp only; omega
      · simp only; omega
      · simp only; omega
    · exact ⟨hdb, hres, hrp, hq, hr, hc⟩

theorem inv_run (n : Nat) (q : Nat → Db → R) (db : Db) (evs : List Ev) : Inv n q db (run n q db evs) := by
  unfold run
  suffices H : ∀ s, Inv n q db s → Inv n q db (evs.foldl (step n q) s) from H _ (inv_init n q db)
  induction evs with
  | nil => intro s h; exact h
  | cons e evs ih => intro s h; exact ih _ (inv_step n q db s e h)

theorem cnt_all (p : Phase → Bool) (f : Nat → Phase) (n : Nat) (h : ∀ i, i < n → p (f i) = true) :
    cnt p f n = n := by
  induction n with
  | zero => rfl
  | succ n ih =>
    simp only [cnt]
    rw [ih (fun i hi => h i (by omega)), h n (by omega)]
    simp

theorem cnt_none (p : Phase → Bool) (f : Nat → Phase) (n : Nat) (h : ∀ i, i < n → p (f i) = false) :
    cnt p f n = 0 := by
  induction n with
  | zero => rfl
  | succ n ih =>
    simp only [cnt]
    rw [ih (fun i hi => h i (by omega)), h n (by omega)]
    simp

end Gms.NonInterf

namespace Gms.C36
open Gms.NonInterf
variable {Db R : Type}

/-- Facts re-read from the source: the status counters are atomic, the process list guards its
maps with one mutex in every exported method, `Questions`/`Com_select` are incremented through
`IncrementStatusVariable`. -/
theorem facts_match :
    Gms.Generated.C36.statusValueIsAtomic = true ∧ Gms.Generated.C36.processListMethodsUnlocked = [] ∧
    Gms.Generated.C36.questionsIncrementedInQuery = true := by decide

/-- Isolation (non-interference), for every interleaving of the steps of any number of read-only
queries: the store is never changed and every result produced is the result of running that query
alone on the store. -/
theorem readonly_noninterference (n : Nat) (q : Nat → Db → R) (db : Db) (evs : List Ev) :
    (run n q db evs).db = db ∧ ∀ i r, (run n q db evs).result i = some r → r = q i db := by
  have h := inv_run n q db evs
  exact ⟨h.db_eq, h.res⟩

/-- Every query that was evaluated has its (sequential) result recorded. -/
theorem evaluated_has_result (n : Nat) (q : Nat → Db → R) (db : Db) (evs : List Ev) (i : Nat)
    (h : (run n q db evs).phase i = .evaluated ∨ (run n q db evs).phase i = .done) :
    (run n q db evs).result i = some (q i db) :=
  (inv_run n q db evs).resPhase i h

/-- Registries are consistent at every moment of every schedule: the counters equal the number
of queries in the corresponding phases. -/
theorem registries_consistent (n : Nat) (q : Nat → Db → R) (db : Db) (evs : List Ev) :
    let s := run n q db evs
    s.questions = cnt (fun ph => ph != .idle) s.phase n ∧
    s.running = cnt (fun ph => ph == .began || ph == .evaluated) s.phase n ∧
    s.comSelect = cnt (fun ph => ph == .evaluated || ph == .done) s.phase n := by
  have h := inv_run n q db evs
  exact ⟨h.questions, h.running, h.comSelect⟩

/-- At quiescence (all `n` queries done), whatever the schedule was: `Questions` and
`Com_select` grew by exactly `n` and `Threads_running` is back to 0. -/
theorem quiescent_counters (n : Nat) (q : Nat → Db → R) (db : Db) (evs : List Ev)
    (hdone : ∀ i, i < n → (run n q db evs).phase i = .done) :
    (run n q db evs).questions = n ∧ (run n q db evs).comSelect = n ∧ (run n q db evs).running = 0 := by
  have h := inv_run n q db evs
  refine ⟨?_, ?_, ?_⟩
  · rw [h.questions]; apply cnt_all; intro i hi; rw [hdone i hi]; rfl
  · rw [h.comSelect]; apply cnt_all; intro i hi; rw [hdone i hi]; rfl
  · rw [h.running]; apply cnt_none; intro i hi; rw [hdone i hi]; rfl

/-- Non-vacuity: two queries, interleaved. -/
example :
    let s := run 2 (fun i (db : Nat) => db + i) 10 [.begin 0, .begin 1, .eval 1, .eval 0, .finish 0, .finish 1]
    s.result 0 = some 10 ∧ s.result 1 = some 11 ∧ s.questions = 2 ∧ s.running = 0 ∧ s.phase 1 = .done := by
  decide

end Gms.C36
