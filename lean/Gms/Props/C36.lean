/-
C36 — Concurrent read-only sessions are isolated; shared registries stay consistent.

Proved here, for the interleaving model `Gms.NonInterf` (every schedule, any number of sessions,
any programs): the store is never written; what a session observes is a function of its own steps
only (projection onto the session run alone); the shared registries equal the sums of the
sessions' own counters at every moment; complete schedules give every session exactly the results
of running its program alone, statement by statement; schedules with the same per-session step
counts end in the same state; fair schedules finish.

Data-race freedom itself is a property of the Go memory model: the logic part is the lockset
argument over the access footprint (`race_free_partial`, with the listed finding
`finding_infoschema_assign_catalog_race`), the race-detector runs of the harness validate the
footprint — see DESIGN.md §6 C36.

The store is not opaque any more for the statements of the idx stream: `Gms.SharedStore` models the
physical storage every session reads (stored partition + secondary-index storage pointing at
positions) and the access paths of the memory backend over it. Proved: on consistent storage every
access path returns the statement's meaning on the logical table (`impl_eq_spec`), a statement run
after ANY history of statements of any sessions finds the storage as it was and returns that
meaning (`readonly_history_independent`), hence in every complete schedule every session receives
the Spec results (`pq_concurrent_eq_spec`); and for the defect class "a read path writes into the
storage it was handed" (`execAlias`: the iterator walks the stored slice, so the sort of a
primary-key lookup lands in it): results become history dependent and the secondary index points
at the wrong rows (`alias_reverse_scan_breaks_lookup`, `alias_history_dependent`,
`alias_desc_changes_storage`), an ascending lookup repairs it (`alias_asc_repairs`).

Snapshots of the shared process list (`Gms.ProcSnap`, partition-progress maps on a heap because a Go
map in a struct is a reference): a `Processes()` snapshot that copies every map is a value — no
sequence of registry writes changes what its reader sees (`snapshot_is_value`); a snapshot that
keeps the reference of an empty map is changed by the next `AddPartitionProgress`
(`shared_empty_snapshot_changes`, the class of seeded change C36-1).
-/
import Gms.Model.NonInterf
import Gms.Lemmas.NonInterf
import Gms.Model.SharedStore
import Gms.Lemmas.SharedStore
import Gms.Model.ProcSnap
import Gms.Lemmas.ProcSnap
import Gms.Generated.C36

namespace Gms.C36
open Gms.NonInterf
variable {Db : Type}

/-- Facts re-read from the source on every run: which methods of the shared registries take the
receiver's mutex (every ProcessList method does), the status counters are `atomic.Uint64` updated
by `Add`/`Store`/`Load`, `IncrementStatusVariable` updates the global and the session's own
counter, a session gets fresh counters, `QueryWithBindings` counts `Questions` first and
`Com_select` for SELECT nodes, `BeginQuery`/`EndQuery` move `Threads_running` by ±1, the handler
brackets the query with `BeginQuery` / deferred `EndQuery`. -/
theorem facts_match :
    Gms.Generated.C36.processListMethodsUnlocked = [] ∧
    Gms.Generated.C36.processListMethodsLocked =
      ["AddConnection", "AddPartitionProgress", "AddTableProgress", "BeginOperation", "BeginQuery", "ConnectionReady",
       "EndOperation", "EndQuery", "Kill", "Processes", "RemoveConnection", "RemovePartitionProgress", "RemoveTableProgress",
       "UpdatePartitionProgress", "UpdateTableProgress"] ∧
    Gms.Generated.C36.memoryManagerMethodsLocked = ["Free", "NumCaches", "addCache", "removeCache"] ∧
    Gms.Generated.C36.memoryManagerMethodsUnlocked = ["HasAvailable", "NewHistoryCache", "NewLRUCache", "NewRows2Cache", "NewRowsCache"] ∧
    Gms.Generated.C36.catalogMethodsLocked = ["CreateDatabase", "LockTable", "RemoveDatabase", "Table", "TableAsOf", "TableSchema", "UnlockTables"] ∧
    Gms.Generated.C36.statusValueType = "*atomic.Uint64" ∧
    Gms.Generated.C36.statusValueIncrementCalls = ["s.Val.Add"] ∧
    Gms.Generated.C36.statusValueSetCalls = ["s.Val.Store"] ∧
    Gms.Generated.C36.statusValueValueCalls = ["s.Val.Load"] ∧
    Gms.Generated.C36.incrementStatusVariableCalls = ["StatusVariables.IncrementGlobal", "ctx.Session.IncrementStatusVariable"] ∧
    Gms.Generated.C36.sessionStatusMapFreshValue = true ∧
    Gms.Generated.C36.queryCounters =
      [("Questions", "1", ""), ("Com_select", "1", "plan.NodeRepresentsSelect(ctx, analyzed)")] ∧
    Gms.Generated.C36.queryFirstStatement = "sql.IncrementStatusVariable(ctx, \"Questions\", 1)" ∧
    Gms.Generated.C36.threadsRunningEffects = [("BeginQuery", "1"), ("EndQuery", "-1")] ∧
    Gms.Generated.C36.handlerBracket = ["BeginQuery", "defer EndQuery"] := by decide

/-- The listed finding's code shape, re-read on every run: `AssignCatalog` of the shared
information_schema table object is a plain field assignment, called from `buildResolvedTable`. -/
theorem facts_match_finding :
    Gms.Generated.C36.infoSchemaAssignCatalogBody = ["t.catalog = cat", "return t"] ∧
    Gms.Generated.C36.buildResolvedTableAssignsCatalog = true := by decide

/-- **Isolation (non-interference).** For every schedule of any number of sessions running any
read-only programs: the store is never changed, and the complete state of session `i` (its
variables, current database, warnings, own counters, every result it has received, its position)
is exactly the state of that session run ALONE for as many steps as it took in the schedule —
nothing another session does is visible to it. -/
theorem readonly_noninterference (n : Nat) (progs : Nat → List (Stmt Db)) (db : Db) (evs : List Nat) :
    (run n progs db evs).db = db ∧
    ∀ i, i < n → (run n progs db evs).sess i = solo db (progs i) (occ i evs) := by
  constructor
  · exact foldl_db n progs evs (init db)
  · intro i hi
    rw [solo_eq_lsteps]
    exact foldl_sess n progs evs (init db) i hi

/-- Sessions that do not exist are never touched. -/
theorem outside_sessions_untouched (n : Nat) (progs : Nat → List (Stmt Db)) (db : Db) (evs : List Nat) (i : Nat)
    (hi : ¬ i < n) : (run n progs db evs).sess i = initSess :=
  foldl_sess_ge n progs evs (init db) i hi

/-- **Registries are consistent at every moment of every schedule**: global `Questions` and
`Com_select` are the sums of the sessions' own counters, `Threads_running` is the number of
sessions inside a statement, and a session's process-list entry says `Query` exactly then. -/
theorem registries_consistent (n : Nat) (progs : Nat → List (Stmt Db)) (db : Db) (evs : List Nat) :
    let g := run n progs db evs
    g.questions = sumN (fun i => (g.sess i).loc.questions) n ∧
    g.comSelect = sumN (fun i => (g.sess i).loc.comSelect) n ∧
    g.running = sumN (fun i => busy (g.sess i)) n ∧
    ∀ i, (g.sess i).command = decide ((g.sess i).phase ≠ .idle) := by
  have h := reg_foldl n progs evs (init db) (reg_init n db)
  exact ⟨h.questions, h.comSelect, h.running, h.command⟩

/-- **Schedule independence**: two schedules in which every session takes the same number of
steps end in the same global state (store, registries, every session). -/
theorem schedule_independent (n : Nat) (progs : Nat → List (Stmt Db)) (db : Db) (evs evs' : List Nat)
    (h : ∀ i, i < n → occ i evs = occ i evs') :
    run n progs db evs = run n progs db evs' := by
  have hs : (run n progs db evs).sess = (run n progs db evs').sess := by
    funext i
    by_cases hi : i < n
    · rw [(readonly_noninterference n progs db evs).2 i hi, (readonly_noninterference n progs db evs').2 i hi, h i hi]
    · rw [outside_sessions_untouched n progs db evs i hi, outside_sessions_untouched n progs db evs' i hi]
  have r1 := registries_consistent n progs db evs
  have r2 := registries_consistent n progs db evs'
  simp only at r1 r2
  have hd : (run n progs db evs).db = (run n progs db evs').db := by
    rw [(readonly_noninterference n progs db evs).1, (readonly_noninterference n progs db evs').1]
  have hq : (run n progs db evs).questions = (run n progs db evs').questions := by rw [r1.1, r2.1, hs]
  have hc : (run n progs db evs).comSelect = (run n progs db evs').comSelect := by rw [r1.2.1, r2.2.1, hs]
  have hr : (run n progs db evs).running = (run n progs db evs').running := by rw [r1.2.2.1, r2.2.2.1, hs]
  cases h1 : run n progs db evs
  cases h2 : run n progs db evs'
  rw [h1, h2] at hs hd hq hc hr
  simp only at hs hd hq hc hr
  subst hs hd hq hc hr
  rfl

/-- **Each query returns the same result as when run alone.** In every complete schedule, every
session has received exactly the results of its program executed statement by statement on a
private session (`seqRun`), ends with that run's session state, and the registries are back to
quiescence: `Questions` grew by the number of statements, `Com_select` by the number of SELECTs
counted sequentially, `Threads_running` is 0 and every process-list entry says `Sleep`. -/
theorem concurrent_eq_sequential (n : Nat) (progs : Nat → List (Stmt Db)) (db : Db) (evs : List Nat)
    (hfin : finished n progs (run n progs db evs)) :
    (∀ i, i < n →
      ((run n progs db evs).sess i).results.reverse = (seqRun db (progs i) initLocal).1 ∧
      ((run n progs db evs).sess i).loc = (seqRun db (progs i) initLocal).2 ∧
      ((run n progs db evs).sess i).command = false) ∧
    (run n progs db evs).questions = sumN (fun i => (progs i).length) n ∧
    (run n progs db evs).comSelect = sumN (fun i => (seqRun db (progs i) initLocal).2.comSelect) n ∧
    (run n progs db evs).running = 0 := by
  have reg := registries_consistent n progs db evs
  simp only at reg
  have per : ∀ i, i < n →
      ((run n progs db evs).sess i).results.reverse = (seqRun db (progs i) initLocal).1 ∧
      ((run n progs db evs).sess i).loc = (seqRun db (progs i) initLocal).2 := by
    intro i hi
    have hf := hfin i hi
    have hp := (readonly_noninterference n progs db evs).2 i hi
    have inv : SoloInv db (progs i) ((run n progs db evs).sess i) := by
      rw [hp, solo_eq_lsteps]; exact soloInv_lsteps db (progs i) _ _ (soloInv_init db (progs i))
    have := inv.idle (Or.inl hf.2)
    rw [hf.1, List.take_length] at this
    exact this
  refine ⟨?_, ?_, ?_, ?_⟩
  · intro i hi
    refine ⟨(per i hi).1, (per i hi).2, ?_⟩
    rw [reg.2.2.2 i, (hfin i hi).2]; rfl
  · rw [reg.1]; apply sumN_congr; intro i hi
    rw [(per i hi).2, seqRun_questions]; simp [initLocal]
  · rw [reg.2.1]; apply sumN_congr; intro i hi; rw [(per i hi).2]
  · rw [reg.2.2.1]; apply sumN_zero; intro i hi; simp [busy, (hfin i hi).2]

/-- **Fair schedules finish**: a schedule in which every session gets at least four steps per
statement of its program is complete (no session can be starved or blocked by another). -/
theorem fair_schedule_finishes (n : Nat) (progs : Nat → List (Stmt Db)) (db : Db) (evs : List Nat)
    (hfair : ∀ i, i < n → 4 * (progs i).length ≤ occ i evs) :
    finished n progs (run n progs db evs) := by
  intro i hi
  rw [(readonly_noninterference n progs db evs).2 i hi, solo_eq_lsteps]
  have := lsteps_enough db (progs i) (occ i evs) (hfair i hi)
  exact ⟨this.2, this.1⟩

/-! ### the storage all sessions share (idx stream) -/

section SharedStore
open Gms.SharedStore

/-- Facts about the storage side, re-read / re-measured on every run: `Table.PartitionRows` gives
the partition iterator a copy of the stored partition (`make` + `copy`, and the iterator walks that
copy), `IndexedTable.PartitionRows` stably sorts the iterator's slice in place, no partition
iterator of the freshly compiled code starts at the address of the stored partition, the statement
kinds of the idx stream are planned onto the access paths `Gms.SharedStore.implEval` describes
(primary-key index forwards / reverse, secondary index forwards / reverse, table scan);
`ProcessList.Processes` makes every map of a snapshot, and no snapshot taken in any registry shape
changes when the registry is written afterwards. -/
theorem facts_store :
    Gms.Generated.C36.partitionRowsCopyStmts = ["rowsCopy := make([]sql.Row, len(rows))", "copy(rowsCopy, rows)"] ∧
    Gms.Generated.C36.tableIterRows = "rowsCopy" ∧
    Gms.Generated.C36.indexedTableSortCalls = ["sort.Stable"] ∧
    Gms.Generated.C36.indexedTableSortedSlices = ["ti.rows", "sti.rows"] ∧
    Gms.Generated.C36.scanIteratorsAliasingStorage = [] ∧
    Gms.Generated.C36.idxPlans =
      [("pkr-desc", "IndexedTableAccess [p.pk] reverse"), ("pkr-desc-all", "IndexedTableAccess [p.pk] reverse"),
       ("pkr-asc", "IndexedTableAccess [p.pk]"), ("pkr-eq", "IndexedTableAccess [p.pk]"),
       ("seq", "IndexedTableAccess [p.v]"), ("srows", "IndexedTableAccess [p.v]"),
       ("srng-asc", "IndexedTableAccess [p.v]"), ("srng-desc", "IndexedTableAccess [p.v] reverse"), ("scan", "Table")] ∧
    Gms.Generated.C36.processesMapDefs =
      ["progMap = make(map[string]sql.TableProgress, len(p.Progress))",
       "newProg := sql.TableProgress{ Progress: prog.Progress, PartitionsProgress: make(map[string]sql.PartitionProgress, len(prog.PartitionsProgress)), }",
       "p.Progress = progMap"] ∧
    Gms.Generated.C36.processesSnapshotLeaks = [] := by
  refine ⟨by decide, by decide, by decide, by decide, by decide, by decide, ?_, by decide⟩
  set_option maxRecDepth 8000 in decide

/-- **Impl = Spec on consistent storage** (every access path, every statement). -/
theorem impl_eq_spec (ph : Phys) (hc : Consistent ph) (q : Q) : implEval ph q = specEval (logical ph) q :=
  Gms.SharedStore.impl_eq_spec ph hc q

/-- **Read-only statements leave the shared storage bit-identical, so results do not depend on the
history.** Whatever statements (of whatever sessions) ran before, in whatever order: the storage is
what it was, and every statement returned its meaning on the logical table. -/
theorem readonly_history_independent (ph : Phys) (hc : Consistent ph) (qs : List Q) :
    (runWith execCopy ph qs).2 = ph ∧ (runWith execCopy ph qs).1 = qs.map (specEval (logical ph)) := by
  rw [runWith_copy]
  exact ⟨rfl, List.map_congr_left (fun q _ => Gms.SharedStore.impl_eq_spec ph hc q)⟩

theorem consistent_empty : Consistent emptyPhys := by decide

theorem tbl_consistent (db : Store) (hdb : ∀ ph ∈ db, Consistent ph) (t : Nat) : Consistent (tbl db t) := by
  unfold tbl
  rw [List.getD_eq_getElem?_getD]
  cases h : db[t]? with
  | none => exact consistent_empty
  | some ph => exact hdb ph (List.mem_of_getElem? h)

/-- What a statement of the idx stream reads through the access paths is its meaning on the
logical table. -/
theorem pq_impl_eq_spec (db : Store) (hdb : ∀ ph ∈ db, Consistent ph) (t : Nat) (q : Q) :
    pqImpl t q db = pqSpec t q db := by
  unfold pqImpl pqSpec
  rw [Gms.SharedStore.impl_eq_spec _ (tbl_consistent db hdb t)]

/-- A statement of a batch of the idx stream: a query over the shared storage, or any other
statement of the interleaving model. -/
inductive PStmt where
  | pq (t : Nat) (q : Q) (sel : Bool) (warn : Option Nat)
  | other (st : Stmt Store)

/-- As the Impl model executes it: through the access paths. -/
def PStmt.impl : PStmt → Stmt Store
  | .pq t q sel warn => .read (pqImpl t q) sel warn
  | .other st => st

/-- As the Spec reads it: the meaning on the logical table. -/
def PStmt.spec : PStmt → Stmt Store
  | .pq t q sel warn => .read (pqSpec t q) sel warn
  | .other st => st

theorem sem_impl_eq_spec (db : Store) (hdb : ∀ ph ∈ db, Consistent ph) (p : PStmt) (l : Local) :
    sem p.impl db l = sem p.spec db l := by
  cases p with
  | pq t q sel warn => simp [PStmt.impl, PStmt.spec, sem, Stmt.isSelect, pq_impl_eq_spec db hdb]
  | other st => rfl

theorem seqRun_impl_eq_spec (db : Store) (hdb : ∀ ph ∈ db, Consistent ph) (ps : List PStmt) (l : Local) :
    seqRun db (ps.map PStmt.impl) l = seqRun db (ps.map PStmt.spec) l := by
  induction ps generalizing l with
  | nil => rfl
  | cons p ps ih => simp only [List.map_cons, seqRun, sem_impl_eq_spec db hdb, ih]

/-- **Concurrent sessions over the shared storage receive the Spec results.** In every complete
schedule of any number of sessions whose statements read consistent storage through the access
paths, every session has received exactly what its program means, statement by statement, on the
logical tables — and the storage is what it was. -/
theorem pq_concurrent_eq_spec (n : Nat) (progs : Nat → List PStmt) (db : Store) (hdb : ∀ ph ∈ db, Consistent ph)
    (evs : List Nat)
    (hfin : finished n (fun i => (progs i).map PStmt.impl) (run n (fun i => (progs i).map PStmt.impl) db evs)) :
    (run n (fun i => (progs i).map PStmt.impl) db evs).db = db ∧
    ∀ i, i < n →
      ((run n (fun i => (progs i).map PStmt.impl) db evs).sess i).results.reverse =
        (seqRun db ((progs i).map PStmt.spec) initLocal).1 := by
  refine ⟨(readonly_noninterference n _ db evs).1, ?_⟩
  intro i hi
  rw [((concurrent_eq_sequential n _ db evs hfin).1 i hi).1, seqRun_impl_eq_spec db hdb]

/-! #### the defect class: a read path that writes into the storage it was handed -/

/-- Four rows, two of them with the same indexed value; consistent. -/
def exPh : Phys :=
  { rows := [⟨1, some 10⟩, ⟨2, some 20⟩, ⟨3, some 30⟩, ⟨4, some 10⟩],
    sec := [⟨some 10, 1, 0⟩, ⟨some 10, 4, 3⟩, ⟨some 20, 2, 1⟩, ⟨some 30, 3, 2⟩] }

example : Consistent exPh := by decide

/-- Non-vacuity of `impl_eq_spec` / `readonly_history_independent`: a reverse primary-key scan, a
secondary-index lookup and a reverse secondary-index scan on `exPh`. -/
example :
    (runWith execCopy exPh [.pkr (some 2) none true none, .srows 20 20, .srng (some 0) (some 20) true]).1 =
      [[[some 4, some 10], [some 3, some 30], [some 2, some 20]], [[some 2, some 20]], [[some 20], [some 10], [some 10]]] := by
  decide

/-- **Witness for the class** (what the seeded change C36-2 does): when the partition iterator
walks the stored slice, a reverse primary-key lookup returns the right rows itself and leaves the
same LOGICAL table behind, but the storage is no longer consistent — the secondary-index entries
point at positions that now hold other rows — and the secondary-index lookup `v = 20` of any session
returns the row `(3, 30)`. -/
theorem alias_reverse_scan_breaks_lookup :
    Consistent exPh ∧
    (execAlias exPh (.pkr (some 2) none true none)).1 = specEval (logical exPh) (.pkr (some 2) none true none) ∧
    logical (execAlias exPh (.pkr (some 2) none true none)).2 = logical exPh ∧
    ¬ Consistent (execAlias exPh (.pkr (some 2) none true none)).2 ∧
    implEval (execAlias exPh (.pkr (some 2) none true none)).2 (.srows 20 20) = [[some 3, some 30]] ∧
    specEval (logical (execAlias exPh (.pkr (some 2) none true none)).2) (.srows 20 20) = [[some 2, some 20]] := by
  decide

/-- Results become history dependent under the class: the same two statements, in the two orders. -/
theorem alias_history_dependent :
    (runWith execAlias exPh [.srows 20 20, .pkr none none true none]).1 =
      [.srows 20 20, .pkr none none true none].map (specEval (logical exPh)) ∧
    (runWith execAlias exPh [.pkr none none true none, .srows 20 20]).1 ≠
      [.pkr none none true none, .srows 20 20].map (specEval (logical exPh)) := by
  decide

/-- Under the class EVERY reverse primary-key lookup on a table of at least two rows changes the
storage (whatever its range and limit): a read-only statement that writes. -/
theorem alias_desc_changes_storage (ph : Phys) (hc : Consistent ph) (h2 : 2 ≤ ph.rows.length)
    (lo hi : Option Int) (lim : Option Nat) : (execAlias ph (.pkr lo hi true lim)).2 ≠ ph := by
  intro h
  have hr : ph.rows.reverse = ph.rows := by
    have := congrArg Phys.rows h
    simp only [execAlias, if_true] at this
    rwa [sortBy_pkGe_of_strict hc.1] at this
  exact reverse_ne_of_strict hc.1 h2 hr

/-- … and the next ascending primary-key lookup puts it back: the damage exists only between a
reverse scan and the next forward primary-key access, i.e. it depends on the schedule. -/
theorem alias_asc_repairs (ph : Phys) (hc : Consistent ph) (lo hi lo' hi' : Option Int) (lim lim' : Option Nat) :
    (execAlias (execAlias ph (.pkr lo hi true lim)).2 (.pkr lo' hi' false lim')).2 = ph :=
  Gms.SharedStore.alias_asc_repairs ph hc lo hi lo' hi' lim lim'

end SharedStore

/-! ### snapshots of the process list -/

section ProcSnap
open Gms.ProcSnap

/-- **A `Processes()` snapshot is a value.** Taken in any well-formed registry state (every
history of registry writes from the empty registry is one: `histories_wf`), it shows the state of
that moment, and no sequence of later registry writes — partitions opened, advanced, closed, tables
added or removed — changes what a reader of the snapshot sees. -/
theorem snapshot_is_value (r : Reg) (hwf : WF r) (ops : List Op) :
    view (snapDeep r).1.cells (snapDeep r).2 = view r.cells ⟨r.tables⟩ ∧
    view (applyAll (snapDeep r).1 ops).cells (snapDeep r).2 = view r.cells ⟨r.tables⟩ :=
  ⟨deep_snapshot_stable r hwf [], deep_snapshot_stable r hwf ops⟩

theorem histories_wf (ops : List Op) : WF (applyAll Gms.ProcSnap.empty ops) :=
  wf_applyAll _ ops (by intro t ht; cases ht)

/-- The registry of a statement that is analysed and registered, no partition in flight. -/
def exReg : Reg := applyAll Gms.ProcSnap.empty [.addTable "t"]

/-- Non-vacuity of `snapshot_is_value`, in the registry shape the class needs: the snapshot of
`exReg` still shows no partition after the statement opened, advanced and closed partitions. -/
example :
    view (applyAll (snapDeep exReg).1 [.addPart "t" "0", .updPart "t" "0" 3, .updTable "t" 1, .removePart "t" "0", .addPart "t" "1"]).cells
      (snapDeep exReg).2 = [("t", 0, [])] ∧
    view (applyAll (snapDeep exReg).1 [.addPart "t" "0", .updPart "t" "0" 3, .updTable "t" 1]).cells
      ⟨(applyAll (snapDeep exReg).1 [.addPart "t" "0", .updPart "t" "0" 3, .updTable "t" 1]).tables⟩ = [("t", 1, [("0", 3)])] := by
  decide

/-- **Witness for the class** (what the seeded change C36-1 does): a snapshot that keeps the
reference of an EMPTY partition map shows no partition when it is taken and a partition in flight
after the statement moved on — it changed after it was taken. With a partition in flight at the
moment of the snapshot the same code copies, and the snapshot is stable. -/
theorem shared_empty_snapshot_changes :
    view (snapShareEmpty exReg).1.cells (snapShareEmpty exReg).2 = [("t", 0, [])] ∧
    view (applyAll (snapShareEmpty exReg).1 [.addPart "t" "0"]).cells (snapShareEmpty exReg).2 = [("t", 0, [("0", 0)])] ∧
    view (applyAll (snapShareEmpty (applyAll exReg [.addPart "t" "0"])).1 [.updPart "t" "0" 5]).cells
      (snapShareEmpty (applyAll exReg [.addPart "t" "0"])).2 = [("t", 0, [("0", 0)])] := by
  decide

end ProcSnap

/-! ### data races: the lockset argument over the footprint -/

/-- FULL STATEMENT (false on the unchanged tree, see `finding_infoschema_assign_catalog_race`):
  `∀ i j infoI infoJ a b, a ∈ footprint i infoI → b ∈ footprint j infoJ → racy a b = false`.
**Partial**: accesses of two statements race only if both resolve an information_schema table. -/
theorem race_free_partial (i j : Nat) (infoI infoJ : Bool) (a b : Access)
    (ha : a ∈ footprint i infoI) (hb : b ∈ footprint j infoJ) (hguard : ¬ (infoI = true ∧ infoJ = true)) :
    racy a b = false := by
  by_cases hij : i = j
  · subst hij
    have sa : ∀ a ∈ footprint i infoI, a.sess = i := by cases infoI <;> simp [footprint]
    have sb : ∀ b ∈ footprint i infoJ, b.sess = i := by cases infoJ <;> simp [footprint]
    simp [racy, sa a ha, sb b hb]
  · have aux : ∀ a ∈ footprint i infoI, ∀ b ∈ footprint j infoJ, racy a b = false := by
      cases infoI <;> cases infoJ <;> simp [footprint, racy, Mode.isWrite, Mode.isPlain, hij] at hguard ⊢
    exact aux a ha b hb

/-- Finding (confirmed by the race detector on the unchanged tree): two sessions that resolve an
information_schema table both execute the plain write `t.catalog = cat` on the same shared object. -/
theorem finding_infoschema_assign_catalog_race :
    ∃ a b, a ∈ footprint 0 true ∧ b ∈ footprint 1 true ∧ racy a b = true :=
  ⟨⟨0, .infoTableCatalog, .plainWrite⟩, ⟨1, .infoTableCatalog, .plainWrite⟩, by decide, by decide, by decide⟩

/-! ### non-vacuity -/

def exProgs : Nat → List (Stmt Nat)
  | 0 => [.setVar "a" 5, .read (fun db => toString db) true (some 0), .addVar "a" 2, .getVar "a", .sessQuestions]
  | 1 => [.getVar "a", .divZero, .showWarnings, .useDb "d2", .curDb, .sessComSelect]
  | _ => []

def exSched : List Nat := [0, 1, 0, 0, 0, 0, 1, 1, 0, 0, 0, 0, 0, 1, 1, 0, 1, 1, 1, 1, 1, 0, 1, 1, 1, 1, 1, 1, 0, 1, 1, 0, 0, 0, 1, 0, 0, 1, 1, 1, 0, 1, 1, 0]

/-- Two interleaved sessions: session 1 never sees session 0's `@a`, warnings and current
database stay private, the registries add up, both got their sequential results. -/
example :
    let g := run 2 exProgs 7 exSched
    (g.sess 0).results.reverse = ["ok", "7", "ok", "i:7", "i:5"] ∧
    (g.sess 1).results.reverse = ["null", "null", "i:1", "ok", "s:d2", "i:3"] ∧
    g.questions = 11 ∧ g.comSelect = 5 ∧ g.running = 0 ∧ g.db = 7 ∧
    (g.sess 0).results.reverse = (seqRun 7 (exProgs 0) initLocal).1 ∧
    (g.sess 1).results.reverse = (seqRun 7 (exProgs 1) initLocal).1 := by
  decide +kernel

/-- The hypothesis of `concurrent_eq_sequential` / `fair_schedule_finishes` is satisfiable, and a
prefix of the schedule shows the registries mid-flight. -/
example : ((run 2 exProgs 7 exSched).sess 0).pc = 5 ∧ ((run 2 exProgs 7 exSched).sess 1).pc = 6 ∧
    ((run 2 exProgs 7 (exSched.take 6)).running = 2) ∧ ((run 2 exProgs 7 (exSched.take 6)).questions = 1) ∧
    occ 0 exSched = 20 ∧ occ 1 exSched = 24 ∧ finished 2 exProgs (run 2 exProgs 7 exSched) := by
  refine ⟨by decide +kernel, by decide +kernel, by decide +kernel, by decide +kernel, by decide +kernel, by decide +kernel, ?_⟩
  intro i hi
  have : i = 0 ∨ i = 1 := by omega
  rcases this with h | h <;> subst h <;> decide +kernel

end Gms.C36
