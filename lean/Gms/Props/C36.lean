/-
C36 — Concurrent read-only sessions are isolated; shared registries stay consistent.

Proved here, for the interleaving model `Gms.NonInterf` (every schedule, any number of sessions,
any programs): the store is never written; what a session observes is a function of its own steps
only (projection onto the session run alone); the shared registries equal the sums of the
sessions' own counters at every moment; complete schedules give every session exactly the results
of running its program alone, statement by statement; schedules with the same per-session step
counts end in the same state; fair schedules finish.

Data-race freedom itself is a property of the Go memory model: the logic part is the lockset
argument over the access footprint (`race_free_partial`, with the listed finding
`finding_infoschema_assign_catalog_race`), the race-detector runs of the harness validate the
footprint — see DESIGN.md §6 C36.
-/
import Gms.Model.NonInterf
import Gms.Lemmas.NonInterf
import Gms.Generated.C36

namespace Gms.C36
open Gms.NonInterf
variable {Db : Type}

/-- Facts re-read from the source on every run: which methods of the shared registries take the
receiver's mutex (every ProcessList method does), the status counters are `atomic.Uint64` updated
by `Add`/`Store`/`Load`, `IncrementStatusVariable` updates the global and the session's own
counter, a session gets fresh counters, `QueryWithBindings` counts `Questions` first and
`Com_select` for SELECT nodes, `BeginQuery`/`EndQuery` move `Threads_running` by ±1, the handler
brackets the query with `BeginQuery` / deferred `EndQuery`. -/
theorem facts_match :
    Gms.Generated.C36.processListMethodsUnlocked = [] ∧
    Gms.Generated.C36.processListMethodsLocked =
      ["AddConnection", "AddPartitionProgress", "AddTableProgress", "BeginOperation", "BeginQuery", "ConnectionReady",
       "EndOperation", "EndQuery", "Kill", "Processes", "RemoveConnection", "RemovePartitionProgress", "RemoveTableProgress",
       "UpdatePartitionProgress", "UpdateTableProgress"] ∧
    Gms.Generated.C36.memoryManagerMethodsLocked = ["Free", "NumCaches", "addCache", "removeCache"] ∧
    Gms.Generated.C36.memoryManagerMethodsUnlocked = ["HasAvailable", "NewHistoryCache", "NewLRUCache", "NewRows2Cache", "NewRowsCache"] ∧
    Gms.Generated.C36.catalogMethodsLocked = ["CreateDatabase", "LockTable", "RemoveDatabase", "Table", "TableAsOf", "TableSchema", "UnlockTables"] ∧
    Gms.Generated.C36.statusValueType = "*atomic.Uint64" ∧
    Gms.Generated.C36.statusValueIncrementCalls = ["s.Val.Add"] ∧
    Gms.Generated.C36.statusValueSetCalls = ["s.Val.Store"] ∧
    Gms.Generated.C36.statusValueValueCalls = ["s.Val.Load"] ∧
    Gms.Generated.C36.incrementStatusVariableCalls = ["StatusVariables.IncrementGlobal", "ctx.Session.IncrementStatusVariable"] ∧
    Gms.Generated.C36.sessionStatusMapFreshValue = true ∧
    Gms.Generated.C36.queryCounters =
      [("Questions", "1", ""), ("Com_select", "1", "plan.NodeRepresentsSelect(ctx, analyzed)")] ∧
    Gms.Generated.C36.queryFirstStatement = "sql.IncrementStatusVariable(ctx, \"Questions\", 1)" ∧
    Gms.Generated.C36.threadsRunningEffects = [("BeginQuery", "1"), ("EndQuery", "-1")] ∧
    Gms.Generated.C36.handlerBracket = ["BeginQuery", "defer EndQuery"] := by decide

/-- The listed finding's code shape, re-read on every run: `AssignCatalog` of the shared
information_schema table object is a plain field assignment, called from `buildResolvedTable`. -/
theorem facts_match_finding :
    Gms.Generated.C36.infoSchemaAssignCatalogBody = ["t.catalog = cat", "return t"] ∧
    Gms.Generated.C36.buildResolvedTableAssignsCatalog = true := by decide

/-- **Isolation (non-interference).** For every schedule of any number of sessions running any
read-only programs: the store is never changed, and the complete state of session `i` (its
variables, current database, warnings, own counters, every result it has received, its position)
is exactly the state of that session run ALONE for as many steps as it took in the schedule —
nothing another session does is visible to it. -/
theorem readonly_noninterference (n : Nat) (progs : Nat → List (Stmt Db)) (db : Db) (evs : List Nat) :
    (run n progs db evs).db = db ∧
    ∀ i, i < n → (run n progs db evs).sess i = solo db (progs i) (occ i evs) := by
  constructor
  · exact foldl_db n progs evs (init db)
  · intro i hi
    rw [solo_eq_lsteps]
    exact foldl_sess n progs evs (init db) i hi

/-- Sessions that do not exist are never touched. -/
theorem outside_sessions_untouched (n : Nat) (progs : Nat → List (Stmt Db)) (db : Db) (evs : List Nat) (i : Nat)
    (hi : ¬ i < n) : (run n progs db evs).sess i = initSess :=
  foldl_sess_ge n progs evs (init db) i hi

/-- **Registries are consistent at every moment of every schedule**: global `Questions` and
`Com_select` are the sums of the sessions' own counters, `Threads_running` is the number of
sessions inside a statement, and a session's process-list entry says `Query` exactly then. -/
theorem registries_consistent (n : Nat) (progs : Nat → List (Stmt Db)) (db : Db) (evs : List Nat) :
    let g := run n progs db evs
    g.questions = sumN (fun i => (g.sess i).loc.questions) n ∧
    g.comSelect = sumN (fun i => (g.sess i).loc.comSelect) n ∧
    g.running = sumN (fun i => busy (g.sess i)) n ∧
    ∀ i, (g.sess i).command = decide ((g.sess i).phase ≠ .idle) := by
  have h := reg_foldl n progs evs (init db) (reg_init n db)
  exact ⟨h.questions, h.comSelect, h.running, h.command⟩

/-- **Schedule independence**: two schedules in which every session takes the same number of
steps end in the same global state (store, registries, every session). -/
theorem schedule_independent (n : Nat) (progs : Nat → List (Stmt Db)) (db : Db) (evs evs' : List Nat)
    (h : ∀ i, i < n → occ i evs = occ i evs') :
    run n progs db evs = run n progs db evs' := by
  have hs : (run n progs db evs).sess = (run n progs db evs').sess := by
    funext i
    by_cases hi : i < n
    · rw [(readonly_noninterference n progs db evs).2 i hi, (readonly_noninterference n progs db evs').2 i hi, h i hi]
    · rw [outside_sessions_untouched n progs db evs i hi, outside_sessions_untouched n progs db evs' i hi]
  have r1 := registries_consistent n progs db evs
  have r2 := registries_consistent n progs db evs'
  simp only at r1 r2
  have hd : (run n progs db evs).db = (run n progs db evs').db := by
    rw [(readonly_noninterference n progs db evs).1, (readonly_noninterference n progs db evs').1]
  have hq : (run n progs db evs).questions = (run n progs db evs').questions := by rw [r1.1, r2.1, hs]
  have hc : (run n progs db evs).comSelect = (run n progs db evs').comSelect := by rw [r1.2.1, r2.2.1, hs]
  have hr : (run n progs db evs).running = (run n progs db evs').running := by rw [r1.2.2.1, r2.2.2.1, hs]
  cases h1 : run n progs db evs
  cases h2 : run n progs db evs'
  rw [h1, h2] at hs hd hq hc hr
  simp only at hs hd hq hc hr
  subst hs hd hq hc hr
  rfl

/-- **Each query returns the same result as when run alone.** In every complete schedule, every
session has received exactly the results of its program executed statement by statement on a
private session (`seqRun`), ends with that run's session state, and the registries are back to
quiescence: `Questions` grew by the number of statements, `Com_select` by the number of SELECTs
counted sequentially, `Threads_running` is 0 and every process-list entry says `Sleep`. -/
theorem concurrent_eq_sequential (n : Nat) (progs : Nat → List (Stmt Db)) (db : Db) (evs : List Nat)
    (hfin : finished n progs (run n progs db evs)) :
    (∀ i, i < n →
      ((run n progs db evs).sess i).results.reverse = (seqRun db (progs i) initLocal).1 ∧
      ((run n progs db evs).sess i).loc = (seqRun db (progs i) initLocal).2 ∧
      ((run n progs db evs).sess i).command = false) ∧
    (run n progs db evs).questions = sumN (fun i => (progs i).length) n ∧
    (run n progs db evs).comSelect = sumN (fun i => (seqRun db (progs i) initLocal).2.comSelect) n ∧
    (run n progs db evs).running = 0 := by
  have reg := registries_consistent n progs db evs
  simp only at reg
  have per : ∀ i, i < n →
      ((run n progs db evs).sess i).results.reverse = (seqRun db (progs i) initLocal).1 ∧
      ((run n progs db evs).sess i).loc = (seqRun db (progs i) initLocal).2 := by
    intro i hi
    have hf := hfin i hi
    have hp := (readonly_noninterference n progs db evs).2 i hi
    have inv : SoloInv db (progs i) ((run n progs db evs).sess i) := by
      rw [hp, solo_eq_lsteps]; exact soloInv_lsteps db (progs i) _ _ (soloInv_init db (progs i))
    have := inv.idle (Or.inl hf.2)
    rw [hf.1, List.take_length] at this
    exact this
  refine ⟨?_, ?_, ?_, ?_⟩
  · intro i hi
    refine ⟨(per i hi).1, (per i hi).2, ?_⟩
    rw [reg.2.2.2 i, (hfin i hi).2]; rfl
  · rw [reg.1]; apply sumN_congr; intro i hi
    rw [(per i hi).2, seqRun_questions]; simp [initLocal]
  · rw [reg.2.1]; apply sumN_congr; intro i hi; rw [(per i hi).2]
  · rw [reg.2.2.1]; apply sumN_zero; intro i hi; simp [busy, (hfin i hi).2]

/-- **Fair schedules finish**: a schedule in which every session gets at least four steps per
statement of its program is complete (no session can be starved or blocked by another). -/
theorem fair_schedule_finishes (n : Nat) (progs : Nat → List (Stmt Db)) (db : Db) (evs : List Nat)
    (hfair : ∀ i, i < n → 4 * (progs i).length ≤ occ i evs) :
    finished n progs (run n progs db evs) := by
  intro i hi
  rw [(readonly_noninterference n progs db evs).2 i hi, solo_eq_lsteps]
  have := lsteps_enough db (progs i) (occ i evs) (hfair i hi)
  exact ⟨this.2, this.1⟩

/-! ### data races: the lockset argument over the footprint -/

/-- FULL STATEMENT (false on the unchanged tree, see `finding_infoschema_assign_catalog_race`):
  `∀ i j infoI infoJ a b, a ∈ footprint i infoI → b ∈ footprint j infoJ → racy a b = false`.
**Partial**: accesses of two statements race only if both resolve an information_schema table. -/
theorem race_free_partial (i j : Nat) (infoI infoJ : Bool) (a b : Access)
    (ha : a ∈ footprint i infoI) (hb : b ∈ footprint j infoJ) (hguard : ¬ (infoI = true ∧ infoJ = true)) :
    racy a b = false := by
  by_cases hij : i = j
  · subst hij
    have sa : ∀ a ∈ footprint i infoI, a.sess = i := by cases infoI <;> simp [footprint]
    have sb : ∀ b ∈ footprint i infoJ, b.sess = i := by cases infoJ <;> simp [footprint]
    simp [racy, sa a ha, sb b hb]
  · have aux : ∀ a ∈ footprint i infoI, ∀ b ∈ footprint j infoJ, racy a b = false := by
      cases infoI <;> cases infoJ <;> simp [footprint, racy, Mode.isWrite, Mode.isPlain, hij] at hguard ⊢
    exact aux a ha b hb

/-- Finding (confirmed by the race detector on the unchanged tree): two sessions that resolve an
information_schema table both execute the plain write `t.catalog = cat` on the same shared object. -/
theorem finding_infoschema_assign_catalog_race :
    ∃ a b, a ∈ footprint 0 true ∧ b ∈ footprint 1 true ∧ racy a b = true :=
  ⟨⟨0, .infoTableCatalog, .plainWrite⟩, ⟨1, .infoTableCatalog, .plainWrite⟩, by decide, by decide, by decide⟩

/-! ### non-vacuity -/

def exProgs : Nat → List (Stmt Nat)
  | 0 => [.setVar "a" 5, .read (fun db => toString db) true (some 0), .addVar "a" 2, .getVar "a", .sessQuestions]
  | 1 => [.getVar "a", .divZero, .showWarnings, .useDb "d2", .curDb, .sessComSelect]
  | _ => []

def exSched : List Nat := [0, 1, 0, 0, 0, 0, 1, 1, 0, 0, 0, 0, 0, 1, 1, 0, 1, 1, 1, 1, 1, 0, 1, 1, 1, 1, 1, 1, 0, 1, 1, 0, 0, 0, 1, 0, 0, 1, 1, 1, 0, 1, 1, 0]

/-- Two interleaved sessions: session 1 never sees session 0's `@a`, warnings and current
database stay private, the registries add up, both got their sequential results. -/
example :
    let g := run 2 exProgs 7 exSched
    (g.sess 0).results.reverse = ["ok", "7", "ok", "i:7", "i:5"] ∧
    (g.sess 1).results.reverse = ["null", "null", "i:1", "ok", "s:d2", "i:3"] ∧
    g.questions = 11 ∧ g.comSelect = 5 ∧ g.running = 0 ∧ g.db = 7 ∧
    (g.sess 0).results.reverse = (seqRun 7 (exProgs 0) initLocal).1 ∧
    (g.sess 1).results.reverse = (seqRun 7 (exProgs 1) initLocal).1 := by
  decide +kernel

/-- The hypothesis of `concurrent_eq_sequential` / `fair_schedule_finishes` is satisfiable, and a
prefix of the schedule shows the registries mid-flight. -/
example : ((run 2 exProgs 7 exSched).sess 0).pc = 5 ∧ ((run 2 exProgs 7 exSched).sess 1).pc = 6 ∧
    ((run 2 exProgs 7 (exSched.take 6)).running = 2) ∧ ((run 2 exProgs 7 (exSched.take 6)).questions = 1) ∧
    occ 0 exSched = 20 ∧ occ 1 exSched = 24 ∧ finished 2 exProgs (run 2 exProgs 7 exSched) := by
  refine ⟨by decide +kernel, by decide +kernel, by decide +kernel, by decide +kernel, by decide +kernel, by decide +kernel, ?_⟩
  intro i hi
  have : i = 0 ∨ i = 1 := by omega
  rcases this with h | h <;> subst h <;> decide +kernel

end Gms.C36
